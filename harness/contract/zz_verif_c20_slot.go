package contract

import (
	vf "github.com/aergoio/aergo/v2/zzvf"
)

// C20.g.slot — the context table is what binds a host callback to its execution context (every callback reads
// contexts[service] and takes isQuery/nestedView from it). Slots below MaxVmService (BlockFactory, ChainService) are
// written unconditionally by Call/Create with the WRITABLE context of the transaction being executed, so a read-only
// run (Query, CheckFeeDelegation) must never be given one of them: otherwise its callbacks would be served with a
// transaction's context and pass the read-only guards.
// One step of the real allocContextSlot from an ARBITRARY table state: any table size 3..maxN, any occupancy of every
// slot (the reserved ones included, free or not), any round-robin position a previous allocation can have left; at
// least one query slot is free (otherwise the allocator sleeps and retries: liveness, outside this family).
func VF_C20_g_slot() {
	maxN := vf.Param("maxN", 5)
	n := MaxVmService + 1 + vf.Choice("size", maxN-MaxVmService)
	maxContext = n
	contexts = make([]*vmContext, n)
	var before []*vmContext
	free := false
	for i := 0; i < n; i++ {
		if vf.Choice("occupied", 2) == 1 {
			contexts[i] = &vmContext{}
		} else if i >= MaxVmService {
			free = true
		}
		before = append(before, contexts[i])
	}
	if !free {
		return
	}
	// lastQueryIndex is ChainService initially and afterwards the index of the last allocation (a query slot)
	lastQueryIndex = ChainService + vf.Choice("last", n-ChainService)
	ctx := &vmContext{isQuery: true}
	allocContextSlot(ctx)
	vf.Reach("C20.g.slot")
	got := int(ctx.service)
	vf.Assert(got >= MaxVmService, "C20.g.slot")
	vf.Assert(got < n, "C20.g.slot")
	if got >= 0 && got < n {
		vf.Assert(before[got] == nil, "C20.g.slot") // a slot in use is never handed out twice
		vf.Assert(contexts[got] == ctx, "C20.g.slot")
	}
	for i := 0; i < n; i++ {
		if i != got {
			vf.Assert(contexts[i] == before[i], "C20.g.slot") // every other slot untouched
		}
	}
	vf.Assert(lastQueryIndex == got, "C20.g.slot")
	vf.Observe("slot", got)
	freeContextSlot(ctx)
	vf.Assert(contexts[got] == nil, "C20.g.slot")
}
