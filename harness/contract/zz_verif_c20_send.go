package contract

import (
	"errors"
	"io"
	"math/big"

	"github.com/aergoio/aergo/v2/state"
	"github.com/aergoio/aergo/v2/state/statedb"
	"github.com/aergoio/aergo/v2/types"
	vf "github.com/aergoio/aergo/v2/zzvf"
)

// ---------------------------------------------------------------------------------------------
// C20.a (continued): luaSendAmount and luaDeployContract in a read-only context.
//
// The obligations are about EFFECTS, not about where a guard sits: after the callback returned, the balances / nonces
// of the sending contract and of the recipient are what they were, no account came into existence (neither in the
// state db nor as an entry of ctx.callState that the commit of the transaction would write), no event, no recovery
// point, no code, no update-size change; and a request that asked for a change was answered with an error.
//
// Recipients are enumerated by KIND (the addresses are concrete, the property does not depend on their bytes):
// balances, the amount, the context flags and the fork version are symbolic.

var (
	vfPlain = append([]byte{0x03}, vfFill(32, 0x35)...) // plain account that exists in the state db, not yet part of the call
	vfFresh = append([]byte{0x02}, vfFill(32, 0x36)...) // address without an account
	vfCtr2  = append([]byte{0x03}, vfFill(32, 0x37)...) // another contract (code hash set, code stored)
	vfCtr3  = append([]byte{0x02}, vfFill(32, 0x38)...) // contract account whose code cannot be found
)

// a well-formed code blob: 4-byte little-endian bytecode length, bytecode, ABI
var vfCodeABI = []byte{3, 0, 0, 0, 'l', 'u', 'a', '{', '}'}

const (
	vfRcptInCall  = iota // vfOther: already an entry of ctx.callState (account not in the state db)
	vfRcptPlain          // existing plain account
	vfRcptFresh          // no such account yet
	vfRcptCtr            // contract account with code
	vfRcptCtrGone        // contract account (code hash set) whose code is not in the store
	vfRcptSelf           // the running contract itself
	vfRcptInvalid        // not an address
	vfRcptKinds
)

// amount strings: transformAmount is replaced UNDER THE ENGINE by vfTransformAmount, which is exact for the three
// strings the harness produces ("" -> 0, the decimal rendering of a non-negative integer -> that integer, "x" -> error);
// natively the real transformAmount parses the same strings.
var vfAmt struct {
	kind int
	v    *big.Int
}

func vfTransformAmount(amountStr string, forkVersion int32) (*big.Int, error) {
	switch vfAmt.kind {
	case 0:
		return zeroBig, nil
	case 1:
		return new(big.Int).Set(vfAmt.v), nil
	}
	return nil, errors.New("converting error for Integer: x")
}

// vfAmountArg chooses the amount argument. Returns the C string and the value it denotes (nil: malformed).
func vfAmountArg() (*_Ctype_char, *big.Int) {
	vfAmt.kind = vf.Choice("amountKind", 3)
	switch vfAmt.kind {
	case 0:
		vfAmt.v = new(big.Int)
		return _Cfunc_CString(""), vfAmt.v
	case 1:
		vfAmt.v = vf.Big("amount")
		return _Cfunc_CString(vfAmt.v.String()), vfAmt.v
	}
	vfAmt.v = nil
	return _Cfunc_CString("x"), nil
}

// getCallInfo (encoding/json decoder) is replaced under the engine by this function, exact for the two argument
// strings the deploy harness uses and for the query payload of VF_C20_c.
func vfGetCallInfo(ci interface{}, args []byte, contractAddress []byte) error {
	switch string(args) {
	case "":
		return io.EOF
	case "[]":
		if p, ok := ci.(*[]interface{}); ok {
			*p = []interface{}{}
			return nil
		}
	case `{"Name":"f","Args":[]}`:
		if p, ok := ci.(*types.CallInfo); ok {
			p.Name, p.Args = "f", []interface{}{}
			return nil
		}
	}
	vf.Fail("harness.getCallInfo-stub")
	return errors.New("vf: unsupported call info")
}

type vfAcct struct {
	bal     *big.Int
	nonce   uint64
	code    int
	inState bool // the state db has an entry
	inCall  bool // ctx.callState has an entry (the commit of the transaction writes the account state of every such entry)
}

func (w *vfWorld) acct(id []byte) vfAcct {
	aid := types.ToAccountID(id)
	st, err := w.sdb.GetState(aid)
	if err != nil {
		panic(err)
	}
	a := vfAcct{bal: new(big.Int), inState: st != nil}
	if st != nil {
		a.bal, a.nonce, a.code = st.GetBalanceBigInt(), st.Nonce, len(st.CodeHash)
	}
	if cs := w.ctx.callState[aid]; cs != nil {
		a.inCall = true
		a.bal, a.nonce, a.code = cs.accState.Balance(), cs.accState.Nonce(), len(cs.accState.CodeHash())
	}
	return a
}

// vfNewWorld2: the world of vfNewWorld plus accounts in the state db (a plain one with a symbolic balance, a contract
// with stored code, a contract whose code is missing), a BlockState with its code/ABI caches, and optionally an open
// recovery point (the callback runs inside a pcall).
func vfNewWorld2() *vfWorld {
	w := vfNewWorld(true)
	w.ctx.bs = state.NewBlockState(w.sdb)
	pb := vf.Big("plainBalance")
	vf.Assume(pb.Cmp(types.MaxAER) <= 0)
	vfMust(w.sdb.PutState(types.ToAccountID(vfPlain), &types.State{Balance: pb.Bytes(), Nonce: 7}))
	cst := &types.State{SqlRecoveryPoint: 1}
	c2, err := statedb.OpenContractState(vfCtr2, cst, w.sdb)
	vfMust(err)
	vfMust(c2.SetCode(nil, vfCodeABI)) // stores the code under its hash, sets cst.CodeHash
	vfMust(w.sdb.PutState(types.ToAccountID(vfCtr2), cst))
	vfMust(w.sdb.PutState(types.ToAccountID(vfCtr3), &types.State{CodeHash: []byte{9}, SqlRecoveryPoint: 1}))
	if vf.Bool("inPcall") {
		w.ctx.lastRecoveryPoint = &recoveryPoint{seq: 1, amount: zeroBig, callState: w.ctr2cs(), stateRevision: w.ctr.Snapshot()}
	}
	w.snap = w.take()
	return w
}

func vfMust(err error) {
	if err != nil {
		panic(err)
	}
}

func vfRecipient(kind int) (id []byte, arg string) {
	switch kind {
	case vfRcptInCall:
		id = vfOther
	case vfRcptPlain:
		id = vfPlain
	case vfRcptFresh:
		id = vfFresh
	case vfRcptCtr:
		id = vfCtr2
	case vfRcptCtrGone:
		id = vfCtr3
	case vfRcptSelf:
		id = vfCid
	default:
		return nil, "not-an-address"
	}
	return id, types.EncodeAddress(id)
}

func vfSameAcct(a, b vfAcct, ob string) {
	vf.Assert(a.bal.Cmp(b.bal) == 0, ob+".balance")
	vf.Assert(a.nonce == b.nonce, ob+".balance")
	vf.Assert(a.code == b.code, ob+".code")
	vf.Assert(a.inState == b.inState, ob+".created")
}

// VF_C20_a_send: contract.send(addr, amount) from a read-only context.
func VF_C20_a_send() {
	w := vfNewWorld2()
	kind := vf.Choice("recipient", vfRcptKinds)
	id, addr := vfRecipient(kind)
	amountArg, amount := vfAmountArg()
	var before vfAcct
	if id != nil {
		before = w.acct(id)
	}
	nCall := len(w.ctx.callState)
	pos, zero := false, false // amount > 0, amount == 0 (both false: malformed amount)
	if amount != nil {
		pos, zero = amount.Sign() > 0, amount.Sign() == 0
	}
	if kind == vfRcptCtr {
		// a zero-amount send to a contract that has code runs the callee's default function in the same (still
		// read-only) context: newExecutor / LuaJIT, outside the reach of the technique (natively it blocks on the
		// Lua state pool). Not decided.
		vf.Assume(!zero)
	}

	r := luaSendAmount(nil, 0, _Cfunc_CString(addr), amountArg)

	vf.Reach("C20.a.send")
	w.unchanged("C20.a.send") // sender contract: balance, nonce, storage; events, recovery points, update size, context
	if id != nil {
		after := w.acct(id)
		vfSameAcct(before, after, "C20.a.send")
		// an entry of ctx.callState is written back by the commit of the transaction (commitCalledContract puts the
		// account state of every callback entry): an entry for an address that has no account creates one.
		vf.AssertKnown(vf.Or(!after.inCall, vf.Or(before.inCall, before.inState)), "C20.a.send.created",
			"F-C20-1-view-lookup-creates-account", vf.And(kind == vfRcptFresh, zero))
	}
	vf.Assert(len(w.ctx.callState) <= nCall+1, "C20.a.send.created")
	// a transfer that was asked for is refused with an error (a zero amount to a plain account is a successful no-op)
	vf.Assert(vf.Implies(vf.Or(pos, amount == nil), r != nil), "C20.a.send.refused")
	vf.Observe("refused", r != nil)
}

// VF_C20_a_deploy: contract.deploy(addr-or-source, args..., amount) from a read-only context.
func VF_C20_a_deploy() {
	w := vfNewWorld2()
	var contractArg string
	switch vf.Choice("contractArg", 4) {
	case 0:
		contractArg = types.EncodeAddress(vfCtr2) // clone of a deployed contract
	case 1:
		contractArg = types.EncodeAddress(vfFresh) // no such contract
	case 2:
		contractArg = types.EncodeAddress(vfCtr3) // contract without code
	default:
		contractArg = vf.Str("source", []int{1, vf.Param("maxLen", 4)}[vf.Choice("sourceLen", 2)]) // source code to compile (symbolic bytes)
	}
	args := []string{"", "[]"}[vf.Choice("args", 2)]
	amountArg, _ := vfAmountArg()
	// the address the new contract would get
	newID := CreateContractID(vfCid, w.acc.Nonce())
	before := w.acct(newID)
	nCall := len(w.ctx.callState)
	src := w.acct(vfCtr2)

	ret, msg := luaDeployContract(nil, 0, _Cfunc_CString(contractArg), _Cfunc_CString(args), amountArg)

	vf.Reach("C20.a.deploy")
	w.unchanged("C20.a.deploy") // creator: balance, nonce, storage; state db buffer, events, recovery points, update size
	after := w.acct(newID)
	vfSameAcct(before, after, "C20.a.deploy")
	vf.Assert(!after.inCall, "C20.a.deploy.created")
	vf.Assert(len(w.ctx.callState) == nCall, "C20.a.deploy.created")
	vfSameAcct(src, w.acct(vfCtr2), "C20.a.deploy")
	vf.Assert(int32(ret) == -1, "C20.a.deploy.refused")
	vf.Assert(msg != nil, "C20.a.deploy.refused")
	vf.Observe("refused", int32(ret) == -1)
}

// VF_C20_a_lookup: callbacks that only LOOK an account UP from a read-only context: system.isContract(addr), and
// contract.call(addr, ...) for every recipient whose code cannot be found (the call returns before newExecutor; the
// recipient kind "contract with code" needs LuaJIT and is excluded). Same effect obligations as for send.
func VF_C20_a_lookup() {
	w := vfNewWorld2()
	kind := vf.Choice("recipient", vfRcptKinds)
	id, addr := vfRecipient(kind)
	var before vfAcct
	if id != nil {
		before = w.acct(id)
	}
	nCall := len(w.ctx.callState)
	switch vf.Choice("op", 2) {
	case 0:
		n, msg := luaIsContract(nil, 0, _Cfunc_CString(addr))
		if id != nil {
			vf.Assert(msg == nil, "C20.a.lookup.answer")
			vf.Assert((n > 0) == (before.code > 0), "C20.a.lookup.answer")
		} else {
			vf.Assert(msg != nil, "C20.a.lookup.answer")
		}
	default:
		vf.Assume(kind != vfRcptCtr)
		amountArg, _ := vfAmountArg()
		ret, msg := luaCallContract(nil, 0, _Cfunc_CString(addr), _Cfunc_CString("f"), _Cfunc_CString("[]"), amountArg, 0)
		vf.Assert(int32(ret) == -1, "C20.a.lookup.refused")
		vf.Assert(msg != nil, "C20.a.lookup.refused")
	}
	vf.Reach("C20.a.lookup")
	w.unchanged("C20.a.lookup")
	if id != nil {
		after := w.acct(id)
		vfSameAcct(before, after, "C20.a.lookup")
		vf.AssertKnown(vf.Or(!after.inCall, vf.Or(before.inCall, before.inState)), "C20.a.lookup.created",
			"F-C20-1-view-lookup-creates-account", kind == vfRcptFresh)
	}
	vf.Assert(len(w.ctx.callState) <= nCall+1, "C20.a.lookup.created")
}
