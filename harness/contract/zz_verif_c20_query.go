package contract

import (
	"math/big"

	"github.com/aergoio/aergo/v2/blacklist"
	"github.com/aergoio/aergo/v2/state"
	"github.com/aergoio/aergo/v2/state/statedb"
	"github.com/aergoio/aergo/v2/types"
	vf "github.com/aergoio/aergo/v2/zzvf"
)

// ---------------------------------------------------------------------------------------------
// C20.a.pcall: the host side of pcall / xpcall in a read-only context.
//
// luaDropEvent and luaClearRecovery have no read-only guard of their own: they rely on the protocol the C side
// follows (contract_module.c modulePcall, vm.c pcall/xpcall wrappers):
//     n = luaGetEventCount(); seq = luaSetRecoveryPoint(); <body>;
//     body failed:    fork >= 4: luaDropEvent(n);  seq > 0:  luaClearRecovery(seq, true)
//     body succeeded: seq == 1: luaClearRecovery(seq, false)  (and luaDropEvent(n) if that fails)
// The harness follows that protocol with the REAL host functions; the body is one (refused) mutating callback or nothing.
// Obligation: the state, the events and the recovery points (including one of an enclosing writable pcall) are what they
// were before, and luaSetRecoveryPoint handed out "no recovery point" (0), so that luaClearRecovery is never asked to revert.
func VF_C20_a_pcall() {
	w := vfNewWorld2()
	ev0 := w.ctx.events[0]
	n := luaGetEventCount(nil, 0)
	seq, msg := luaSetRecoveryPoint(nil, 0)
	vf.Assert(msg == nil, "C20.a.pcall.norecovery")
	vf.Assert(seq == 0, "C20.a.pcall.norecovery")
	if seq < 0 {
		return // the C side throws
	}
	switch vf.Choice("body", 3) {
	case 1:
		luaEvent(nil, 0, vfCStr("name", 2), vfCStr("args", 2))
	case 2:
		key := vf.Bytes("key", 2)
		luaSetDB(nil, 0, _Cfunc_CBytes(key), 2, vfCStr("value", 2))
	}
	if vf.Bool("bodyFailed") {
		if w.ctx.blockInfo.ForkVersion >= 4 {
			luaDropEvent(nil, 0, n)
		}
		if seq > 0 {
			luaClearRecovery(nil, 0, int(seq), true)
		}
	} else if seq == 1 {
		if r := luaClearRecovery(nil, 0, int(seq), false); r != nil && w.ctx.blockInfo.ForkVersion >= 4 {
			luaDropEvent(nil, 0, n)
		}
	}
	vf.Reach("C20.a.pcall")
	w.unchanged("C20.a.pcall")
	vf.Assert(len(w.ctx.events) == 1, "C20.a.pcall.events")
	if len(w.ctx.events) == 1 {
		vf.Assert(w.ctx.events[0] == ev0, "C20.a.pcall.events")
	}
}

// ---------------------------------------------------------------------------------------------
// C20.c: the query entry points construct a read-only context.
//
// contract.Query and contract.CheckFeeDelegation run up to newExecutor on a contract whose code and ABI are known to
// the block state; the contract is on the blacklist, which makes the real newExecutor return before it asks the Lua
// state pool for a VM (LuaJIT is out of reach). A test hook (props "hooks": one line inserted by overlay into vm.go,
// identically for the engine and the native build) hands the context the executor was created with to the harness.
// Obligation: that context has isQuery == true (and is the one installed in the slot the callbacks will look up),
// whatever the query payload's function / the fee-delegation inputs; afterwards the slot is free again and the
// block state is untouched.
var vfSeenCtx []*vmContext
var vfSeenInSlot []bool

func vfCtxHook(ctx *vmContext) {
	vfSeenCtx = append(vfSeenCtx, ctx)
	ok := false
	if ctx != nil && int(ctx.service) >= 0 && int(ctx.service) < len(contexts) {
		ok = contexts[ctx.service] == ctx
	}
	vfSeenInSlot = append(vfSeenInSlot, ok)
}

type vfChain struct{ best *types.Block }

func (c *vfChain) GetBlockByNo(no types.BlockNo) (*types.Block, error) { return c.best, nil }
func (c *vfChain) GetBestBlock() (*types.Block, error)                 { return c.best, nil }

func VF_C20_c() {
	const ver = 3
	sdb := statedb.NewStateDB(vf.NewKV(), nil, false)
	bs := state.NewBlockState(sdb)
	bal := vf.Big("balance")
	vf.Assume(bal.Cmp(types.MaxAER) <= 0)
	cst := &types.State{Balance: bal.Bytes(), SqlRecoveryPoint: 1}
	ctr, err := statedb.OpenContractState(vfCtr2, cst, sdb)
	vfMust(err)
	vfMust(ctr.SetCode(nil, vfCodeABI))
	vfMust(sdb.PutState(types.ToAccountID(vfCtr2), cst))
	// the ABI is already in the block state's cache (as after an earlier call in the block); function f may be
	// declared for fee delegation or not
	fd := vf.Bool("feeDelegationDeclared")
	bs.AddABI(ctr.GetAccountID(), &types.ABI{Version: "0.2", Language: "lua", Functions: []*types.Function{{Name: "f", FeeDelegation: fd}}})
	blacklist.Initialize([]string{types.EncodeAddress(vfCtr2)})
	currentForkVersion = ver
	InitContext(4, false)
	vfSeenCtx, vfSeenInSlot = nil, nil
	chainID := append(types.ChainIdVersion(ver), []byte("vf")...)
	cdb := &vfChain{best: &types.Block{Header: &types.BlockHeader{ChainID: chainID, BlockNo: vf.U64("bestNo")}}}
	payload := []byte(`{"Name":"f","Args":[]}`)
	rev := sdb.Snapshot()
	ctrRev := ctr.Snapshot()

	entry := vf.Choice("entry", 2)
	var qerr error
	switch entry {
	case 0:
		_, qerr = Query(vfCtr2, bs, cdb, ctr, payload)
	default:
		var bi *types.BlockHeaderInfo
		if vf.Bool("withBlockInfo") {
			bi = &types.BlockHeaderInfo{No: vf.U64("blockNo"), ForkVersion: ver}
		}
		amt := vf.Big("txAmount")
		qerr = CheckFeeDelegation(vfCtr2, bs, bi, cdb, ctr, payload, vfFill(32, 0x44), vfSender, amt.Bytes())
	}
	vf.Reach("C20.c")
	// CheckFeeDelegation refuses before it builds a context when the function is not declared for fee delegation
	built := entry == 0 || fd
	if built {
		vf.Assert(len(vfSeenCtx) == 1, "C20.c.constructed")
	} else {
		vf.Assert(len(vfSeenCtx) == 0, "C20.c.constructed")
		vf.Assert(qerr != nil, "C20.c.constructed")
	}
	for i, c := range vfSeenCtx {
		vf.Assert(c != nil, "C20.c.constructed")
		if c == nil {
			continue
		}
		vf.Assert(c.isQuery, "C20.c.isquery")
		vf.Assert(c.nestedView >= 0, "C20.c.isquery")
		vf.Assert(vfSeenInSlot[i], "C20.c.slot")
		vf.Assert(len(c.events) == 0, "C20.c.state")
		vf.Assert(c.lastRecoveryPoint == nil, "C20.c.state")
		vf.Assert(c.bs == bs, "C20.c.state")
	}
	for i := range contexts {
		vf.Assert(contexts[i] == nil, "C20.c.slot") // released
	}
	vf.Assert(sdb.Snapshot() == rev, "C20.c.state")
	vf.Assert(ctr.Snapshot() == ctrRev, "C20.c.state")
	vf.Assert(new(big.Int).SetBytes(cst.Balance).Cmp(bal) == 0, "C20.c.state")
	vf.Observe("built", len(vfSeenCtx))
	vf.Observe("err", qerr != nil)
}
