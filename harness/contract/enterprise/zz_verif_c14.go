package enterprise

import (
	"strings"

	"github.com/aergoio/aergo/v2/consensus"
	"github.com/aergoio/aergo/v2/state"
	"github.com/aergoio/aergo/v2/state/statedb"
	"github.com/aergoio/aergo/v2/types"
	"github.com/aergoio/aergo/v2/types/dbkey"
	vf "github.com/aergoio/aergo/v2/zzvf"
)

// ---------------------------------------------------------------------------------------------
// C14.b / C14.c for aergo.enterprise: a governance transaction that passed stateless admission
// ((*transaction).Validate: on a private network every payload is let through) is validated against the contract
// storage (ValidateEnterpriseTx, as the mempool does) and, if that accepts, executed (ExecuteEnterpriseTx, as the block
// executor does). Neither may panic.
//
// Storage: the accessors of statedb.ContractState are mapped (props "stubs") onto a lazily drawn pre-state (vf.Slots):
// admins = none | [A] | [B] | [A,B]; the configuration stored under the key the call names = absent | written by the
// real serializeConf with a symbolic On flag and 0..2 values (well-formed strings or a short symbolic one).

var vfSt *vf.Slots

func vfGetData(st *statedb.ContractState, key []byte) ([]byte, error) { return vfSt.Get(key), nil }
func vfGetInitialData(st *statedb.ContractState, key []byte) ([]byte, error) {
	return vfSt.Initial(key), nil
}
func vfSetData(st *statedb.ContractState, key, value []byte) error { vfSt.Set(key, value); return nil }
func vfDeleteData(st *statedb.ContractState, key []byte) error     { vfSt.Del(key); return nil }

const (
	vfTokA    = "AmLWfkRQeQ8wXUutdYcTpRwxp6p2jUpYVc79pkfN5whEbrd8c9y2" // address A (the sender)
	vfTokB    = "AmNTQvergFZckcjULTC5pPGZb1veT8XPNPkDvzp3ywMEzMDv38ML" // address B
	vfTokRW   = "dGVzdA==:RW"                                          // RPC permission with write
	vfTokR    = "dGVzdA==:R"                                           // RPC permission without write
	vfTokCert = "dGVzdA=="                                             // no permission part
)

func vfAddr(first byte) []byte {
	b := make([]byte, types.AddressLength)
	b[0] = first
	for i := 1; i < len(b); i++ {
		b[i] = byte(i)
	}
	return b
}

func vfPanics(f func()) (panicked bool) {
	defer func() {
		if r := recover(); r != nil {
			panicked = true
		}
	}()
	f()
	return false
}

func vfIsStr(v interface{}) bool {
	_, ok := v.(string)
	return ok
}

// known panic classes (F10): unchecked ci.Args[0].(string)
func vfClassF10(doc *vf.CallDoc) bool {
	switch doc.Name {
	case AppendAdmin, RemoveAdmin:
		return len(doc.Args) == 1 && !vfIsStr(doc.Args[0])
	case SetConf:
		return len(doc.Args) >= 2 && !vfIsStr(doc.Args[0])
	case AppendConf, RemoveConf:
		return len(doc.Args) == 2 && !vfIsStr(doc.Args[0])
	}
	return false
}

// Stored configurations are what setConf / appendConf can have written: every value passed the check of its key
// (checkArgs): ACCOUNTWHITE values decode as addresses, RPCPERMISSIONS values are "<base64>:<perm>"; P2P lists are kept
// empty here (their entries need quotes, see notes).
func vfGenConfFor(key string) func(tag string) []byte {
	return func(tag string) []byte {
		n := vf.Choice(tag, 4) // absent, 0, 1, 2 values
		if n == 0 {
			return nil
		}
		c := &Conf{On: vf.Bool(tag + ".on")}
		for i := 0; i < n-1; i++ {
			k := vf.Choice(tag+".value", 3)
			switch key {
			case AccountWhite:
				c.Values = append(c.Values, []string{vfTokA, vfTokB, "abc"}[k])
			case RPCPermissions:
				c.Values = append(c.Values, []string{vfTokRW, vfTokR, ":"}[k])
			}
		}
		return serializeConf(c)
	}
}

func vfGenAdmins(tag string) []byte {
	switch vf.Choice(tag, 4) {
	case 1:
		return vfAddr(2)
	case 2:
		return vfAddr(3)
	case 3:
		return append(vfAddr(2), vfAddr(3)...)
	}
	return nil
}

type vfCCC struct{}

func (vfCCC) MakeConfChangeProposal(req *types.MembershipChange) (*consensus.ConfChangePropose, error) {
	if vf.Bool("ccc.skip") {
		return nil, consensus.ErrorMembershipChangeSkip
	}
	return &consensus.ConfChangePropose{}, nil
}

func vfEntShape() *vf.CallShape {
	names := []string{AppendAdmin, RemoveAdmin, SetConf, AppendConf, RemoveConf, EnableConf, ChangeCluster}
	alts := []vf.Alt{vf.ANull(), vf.ASym(1), vf.AStr(AccountWhite), vf.AStr(RPCPermissions), vf.AStr(vfTokA), vf.AStr(vfTokR),
		vf.ABool(true), vf.AArr()}
	if vf.Param("wide", 0) == 1 {
		alts = append(alts, vf.AStr("accountwhite"), vf.AStr(P2PWhite), vf.AStr(vfTokB), vf.AStr(vfTokRW), vf.AStr(vfTokCert),
			vf.ANum("1", 1), vf.ABool(false), vf.AObj(), vf.AArrSym(), vf.AObjSym(),
			vf.ADoc(`{"command":"remove","id":"dd44"}`, map[string]interface{}{"command": "remove", "id": "dd44"}),
			vf.ADoc(`{"command":"remove","id":1}`, map[string]interface{}{"command": "remove", "id": float64(1)}),
			vf.ADoc(`{"command":"add","name":"n","address":"/ip4/1.2.3.4/tcp/7846","peerid":"x"}`,
				map[string]interface{}{"command": "add", "name": "n", "address": "/ip4/1.2.3.4/tcp/7846", "peerid": "x"}))
	} else {
		alts = append(alts, vf.ADoc(`{"command":"remove","id":"dd44"}`, map[string]interface{}{"command": "remove", "id": "dd44"}))
	}
	sh := &vf.CallShape{MaxArgs: vf.Param("maxArgs", 2), Alts: alts}
	if k := vf.Param("name", -1); k >= 0 && k < len(names) {
		sh.Names = names[k : k+1]
	} else if k == len(names) {
		sh.SymName = []int{2}
	} else {
		sh.Names = names
		sh.SymName = []int{2}
	}
	return sh
}

func VF_C14_bc_enterprise() {
	types.InitGovernance("raft", false)
	consensus.SetCurConsensus("raft")
	if vf.Choice("consensus", 2) == 1 {
		types.InitGovernance("dpos", false)
		consensus.SetCurConsensus("dpos")
	}
	payload, doc := vf.NondetCall("ci", vfEntShape())
	sender := vfAddr(2)
	body := &types.TxBody{
		Nonce:       vf.U64("tx.nonce"),
		Account:     sender,
		Recipient:   []byte(types.AergoEnterprise),
		Amount:      vf.Bytes("tx.amount", 1),
		Payload:     payload,
		Type:        types.TxType_GOVERNANCE,
		ChainIdHash: vf.Bytes("tx.chainIdHash", 2),
	}
	tx := &types.Tx{Body: body}
	tx.Hash = tx.CalculateTxHash()
	// stage 1: stateless admission (mempool.verifyTx, chain executeTx)
	if err := types.NewTransaction(tx).Validate(body.ChainIdHash, false); err != nil {
		vf.Reach("C14.b.enterprise.rejected1")
		return
	}
	// contract storage
	sdb := statedb.NewStateDB(vf.NewKV(), nil, false)
	scs, err := statedb.GetEnterpriseAccountState(sdb)
	if err != nil {
		vf.Fail("harness.setup")
		return
	}
	vfSt = vf.NewSlots()
	vfSt.Add("st.admins", dbkey.EnterpriseAdmins(), vfGenAdmins)
	if len(doc.Args) > 0 {
		if k, ok := doc.Args[0].(string); ok {
			if _, known := enterpriseKeyDict[strings.ToUpper(k)]; known {
				vfSt.Add("st.conf", dbkey.EnterpriseConf([]byte(k)), vfGenConfFor(strings.ToUpper(k)))
			}
		}
	}
	vfSt.Add("st.conf.accountwhite", dbkey.EnterpriseConf([]byte(AccountWhite)), vfGenConfFor(AccountWhite))
	if !vf.Symbolic() {
		vfSt.Eager(func(k, v []byte) { scs.SetData(k, v) })
	}
	senderState := state.InitAccountState(sender, sdb, &types.State{}, &types.State{})
	receiver := state.InitAccountState([]byte(types.AergoEnterprise), sdb, &types.State{}, &types.State{})
	blockNo := vf.U64("blockNo")
	// stage 2: stateful admission (mempool.validateTx)
	panicked := vfPanics(func() { _, err = ValidateEnterpriseTx(body, senderState, scs, blockNo) })
	vf.Reach("C14.b.enterprise")
	vf.AssertKnown(!panicked, "C14.b.enterprise", "F10-enterprise-arg-type", vfClassF10(doc))
	vf.Observe("b.panicked", panicked)
	if panicked || err != nil {
		return
	}
	// stage 3: execution in a block (chain.executeGovernanceTx)
	vf.Reach("C14.c.enterprise")
	bs := &state.BlockState{StateDB: sdb}
	panicked = vfPanics(func() { _, err = ExecuteEnterpriseTx(bs, vfCCC{}, scs, body, senderState, receiver, blockNo) })
	vf.Assert(!panicked, "C14.c.enterprise")
	vf.Observe("c.panicked", panicked)
	vf.Observe("c.ok", err == nil)
}
