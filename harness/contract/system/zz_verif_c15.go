package system

import (
	"bytes"
	"encoding/json"
	"errors"
	"math/big"

	"github.com/aergoio/aergo/v2/state"
	"github.com/aergoio/aergo/v2/state/statedb"
	"github.com/aergoio/aergo/v2/types"
	vf "github.com/aergoio/aergo/v2/zzvf"
)

// ---------------------------------------------------------------------------------------------
// C15 governance accounting: histories of stake / unstake / voteBP by two accounts through the real
// system.ExecuteSystemTx over a real statedb.ContractState (storage buffer over the KV model, empty trie).
//
// Payloads: natively the payload is the real JSON of the CallInfo. Under the engine encoding/json is replaced
// (props "stubs") by vfUnmarshal/vfMarshal below: the payload is a 2-byte handle of the CallInfo and Unmarshal hands
// that CallInfo back, i.e. the stub states Unmarshal(Marshal(ci)) == ci for a CallInfo whose Args are strings.

var vfCalls []*types.CallInfo

func vfNative() bool      { return true }  // stubbed to vfNativeFalse under the engine
func vfNativeFalse() bool { return false }

func vfPayload(name string, args []interface{}) []byte {
	ci := &types.CallInfo{Name: name, Args: args}
	if vfNative() {
		b, err := json.Marshal(ci)
		if err != nil {
			panic(err)
		}
		return b
	}
	vfCalls = append(vfCalls, ci)
	return []byte{'#', byte(len(vfCalls) - 1)}
}

func vfUnmarshal(data []byte, v interface{}) error {
	if len(data) == 2 && data[0] == '#' {
		ci, ok := v.(*types.CallInfo)
		if !ok {
			vf.Fail("harness.json-stub")
			return errors.New("vf: unsupported json target")
		}
		src := vfCalls[data[1]]
		ci.Name = src.Name
		ci.Args = append([]interface{}{}, src.Args...)
		return nil
	}
	vf.Fail("harness.json-stub")
	return errors.New("vf: unsupported json input")
}

func vfMarshal(v interface{}) ([]byte, error) { return []byte(`"?"`), nil }

var (
	vfAddrA = append([]byte{0x02}, make32(0x11)...)
	vfAddrB = append([]byte{0x03}, make32(0x22)...)
	// 2^88: bound on every single amount / initial balance (MaxAER = 5*10^26 < 2^89)
	vfAmtBound = new(big.Int).Mul(big.NewInt(1<<44), big.NewInt(1<<44))
)

func make32(b byte) []byte {
	out := make([]byte, 32)
	for i := range out {
		out[i] = b
	}
	return out
}

type vfGov struct {
	sdb  *statedb.StateDB
	scs  *statedb.ContractState
	sys  *state.AccountState
	acc  []*state.AccountState
	addr [][]byte
	no   uint64
	ver  int32
	// ghost state (the specification's view)
	gStake []*big.Int
	gBal   []*big.Int
	gWhen  []uint64
	gHas   []bool
	gTotal *big.Int
}

func vfNewGov() *vfGov {
	g := &vfGov{}
	g.sdb = statedb.NewStateDB(vf.NewKV(), nil, false)
	scs, err := statedb.GetSystemAccountState(g.sdb)
	if err != nil {
		panic(err)
	}
	g.scs = scs
	g.sys, err = state.GetAccountState([]byte(types.AergoSystem), g.sdb)
	if err != nil {
		panic(err)
	}
	g.addr = [][]byte{vfAddrA, vfAddrB}
	g.gTotal = new(big.Int)
	for _, a := range g.addr {
		b := vf.Big("balance")
		vf.Assume(b.Cmp(vfAmtBound) < 0)
		g.acc = append(g.acc, state.InitAccountState(a, g.sdb, &types.State{Balance: b.Bytes()}, &types.State{Balance: b.Bytes()}))
		g.gBal = append(g.gBal, b)
		g.gStake = append(g.gStake, new(big.Int))
		g.gWhen = append(g.gWhen, 0)
		g.gHas = append(g.gHas, false)
	}
	g.no = vf.U64("blockNo")
	vf.Assume(g.no <= 1<<62)
	g.ver = int32(vf.Param("forkVersion", 3))
	return g
}

// advance moves to a later block (any distance, also 0: several transactions in one block)
func (g *vfGov) advance() {
	d := vf.U64("blockDelta")
	vf.Assume(d <= 1<<40)
	g.no += d
}

func (g *vfGov) tx(i int, name string, args []interface{}, amount *big.Int) *types.TxBody {
	return &types.TxBody{Account: g.addr[i], Recipient: []byte(types.AergoSystem), Amount: amount.Bytes(),
		Payload: vfPayload(name, args), Type: types.TxType_GOVERNANCE}
}

func (g *vfGov) exec(i int, tx *types.TxBody) error {
	bi := &types.BlockHeaderInfo{No: g.no, ForkVersion: g.ver}
	_, err := ExecuteSystemTx(g.scs, tx, g.acc[i], g.sys, bi)
	return err
}

// C15.a: the accounting invariant, checked against the stored records (read back through the real getters)
func (g *vfGov) checkAccounting() {
	total, err := getStakingTotal(g.scs)
	vf.Assert(err == nil, "C15.a.total")
	sum := new(big.Int)
	for i := range g.addr {
		st, err := getStaking(g.scs, g.addr[i])
		vf.Assert(err == nil, "C15.a.stake")
		vf.Assert(st.GetAmountBigInt().Cmp(g.gStake[i]) == 0, "C15.a.stake")
		if g.gHas[i] {
			vf.Assert(st.GetWhen() == g.gWhen[i], "C15.a.when")
		}
		sum.Add(sum, st.GetAmountBigInt())
		vf.Assert(g.acc[i].Balance().Cmp(g.gBal[i]) == 0, "C15.a.balance")
	}
	vf.Assert(total.Cmp(sum) == 0, "C15.a.total")
	vf.Assert(total.Cmp(g.gTotal) == 0, "C15.a.total")
	vf.Assert(g.sys.Balance().Cmp(total) == 0, "C15.a.sysbalance")
}

func (g *vfGov) stake(i int) {
	amt := vf.Big("amount")
	vf.Assume(amt.Cmp(vfAmtBound) < 0)
	err := g.exec(i, g.tx(i, "v1stake", nil, amt))
	// C15.c: refusals
	inLock := vf.And(g.gHas[i], g.gWhen[i]+StakingDelay > g.no)
	toBe := new(big.Int).Add(g.gStake[i], amt)
	belowMin := toBe.Cmp(GetStakingMinimum()) < 0
	noFunds := g.gBal[i].Cmp(amt) < 0
	if err == nil {
		vf.Reach("C15.c.stake")
		vf.Assert(!inLock, "C15.c.stake-lock")
		vf.Assert(!belowMin, "C15.c.stake-min")
		vf.Assert(!noFunds, "C15.c.stake-funds")
		g.gStake[i] = toBe
		g.gBal[i] = new(big.Int).Sub(g.gBal[i], amt)
		g.gTotal = new(big.Int).Add(g.gTotal, amt)
		g.gWhen[i] = g.no
		g.gHas[i] = true
	} else {
		// a refusal has one of the three stated reasons (no spurious refusals)
		vf.Assert(vf.Or(inLock, vf.Or(belowMin, noFunds)), "C15.c.stake-refused")
	}
}

func (g *vfGov) unstake(i int) {
	amt := vf.Big("amount")
	vf.Assume(amt.Cmp(vfAmtBound) < 0)
	before := g.acc[i].Balance()
	err := g.exec(i, g.tx(i, "v1unstake", nil, amt))
	inLock := g.gWhen[i]+StakingDelay > g.no
	nothing := g.gStake[i].Sign() == 0
	tooMuch := g.gStake[i].Cmp(amt) < 0
	rest := new(big.Int).Sub(g.gStake[i], amt)
	belowMin := vf.And(rest.Sign() != 0, rest.Cmp(GetStakingMinimum()) < 0)
	if err == nil {
		vf.Reach("C15.c.unstake")
		vf.Assert(!nothing, "C15.c.unstake-nothing")
		vf.Assert(!tooMuch, "C15.c.unstake-exceed")
		vf.Assert(!inLock, "C15.c.unstake-lock")
		vf.Assert(!belowMin, "C15.c.unstake-min")
		// exactly the requested amount is returned
		vf.Assert(new(big.Int).Sub(g.acc[i].Balance(), before).Cmp(amt) == 0, "C15.a.unstake-exact")
		g.gStake[i] = rest
		g.gBal[i] = new(big.Int).Add(g.gBal[i], amt)
		g.gTotal = new(big.Int).Sub(g.gTotal, amt)
		g.gWhen[i] = g.no
	} else {
		vf.Assert(vf.Or(vf.Or(nothing, tooMuch), vf.Or(inLock, belowMin)), "C15.c.unstake-refused")
	}
}

// VF_C15_a: histories of stake/unstake by two accounts from the empty system state.
func VF_C15_a() {
	steps := vf.Param("steps", 2)
	g := vfNewGov()
	g.checkAccounting()
	for s := 0; s < steps; s++ {
		if s > 0 {
			g.advance()
		}
		switch vf.Choice("op", 4) {
		case 0:
			g.stake(0)
		case 1:
			g.unstake(0)
		case 2:
			g.stake(1)
		case 3:
			g.unstake(1)
		}
		vf.Reach("C15.a")
		g.checkAccounting()
	}
	vf.Observe("total", g.gTotal)
}

// ---------------------------------------------------------------------------------------------
// C15.e: the in-memory voting power rank equals the one rebuilt (loadVpr) from the buckets it wrote to state.
// The rank is driven exactly as the vote commands drive it (vprCmd.subVpr/addVpr then VoteResult.Sync -> apply):
// one voter changes its voting power per step (first vote, re-vote with a bigger or smaller stake, or power 0 after
// a full unstake), powers symbolic.

var vfAddrC = append([]byte{0x02}, make32(0x33)...)

func vfVprSame(a, b *vpr, ob string, flip bool) {
	vf.Assert(a.getTotalPower().Cmp(b.getTotalPower()) == 0, ob+".total")
	// buckets: same voters in the same order with the same address and power
	for i := uint8(0); i < vprBucketsMax; i++ {
		la, lb := a.store.buckets[i], b.store.buckets[i]
		na, nb := 0, 0
		if la != nil {
			na = la.Len()
		}
		if lb != nil {
			nb = lb.Len()
		}
		vf.Assert(na == nb, ob+".store")
		if na == 0 || na != nb {
			continue
		}
		ea, eb := la.Front(), lb.Front()
		for ea != nil && eb != nil {
			x, y := toVotingPower(ea), toVotingPower(eb)
			vf.Assert(x.getID() == y.getID(), ob+".store")
			vf.Assert(string(x.getAddr()) == string(y.getAddr()), ob+".store")
			vf.Assert(x.getPower().Cmp(y.getPower()) == 0, ob+".store")
			ea, eb = ea.Next(), eb.Next()
		}
	}
	// voters: same id -> power map
	vf.Assert(len(a.voters.powers) == len(b.voters.powers), ob+".voters")
	for id, x := range a.voters.powers {
		y := b.voters.powers[id]
		vf.Assert(y != nil, ob+".voters")
		if y != nil {
			vf.Assert(x.getPower().Cmp(y.getPower()) == 0, ob+".voters")
		}
	}
	// ranking tree: one member per voter, same sequence
	const fid = "Fgov1-vpr-rank-tree-stale-node"
	vf.AssertKnown(a.voters.members.Size() == len(a.voters.powers), ob+".members", fid, flip)
	ka, kb := a.voters.members.Keys(), b.voters.members.Keys()
	vf.AssertKnown(len(ka) == len(kb), ob+".members", fid, flip)
	if len(ka) == len(kb) {
		for i := range ka {
			x, y := ka[i].(*votingPower), kb[i].(*votingPower)
			vf.AssertKnown(x.getID() == y.getID(), ob+".members", fid, flip)
		}
	}
}

func VF_C15_e() {
	steps := vf.Param("steps", 3)
	nv := vf.Param("voters", 2)
	g := vfNewGov()
	votingPowerRank = newVpr()
	addrs := [][]byte{vfAddrA, vfAddrB, vfAddrC}[:nv]
	old := make([]*big.Int, nv)
	// class of the known finding: a ranked voter's power changes such that its rank order relative to another ranked
	// voter changes (topVoters.addVotingPower mutates the key in place before members.Remove looks it up)
	flip := false
	// before(p,i,q,j): voter i with power p ranks before voter j with power q (power descending, then id descending);
	// built without Go branches so that the harness does not fork
	before := func(p *big.Int, i int, q *big.Int, j int) bool {
		ii, jj := types.ToAccountID(addrs[i]), types.ToAccountID(addrs[j])
		idBefore := bytes.Compare(ii[:], jj[:]) > 0
		return vf.Or(p.Cmp(q) > 0, vf.And(p.Cmp(q) == 0, idBefore))
	}
	for s := 0; s < steps; s++ {
		i := vf.Choice("voter", nv)
		id := types.ToAccountID(addrs[i])
		pow := vf.Big("power")
		vf.Assume(pow.Cmp(vfAmtBound) < 0)
		// 0 (vote withdrawn by a full unstake) or a power of exactly powerBytes bytes (keeps the byte-length case split small)
		lo := new(big.Int).SetBytes(append([]byte{1}, make([]byte, vf.Param("powerBytes", 11)-1)...))
		hi := new(big.Int).SetBytes(append([]byte{1}, make([]byte, vf.Param("powerBytes", 11))...))
		vf.Assume(vf.Or(pow.Sign() == 0, vf.And(pow.Cmp(lo) >= 0, pow.Cmp(hi) < 0)))
		if old[i] != nil {
			for j := range old {
				if j != i && old[j] != nil {
					moved := before(old[i], i, old[j], j) != before(pow, i, old[j], j)
					flip = vf.Or(flip, vf.And(vf.And(old[i].Sign() != 0, old[j].Sign() != 0), moved))
				}
			}
			votingPowerRank.sub(id, addrs[i], old[i])
		}
		votingPowerRank.add(id, addrs[i], pow)
		old[i] = pow
		n, err := votingPowerRank.apply(g.scs)
		vf.Assert(err == nil, "C15.e.apply")
		_ = n
	}
	loaded, err := loadVpr(g.scs)
	vf.Reach("C15.e")
	vf.Assert(err == nil, "C15.e.load")
	if err == nil {
		vfVprSame(votingPowerRank, loaded, "C15.e", flip)
	}
	vf.Observe("total", votingPowerRank.getTotalPower())
}
