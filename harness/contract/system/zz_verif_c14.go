package system

import (
	"math/big"
	"strings"

	"github.com/aergoio/aergo/v2/state"
	"github.com/aergoio/aergo/v2/state/statedb"
	"github.com/aergoio/aergo/v2/types"
	vf "github.com/aergoio/aergo/v2/zzvf"
)

// ---------------------------------------------------------------------------------------------
// C14.e: the range check of DAO vote candidates. Other properties (C01, C03, C04: fee arithmetic) assume
// "gas price >= 1 because a DAO vote cannot set 0"; this is where that is decided.
//
// VF_C14_e_range: validateById(id, n) for every integer n (negative too: big.SetString accepts a sign) and each of the
// four parameter ids: accepted => 1 <= n <= max(id) (100 for BPCOUNT, MaxAER for the three amounts) and the converse
// (no spurious refusal inside the range).

var vfParamIDs = []sysParamIndex{bpCount, stakingMin, gasPrice, namePrice}

func vfParamMax(id string) *big.Int {
	if id == bpCount.ID() {
		return big.NewInt(100)
	}
	return types.MaxAER
}

func VF_C14_e_range() {
	id := vfParamIDs[vf.Choice("id", len(vfParamIDs))].ID()
	n := vf.Big("n")
	if vf.Choice("negative", 2) == 1 {
		n = new(big.Int).Neg(n)
	}
	ok := validateById(id, n)
	vf.Reach("C14.e")
	if ok {
		vf.Reach("C14.e.accept")
	}
	lower := n.Cmp(big.NewInt(1)) >= 0
	upper := n.Cmp(vfParamMax(id)) <= 0
	vf.AssertKnown(vf.Implies(ok, lower), "C14.e.lower", "F-C14-1-votedao-negative-parameter", n.Sign() < 0)
	vf.Assert(vf.Implies(ok, upper), "C14.e.upper")
	vf.Assert(vf.Implies(vf.And(lower, upper), ok), "C14.e.complete")
	vf.Observe("ok", ok)
}

// ---------------------------------------------------------------------------------------------
// C14.b / C14.c for aergo.system (and C14.e through the real voteDAO path): a governance transaction that passed the
// stateless admission ((*transaction).Validate -> types.ValidateSystemTx) is validated against the contract storage
// (system.ValidateSystemTx, as the mempool does) and, if that accepts, executed (system.ExecuteSystemTx, as
// chain.executeGovernanceTx does). Neither may panic, and an admitted v1voteDAO carries only candidates inside the
// parameter's range.
//
// Storage pre-state = what the real code wrote: nothing | the sender staked (real ExecuteSystemTx of a v1stake with a
// symbolic amount >= the staking minimum at a symbolic earlier block) | staked and voted GASPRICE "2" in a later
// block. The voting power rank is the empty one of a fresh chain (newVpr) and follows the history.

const (
	// base58 of a 39-byte peer id (secp256k1 identity multihash). A 34-byte sha256 peer id ("Qm...") is deliberately not
	// offered: types.ValidateSystemTx admits it, the vote code then slices Candidate[off:off+39] beyond the slice length,
	// which does not panic natively only because append rounded the capacity up (see notes/C14.md, observation O1).
	vfTokPeer   = "16Uiu2HAmBDcLEjBYeEnGU2qDD1KdpEdwDBtN7gqXzNZbHXo8Q841"
	vfMaxAERStr = "500000000000000000000000000"
	vfMaxAER1   = "500000000000000000000000001"
)

func vfC14Panics(f func()) (panicked bool) {
	if vf.Param("norecover", 0) == 1 { // debugging aid: let the engine report the panic message and stack
		f()
		return false
	}
	defer func() {
		if r := recover(); r != nil {
			panicked = true
		}
	}()
	f()
	return false
}

func vfC14Kinds() []vf.Alt {
	a := []vf.Alt{vf.ANull(), vf.ANum("1", 1), vf.ABool(true), vf.AArr(), vf.AObj()}
	if vf.Param("wide", 0) == 1 {
		a = append(a, vf.ANum("1e30", 1e30), vf.ABool(false), vf.AArrSym(), vf.AObjSym())
	}
	return a
}

func vfC14SysShape() (*vf.CallShape, [][]vf.Alt) {
	names := []string{"v1stake", "v1unstake", "v1voteBP", "v1voteDAO"}
	kinds := vfC14Kinds()
	sh := &vf.CallShape{MaxArgs: vf.Param("maxArgs", 2)}
	sh.Alts = append([]vf.Alt{vf.ASym(1), vf.AStr(vfTokPeer), vf.AStr("13")}, kinds...)
	var pos [][]vf.Alt
	k := vf.Param("name", -1)
	if k >= 0 && k < len(names) {
		sh.Names = names[k : k+1]
	} else {
		sh.Names = names
	}
	if k == 3 || k < 0 || k >= len(names) {
		// v1voteDAO: position 0 = proposal id, positions >= 1 = decimal candidates
		ids := []vf.Alt{vf.ASym(1), vf.AStr("bpcount"), vf.AStr("GASPRICE")}
		nums := []vf.Alt{vf.AStr("0"), vf.AStr("-0"), vf.AStr("1"), vf.AStr("-1"), vf.AStr("101"), vf.AStr(vfMaxAER1), vf.AStr("x")}
		if vf.Param("wide", 0) == 1 {
			ids = append(ids, vf.AStr("gasPrice"), vf.AStr("stakingmin"), vf.AStr("NAMEPRICE"), vf.AStr("nosuchid"))
			nums = append(nums, vf.AStr("00"), vf.AStr("+0"), vf.AStr("100"), vf.AStr(vfMaxAERStr), vf.AStr("1e3"), vf.AStr(" 1"), vf.ASym(1))
		}
		ids = append(ids, kinds...)
		nums = append(nums, kinds...)
		if k == 3 {
			pos = [][]vf.Alt{ids, nums, nums, nums}
		}
	}
	return sh, pos
}

// known panic class F9: newVoteCmd reads ctx.Call.Args[1] of a proposal vote that carries the id only
func vfClassF9(doc *vf.CallDoc) bool {
	return doc.Name == "v1voteDAO" && len(doc.Args) == 1
}

// vfC14Amt: 0 or an amount of exactly 11 bytes (2^80 <= x < 2^88; staking minimum 10^22 < 2^80 < MaxAER < 2^89): keeps
// the byte-length case split of the serialised records small (param amtAny=1: any amount below 2^88).
func vfC14Amt(name string) *big.Int {
	b := vf.Big(name)
	lo := new(big.Int).Lsh(big.NewInt(1), 80)
	hi := new(big.Int).Lsh(big.NewInt(1), 88)
	if vf.Param("amtAny", 0) == 1 {
		vf.Assume(b.Cmp(hi) < 0)
	} else {
		vf.Assume(vf.Or(b.Sign() == 0, vf.And(b.Cmp(lo) >= 0, b.Cmp(hi) < 0)))
	}
	return b
}

type vfC14World struct {
	sdb    *statedb.StateDB
	scs    *statedb.ContractState
	sender *state.AccountState
	sys    *state.AccountState
}

func (w *vfC14World) body(payload []byte, amount *big.Int) *types.TxBody {
	return &types.TxBody{Nonce: 1, Account: w.sender.ID(), Recipient: []byte(types.AergoSystem), Amount: amount.Bytes(),
		Payload: payload, Type: types.TxType_GOVERNANCE}
}

func VF_C14_bc_system() {
	types.InitGovernance("dpos", true)
	votingPowerRank = newVpr()
	w := &vfC14World{}
	w.sdb = statedb.NewStateDB(vf.NewKV(), nil, false)
	scs, err := statedb.GetSystemAccountState(w.sdb)
	if err != nil {
		vf.Fail("harness.setup")
		return
	}
	w.scs = scs
	if w.sys, err = state.GetAccountState([]byte(types.AergoSystem), w.sdb); err != nil {
		vf.Fail("harness.setup")
		return
	}
	bal := vfC14Amt("sender.balance")
	w.sender = state.InitAccountState(vfAddrA, w.sdb, &types.State{Balance: bal.Bytes()}, &types.State{Balance: bal.Bytes()})

	// the transaction under test; stage 1 is stateless, so it runs before the history is built
	sh, pos := vfC14SysShape()
	payload, doc := vf.NondetCallPos("ci", sh, pos)
	amount := vfC14Amt("tx.amount")
	body := w.body(payload, amount)
	body.ChainIdHash = vf.Bytes("tx.chainIdHash", 2)
	tx := &types.Tx{Body: body}
	tx.Hash = tx.CalculateTxHash()

	ver := vf.I32("forkVersion")
	vf.Assume(ver >= 1)
	vf.Assume(ver <= 4)
	no := vf.U64("blockNo")
	vf.Assume(no <= 1<<40)

	// stage 1: stateless admission
	if err := types.NewTransaction(tx).Validate(body.ChainIdHash, true); err != nil {
		vf.Reach("C14.b.system.rejected1")
		return
	}
	// history
	pre := vf.Choice("pre", 3)
	if pre >= 1 {
		amt := vfC14Amt("pre.stake")
		vf.Assume(amt.Cmp(GetStakingMinimum()) >= 0)
		vf.Assume(amt.Cmp(bal) <= 0)
		bi := &types.BlockHeaderInfo{No: no, ForkVersion: ver}
		if _, err := ExecuteSystemTx(w.scs, w.body([]byte(`{"Name":"v1stake"}`), amt), w.sender, w.sys, bi); err != nil {
			vf.Fail("harness.setup.stake")
			return
		}
		d := vf.U64("pre.delta1")
		vf.Assume(d <= 1<<30)
		no += d
	}
	if pre == 2 {
		vf.Assume(ver >= 2)
		bi := &types.BlockHeaderInfo{No: no, ForkVersion: ver}
		if _, err := ExecuteSystemTx(w.scs, w.body([]byte(`{"Name":"v1voteDAO","Args":["gasprice","2"]}`), new(big.Int)), w.sender, w.sys, bi); err != nil {
			vf.Fail("harness.setup.vote")
			return
		}
		d := vf.U64("pre.delta2")
		vf.Assume(d <= 1<<30)
		no += d
	}

	bi := &types.BlockHeaderInfo{No: no, ForkVersion: ver}

	// stage 2: stateful admission (mempool.validateTx)
	var ctx *SystemContext
	panicked := vfC14Panics(func() { ctx, err = ValidateSystemTx(w.sender.ID(), body, w.sender, w.scs, bi) })
	vf.Reach("C14.b.system")
	vf.Assert(!panicked, "C14.b.system")
	vf.Observe("b.panicked", panicked)
	vf.Observe("b.ok", err == nil)
	if panicked || err != nil {
		return
	}
	// C14.e through the real path: an admitted proposal vote carries only numbers inside the parameter's range
	if ctx.Proposal != nil {
		vf.Reach("C14.e.vote")
		id := strings.ToUpper(doc.Args[0].(string))
		for _, c := range doc.Args[1:] {
			s, isStr := c.(string)
			vf.Assert(isStr, "C14.e.vote")
			if !isStr {
				continue
			}
			n, ok := new(big.Int).SetString(s, 10)
			vf.Assert(ok, "C14.e.vote")
			if !ok {
				continue
			}
			vf.AssertKnown(n.Sign() > 0, "C14.e.vote", "F-C14-1-votedao-negative-parameter", n.Sign() < 0)
			vf.Assert(n.Cmp(vfParamMax(id)) <= 0, "C14.e.vote")
		}
	}
	// stage 3: execution in a block (chain.executeGovernanceTx)
	vf.Reach("C14.c.system")
	panicked = vfC14Panics(func() { _, err = ExecuteSystemTx(w.scs, body, w.sender, w.sys, bi) })
	vf.AssertKnown(!panicked, "C14.c.system", "F9-votedao-one-arg", vfClassF9(doc))
	vf.Observe("c.panicked", panicked)
	vf.Observe("c.ok", err == nil)
}
