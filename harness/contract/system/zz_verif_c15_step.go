package system

import (
	"bytes"
	"math/big"

	"github.com/aergoio/aergo/v2/internal/enc/base58"
	"github.com/aergoio/aergo/v2/types"
	"github.com/aergoio/aergo/v2/types/dbkey"
	vf "github.com/aergoio/aergo/v2/zzvf"
)

// ---------------------------------------------------------------------------------------------
// C15.a/b/c/d as an inductive step: an ARBITRARY governance state of two accounts that satisfies the accounting
// invariant I (written through the real setters: staking records, vote records, the sorted tally list, the staking
// total, the balance of aergo.system), then ONE operation of account A (stake / unstake / voteBP) through the real
// system.ExecuteSystemTx, then I again plus the operation's own post-conditions. Account B is "everybody else".
//
//	I:  stakingTotal == stake(A)+stake(B) == balance(aergo.system)
//	    every vote record:  amount <= stake of the voter
//	    tally(c) == sum of the vote amounts of the accounts voting for c, for every candidate in the stored list
//	    the stored list is strictly ordered by VoteList.Less (C15.d; ties are the known finding F3)
//
// The empty state satisfies I, so with this step I holds after every history (C15.a histories are kept as a
// cross-check of the step's pre-state modelling).

type vfVotes struct {
	cands   [][]byte // candidate universe (39-byte ids, symbolic, pairwise distinct)
	keys    []string // base58 of cands
	amt     []*big.Int
	mask    []int // per account: bit k set = votes for cands[k]; -1 = no vote record
	tie     bool  // class of F3 for the current tallies (recomputed by expected())
	hasZero []bool
}

// vfAmt: 0 or an amount of exactly 11 bytes (2^80 <= x < 2^88; the staking minimum 10^22 is below 2^80). Keeps the
// byte-length case split of the serialised records small.
func vfAmt(name string) *big.Int {
	b := vf.Big(name)
	lo := new(big.Int).SetBytes(append([]byte{1}, make([]byte, 10)...))
	hi := new(big.Int).SetBytes(append([]byte{1}, make([]byte, 11)...))
	vf.Assume(vf.Or(b.Sign() == 0, vf.And(b.Cmp(lo) >= 0, b.Cmp(hi) < 0)))
	return b
}

func (v *vfVotes) candBytes(mask int) []byte {
	var out []byte
	for k := range v.cands {
		if mask&(1<<uint(k)) != 0 {
			out = append(out, v.cands[k]...)
		}
	}
	return out
}

func (v *vfVotes) args(mask int) []interface{} {
	out := []interface{}{}
	for k := range v.cands {
		if mask&(1<<uint(k)) != 0 {
			out = append(out, v.keys[k])
		}
	}
	return out
}

// expected tally of candidate k from the ghost vote records
func (v *vfVotes) expected(k int) *big.Int {
	sum := new(big.Int)
	for i := range v.mask {
		if v.mask[i] >= 0 && v.mask[i]&(1<<uint(k)) != 0 {
			sum = new(big.Int).Add(sum, v.amt[i])
		}
	}
	return sum
}

func (g *vfGov) checkVotes(v *vfVotes) {
	// vote records
	for i := range g.addr {
		rec, err := getVote(g.scs, defaultVoteKey, g.addr[i])
		vf.Assert(err == nil, "C15.b.record")
		if v.mask[i] < 0 {
			vf.Assert(rec.Amount == nil, "C15.b.record")
			continue
		}
		vf.Assert(rec.GetAmountBigInt().Cmp(v.amt[i]) == 0, "C15.b.record")
		vf.Assert(bytes.Equal(rec.Candidate, v.candBytes(v.mask[i])), "C15.b.record")
		vf.Assert(v.amt[i].Cmp(g.gStake[i]) <= 0, "C15.b.within-stake")
	}
	// tallies
	list, err := getVoteResult(g.scs, defaultVoteKey, 100)
	vf.Assert(err == nil, "C15.b.tally")
	seen := make([]bool, len(v.cands))
	for _, e := range list.Votes {
		known := false
		for k := range v.cands {
			if known {
				break
			}
			if bytes.Equal(e.Candidate, v.cands[k]) {
				known = true
				vf.Assert(!seen[k], "C15.b.tally") // one entry per candidate
				seen[k] = true
				vf.Assert(e.GetAmountBigInt().Cmp(v.expected(k)) == 0, "C15.b.tally")
			}
		}
		vf.Assert(known, "C15.b.tally")
	}
	for k := range v.cands {
		if !seen[k] {
			vf.Assert(v.expected(k).Sign() == 0, "C15.b.tally")
		}
	}
	// C15.d: the stored ranking is strictly ordered by VoteList.Less; class of F3: equal tallies and candidates that agree
	// from byte 7 on
	tie := false
	for a := range v.cands {
		for b := 0; b < a; b++ {
			tie = vf.Or(tie, vf.And(v.expected(a).Cmp(v.expected(b)) == 0, bytes.Equal(v.cands[a][7:], v.cands[b][7:])))
		}
	}
	for i := 1; i < len(list.Votes); i++ {
		vf.AssertKnown(list.Less(i, i-1), "C15.d.sorted", "F3-votelist-less-tie", tie)
	}
}

func (g *vfGov) vote(i int, v *vfVotes) {
	mask := vf.Choice("voteMask", 1<<uint(len(v.cands)))
	err := g.exec(i, g.tx(i, "v1voteBP", v.args(mask), new(big.Int)))
	nothing := g.gStake[i].Sign() == 0
	// a vote record with no candidate and amount 0 serialises to nothing, i.e. is no record
	hasRecord := vf.Or(v.mask[i] > 0, vf.And(v.mask[i] == 0, v.amt[i].Sign() != 0))
	inLock := vf.And(hasRecord, g.gWhen[i]+VotingDelay > g.no)
	if err == nil {
		vf.Reach("C15.c.vote")
		vf.Assert(!nothing, "C15.c.vote-unstaked")
		vf.Assert(!inLock, "C15.c.vote-lock")
		v.mask[i] = mask
		v.amt[i] = g.gStake[i] // the vote is cast with the whole current stake
		g.gWhen[i] = g.no
	} else {
		vf.Assert(vf.Or(nothing, inLock), "C15.c.vote-refused")
	}
}

// after a successful unstake every vote of the account is cut down to the remaining stake (refreshAllVote)
func (g *vfGov) refreshGhostVotes(i int, v *vfVotes) {
	if v.mask[i] >= 0 && v.amt[i].Cmp(g.gStake[i]) > 0 {
		v.amt[i] = g.gStake[i]
	}
}

// one entry per pre-state shape so that the shapes run in parallel
func VF_C15_step_s0() { vfStep(0) }
func VF_C15_step_s1() { vfStep(1) }
func VF_C15_step_s2() { vfStep(2) }
func VF_C15_step_s3() { vfStep(3) }
func VF_C15_step_s4() { vfStep(4) }
func VF_C15_step_s5() { vfStep(5) }

func vfStep(shape int) {
	nc := vf.Param("cands", 2)
	g := vfNewGov()
	v := &vfVotes{}
	for k := 0; k < nc; k++ {
		c := vf.Bytes("cand", PeerIDLength)
		for _, o := range v.cands {
			vf.Assume(!bytes.Equal(c, o))
		}
		v.cands = append(v.cands, c)
		v.keys = append(v.keys, base58.Encode(c))
	}
	// ---- arbitrary pre-state satisfying I
	// shapes: A in {no record, stake only, stake + vote}, B in {no record, stake + vote}; vote masks by choice
	shapes := [][2]int{{0, 0}, {1, 0}, {2, 0}, {0, 2}, {1, 2}, {2, 2}}
	sh := shapes[shape]
	total := new(big.Int)
	for i := range g.addr {
		v.mask = append(v.mask, -1)
		v.amt = append(v.amt, new(big.Int))
		if sh[i] == 0 {
			continue
		}
		st := vfAmt("stake")
		when := vf.U64("when")
		vf.Assume(when <= g.no)
		if err := setStaking(g.scs, g.addr[i], &types.Staking{Amount: st.Bytes(), When: when}); err != nil {
			panic(err)
		}
		g.gStake[i], g.gWhen[i], g.gHas[i] = st, when, true
		total = new(big.Int).Add(total, st)
		if sh[i] == 2 {
			m := vf.Choice("mask", 1<<uint(nc))
			if i == 1 {
				m = 1 + 2*vf.Choice("maskB", 1<<uint(nc-1)) // B always votes for candidate 0 (candidates are symmetric)
			}
			va := vfAmt("voteAmount")
			vf.Assume(va.Cmp(st) <= 0)
			if err := setVote(g.scs, defaultVoteKey, g.addr[i], &types.Vote{Candidate: v.candBytes(m), Amount: va.Bytes()}); err != nil {
				panic(err)
			}
			v.mask[i], v.amt[i] = m, va
		}
	}
	rmap := map[string]*big.Int{}
	for k := range v.cands {
		// a candidate appears in the stored list iff somebody voted for it at some time (its tally may be 0 by now)
		listed := false
		for i := range v.mask {
			if v.mask[i] >= 0 && v.mask[i]&(1<<uint(k)) != 0 {
				listed = true
			}
		}
		if !listed && vf.Param("listedZero", 0) == 1 && vf.Choice("listedZero", 2) == 1 {
			listed = true
		}
		if listed {
			rmap[v.keys[k]] = v.expected(k)
		}
	}
	if len(rmap) > 0 {
		if err := InitVoteResult(g.scs, rmap); err != nil {
			panic(err)
		}
	}
	if err := g.scs.SetData(dbkey.SystemStakingTotal(), total.Bytes()); err != nil {
		panic(err)
	}
	g.sys.AddBalance(total)
	g.gTotal = total
	// the pre-state satisfies I (also a guard against a vacuous or wrongly modelled pre-state)
	g.checkAccounting()
	g.checkVotes(v)
	// ---- one operation of account A
	switch vf.Choice("op", 3) {
	case 0:
		g.stake(0)
	case 1:
		g.unstake(0)
		g.refreshGhostVotes(0, v)
	case 2:
		g.vote(0, v)
	}
	vf.Reach("C15.step")
	g.checkAccounting()
	g.checkVotes(v)
	vf.Observe("total", g.gTotal)
}
