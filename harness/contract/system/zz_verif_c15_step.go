package system

import (
	"bytes"
	"math/big"

	"github.com/aergoio/aergo/v2/internal/enc/base58"
	"github.com/aergoio/aergo/v2/types"
	"github.com/aergoio/aergo/v2/types/dbkey"
	vf "github.com/aergoio/aergo/v2/zzvf"
)

// ---------------------------------------------------------------------------------------------
// C15.a/b/c/d as an inductive step: an ARBITRARY governance state of two accounts that satisfies the accounting
// invariant I (written through the real setters: staking records, vote records, the sorted tally list, the staking
// total, the balance of aergo.system), then ONE operation of account A (stake / unstake / voteBP) through the real
// system.ExecuteSystemTx, then I again plus the operation's own post-conditions. Account B is "everybody else".
//
//	I:  stakingTotal == stake(A)+stake(B) == balance(aergo.system)
//	    every vote record:  amount <= stake of the voter
//	    tally(c) == sum of the vote amounts of the accounts voting for c, for every candidate in the stored list
//	    the stored list is strictly ordered by VoteList.Less (C15.d; ties are the known finding F3)
//
// The empty state satisfies I, so with this step I holds after every history (C15.a histories are kept as a
// cross-check of the step's pre-state modelling).

type vfVotes struct {
	cands   [][]byte // candidate universe (39-byte ids, symbolic, pairwise distinct)
	keys    []string // base58 of cands
	amt     []*big.Int
	mask    []int // per account: bit k set = votes for cands[k]; -1 = no vote record
	tie     bool  // class of F3 for the current tallies (recomputed by expected())
	hasZero []bool
}

// vfAmt: an amount as it occurs in a reachable governance state: 0 (only if zeroOK) or staking minimum <= x < 2^88.
// The staking minimum (10^22) has 10 bytes, 2^88 - 1 has 11: the serialised records have amounts of 0, 10 or 11 bytes
// (the engine forks on the byte length where a record is serialised), so comparisons of amounts of DIFFERENT byte
// lengths are covered (refreshAllVote: remaining stake of 10 bytes against an old vote of 11 bytes).
func vfAmt(name string, zeroOK bool) *big.Int {
	b := vf.Big(name)
	ok := vf.And(b.Cmp(GetStakingMinimum()) >= 0, b.Cmp(vfAmtBound) < 0)
	if zeroOK {
		ok = vf.Or(b.Sign() == 0, ok)
	}
	vf.Assume(ok)
	return b
}

func (v *vfVotes) candBytes(mask int) []byte {
	var out []byte
	for k := range v.cands {
		if mask&(1<<uint(k)) != 0 {
			out = append(out, v.cands[k]...)
		}
	}
	return out
}

func (v *vfVotes) args(mask int) []interface{} {
	out := []interface{}{}
	for k := range v.cands {
		if mask&(1<<uint(k)) != 0 {
			out = append(out, v.keys[k])
		}
	}
	return out
}

// expected tally of candidate k from the ghost vote records
func (v *vfVotes) expected(k int) *big.Int {
	sum := new(big.Int)
	for i := range v.mask {
		if v.mask[i] >= 0 && v.mask[i]&(1<<uint(k)) != 0 {
			sum = new(big.Int).Add(sum, v.amt[i])
		}
	}
	return sum
}

func (g *vfGov) checkVotes(v *vfVotes) {
	// vote records
	for i := range g.addr {
		rec, err := getVote(g.scs, defaultVoteKey, g.addr[i])
		vf.Assert(err == nil, "C15.b.record")
		if v.mask[i] < 0 {
			vf.Assert(rec.Amount == nil, "C15.b.record")
			continue
		}
		vf.Assert(rec.GetAmountBigInt().Cmp(v.amt[i]) == 0, "C15.b.record")
		vf.Assert(bytes.Equal(rec.Candidate, v.candBytes(v.mask[i])), "C15.b.record")
		vf.Assert(v.amt[i].Cmp(g.gStake[i]) <= 0, "C15.b.within-stake")
	}
	// tallies
	list, err := getVoteResult(g.scs, defaultVoteKey, 100)
	vf.Assert(err == nil, "C15.b.tally")
	seen := make([]bool, len(v.cands))
	for _, e := range list.Votes {
		known := false
		for k := range v.cands {
			if known {
				break
			}
			if bytes.Equal(e.Candidate, v.cands[k]) {
				known = true
				vf.Assert(!seen[k], "C15.b.tally") // one entry per candidate
				seen[k] = true
				vf.Assert(e.GetAmountBigInt().Cmp(v.expected(k)) == 0, "C15.b.tally")
			}
		}
		vf.Assert(known, "C15.b.tally")
	}
	for k := range v.cands {
		if !seen[k] {
			vf.Assert(v.expected(k).Sign() == 0, "C15.b.tally")
		}
	}
	// C15.d: the stored ranking is strictly ordered by VoteList.Less; class of F3: equal tallies and candidates that agree
	// from byte 7 on
	tie := false
	for a := range v.cands {
		for b := 0; b < a; b++ {
			tie = vf.Or(tie, vf.And(v.expected(a).Cmp(v.expected(b)) == 0, bytes.Equal(v.cands[a][7:], v.cands[b][7:])))
		}
	}
	for i := 1; i < len(list.Votes); i++ {
		vf.AssertKnown(list.Less(i, i-1), "C15.d.sorted", "F3-votelist-less-tie", tie)
	}
}

func (g *vfGov) vote(i int, v *vfVotes) {
	mask := vf.Choice("voteMask", 1<<uint(len(v.cands)))
	err := g.exec(i, g.tx(i, "v1voteBP", v.args(mask), new(big.Int)))
	nothing := g.gStake[i].Sign() == 0
	// a vote record with no candidate and amount 0 serialises to nothing, i.e. is no record
	hasRecord := vf.Or(v.mask[i] > 0, vf.And(v.mask[i] == 0, v.amt[i].Sign() != 0))
	inLock := vf.And(hasRecord, g.gWhen[i]+VotingDelay > g.no)
	if err == nil {
		vf.Reach("C15.c.vote")
		vf.Assert(!nothing, "C15.c.vote-unstaked")
		vf.Assert(!inLock, "C15.c.vote-lock")
		v.mask[i] = mask
		v.amt[i] = g.gStake[i] // the vote is cast with the whole current stake
		g.gWhen[i] = g.no
	} else {
		vf.Assert(vf.Or(nothing, inLock), "C15.c.vote-refused")
	}
}

// after a successful unstake every vote of the account is cut down to the remaining stake (refreshAllVote)
func (g *vfGov) refreshGhostVotes(i int, v *vfVotes) {
	if v.mask[i] >= 0 && v.amt[i].Cmp(g.gStake[i]) > 0 {
		v.amt[i] = g.gStake[i]
	}
}

// shapes of an account's pre-state
const (
	vfShNone  = iota // no staking record, no vote record
	vfShZero         // staking record with amount 0 (left by a full unstake), vote record with amount 0
	vfShStake        // stake, no vote record
	vfShVote         // stake and a vote record
)

// One entry per (operation, pre-state shape of the acting account A) so that the shapes run in parallel.
//   misc:     A has no record or a zero record: stake / unstake / vote
//   stake:    A has a stake (with or without a vote record): stake more
//   unstake:  A has a stake and no vote / a vote for c0 / c1 / both: unstake (refreshAllVote)
//   vote:     A has a stake and no vote / a vote for c0 / c1 / both: vote for a new candidate set
func VF_C15_step_misc()       { vfStep(-1, -1, 0) }
func VF_C15_step_stake()      { vfStep(0, -1, 0) }
func VF_C15_step_unstake_m0() { vfStep(1, vfShStake, -1) }
func VF_C15_step_unstake_m1() { vfStep(1, vfShVote, 1) }
func VF_C15_step_unstake_m2() { vfStep(1, vfShVote, 2) }
func VF_C15_step_unstake_m3() { vfStep(1, vfShVote, 3) }
func VF_C15_step_unstake_e()  { vfStep(1, vfShVote, 0) } // vote record without candidates (voteBP with no argument)
func VF_C15_step_vote_m0()    { vfStep(2, vfShStake, -1) }
func VF_C15_step_vote_m1()    { vfStep(2, vfShVote, 1) }
func VF_C15_step_vote_m2()    { vfStep(2, vfShVote, 2) }
func VF_C15_step_vote_m3()    { vfStep(2, vfShVote, 3) }
func VF_C15_step_vote_e()     { vfStep(2, vfShVote, 0) }

// preAccount writes the pre-state records of account i through the real setters and returns its stake
func (g *vfGov) preAccount(i int, v *vfVotes, shape, mask int) *big.Int {
	st := new(big.Int)
	if shape == vfShNone {
		return st
	}
	if shape != vfShZero {
		st = vfAmt("stake", false)
	}
	when := vf.U64("when")
	vf.Assume(when <= g.no)
	if err := setStaking(g.scs, g.addr[i], &types.Staking{Amount: st.Bytes(), When: when}); err != nil {
		panic(err)
	}
	g.gStake[i], g.gWhen[i], g.gHas[i] = st, when, true
	if shape == vfShStake || mask < 0 {
		return st
	}
	va := new(big.Int)
	if shape == vfShVote {
		// the recorded vote amount is at most the stake (I); 0 with a record: full unstake, then staked again
		va = vfAmt("voteAmount", vf.Param("voteZero", 0) == 1)
		vf.Assume(va.Cmp(st) <= 0)
	}
	if err := setVote(g.scs, defaultVoteKey, g.addr[i], &types.Vote{Candidate: v.candBytes(mask), Amount: va.Bytes()}); err != nil {
		panic(err)
	}
	v.mask[i], v.amt[i] = mask, va
	return st
}

func vfStep(op, shapeA, maskA int) {
	nc := 2
	if vf.Param("mapPerm", 0) == 0 {
		// the order of `range rmap` in buildVoteList is fixed here; C02.a.votelist decides that the list does not
		// depend on it
		vf.NoMapPerm(true)
	}
	g := vfNewGov()
	v := &vfVotes{}
	for k := 0; k < nc; k++ {
		c := vf.Bytes("cand", PeerIDLength)
		for _, o := range v.cands {
			vf.Assume(!bytes.Equal(c, o))
		}
		v.cands = append(v.cands, c)
		v.keys = append(v.keys, base58.Encode(c))
	}
	for range g.addr {
		v.mask = append(v.mask, -1)
		v.amt = append(v.amt, new(big.Int))
	}
	// ---- arbitrary pre-state satisfying I
	switch {
	case op == -1: // misc
		shapeA = []int{vfShNone, vfShZero}[vf.Choice("shapeA", 2)]
		maskA = 1
		op = vf.Choice("op", 3)
	case op == 0: // stake
		shapeA = []int{vfShStake, vfShVote}[vf.Choice("shapeA", 2)]
		maskA = 3
	}
	// B ("everybody else"): absent, or staking and voting for c0 (bBoth=1: or for both candidates)
	shapeB, maskB := vfShNone, 0
	switch vf.Choice("shapeB", 2+vf.Param("bBoth", 0)) {
	case 1:
		shapeB, maskB = vfShVote, 1
	case 2:
		shapeB, maskB = vfShVote, 3
	}
	total := new(big.Int).Add(g.preAccount(0, v, shapeA, maskA), g.preAccount(1, v, shapeB, maskB))
	vf.Assume(total.Cmp(vfAmtBound) < 0)
	rmap := map[string]*big.Int{}
	for k := range v.cands {
		// a candidate appears in the stored list iff somebody voted for it at some time (its tally may be 0 by now)
		listed := false
		for i := range v.mask {
			if v.mask[i] >= 0 && v.mask[i]&(1<<uint(k)) != 0 {
				listed = true
			}
		}
		if !listed && vf.Param("listedZero", 0) == 1 && vf.Choice("listedZero", 2) == 1 {
			listed = true
		}
		if listed {
			rmap[v.keys[k]] = v.expected(k)
		}
	}
	if len(rmap) > 0 {
		if err := InitVoteResult(g.scs, rmap); err != nil {
			panic(err)
		}
	}
	if err := g.scs.SetData(dbkey.SystemStakingTotal(), total.Bytes()); err != nil {
		panic(err)
	}
	g.sys.AddBalance(total)
	g.gTotal = total
	// the pre-state satisfies I (also a guard against a vacuous or wrongly modelled pre-state)
	g.checkAccounting()
	g.checkVotes(v)
	// ---- one operation of account A
	switch op {
	case 0:
		g.stake(0)
	case 1:
		g.unstake(0)
		g.refreshGhostVotes(0, v)
	case 2:
		g.vote(0, v)
	}
	vf.Reach("C15.step")
	g.checkAccounting()
	g.checkVotes(v)
	for i := range g.addr {
		// C15.c: a stake is never left in (0, minimum)
		vf.Assert(vf.Or(g.gStake[i].Sign() == 0, g.gStake[i].Cmp(GetStakingMinimum()) >= 0), "C15.c.min-invariant")
	}
	vf.Observe("total", g.gTotal)
}
