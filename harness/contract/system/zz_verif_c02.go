package system

import (
	"bytes"
	"math/big"

	"github.com/aergoio/aergo/v2/internal/enc/base58"
	"github.com/aergoio/aergo/v2/types"
	vf "github.com/aergoio/aergo/v2/zzvf"
)

// ---------------------------------------------------------------------------------------------
// C02.a (vote list): VoteResult.buildVoteList turns the tally map into the ranking that Sync() serialises into the
// system contract state. It must not depend on the map iteration order. The engine explores every order of
// `range vr.rmap` independently in the two calls. (Natively map order cannot be chosen, so the native replay repeats
// the second call many times.)

var vfAmountBound = new(big.Int).Mul(big.NewInt(1<<52), big.NewInt(1<<52)) // 2^104

func vfSameVotes(a, b *types.VoteList) bool {
	if len(a.Votes) != len(b.Votes) {
		return false
	}
	same := true
	for i := range a.Votes {
		same = vf.And(same, bytes.Equal(a.Votes[i].Candidate, b.Votes[i].Candidate))
		same = vf.And(same, bytes.Equal(a.Votes[i].Amount, b.Votes[i].Amount))
	}
	return same
}

func VF_C02_a_votelist()     { vfVoteList(1) }
func VF_C02_a_votelist_rel() { vfVoteList(2) }

func vfVoteList(calls int) {
	n := vf.Param("maxN", 3)
	cands := make([][]byte, n)
	amts := make([]*big.Int, n)
	rmap := map[string]*big.Int{}
	tie := false // class of F3: two entries with equal tallies whose candidates agree from byte 7 on
	for i := 0; i < n; i++ {
		cands[i] = vf.Bytes("cand", PeerIDLength)
		amts[i] = vf.Big("amount")
		vf.Assume(amts[i].Cmp(vfAmountBound) < 0)
		for j := 0; j < i; j++ {
			vf.Assume(!bytes.Equal(cands[i], cands[j]))
			tie = vf.Or(tie, vf.And(amts[i].Cmp(amts[j]) == 0, bytes.Equal(cands[i][7:], cands[j][7:])))
		}
		rmap[base58.Encode(cands[i])] = amts[i]
	}
	vr := newVoteResult(defaultVoteKey, nil)
	vr.rmap = rmap
	l1 := vr.buildVoteList()
	vf.Reach("C02.a.votelist")
	vf.Assert(len(l1.Votes) == n, "C02.a.votelist.content")
	if calls == 2 {
		// relational form: further calls under independently chosen iteration orders (natively the order cannot be
		// chosen, so the native run repeats the call)
		reps := 1
		if !vf.Symbolic() {
			reps = 200
		}
		same := true
		for r := 0; r < reps; r++ {
			l2 := vr.buildVoteList()
			same = vf.And(same, vfSameVotes(l1, l2))
		}
		vf.AssertKnown(same, "C02.a.votelist", "F3-votelist-less-tie", tie)
	}
	// canonical form (for every iteration order): the list is STRICTLY descending in the order of VoteList.Less
	// (C02.b: asymmetric and transitive), so it is the unique such arrangement of the map content
	for i := 1; i < len(l1.Votes); i++ {
		vf.AssertKnown(l1.Less(i, i-1), "C02.a.votelist.strict", "F3-votelist-less-tie", tie)
	}
	// content: every map entry appears with its tally
	for i := 0; i < n; i++ {
		found := false
		for _, v := range l1.Votes {
			found = vf.Or(found, vf.And(bytes.Equal(v.Candidate, cands[i]), v.GetAmountBigInt().Cmp(amts[i]) == 0))
		}
		vf.Assert(found, "C02.a.votelist.content")
	}
	// ranking: non-increasing tallies
	for i := 1; i < len(l1.Votes); i++ {
		vf.Assert(l1.Votes[i-1].GetAmountBigInt().Cmp(l1.Votes[i].GetAmountBigInt()) >= 0, "C02.a.votelist.ranked")
	}
	if vf.Param("serialize", 0) == 1 {
		// the bytes stored under SystemVoteSort: deserialising them gives the list back
		data := serializeVoteList(l1, false)
		back := deserializeVoteList(data, false)
		vf.Assert(vfSameVotes(l1, back), "C02.a.votelist.codec")
	}
	vf.Observe("n", len(l1.Votes))
}
