package system

import (
	"bytes"
	"math/big"
	"math/rand"

	"github.com/aergoio/aergo/v2/internal/enc/base58"
	"github.com/aergoio/aergo/v2/state/statedb"
	"github.com/aergoio/aergo/v2/types"
	"github.com/aergoio/aergo/v2/types/dbkey"
	vf "github.com/aergoio/aergo/v2/zzvf"
)

// ---------------------------------------------------------------------------------------------
// C02.a (vote list): VoteResult.buildVoteList turns the tally map into the ranking that Sync() serialises into the
// system contract state. It must not depend on the map iteration order. The engine explores every order of
// `range vr.rmap` independently in the two calls. (Natively map order cannot be chosen, so the native replay repeats
// the second call many times.)

var vfAmountBound = new(big.Int).Mul(big.NewInt(1<<52), big.NewInt(1<<52)) // 2^104

func vfSameVotes(a, b *types.VoteList) bool {
	if len(a.Votes) != len(b.Votes) {
		return false
	}
	same := true
	for i := range a.Votes {
		same = vf.And(same, bytes.Equal(a.Votes[i].Candidate, b.Votes[i].Candidate))
		same = vf.And(same, bytes.Equal(a.Votes[i].Amount, b.Votes[i].Amount))
	}
	return same
}

func VF_C02_a_votelist()     { vfVoteList(1) }
func VF_C02_a_votelist_rel() { vfVoteList(2) }

func vfVoteList(calls int) {
	n := vf.Param("maxN", 3)
	cands := make([][]byte, n)
	amts := make([]*big.Int, n)
	rmap := map[string]*big.Int{}
	tie := false // class of F3: two entries with equal tallies whose candidates agree from byte 7 on
	for i := 0; i < n; i++ {
		cands[i] = vf.Bytes("cand", PeerIDLength)
		amts[i] = vf.Big("amount")
		vf.Assume(amts[i].Cmp(vfAmountBound) < 0)
		for j := 0; j < i; j++ {
			vf.Assume(!bytes.Equal(cands[i], cands[j]))
			tie = vf.Or(tie, vf.And(amts[i].Cmp(amts[j]) == 0, bytes.Equal(cands[i][7:], cands[j][7:])))
		}
		rmap[base58.Encode(cands[i])] = amts[i]
	}
	vr := newVoteResult(defaultVoteKey, nil)
	vr.rmap = rmap
	l1 := vr.buildVoteList()
	vf.Reach("C02.a.votelist")
	vf.Assert(len(l1.Votes) == n, "C02.a.votelist.content")
	if calls == 2 {
		// relational form: further calls under independently chosen iteration orders (natively the order cannot be
		// chosen, so the native run repeats the call)
		reps := 1
		if !vf.Symbolic() {
			reps = 200
		}
		same := true
		for r := 0; r < reps; r++ {
			l2 := vr.buildVoteList()
			same = vf.And(same, vfSameVotes(l1, l2))
		}
		vf.AssertKnown(same, "C02.a.votelist", "F3-votelist-less-tie", tie)
	}
	// canonical form (for every iteration order): the list is STRICTLY descending in the order of VoteList.Less
	// (C02.b: asymmetric and transitive), so it is the unique such arrangement of the map content
	for i := 1; i < len(l1.Votes); i++ {
		vf.AssertKnown(l1.Less(i, i-1), "C02.a.votelist.strict", "F3-votelist-less-tie", tie)
	}
	// content: every map entry appears with its tally
	for i := 0; i < n; i++ {
		found := false
		for _, v := range l1.Votes {
			found = vf.Or(found, vf.And(bytes.Equal(v.Candidate, cands[i]), v.GetAmountBigInt().Cmp(amts[i]) == 0))
		}
		vf.Assert(found, "C02.a.votelist.content")
	}
	// ranking: non-increasing tallies
	for i := 1; i < len(l1.Votes); i++ {
		vf.Assert(l1.Votes[i-1].GetAmountBigInt().Cmp(l1.Votes[i].GetAmountBigInt()) >= 0, "C02.a.votelist.ranked")
	}
	if vf.Param("serialize", 0) == 1 {
		// the bytes stored under SystemVoteSort: deserialising them gives the list back
		data := serializeVoteList(l1, false)
		back := deserializeVoteList(data, false)
		vf.Assert(vfSameVotes(l1, back), "C02.a.votelist.codec")
	}
	vf.Observe("n", len(l1.Votes))
}

// ---------------------------------------------------------------------------------------------
// C02.a (voting power rank): vpr.pickVotingRewardWinner walks the buckets of vprStore (a Go map from bucket index to
// voter list) and subtracts the voters' powers from a random number r drawn from the block seed; the winner is paid
// the voting reward and recorded in the block, so it must be a function of (seed, state) only.
//
// The draw r = new(big.Int).Rand(rand.New(rand.NewSource(seed)), total) is a deterministic function of (seed, total)
// with 0 <= r < total. A test hook (props "hooks": one line after the draw) hands r to vfRandHook; the harness replaces
// it by an ARBITRARY value in [0, total), the same in every call, on the engine side and natively. So the claim is: for
// every r in range and every iteration order of the bucket map the winner is the same, and it is the voter found by the
// walk in canonical order (bucket index ascending, account id descending inside a bucket).

var vfRandOverride func(seed int64, n, r *big.Int) *big.Int

func vfRandHook(seed int64, n, r *big.Int) *big.Int {
	if vfRandOverride != nil {
		return vfRandOverride(seed, n, r)
	}
	return r
}

// engine-side replacements (props "stubs") for the math/rand calls whose result the hook overrides anyway
func vfStubNewSource(seed int64) rand.Source                      { return nil }
func vfStubRandNew(src rand.Source) *rand.Rand                    { return nil }
func vfStubBigRand(z *big.Int, rnd *rand.Rand, n *big.Int) *big.Int { return new(big.Int) }

var (
	vfAddrF = append([]byte{0x03}, make32(0x66)...) // account id in the same bucket (12) as vfAddrA
	vfAddrG = append([]byte{0x02}, make32(0xb2)...) // bucket 12 too; id(F) < id(G) < id(A)
)

func vfNewSysScs() *statedb.ContractState {
	sdb := statedb.NewStateDB(vf.NewKV(), nil, false)
	scs, err := statedb.GetSystemAccountState(sdb)
	if err != nil {
		panic(err)
	}
	return scs
}

// vfPow: a voting power of exactly 11 bytes (2^80 <= p < 2^88; keeps the length split of votingPower.marshal small)
func vfPow(name string) *big.Int {
	p := vf.Big(name)
	lo := new(big.Int).SetBytes(append([]byte{1}, make([]byte, 10)...))
	hi := new(big.Int).SetBytes(append([]byte{1}, make([]byte, 11)...))
	vf.Assume(vf.And(p.Cmp(lo) >= 0, p.Cmp(hi) < 0))
	return p
}

type vfVoter struct {
	addr []byte
	id   types.AccountID
	pow  *big.Int
}

// canonical order: bucket index ascending, then account id DESCENDING (vprStore.update inserts a voter before the first
// element whose id is not greater)
func vfCanonical(vs []vfVoter) []vfVoter {
	out := append([]vfVoter{}, vs...)
	for i := 1; i < len(out); i++ {
		for j := i; j > 0; j-- {
			a, b := out[j-1], out[j]
			ia, ib := getBucketIdx(a.id), getBucketIdx(b.id)
			if ia > ib || (ia == ib && bytes.Compare(a.id[:], b.id[:]) < 0) {
				out[j-1], out[j] = b, a
			}
		}
	}
	return out
}

func VF_C02_a_vprwinner() {
	// voters: layout 0 = A, B, F in two buckets (A and F share one); layout 1 (layouts=2) = A, B, C in three buckets
	addrs := [][]byte{vfAddrA, vfAddrB, vfAddrF}
	if vf.Choice("layout", vf.Param("layouts", 1)) == 1 {
		addrs = [][]byte{vfAddrA, vfAddrB, vfAddrC}
	}
	nv := 2 + vf.Choice("voters", 2)
	addrs = addrs[:nv]
	if nv == 2 && vf.Choice("sameBucket", 2) == 1 {
		addrs = [][]byte{vfAddrA, vfAddrF} // one bucket only: nothing to permute, the walk inside the list
	}
	scs := vfNewSysScs()
	v := newVpr()
	var vs []vfVoter
	vf.NoMapPerm(true) // building: one voter per apply, as the vote commands do
	for _, a := range addrs {
		vt := vfVoter{addr: a, id: types.ToAccountID(a), pow: vfPow("power")}
		v.add(vt.id, vt.addr, vt.pow)
		if _, err := v.apply(scs); err != nil {
			panic(err)
		}
		vs = append(vs, vt)
	}
	vf.NoMapPerm(false)
	total := v.getTotalPower()
	rr := vf.Big("rand")
	vf.Assume(rr.Cmp(total) < 0)
	vfRandOverride = func(seed int64, n, r *big.Int) *big.Int { return new(big.Int).Set(rr) }
	defer func() { vfRandOverride = nil }()
	seed := vf.I64("seed")
	// expected winner: the canonical walk
	canon := vfCanonical(vs)
	isW := make([]bool, len(canon))
	cum := new(big.Int)
	prev := false
	for i, c := range canon {
		cum = new(big.Int).Add(cum, c.pow)
		hit := rr.Cmp(cum) < 0
		isW[i] = vf.And(hit, !prev)
		prev = hit
	}
	expected := func(w []byte) bool {
		ok := false
		for i, c := range canon {
			ok = vf.Or(ok, vf.And(isW[i], bytes.Equal(w, c.addr)))
		}
		return ok
	}
	w1, err := v.pickVotingRewardWinner(seed)
	vf.Reach("C02.a.vprwinner")
	vf.Assert(err == nil, "C02.a.vprwinner.nowinner")
	// further calls under independently chosen iteration orders (natively the order cannot be chosen: repeat)
	reps := 1
	if !vf.Symbolic() {
		reps = 200
	}
	same, canonOK := true, expected(w1)
	for k := 0; k < reps; k++ {
		w2, err2 := v.pickVotingRewardWinner(seed)
		same = vf.And(same, vf.And(err2 == nil, bytes.Equal(w1, w2)))
		canonOK = vf.And(canonOK, expected(w2))
	}
	vf.Assert(same, "C02.a.vprwinner")
	vf.Assert(canonOK, "C02.a.vprwinner.canonical")
	vf.Observe("winner", w1)
}

// C02.a (vpr.apply + vprStore.write): a batch of pending voting power changes applied by ONE apply (range over the
// changes map, then range over the set of touched buckets) gives, for every iteration order of both maps, the same
// in-memory rank and the same bucket bytes in the system contract state as applying the changes one by one (where no map
// has more than one entry, so no order is involved).
func VF_C02_a_vprapply() {
	addrs := [][]byte{vfAddrA, vfAddrF, vfAddrB}[:vf.Param("voters", 2)]
	vf.Assert(getBucketIdx(types.ToAccountID(vfAddrA)) == getBucketIdx(types.ToAccountID(vfAddrF)), "harness.layout")
	vf.Assert(getBucketIdx(types.ToAccountID(vfAddrA)) == getBucketIdx(types.ToAccountID(vfAddrG)), "harness.layout")
	var vs []vfVoter
	for _, a := range addrs {
		vs = append(vs, vfVoter{addr: a, id: types.ToAccountID(a), pow: vfPow("power")})
	}
	// optionally a voter applied earlier that shares the bucket of A and F (its id lies between theirs)
	pre := vf.Choice("pre", 2) == 1
	preV := vfVoter{addr: vfAddrG, id: types.ToAccountID(vfAddrG)}
	if pre {
		preV.pow = vfPow("power")
	}
	build := func(batch bool) (*vpr, *statedb.ContractState) {
		scs := vfNewSysScs()
		v := newVpr()
		vf.NoMapPerm(true)
		if pre {
			v.add(preV.id, preV.addr, preV.pow)
			if _, err := v.apply(scs); err != nil {
				panic(err)
			}
		}
		for _, vt := range vs {
			v.add(vt.id, vt.addr, vt.pow)
			if !batch {
				if _, err := v.apply(scs); err != nil {
					panic(err)
				}
			}
		}
		vf.NoMapPerm(false)
		if batch {
			n, err := v.apply(scs) // every order of `range v.changes` and of `range updRows`
			vf.Assert(err == nil, "C02.a.vprapply")
			vf.Assert(n == len(vs), "C02.a.vprapply")
		}
		return v, scs
	}
	ref, refScs := build(false)
	reps := 1
	if !vf.Symbolic() {
		reps = 50
	}
	for k := 0; k < reps; k++ {
		got, gotScs := build(true)
		vf.Reach("C02.a.vprapply")
		vfVprSame(got, ref, "C02.a.vprapply", false)
		for i := uint8(0); i < vprBucketsMax; i++ {
			x, err1 := gotScs.GetData(dbkey.SystemVpr(i))
			y, err2 := refScs.GetData(dbkey.SystemVpr(i))
			vf.Assert(err1 == nil && err2 == nil, "C02.a.vprapply.bytes")
			vf.Assert(bytes.Equal(x, y), "C02.a.vprapply.bytes")
		}
	}
	vf.Observe("total", ref.getTotalPower())
}
