package contract

import (
	"errors"
	"math/big"

	"github.com/aergoio/aergo/v2/state"
	"github.com/aergoio/aergo/v2/state/statedb"
	"github.com/aergoio/aergo/v2/types"
	vf "github.com/aergoio/aergo/v2/zzvf"
)

// ---------------------------------------------------------------------------------------------
// C20.a: a host callback invoked in a read-only context (query, or inside a view function) does not change state.
//
// The real callback bodies of vm_callback.go (their `go tool cgo` translation) run against a real vmContext: a
// contract with a real statedb.ContractState (storage buffer over the KV model), real account states of the contract,
// of a second account and of aergo.system. isQuery / nestedView are symbolic, constrained only by "read-only".
// After the call the observable state must be what it was before: storage buffer revisions of the contract and of
// aergo.system, balances and nonces, events, recovery points, SQL transaction handle, update-size counter.

var (
	vfCid    = append([]byte{0x02}, vfFill(32, 0x31)...) // the running contract
	vfOther  = append([]byte{0x03}, vfFill(32, 0x32)...) // another account
	vfSender = append([]byte{0x02}, vfFill(32, 0x33)...) // who called the contract
)

func vfFill(n int, b byte) []byte {
	out := make([]byte, n)
	for i := range out {
		out[i] = b
	}
	return out
}

type vfWorld struct {
	ctx      *vmContext
	sdb      *statedb.StateDB
	ctr      *statedb.ContractState
	acc      *state.AccountState
	sysCs    *callState
	otherCs  *callState
	snap     vfSnap
	readOnly bool
}

type vfSnap struct {
	ctrRev, sysRev   statedb.Snapshot
	bal, sysBal, oth *big.Int
	nonce            uint64
	nEvents          int
	eventCount       int32
	lastRP           *recoveryPoint
	tx               sqlTx
	updSize          int64
	nCallState       int
	curContract      *contractInfo
	sdbRev           statedb.Snapshot
}

// vfNewWorld installs contexts[0]. roMode: 0 = arbitrary read-only flags (isQuery || nestedView > 0), 1 = not read-only.
func vfNewWorld(readOnly bool) *vfWorld {
	w := &vfWorld{readOnly: readOnly}
	w.sdb = statedb.NewStateDB(vf.NewKV(), nil, false)
	bs := &state.BlockState{StateDB: w.sdb}
	bal := vf.Big("balance")
	vf.Assume(bal.Cmp(types.MaxAER) <= 0)
	st := &types.State{Balance: bal.Bytes(), CodeHash: []byte{1}, SqlRecoveryPoint: 1}
	w.acc = state.InitAccountState(vfCid, w.sdb, st, st.Clone())
	ctr, err := statedb.OpenContractState(vfCid, w.acc.State(), w.sdb)
	if err != nil {
		panic(err)
	}
	w.ctr = ctr
	cs := &callState{ctrState: ctr, accState: w.acc}
	// aergo.system and a plain account are already part of the call (as after an earlier governance call / send)
	sysAcc, _ := state.GetAccountState([]byte(types.AergoSystem), w.sdb)
	sysCtr, _ := statedb.OpenContractState([]byte(types.AergoSystem), sysAcc.State(), w.sdb)
	w.sysCs = &callState{isCallback: true, ctrState: sysCtr, accState: sysAcc}
	othAcc, _ := state.GetAccountState(vfOther, w.sdb)
	w.otherCs = &callState{isCallback: true, accState: othAcc}

	isQuery := vf.Bool("isQuery")
	nested := vf.I32("nestedView")
	vf.Assume(nested >= 0)
	if readOnly {
		vf.Assume(vf.Or(isQuery, nested > 0))
	} else {
		vf.Assume(!vf.Or(isQuery, nested > 0))
	}
	ver := vf.I32("forkVersion")
	vf.Assume(ver >= 2)
	vf.Assume(ver <= 4)
	ctx := &vmContext{
		curContract: newContractInfo(cs, vfSender, vfCid, 1, new(big.Int)),
		bs:          bs,
		origin:      vfSender,
		txHash:      vfFill(32, 0x44),
		blockInfo:   &types.BlockHeaderInfo{No: vf.U64("blockNo"), ForkVersion: ver},
		confirmed:   true,
		isQuery:     isQuery,
		nestedView:  nested,
		service:     0,
		gasLimit:    vf.U64("gasLimit"),
		callState:   map[types.AccountID]*callState{},
	}
	ctx.remainedGas = ctx.gasLimit
	ctx.callState[types.ToAccountID(vfCid)] = cs
	ctx.callState[types.ToAccountID([]byte(types.AergoSystem))] = w.sysCs
	ctx.callState[types.ToAccountID(vfOther)] = w.otherCs
	// one event was emitted earlier in the transaction (a view function can run late in a transaction)
	ctx.events = append(ctx.events, &types.Event{ContractAddress: vfCid, EventName: "e"})
	ctx.eventCount = 1
	w.ctx = ctx
	contexts = []*vmContext{ctx}
	maxContext = 1
	w.snap = w.take()
	return w
}

func (w *vfWorld) take() vfSnap {
	c := w.ctx
	return vfSnap{
		ctrRev: w.ctr.Snapshot(), sysRev: w.sysCs.ctrState.Snapshot(),
		bal: w.acc.Balance(), sysBal: w.sysCs.accState.Balance(), oth: w.otherCs.accState.Balance(),
		nonce: w.acc.Nonce(), nEvents: len(c.events), eventCount: c.eventCount, lastRP: c.lastRecoveryPoint,
		tx: w.ctr2cs().tx, updSize: c.dbUpdateTotalSize, nCallState: len(c.callState), curContract: c.curContract,
		sdbRev: w.sdb.Snapshot(),
	}
}

func (w *vfWorld) ctr2cs() *callState { return w.ctx.callState[types.ToAccountID(vfCid)] }

// unchanged asserts that the observable state equals the snapshot taken before the callback ran.
func (w *vfWorld) unchanged(ob string) {
	a, b := w.snap, w.take()
	vf.Assert(a.ctrRev == b.ctrRev, ob+".storage")
	vf.Assert(a.sysRev == b.sysRev, ob+".storage")
	vf.Assert(a.sdbRev == b.sdbRev, ob+".storage")
	vf.Assert(a.bal.Cmp(b.bal) == 0, ob+".balance")
	vf.Assert(a.sysBal.Cmp(b.sysBal) == 0, ob+".balance")
	vf.Assert(a.oth.Cmp(b.oth) == 0, ob+".balance")
	vf.Assert(a.nonce == b.nonce, ob+".balance")
	vf.Assert(a.nEvents == b.nEvents, ob+".events")
	vf.Assert(a.eventCount == b.eventCount, ob+".events")
	vf.Assert(a.lastRP == b.lastRP, ob+".recovery")
	vf.Assert(a.tx == b.tx, ob+".sql")
	vf.Assert(a.updSize == b.updSize, ob+".storage")
	vf.Assert(a.curContract == b.curContract, ob+".context")
	// the flags themselves stay read-only
	vf.Assert(vf.Or(w.ctx.isQuery, w.ctx.nestedView > 0), ob+".context")
}

func vfCStr(name string, n int) *_Ctype_char { return _Cfunc_CString(vf.Str(name, n)) }

// core callbacks: storage write / delete, event, recovery point, governance
func VF_C20_a_setdb() {
	w := vfNewWorld(true)
	n := vf.Choice("keyLen", vf.Param("maxLen", 4)+1)
	key := vf.Bytes("key", n)
	r := luaSetDB(nil, 0, _Cfunc_CBytes(key), _Ctype_int(n), vfCStr("value", vf.Choice("valueLen", vf.Param("maxLen", 4)+1)))
	vf.Reach("C20.a.setdb")
	w.unchanged("C20.a.setdb")
	vf.Assert(r != nil, "C20.a.setdb.refused") // the refusal is reported to the VM as an error string
	vf.Observe("refused", r != nil)
}

func VF_C20_a_deldb() {
	w := vfNewWorld(true)
	n := vf.Choice("keyLen", vf.Param("maxLen", 4)+1)
	key := vf.Bytes("key", n)
	r := luaDelDB(nil, 0, _Cfunc_CBytes(key), _Ctype_int(n))
	vf.Reach("C20.a.deldb")
	w.unchanged("C20.a.deldb")
	vf.Assert(r != nil, "C20.a.deldb.refused")
	vf.Observe("refused", r != nil)
}

func VF_C20_a_event() {
	w := vfNewWorld(true)
	max := vf.Param("maxLen", 4)
	r := luaEvent(nil, 0, vfCStr("name", vf.Choice("nameLen", max+1)), vfCStr("args", vf.Choice("argsLen", max+1)))
	vf.Reach("C20.a.event")
	w.unchanged("C20.a.event")
	vf.Assert(r != nil, "C20.a.event.refused")
	vf.Observe("refused", r != nil)
}

func VF_C20_a_recovery() {
	w := vfNewWorld(true)
	seq, r := luaSetRecoveryPoint(nil, 0)
	vf.Reach("C20.a.recovery")
	w.unchanged("C20.a.recovery")
	vf.Assert(r == nil, "C20.a.recovery.noop")
	vf.Assert(seq == 0, "C20.a.recovery.noop") // "no recovery point": the C side then skips luaClearRecovery
	vf.Observe("seq", int32(seq))
}

// governance: the arguments are concrete well-formed requests (a stake of 10000 aergo that would succeed outside a
// read-only context, an unstake, a BP vote, a parameter vote, an unknown type); what is symbolic is the context.
// encoding/json is replaced under the engine by vfJSONUnmarshal/vfJSONMarshal, exact for these payloads.
var vfGovArgs = []struct {
	t   byte
	arg string
}{
	{'S', "10000 aergo"},
	{'U', "10000 aergo"},
	{'V', `["16Uiu2HAmGiJ2QgVAWHMUtzLKKNM5eFUJ3Ds3FN7nYJq1mHN5ZPj9"]`},
	{'D', `["BPCOUNT","3"]`},
	{'X', ""},
}

func vfJSONUnmarshal(data []byte, v interface{}) error {
	ci, ok := v.(*types.CallInfo)
	if !ok {
		vf.Fail("harness.json-stub")
		return errors.New("vf: unsupported json target")
	}
	switch string(data) {
	case `{"Name":"v1stake"}`:
		ci.Name = "v1stake"
	case `{"Name":"v1unstake"}`:
		ci.Name = "v1unstake"
	case `{"Name":"v1voteBP","Args":["16Uiu2HAmGiJ2QgVAWHMUtzLKKNM5eFUJ3Ds3FN7nYJq1mHN5ZPj9"]}`:
		ci.Name = "v1voteBP"
		ci.Args = []interface{}{"16Uiu2HAmGiJ2QgVAWHMUtzLKKNM5eFUJ3Ds3FN7nYJq1mHN5ZPj9"}
	case `{"Name":"v1voteDAO","Args":["BPCOUNT","3"]}`:
		ci.Name = "v1voteDAO"
		ci.Args = []interface{}{"BPCOUNT", "3"}
	default:
		vf.Fail("harness.json-stub")
		return errors.New("vf: unsupported json input")
	}
	return nil
}

func vfJSONMarshal(v interface{}) ([]byte, error) { return []byte(`"?"`), nil }

func VF_C20_a_governance() {
	w := vfNewWorld(true)
	g := vfGovArgs[vf.Choice("gType", len(vfGovArgs))]
	r := luaGovernance(nil, 0, _Ctype_char(g.t), _Cfunc_CString(g.arg))
	vf.Reach("C20.a.governance")
	w.unchanged("C20.a.governance")
	vf.Assert(r != nil, "C20.a.governance.refused")
	vf.Observe("refused", r != nil)
}

// C20.b: view nesting. luaViewStart/End move the depth by exactly one, and the guards test depth > 0 (a nested view
// inside a view stays read-only after the inner view ends).
func VF_C20_b() {
	w := vfNewWorld(true)
	d0 := w.ctx.nestedView
	vf.Assume(d0 < 1<<30)
	luaViewStart(0)
	vf.Assert(w.ctx.nestedView == d0+1, "C20.b.depth")
	vf.Assert(int32(luaCheckView(0)) == d0+1, "C20.b.depth")
	luaViewStart(0)
	luaViewEnd(0)
	vf.Reach("C20.b")
	// still inside the outer view: a write must be refused
	key := vf.Bytes("key", 2)
	r := luaSetDB(nil, 0, _Cfunc_CBytes(key), 2, vfCStr("value", 2))
	vf.Assert(r != nil, "C20.b.nested-refused")
	luaViewEnd(0)
	vf.Assert(w.ctx.nestedView == d0, "C20.b.depth")
	w.unchanged("C20.b")
}
