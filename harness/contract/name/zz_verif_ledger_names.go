package name

import "github.com/aergoio/aergo/v2/state/statedb"

// VFRegister (harness support, ledger family) writes one entry of the name registry through the real registerOwner
// (serializeNameMap + SetData): used to build a pre-state in which a name, or the owner of aergo.name, was registered by
// an earlier block.
func VFRegister(scs *statedb.ContractState, name, owner, destination []byte) error {
	return registerOwner(scs, name, owner, destination)
}
