package name

import (
	"bytes"
	"encoding/json"
	"errors"
	"math/big"

	"github.com/aergoio/aergo/v2/contract/system"
	"github.com/aergoio/aergo/v2/state"
	"github.com/aergoio/aergo/v2/state/statedb"
	"github.com/aergoio/aergo/v2/types"
	vf "github.com/aergoio/aergo/v2/zzvf"
)

// ---------------------------------------------------------------------------------------------
// C15.f names: a name has at most one owner, is created only for the price and by nobody while it is owned, and is
// changed only by its owner (or by the account that IS the name); the stored record round-trips.
// Payload handling as in the system harness: real JSON natively, a handle + stubbed encoding/json under the engine.

var vfCalls []*types.CallInfo

func vfNative() bool      { return true }
func vfNativeFalse() bool { return false }

func vfPayload(name string, args []interface{}) []byte {
	ci := &types.CallInfo{Name: name, Args: args}
	if vfNative() {
		b, err := json.Marshal(ci)
		if err != nil {
			panic(err)
		}
		return b
	}
	vfCalls = append(vfCalls, ci)
	return []byte{'#', byte(len(vfCalls) - 1)}
}

func vfUnmarshal(data []byte, v interface{}) error {
	if len(data) == 2 && data[0] == '#' {
		if ci, ok := v.(*types.CallInfo); ok {
			src := vfCalls[data[1]]
			ci.Name = src.Name
			ci.Args = append([]interface{}{}, src.Args...)
			return nil
		}
	}
	vf.Fail("harness.json-stub")
	return errors.New("vf: unsupported json use")
}

func vfFill(n int, b byte) []byte {
	out := make([]byte, n)
	for i := range out {
		out[i] = b
	}
	return out
}

var (
	vfSender = append([]byte{0x02}, vfFill(32, 0x51)...)
	vfName   = "abcdefghijkl"
	vfBound  = new(big.Int).Mul(big.NewInt(1<<44), big.NewInt(1<<44)) // 2^88
)

type vfNames struct {
	sdb      *statedb.StateDB
	bs       *state.BlockState
	scs      *statedb.ContractState
	sender   *state.AccountState
	receiver *state.AccountState
	bal      *big.Int
	owner    []byte // nil: the name is free
	dest     []byte
}

func vfNewNames() *vfNames {
	w := &vfNames{}
	w.sdb = statedb.NewStateDB(vf.NewKV(), nil, false)
	w.bs = &state.BlockState{StateDB: w.sdb}
	var err error
	w.receiver, err = state.GetAccountState([]byte(types.AergoName), w.sdb)
	if err != nil {
		panic(err)
	}
	w.scs, err = statedb.OpenContractState(w.receiver.ID(), w.receiver.State(), w.sdb)
	if err != nil {
		panic(err)
	}
	w.bal = vf.Big("balance")
	vf.Assume(w.bal.Cmp(vfBound) < 0)
	w.sender = state.InitAccountState(vfSender, w.sdb, &types.State{Balance: w.bal.Bytes()}, &types.State{Balance: w.bal.Bytes()})
	if vf.Choice("owned", 2) == 1 {
		w.owner = vf.Bytes("owner", types.AddressLength)
		w.dest = vf.Bytes("dest", types.AddressLength)
		if err := registerOwner(w.scs, []byte(vfName), w.owner, w.dest); err != nil {
			panic(err)
		}
	}
	return w
}

// create: through the real ExecuteNameTx
func VF_C15_f_create() {
	w := vfNewNames()
	amount := vf.Big("amount")
	vf.Assume(amount.Cmp(vfBound) < 0)
	tx := &types.TxBody{Account: vfSender, Recipient: []byte(types.AergoName), Amount: amount.Bytes(),
		Payload: vfPayload(types.NameCreate, []interface{}{vfName}), Type: types.TxType_GOVERNANCE}
	recvBefore := w.receiver.Balance()
	_, err := ExecuteNameTx(w.bs, w.scs, tx, w.sender, w.receiver, &types.BlockHeaderInfo{No: vf.U64("blockNo"), ForkVersion: 3})
	vf.Reach("C15.f.create")
	if err == nil {
		vf.Assert(w.owner == nil, "C15.f.create-occupied") // an owned name is never re-created
		vf.Assert(amount.Cmp(system.GetNamePrice()) >= 0, "C15.f.create-price")
		vf.Assert(w.bal.Cmp(amount) >= 0, "C15.f.create-funds")
		vf.Assert(bytes.Equal(getOwner(w.scs, []byte(vfName), false), vfSender), "C15.f.create-owner")
		nm := getNameMap(w.scs, []byte(vfName), false)
		vf.Assert(nm != nil, "C15.f.create-owner")
		if nm != nil {
			vf.Assert(bytes.Equal(nm.Destination, vfSender), "C15.f.create-owner")
		}
		// the price is paid to the name contract, exactly
		vf.Assert(new(big.Int).Sub(w.bal, w.sender.Balance()).Cmp(amount) == 0, "C15.f.create-paid")
		vf.Assert(new(big.Int).Sub(w.receiver.Balance(), recvBefore).Cmp(amount) == 0, "C15.f.create-paid")
	} else {
		// refused: nothing changed
		vf.Assert(w.sender.Balance().Cmp(w.bal) == 0, "C15.f.create-refused")
		if w.owner != nil {
			vf.Assert(bytes.Equal(getOwner(w.scs, []byte(vfName), false), w.owner), "C15.f.create-refused")
		} else {
			vf.Assert(getOwner(w.scs, []byte(vfName), false) == nil, "C15.f.create-refused")
		}
	}
	vf.Observe("ok", err == nil)
}

// update: who may change a name (real ValidateNameTx; the tx account is symbolic)
func VF_C15_f_update() {
	w := vfNewNames()
	amount := vf.Big("amount")
	vf.Assume(amount.Cmp(vfBound) < 0)
	account := vf.Bytes("account", types.AddressLength)
	if vf.Choice("accountIsName", 2) == 1 {
		account = []byte(vfName)
	}
	to := types.EncodeAddress(vfSender)
	tx := &types.TxBody{Account: account, Recipient: []byte(types.AergoName), Amount: amount.Bytes(),
		Payload: vfPayload(types.NameUpdate, []interface{}{vfName, to}), Type: types.TxType_GOVERNANCE}
	ci, err := ValidateNameTx(tx, w.sender, w.scs)
	vf.Reach("C15.f.update")
	if err == nil {
		isName := bytes.Equal(account, []byte(vfName))
		isOwner := w.owner != nil && bytes.Equal(account, w.owner)
		vf.Assert(vf.Or(isName, isOwner), "C15.f.update-owner")
		vf.Assert(amount.Cmp(system.GetNamePrice()) >= 0, "C15.f.update-price")
		vf.Assert(w.bal.Cmp(amount) >= 0, "C15.f.update-funds")
		vf.Assert(ci != nil && ci.Name == types.NameUpdate, "C15.f.update-owner")
	}
	vf.Observe("ok", err == nil)
}

// the stored record round-trips (owner / destination of any length 0..maxLen or an address)
func VF_C15_f_codec() {
	max := vf.Param("maxLen", 3)
	lens := []int{}
	for i := 0; i <= max; i++ {
		lens = append(lens, i)
	}
	lens = append(lens, types.NameLength, types.AddressLength)
	n := &NameMap{Version: 1, Owner: vf.Bytes("owner", lens[vf.Choice("ownerLen", len(lens))]),
		Destination: vf.Bytes("dest", lens[vf.Choice("destLen", len(lens))])}
	back := deserializeNameMap(serializeNameMap(n))
	vf.Reach("C15.f.codec")
	vf.Assert(back != nil, "C15.f.codec")
	if back != nil {
		vf.Assert(back.Version == 1, "C15.f.codec")
		vf.Assert(bytes.Equal(back.Owner, n.Owner), "C15.f.codec")
		vf.Assert(bytes.Equal(back.Destination, n.Destination), "C15.f.codec")
	}
	vf.Observe("len", len(serializeNameMap(n)))
}
