package name

import (
	"bytes"
	"encoding/json"
	"errors"
	"math/big"

	"github.com/aergoio/aergo/v2/contract/system"
	"github.com/aergoio/aergo/v2/state"
	"github.com/aergoio/aergo/v2/state/statedb"
	"github.com/aergoio/aergo/v2/types"
	vf "github.com/aergoio/aergo/v2/zzvf"
)

// ---------------------------------------------------------------------------------------------
// C15.f names: a name has at most one owner, is created only for the price and by nobody while it is owned, and is
// changed only by its owner (or by the account that IS the name); the stored record round-trips.
// Payload handling as in the system harness: real JSON natively, a handle + stubbed encoding/json under the engine.

var vfCalls []*types.CallInfo

func vfNative() bool      { return true }
func vfNativeFalse() bool { return false }

func vfPayload(name string, args []interface{}) []byte {
	ci := &types.CallInfo{Name: name, Args: args}
	if vfNative() {
		b, err := json.Marshal(ci)
		if err != nil {
			panic(err)
		}
		return b
	}
	vfCalls = append(vfCalls, ci)
	return []byte{'#', byte(len(vfCalls) - 1)}
}

func vfUnmarshal(data []byte, v interface{}) error {
	if len(data) == 2 && data[0] == '#' {
		if ci, ok := v.(*types.CallInfo); ok {
			src := vfCalls[data[1]]
			ci.Name = src.Name
			ci.Args = append([]interface{}{}, src.Args...)
			return nil
		}
	}
	vf.Fail("harness.json-stub")
	return errors.New("vf: unsupported json use")
}

func vfFill(n int, b byte) []byte {
	out := make([]byte, n)
	for i := range out {
		out[i] = b
	}
	return out
}

var (
	vfSender = append([]byte{0x02}, vfFill(32, 0x51)...)
	vfName   = "abcdefghijkl"
	vfBound  = new(big.Int).Mul(big.NewInt(1<<44), big.NewInt(1<<44)) // 2^88
)

type vfNames struct {
	sdb      *statedb.StateDB
	bs       *state.BlockState
	scs      *statedb.ContractState
	sender   *state.AccountState
	receiver *state.AccountState
	bal      *big.Int
	owner    []byte // nil: the name is free
	dest     []byte
}

func vfNewNames() *vfNames {
	w := &vfNames{}
	w.sdb = statedb.NewStateDB(vf.NewKV(), nil, false)
	w.bs = &state.BlockState{StateDB: w.sdb}
	var err error
	w.receiver, err = state.GetAccountState([]byte(types.AergoName), w.sdb)
	if err != nil {
		panic(err)
	}
	w.scs, err = statedb.OpenContractState(w.receiver.ID(), w.receiver.State(), w.sdb)
	if err != nil {
		panic(err)
	}
	w.bal = vf.Big("balance")
	vf.Assume(w.bal.Cmp(vfBound) < 0)
	w.sender = state.InitAccountState(vfSender, w.sdb, &types.State{Balance: w.bal.Bytes()}, &types.State{Balance: w.bal.Bytes()})
	if vf.Choice("owned", 2) == 1 {
		w.owner = vf.Bytes("owner", types.AddressLength)
		w.dest = vf.Bytes("dest", types.AddressLength)
		if err := registerOwner(w.scs, []byte(vfName), w.owner, w.dest); err != nil {
			panic(err)
		}
	}
	return w
}

// create: through the real ExecuteNameTx
func VF_C15_f_create() {
	w := vfNewNames()
	amount := vf.Big("amount")
	vf.Assume(amount.Cmp(vfBound) < 0)
	tx := &types.TxBody{Account: vfSender, Recipient: []byte(types.AergoName), Amount: amount.Bytes(),
		Payload: vfPayload(types.NameCreate, []interface{}{vfName}), Type: types.TxType_GOVERNANCE}
	recvBefore := w.receiver.Balance()
	_, err := ExecuteNameTx(w.bs, w.scs, tx, w.sender, w.receiver, &types.BlockHeaderInfo{No: vf.U64("blockNo"), ForkVersion: 3})
	vf.Reach("C15.f.create")
	if err == nil {
		vf.Assert(w.owner == nil, "C15.f.create-occupied") // an owned name is never re-created
		vf.Assert(amount.Cmp(system.GetNamePrice()) >= 0, "C15.f.create-price")
		vf.Assert(w.bal.Cmp(amount) >= 0, "C15.f.create-funds")
		vf.Assert(bytes.Equal(getOwner(w.scs, []byte(vfName), false), vfSender), "C15.f.create-owner")
		nm := getNameMap(w.scs, []byte(vfName), false)
		vf.Assert(nm != nil, "C15.f.create-owner")
		if nm != nil {
			vf.Assert(bytes.Equal(nm.Destination, vfSender), "C15.f.create-owner")
		}
		// the price is paid to the name contract, exactly
		vf.Assert(new(big.Int).Sub(w.bal, w.sender.Balance()).Cmp(amount) == 0, "C15.f.create-paid")
		vf.Assert(new(big.Int).Sub(w.receiver.Balance(), recvBefore).Cmp(amount) == 0, "C15.f.create-paid")
	} else {
		// refused: nothing changed
		vf.Assert(w.sender.Balance().Cmp(w.bal) == 0, "C15.f.create-refused")
		if w.owner != nil {
			vf.Assert(bytes.Equal(getOwner(w.scs, []byte(vfName), false), w.owner), "C15.f.create-refused")
		} else {
			vf.Assert(getOwner(w.scs, []byte(vfName), false) == nil, "C15.f.create-refused")
		}
	}
	vf.Observe("ok", err == nil)
}

// update: who may change a name (real ValidateNameTx; the tx account is symbolic)
func VF_C15_f_update() {
	w := vfNewNames()
	amount := vf.Big("amount")
	vf.Assume(amount.Cmp(vfBound) < 0)
	account := vf.Bytes("account", types.AddressLength)
	if vf.Choice("accountIsName", 2) == 1 {
		account = []byte(vfName)
	}
	to := types.EncodeAddress(vfSender)
	tx := &types.TxBody{Account: account, Recipient: []byte(types.AergoName), Amount: amount.Bytes(),
		Payload: vfPayload(types.NameUpdate, []interface{}{vfName, to}), Type: types.TxType_GOVERNANCE}
	ci, err := ValidateNameTx(tx, w.sender, w.scs)
	vf.Reach("C15.f.update")
	if err == nil {
		isName := bytes.Equal(account, []byte(vfName))
		isOwner := w.owner != nil && bytes.Equal(account, w.owner)
		vf.Assert(vf.Or(isName, isOwner), "C15.f.update-owner")
		vf.Assert(amount.Cmp(system.GetNamePrice()) >= 0, "C15.f.update-price")
		vf.Assert(w.bal.Cmp(amount) >= 0, "C15.f.update-funds")
		vf.Assert(ci != nil && ci.Name == types.NameUpdate, "C15.f.update-owner")
	}
	vf.Observe("ok", err == nil)
}

// the stored record round-trips (owner / destination of any length 0..maxLen or an address)
func VF_C15_f_codec() {
	max := vf.Param("maxLen", 3)
	lens := []int{}
	for i := 0; i <= max; i++ {
		lens = append(lens, i)
	}
	lens = append(lens, types.NameLength, types.AddressLength)
	n := &NameMap{Version: 1, Owner: vf.Bytes("owner", lens[vf.Choice("ownerLen", len(lens))]),
		Destination: vf.Bytes("dest", lens[vf.Choice("destLen", len(lens))])}
	back := deserializeNameMap(serializeNameMap(n))
	vf.Reach("C15.f.codec")
	vf.Assert(back != nil, "C15.f.codec")
	if back != nil {
		vf.Assert(back.Version == 1, "C15.f.codec")
		vf.Assert(bytes.Equal(back.Owner, n.Owner), "C15.f.codec")
		vf.Assert(bytes.Equal(back.Destination, n.Destination), "C15.f.codec")
	}
	vf.Observe("len", len(serializeNameMap(n)))
}

// ---------------------------------------------------------------------------------------------
// C15.f within one block: the state committed at the block start (what GetInitialData sees) and the changes staged by
// earlier transactions of the SAME block are different things; "owner" in "changed only by its owner" is the CURRENT
// owner. Two name transactions are executed the way chain.executeGovernanceTx does it (real ExecuteNameTx, then
// StageContractState, the contract state re-opened for the next transaction, nothing committed in between) against a
// ghost of the specification; then ANY account (symbolic) asks to update / create the name (real ValidateNameTx); then
// the block boundary (storage update + stage) and the committed owner is compared with the ghost.

var (
	vfPartyA = append([]byte{0x02}, vfFill(32, 0x51)...)
	vfPartyB = append([]byte{0x03}, vfFill(32, 0x62)...)
	vfPartyC = append([]byte{0x02}, vfFill(32, 0x73)...)
)

type vfBlock struct {
	sdb      *statedb.StateDB
	bs       *state.BlockState
	receiver *state.AccountState
	party    [][]byte
	acc      []*state.AccountState
	bal      []*big.Int
	// ghost
	committed bool   // the name has a record committed at block start
	owner     []byte // current owner (nil: free)
	dest      []byte
}

func (w *vfBlock) open() *statedb.ContractState {
	scs, err := statedb.OpenContractState(w.receiver.ID(), w.receiver.State(), w.sdb)
	if err != nil {
		panic(err)
	}
	return scs
}

func (w *vfBlock) checkState(ob string) {
	scs := w.open()
	nm := getNameMap(scs, []byte(vfName), false)
	if w.owner == nil {
		vf.Assert(nm == nil, ob)
	} else {
		vf.Assert(nm != nil, ob)
		if nm != nil {
			vf.Assert(bytes.Equal(nm.Owner, w.owner), ob)
			vf.Assert(bytes.Equal(nm.Destination, w.dest), ob)
		}
	}
	for i := range w.acc {
		vf.Assert(w.acc[i].Balance().Cmp(w.bal[i]) == 0, ob)
	}
}

// one transaction by party x: kind 0 = create, 1.. = update to party kind-1; adequate: the amount covers the price and
// the sender has it (no case split on that)
func (w *vfBlock) tx(x, kind int, adequate bool) {
	amount := vf.Big("amount")
	vf.Assume(amount.Cmp(vfBound) < 0)
	if adequate {
		vf.Assume(amount.Cmp(system.GetNamePrice()) >= 0)
		vf.Assume(amount.Cmp(w.bal[x]) <= 0)
	}
	var payload []byte
	if kind == 0 {
		payload = vfPayload(types.NameCreate, []interface{}{vfName})
	} else {
		payload = vfPayload(types.NameUpdate, []interface{}{vfName, types.EncodeAddress(w.party[kind-1])})
	}
	tx := &types.TxBody{Account: w.party[x], Recipient: []byte(types.AergoName), Amount: amount.Bytes(), Payload: payload,
		Type: types.TxType_GOVERNANCE}
	scs := w.open()
	_, err := ExecuteNameTx(w.bs, scs, tx, w.acc[x], w.receiver, &types.BlockHeaderInfo{No: 10, ForkVersion: 3})
	if err == nil {
		if e := statedb.StageContractState(scs, w.sdb); e != nil {
			panic(e)
		}
	}
	priceOK := amount.Cmp(system.GetNamePrice()) >= 0
	fundsOK := amount.Cmp(w.bal[x]) <= 0
	isOwner := w.owner != nil && bytes.Equal(w.party[x], w.owner)
	if kind == 0 {
		if err == nil {
			vf.Reach("C15.f.block-create")
			vf.Assert(w.owner == nil, "C15.f.create-occupied") // never re-created while somebody owns it (also in-block)
			vf.Assert(priceOK, "C15.f.create-price")
			vf.Assert(fundsOK, "C15.f.create-funds")
			w.owner, w.dest = w.party[x], w.party[x]
			w.bal[x] = new(big.Int).Sub(w.bal[x], amount)
		} else {
			vf.Assert(vf.Or(w.owner != nil, vf.Or(!priceOK, !fundsOK)), "C15.f.create-refused")
		}
	} else {
		if err == nil {
			vf.Reach("C15.f.block-update")
			vf.Assert(isOwner, "C15.f.update-owner") // only the CURRENT owner (a 33-byte account is never the 12-byte name)
			vf.Assert(priceOK, "C15.f.update-price")
			vf.Assert(fundsOK, "C15.f.update-funds")
			w.owner, w.dest = w.party[kind-1], w.party[kind-1]
			w.bal[x] = new(big.Int).Sub(w.bal[x], amount)
		} else {
			// refusal reasons: price, funds, not the current owner, or the real rule that a name can be updated only
			// once its creation is committed (UpdateName reads the destination committed at block start)
			vf.Assert(vf.Or(vf.Or(!priceOK, !fundsOK), vf.Or(!isOwner, !w.committed)), "C15.f.update-refused")
		}
	}
	w.checkState("C15.f.block-state")
}

func VF_C15_f_block() {
	w := &vfBlock{}
	w.sdb = statedb.NewStateDB(vf.NewKV(), nil, false)
	w.bs = &state.BlockState{StateDB: w.sdb}
	var err error
	w.receiver, err = state.GetAccountState([]byte(types.AergoName), w.sdb)
	if err != nil {
		panic(err)
	}
	w.party = [][]byte{vfPartyA, vfPartyB, vfPartyC}
	for _, p := range w.party {
		b := vf.Big("balance")
		vf.Assume(b.Cmp(vfBound) < 0)
		w.bal = append(w.bal, b)
		w.acc = append(w.acc, state.InitAccountState(p, w.sdb, &types.State{Balance: b.Bytes()}, &types.State{Balance: b.Bytes()}))
	}
	// ---- committed at block start: the name is free, or owned by A and resolving to B (owner and destination differ)
	if vf.Choice("committed", 2) == 1 {
		scs := w.open()
		if err := registerOwner(scs, []byte(vfName), vfPartyA, vfPartyB); err != nil {
			panic(err)
		}
		if err := statedb.VFCommitStorage(scs); err != nil {
			panic(err)
		}
		if err := statedb.StageContractState(scs, w.sdb); err != nil {
			panic(err)
		}
		w.committed, w.owner, w.dest = true, vfPartyA, vfPartyB
		vf.Assert(bytes.Equal(GetOwner(w.open(), []byte(vfName)), vfPartyA), "C15.f.block-setup")
	}
	w.checkState("C15.f.block-setup")
	// ---- transaction 1 (adequate amount): A or B; create, or update to B or C
	x1 := vf.Choice("actor1", 2)
	k1 := []int{0, 2, 3}[vf.Choice("kind1", 3)]
	w.tx(x1, k1, true)
	// ---- transaction 2: A, B or C; create, or update to A or C; symbolic amount
	x2 := vf.Choice("actor2", 3)
	k2 := []int{0, 1, 3}[vf.Choice("kind2", 3)]
	w.tx(x2, k2, false)
	// ---- any account asks for an update / a create now: admitted only for the current owner / only if free
	probe := vf.Bytes("account", types.AddressLength)
	amount := vf.Big("amount")
	vf.Assume(amount.Cmp(vfBound) < 0)
	vf.Reach("C15.f.block")
	ptx := &types.TxBody{Account: probe, Recipient: []byte(types.AergoName), Amount: amount.Bytes(),
		Payload: vfPayload(types.NameUpdate, []interface{}{vfName, types.EncodeAddress(vfPartyC)}), Type: types.TxType_GOVERNANCE}
	if _, err := ValidateNameTx(ptx, nil, w.open()); err == nil {
		vf.Assert(w.owner != nil && bytes.Equal(probe, w.owner), "C15.f.update-owner")
	} else {
		vf.Assert(vf.Or(amount.Cmp(system.GetNamePrice()) < 0, !(w.owner != nil && bytes.Equal(probe, w.owner))), "C15.f.update-refused")
	}
	ctx := &types.TxBody{Account: probe, Recipient: []byte(types.AergoName), Amount: amount.Bytes(),
		Payload: vfPayload(types.NameCreate, []interface{}{vfName}), Type: types.TxType_GOVERNANCE}
	if _, err := ValidateNameTx(ctx, nil, w.open()); err == nil {
		vf.Assert(w.owner == nil, "C15.f.create-occupied")
	}
	// ---- block boundary: what is committed is the ghost's owner
	scs := w.open()
	if err := statedb.VFCommitStorage(scs); err != nil {
		panic(err)
	}
	statedb.StageContractState(scs, w.sdb)
	got := GetOwner(w.open(), []byte(vfName))
	if w.owner == nil {
		vf.Assert(got == nil, "C15.f.block-committed")
	} else {
		vf.Assert(bytes.Equal(got, w.owner), "C15.f.block-committed")
		vf.Assert(bytes.Equal(GetAddress(w.open(), []byte(vfName)), w.dest), "C15.f.block-committed")
	}
	vf.Observe("owner", w.owner)
}
