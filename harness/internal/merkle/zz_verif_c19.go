package merkle

import (
	"bytes"

	"github.com/minio/sha256-simd"

	vf "github.com/aergoio/aergo/v2/zzvf"
)

type vfEntry struct{ h []byte }

func (e vfEntry) GetHash() []byte { return e.h }

// leaves are digests of 8-byte preimages: a tx/receipt digest is the hash of an input whose
// length differs from 64 (the length of an interior node's input) — stated assumption.
func vfLeaves(tag string, n int) ([]MerkleEntry, [][]byte) {
	es := make([]MerkleEntry, n)
	hs := make([][]byte, n)
	for i := 0; i < n; i++ {
		d := sha256.Sum256(vf.Bytes(tag, 8))
		hs[i] = d[:]
		es[i] = vfEntry{hs[i]}
	}
	return es, hs
}

// C19.c: equal merkle roots => equal ordered lists (under collision freedom of SHA-256).
func VF_C19_c() {
	maxN := vf.Param("maxN", 4)
	n1 := vf.Choice("n1", maxN+1)
	n2 := vf.Choice("n2", maxN+1)
	if n2 < n1 {
		// symmetric: only n1 <= n2 is explored
		vf.Assume(false)
	}
	e1, h1 := vfLeaves("a", n1)
	e2, h2 := vfLeaves("b", n2)
	r1 := CalculateMerkleRoot(e1)
	r2 := CalculateMerkleRoot(e2)
	same := n1 == n2
	prefix := true
	for i := 0; i < n1 && i < n2; i++ {
		prefix = vf.And(prefix, bytes.Equal(h1[i], h2[i]))
	}
	same = vf.And(same, prefix)
	// class of known finding F1: the longer list extends the shorter one only by copies of its elements
	class := vf.And(n1 < n2, prefix)
	for j := n1; j < n2; j++ {
		dup := false
		for i := 0; i < n1; i++ {
			dup = vf.Or(dup, bytes.Equal(h2[j], h1[i]))
		}
		class = vf.And(class, dup)
	}
	vf.Reach("C19.c")
	vf.AssertKnown(vf.Implies(bytes.Equal(r1, r2), same), "C19.c", "F1-merkle-odd-duplication", class)
	vf.Observe("r1", r1)
	vf.Observe("r2", r2)
}
