package dpos

import (
	"crypto/rand"
	"time"

	"github.com/aergoio/aergo/v2/consensus"
	"github.com/aergoio/aergo/v2/consensus/impl/dpos/bp"
	"github.com/aergoio/aergo/v2/consensus/impl/dpos/slot"
	"github.com/aergoio/aergo/v2/types"
	vf "github.com/aergoio/aergo/v2/zzvf"
	"github.com/libp2p/go-libp2p/core/crypto"
)

// ---- producer identities.
// Natively vfBPs creates k real secp256k1 identities (base58 peer id + marshalled public key). For the engine the job
// replaces it by vfBPsSym (atoms "bp0".."bpk-1", public key = one byte i) together with
//   types.IDB58Decode        => vfIDDecodeSym   (atom -> PeerID, the libp2p multihash decoding is outside the technique)
//   (*BlockHeader).BPID      => vfHeaderBPIDSym (public key byte i -> atom i, anything else -> error)
// so that both sides agree on which identity signs and on the equality pattern between identities; the check never
// depends on the bytes of an identity.

func vfBPs(k int) (ids []string, pubs [][]byte) {
	for i := 0; i < k; i++ {
		_, pub, err := crypto.GenerateSecp256k1Key(rand.Reader)
		if err != nil {
			panic(err)
		}
		id, err := types.IDFromPublicKey(pub)
		if err != nil {
			panic(err)
		}
		raw, err := crypto.MarshalPublicKey(pub)
		if err != nil {
			panic(err)
		}
		ids = append(ids, types.IDB58Encode(id))
		pubs = append(pubs, raw)
	}
	return
}

var vfAtoms = [8]string{"bp0", "bp1", "bp2", "bp3", "bp4", "bp5", "bp6", "bp7"}

func vfBPsSym(k int) (ids []string, pubs [][]byte) {
	for i := 0; i < k; i++ {
		ids = append(ids, vfAtoms[i])
		pubs = append(pubs, []byte{byte(i)})
	}
	return
}

func vfIDDecodeSym(s string) (types.PeerID, error) { return types.PeerID(s), nil }

func vfHeaderBPIDSym(bh *types.BlockHeader) (types.PeerID, error) {
	if len(bh.PubKey) == 1 && int(bh.PubKey[0]) < len(vfAtoms) {
		return types.PeerID(vfAtoms[bh.PubKey[0]]), nil
	}
	return types.PeerID(""), vf.OpaqueErr("bad public key")
}

type vfC09DB struct {
	consensus.ChainDB
	bps []string
}

func (d *vfC09DB) GetGenesisInfo() *types.Genesis { return &types.Genesis{BPs: d.bps} }

// C09.c (acceptance): a cluster of n producers is created from the genesis list A and then replaced by the elected
// list B through the real bp.Cluster.Update (B = any ordered selection of n distinct identities out of 2n, so B may keep,
// drop, add or reorder producers). For a block signed by any identity (in A, in B, in neither, or with an unusable
// public key) and any timestamp, the real DPoS.IsBlockValid accepts iff the signer is a member of the CURRENT list B and
// its index in B owns the slot of the timestamp; in particular a producer voted out by the update is never accepted, and
// the cluster's own lookup functions agree with B.
func VF_C09_c() {
	maxN := vf.Param("maxN", 2)
	iv := vf.I64("intervalSec")
	vf.Assume(iv >= 1)
	vf.Assume(iv <= 10)
	slot.Init(iv)
	n := 1 + vf.Choice("n", maxN)
	k := 2 * n
	ids, pubs := vfBPs(k)
	listA := ids[:n]
	// B: ordered selection of n distinct identities
	used := make([]bool, k)
	var listB []string
	posB := make([]int, k) // identity -> index in B or -1
	for i := range posB {
		posB[i] = -1
	}
	for i := 0; i < n; i++ {
		c := vf.Choice("B", k-i) // c-th unused identity
		j := 0
		for ; j < k; j++ {
			if !used[j] {
				if c == 0 {
					break
				}
				c--
			}
		}
		used[j] = true
		posB[j] = i
		listB = append(listB, ids[j])
	}
	c, err := bp.NewCluster(&vfC09DB{bps: listA})
	vf.Assert(err == nil, "C09.c")
	vf.Assert(c.Update(listA) == nil, "C09.c")
	vf.Assert(c.Update(listB) == nil, "C09.c")
	d := &DPoS{bpc: c}

	signer := vf.Choice("signer", k+1) // k = unusable public key
	ns := vf.I64("timestamp")
	hdr := &types.BlockHeader{Timestamp: ns}
	if signer < k {
		hdr.PubKey = pubs[signer]
	} else {
		hdr.PubKey = []byte{0xff}
	}
	blk := &types.Block{Header: hdr}

	verr := d.IsBlockValid(blk, nil)
	vf.Reach("C09.c")
	owner := slot.NewFromUnixNano(ns).NextBpIndex(uint16(n))
	if signer == k {
		vf.Assert(verr != nil, "C09.c")
	} else {
		member := posB[signer] >= 0
		want := vf.And(member, int64(posB[signer]) == owner)
		vf.Assert((verr == nil) == want, "C09.c")
		if !member {
			vf.Assert(verr != nil, "C09.c.stale") // voted out (or never elected): no slot at all
		}
	}
	// the cluster describes exactly B
	vf.Assert(int(c.Size()) == n, "C09.c.cluster")
	for j := 0; j < k; j++ {
		id, derr := types.IDB58Decode(ids[j])
		vf.Assert(derr == nil, "C09.c.cluster")
		idx := c.BpID2Index(id)
		vf.Assert(c.Has(id) == (posB[j] >= 0), "C09.c.cluster")
		if posB[j] >= 0 {
			vf.Assert(int(idx) == posB[j], "C09.c.cluster")
			back, ok := c.BpIndex2ID(idx)
			vf.Assert(ok, "C09.c.cluster")
			vf.Assert(back == id, "C09.c.cluster")
		} else {
			vf.Assert(idx.IsNil(), "C09.c.cluster")
		}
	}
	vf.Observe("accepted", verr == nil)
	vf.Observe("owner", owner)
}

// C09.c (timestamp): DPoS.VerifyTimestamp rejects a block whose timestamp is two or more slots ahead of the local
// clock and accepts one that is less than one slot ahead (no LIB status attached). The clock is read before and after
// the call; the real function reads it in between.
func VF_C09_c_timestamp() {
	// the block interval is enumerated (1..maxInterval s): with a symbolic divisor the two slot-index divisions and the
	// clock terms make the query non-linear
	iv := int64(1 + vf.Choice("intervalSec", vf.Param("maxInterval", 3)))
	slot.Init(iv)
	// the timestamp is taken RELATIVE to the clock (delta), so that a counterexample replays against the real clock
	delta := vf.I64("delta")
	vf.Assume(delta < 1<<40)
	vf.Assume(delta > -(1 << 40))
	d := &DPoS{}
	t0 := time.Now().UnixNano()
	vf.Assume(t0 >= 0)
	vf.Assume(t0 < 1<<61) // the clock is far from the int64 horizon (2^61 ns = year 2043)
	ts := t0 + delta
	// Hash is preset: the rejection path only logs the block id, the id computation is not under test here
	blk := &types.Block{Hash: make([]byte, 32), Header: &types.BlockHeader{Timestamp: ts, PubKey: []byte{0xff}}}
	ok := d.VerifyTimestamp(blk)
	t1 := time.Now().UnixNano()
	const ms = 1000000
	vf.Assume(t1-t0 <= 50*ms) // the call reads the clock within 50 ms of t0 (stated assumption; natively a slower run is "assumption failed")
	vf.Reach("C09.c.timestamp")
	// two or more slots ahead of every clock reading inside the call => refused (slot indices have 1 ms granularity)
	if delta >= 2*iv*1000*ms+52*ms {
		vf.Assert(!ok, "C09.c.timestamp")
	}
	// less than one slot ahead of every clock reading => not "future"
	if delta <= iv*1000*ms-52*ms {
		vf.Assert(ok, "C09.c.timestamp")
	}
	vf.Observe("iv", iv)
}
