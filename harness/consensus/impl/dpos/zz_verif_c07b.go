package dpos

import (
	vf "github.com/aergoio/aergo/v2/zzvf"
)

// C07.b (consensus side): Status.NeedReorganization(rootNo) <=> no LIB yet, or rootNo >= LIB.
func VF_C07_b_lib() {
	root := vf.U64("rootNo")
	s := &Status{libState: &libStatus{}}
	hasLib := vf.Choice("hasLib", 2) == 1
	lib := vf.U64("libNo")
	if hasLib {
		s.libState.Lib = &blockInfo{BlockHash: "lib", BlockNo: lib}
	}
	need := s.NeedReorganization(root)
	vf.Reach("C07.b.lib")
	if hasLib {
		vf.Assert(need == (root >= lib), "C07.b.lib")
	} else {
		vf.Assert(need, "C07.b.lib")
	}
	vf.Observe("need", need)
}
