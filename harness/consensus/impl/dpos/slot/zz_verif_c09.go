package slot

import (
	"github.com/aergoio/aergo/v2/consensus/impl/dpos/bp"
	vf "github.com/aergoio/aergo/v2/zzvf"
)

func vfSlotParams() (n uint16, iv int64) {
	n = vf.U16("bpCount")
	iv = vf.I64("intervalSec")
	vf.Assume(n >= 1)
	vf.Assume(n <= 100)
	vf.Assume(iv >= 1)
	vf.Assume(iv <= 10)
	Init(iv)
	return
}

// C09.a: for every instant ns >= 0 exactly one producer index owns the slot.
func VF_C09_a() {
	n, _ := vfSlotParams()
	ns := vf.I64("ns")
	vf.Assume(ns >= 0)
	s := NewFromUnixNano(ns)
	owner := s.NextBpIndex(n)
	i := vf.U16("i")
	vf.Assume(i < n)
	vf.Reach("C09.a")
	vf.Assert(owner >= 0, "C09.a")
	vf.Assert(owner < int64(n), "C09.a")
	vf.Assert(s.IsFor(bp.Index(i), n) == (int64(i) == owner), "C09.a")
	vf.Observe("owner", owner)
}

// C09.b: slot algebra: monotone indices, one interval per index.
func VF_C09_b() {
	_, iv := vfSlotParams()
	ns1 := vf.I64("ns1")
	ns2 := vf.I64("ns2")
	vf.Assume(ns1 >= 0)
	vf.Assume(ns1 <= ns2)
	s1 := NewFromUnixNano(ns1)
	s2 := NewFromUnixNano(ns2)
	vf.Reach("C09.b")
	// monotone
	vf.Assert(s1.nextIndex <= s2.nextIndex, "C09.b.monotone")
	vf.Assert(LessEqual(s1, s2), "C09.b.monotone")
	vf.Assert(s1.prevIndex <= s2.prevIndex, "C09.b.monotone")
	// same index => within one interval (+ < 1 ms of truncation)
	if s1.nextIndex == s2.nextIndex {
		vf.Assert(ns2-ns1 < iv*1000000000+1000000, "C09.b.one-interval")
		vf.Assert(Equal(s1, s2), "C09.b.one-interval")
	}
	// farther apart than one interval => different index
	if ns2-ns1 >= iv*1000000000+1000000 {
		vf.Assert(s1.nextIndex < s2.nextIndex, "C09.b.one-interval")
	}
	// next index is prev or prev+1 (equal only in the very first millisecond of the epoch)
	vf.Assert(s1.nextIndex >= s1.prevIndex, "C09.b.next-prev")
	vf.Assert(s1.nextIndex <= s1.prevIndex+1, "C09.b.next-prev")
	if s1.timeMs >= 1 {
		vf.Assert(s1.nextIndex == s1.prevIndex+1, "C09.b.next-prev")
	}
	vf.Observe("idx1", s1.nextIndex)
	vf.Observe("idx2", s2.nextIndex)
}

// C09.b.rotation (1): the slot following s1 has index s1.nextIndex+1 (all instants, all intervals).
func VF_C09_b_succ() {
	vfSlotParams()
	ns1 := vf.I64("ns1")
	ns2 := vf.I64("ns2")
	vf.Assume(ns1 >= 1000000)
	vf.Assume(ns1 <= ns2)
	s1 := NewFromUnixNano(ns1)
	s2 := NewFromUnixNano(ns2)
	vf.Assume(IsNextTo(s2, s1))
	vf.Reach("C09.b.succ")
	vf.Assert(s2.nextIndex == s1.nextIndex+1, "C09.b.succ")
	vf.Assert(!Equal(s1, s2), "C09.b.succ")
}

// C09.b.rotation (2): consecutive slot indices are owned by consecutive producers mod bpCount
// (bpCount enumerated 1..100, slot index symbolic).
func VF_C09_b_rotation() {
	n := uint16(vf.Choice("bpCount", 100) + 1)
	x := vf.I64("nextIndex")
	vf.Assume(x >= 0)
	vf.Assume(x < 9000000000000000000)
	s1 := &Slot{nextIndex: x}
	s2 := &Slot{nextIndex: x + 1, prevIndex: x}
	vf.Reach("C09.b.rotation")
	o1 := s1.NextBpIndex(n)
	o2 := s2.NextBpIndex(n)
	vf.Assert(o2 == (o1+1)%int64(n), "C09.b.rotation")
	vf.Assert(IsNextTo(s2, s1), "C09.b.rotation")
	i := vf.U16("i")
	vf.Assume(i < n)
	if s1.IsFor(bp.Index(i), n) {
		vf.Assert(s2.IsFor(bp.Index((i+1)%n), n), "C09.b.rotation")
	}
	vf.Observe("o1", o1)
	vf.Observe("o2", o2)
}
