package slot

import (
	"github.com/aergoio/aergo/v2/consensus/impl/dpos/bp"
	vf "github.com/aergoio/aergo/v2/zzvf"
)

func vfSlotParams() (n uint16, iv int64) {
	n = vf.U16("bpCount")
	iv = vf.I64("intervalSec")
	vf.Assume(n >= 1)
	vf.Assume(n <= 100)
	vf.Assume(iv >= 1)
	vf.Assume(iv <= 10)
	Init(iv)
	return
}

// C09.a: for every instant ns >= 0 exactly one producer index owns the slot.
func VF_C09_a() {
	n, _ := vfSlotParams()
	ns := vf.I64("ns")
	vf.Assume(ns >= 0)
	s := NewFromUnixNano(ns)
	owner := s.NextBpIndex(n)
	i := vf.U16("i")
	vf.Assume(i < n)
	vf.Reach("C09.a")
	vf.Assert(owner >= 0, "C09.a")
	vf.Assert(owner < int64(n), "C09.a")
	vf.Assert(s.IsFor(bp.Index(i), n) == (int64(i) == owner), "C09.a")
	vf.Observe("owner", owner)
}

// C09.b: slot algebra: monotone indices, one interval per index, consecutive slots -> consecutive owners.
func VF_C09_b() {
	n, iv := vfSlotParams()
	ns1 := vf.I64("ns1")
	ns2 := vf.I64("ns2")
	vf.Assume(ns1 >= 0)
	vf.Assume(ns1 <= ns2)
	vf.Assume(ns2 <= 4000000000000000000)
	s1 := NewFromUnixNano(ns1)
	s2 := NewFromUnixNano(ns2)
	vf.Reach("C09.b")
	// monotone
	vf.Assert(s1.nextIndex <= s2.nextIndex, "C09.b.monotone")
	vf.Assert(LessEqual(s1, s2), "C09.b.monotone")
	// same index => within one interval
	if s1.nextIndex == s2.nextIndex {
		vf.Assert(ns2-ns1 < iv*1000000000+1000000, "C09.b.one-interval")
		vf.Assert(Equal(s1, s2), "C09.b.one-interval")
	}
	// far apart => different index
	if ns2-ns1 >= iv*1000000000+1000000 {
		vf.Assert(s1.nextIndex < s2.nextIndex, "C09.b.one-interval")
	}
	// next = prev + 1 always
	vf.Assert(s1.nextIndex == s1.prevIndex+1, "C09.b.next-prev")
	// consecutive slots are owned by consecutive producers
	if IsNextTo(s2, s1) {
		o1 := s1.NextBpIndex(n)
		o2 := s2.NextBpIndex(n)
		vf.Assert(o2 == (o1+1)%int64(n), "C09.b.rotation")
	}
	vf.Observe("idx1", s1.nextIndex)
	vf.Observe("idx2", s2.nextIndex)
}
