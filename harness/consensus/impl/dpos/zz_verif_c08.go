package dpos

import (
	"bytes"
	"encoding/hex"

	"github.com/aergoio/aergo-lib/db"
	"github.com/aergoio/aergo/v2/consensus/impl/dpos/bp"
	"github.com/aergoio/aergo/v2/consensus/impl/dpos/slot"
	"github.com/aergoio/aergo/v2/types"
	vf "github.com/aergoio/aergo/v2/zzvf"
)

// ---- producers -------------------------------------------------------------------------------------------------
// Five real secp256k1 public keys (libp2p-marshalled; private key i = 32 bytes of value i+1) with the string the real
// types.Block.BPID2Str() yields for them (computed once natively). The engine does not interpret libp2p key
// unmarshalling / peer-id derivation, so for the engine (*types.Block).BPID2Str is stubbed by vfBPID2Str, a table over
// exactly these keys; natively the real function runs and the differential validation compares both (Observe "bpid").
var vfPubKeyHex = [5]string{
	"08021221031b84c5567b126440995d3ed5aaba0565d71e1834604819ff9c17f5e9d5dd078f",
	"08021221024d4b6cd1361032ca9bd2aeb9d900aa4d45d9ead80ac9423374c451a7254d0766",
	"0802122102531fe6068134503d2723133227c867ac8fa6c83c537e9a44c3c5bdbdcb1fe337",
	"0802122103462779ad4aad39514614751a71085f2f10e1c7a593e4e030efb5b8721ce55b0b",
	"080212210362c0a046dacce86ddd0343c6d3c7c79c2208ba0d9c9cf24a6d046d21d21f90f7",
}

var vfBPIDs = [5]string{
	"16Uiu2HAmEWQnHq2jLKJypwVnVoQeFCULuyop6atvq2eWjYSUjzNi",
	"16Uiu2HAkzdQ5Y9SYT91K1ue5SxXwgmajXntfScGnLYeip5hHyWmT",
	"16Uiu2HAm12A2heuphsgWqFjE3jcHVXNBfte9HU1fuQYRSKh6JSpN",
	"16Uiu2HAmHNqoSvjy1LSi5cMFrgZy87n43okaH9MD9Q4wP1oEzf6S",
	"16Uiu2HAmKJUfVbtUB1v3BMUivfcpN6smx5u6z2jqxjQYEwwuKH9Q",
}

var vfNames = [8]string{"p0", "p1", "p2", "p3", "p4", "p5", "p6", "p7"}

func vfPubKey(i int) []byte {
	b, err := hex.DecodeString(vfPubKeyHex[i])
	if err != nil {
		panic(err)
	}
	return b
}

// vfBPID2Str replaces (*types.Block).BPID2Str in the engine (see above).
func vfBPID2Str(block *types.Block) string {
	pk := block.GetHeader().GetPubKey()
	for i := range vfPubKeyHex {
		if bytes.Equal(pk, vfPubKey(i)) {
			return vfBPIDs[i]
		}
	}
	return ""
}

// ---- blocks ----------------------------------------------------------------------------------------------------

// vfHash: concrete, pairwise distinct 32-byte block ids (branch tag, block number).
func vfHash(branch byte, no uint64) []byte {
	h := make([]byte, 32)
	h[0] = 0xB0
	h[1] = branch
	h[31] = byte(no)
	h[30] = byte(no >> 8)
	return h
}

func vfBlock(no uint64, branch byte, prev *types.Block, producer int, confirms uint64) *types.Block {
	var ph []byte
	if prev != nil {
		ph = prev.BlockHash()
	}
	var pk []byte
	if producer >= 0 {
		pk = vfPubKey(producer)
	}
	return &types.Block{
		Hash: vfHash(branch, no),
		Header: &types.BlockHeader{
			BlockNo:       no,
			PrevBlockHash: ph,
			PubKey:        pk,
			Confirms:      confirms,
		},
		Body: &types.BlockBody{},
	}
}

type vfCluster struct{ size uint16 }

func (c *vfCluster) Size() uint16              { return c.size }
func (c *vfCluster) Update(ids []string) error { return nil }

// vfNewStatus: a Status as NewStatus builds it for a node without a chain DB (the repo's own lib_test does the same).
func vfNewStatus(n uint16, genesis *types.Block) *Status {
	s := NewStatus(&vfCluster{size: n}, nil, nil, 0)
	s.libState.genesisInfo = &blockInfo{BlockHash: genesis.ID(), BlockNo: 0}
	s.bestBlock = genesis
	s.done = true // no boot loader: nothing to restore
	return s
}

// ---- C08.a ------------------------------------------------------------------------------------------------------

// C08.a: confirmsRequired = 2n/3+1 is a strict two-thirds majority of n (and never more than n), as set by
// setConfirmsRequired, newLibStatus and NewStatus.
func VF_C08_a() {
	n := vf.U16("bpCount")
	vf.Assume(n >= 1)
	vf.Assume(n <= 32767) // 2n must fit uint16 (the code multiplies in uint16); real clusters have <= 100 producers
	ls := &libStatus{}
	ls.setConfirmsRequired(n)
	r := uint32(ls.confirmsRequired)
	n32 := uint32(n)
	vf.Reach("C08.a")
	vf.Assert(3*r > 2*n32, "C08.a")     // more than two thirds
	vf.Assert(3*(r-1) <= 2*n32, "C08.a") // and the least such number
	vf.Assert(r <= n32, "C08.a")         // attainable
	vf.Assert(r >= 1, "C08.a")
	ls2 := newLibStatus(n)
	vf.Assert(ls2.confirmsRequired == ls.confirmsRequired, "C08.a")
	vf.Assert(ls2.gcNumLimit() == int(3*r), "C08.a")
	vf.Observe("required", ls.confirmsRequired)
}

// ---- C08.b ------------------------------------------------------------------------------------------------------

// C08.b: calcLIB returns a proposed LIB that more than two thirds of the recorded producers have reached, and the
// highest such one. Prpsd holds m entries with symbolic block numbers (+ optionally one nil entry, which is skipped).
func VF_C08_b() {
	maxM := vf.Param("maxM", 5)
	m := vf.Choice("m", maxM+1)
	withNil := vf.Choice("withNil", 2)
	vf.NoMapPerm(true) // block numbers are unconstrained symbols: every order of VALUES is covered whatever the map order
	ls := &libStatus{Prpsd: make(proposed)}
	nos := make([]uint64, m)
	infos := make([]*plInfo, m)
	for i := 0; i < m; i++ {
		nos[i] = vf.U64("plibNo")
		infos[i] = &plInfo{Plib: &blockInfo{BlockNo: nos[i], BlockHash: vfNames[i]}, PlibBy: &blockInfo{BlockNo: nos[i]}}
		ls.Prpsd[vfNames[i]] = infos[i]
	}
	if withNil == 1 {
		ls.Prpsd["nilentry"] = nil
	}
	lib := ls.calcLIB()
	vf.Reach("C08.b")
	if m == 0 {
		vf.Assert(lib == nil, "C08.b")
		return
	}
	vf.Assert(lib != nil, "C08.b")
	r := lib.BlockNo
	ge, gt := 0, 0
	isEntry := false
	for i := 0; i < m; i++ {
		if nos[i] >= r {
			ge++
		}
		if nos[i] > r {
			gt++
		}
		if infos[i].Plib == lib {
			isEntry = true
		}
	}
	vf.Assert(isEntry, "C08.b")               // it is one of the proposals
	vf.Assert(ge >= m-(m-1)/3, "C08.b")       // at least m - floor((m-1)/3) producers reached it ...
	vf.Assert(3*ge > 2*m, "C08.b")            // ... which is more than two thirds
	vf.Assert(gt < m-(m-1)/3, "C08.b.highest") // no higher proposal has that support
	vf.Observe("lib", r)
}

// ---- C08.d ------------------------------------------------------------------------------------------------------

// C08.d: veto. NeedReorganization(root) refuses branch roots below the LIB; VerifyTimestamp refuses blocks numbered
// at or below the LIB (and accepts a non-future block above it).
func VF_C08_d() {
	libNo := vf.U64("libNo")
	rootNo := vf.U64("rootNo")
	blkNo := vf.U64("blockNo")
	genesis := vfBlock(0, 0, nil, -1, 0)
	s := vfNewStatus(3, genesis)
	s.updateLIB(&blockInfo{BlockHash: "lib", BlockNo: libNo})
	vf.Reach("C08.d")
	vf.Assert(s.NeedReorganization(rootNo) == (rootNo >= libNo), "C08.d.reorg")
	vf.Assert(s.libNo() == libNo, "C08.d.reorg")

	slot.Init(1)
	d := &DPoS{Status: s}
	ts := vf.I64("ts")
	vf.Assume(ts >= 0)
	blk := vfBlock(blkNo, 1, nil, 0, 0)
	blk.Header.Timestamp = ts
	ok := d.VerifyTimestamp(blk)
	if blkNo <= libNo {
		vf.Assert(!ok, "C08.d.block")
	}
	if ts == 0 { // the epoch is never in the future
		vf.Assert(ok == (blkNo > libNo), "C08.d.block")
	}
	vf.Observe("reorg", s.NeedReorganization(rootNo))

	// no LIB at all: nothing is vetoed
	s.libState.Lib = nil
	vf.Assert(s.NeedReorganization(rootNo), "C08.d.reorg")
}

// ---- C08.c bounded linear histories -------------------------------------------------------------------------------

// vfHistory drives the REAL Status.Update over a linear chain of h blocks produced by n producers.
// Producers 0..faulty-1 lie: their header field Confirms is an arbitrary symbolic uint64. The others follow the block
// factory (generateBlock): Confirms = block no - number of the producer's previous block. Who produces a block is a
// choice (slots may be skipped, so any order is possible); since producer identities enter the code only through
// equality (map keys), histories are enumerated up to renaming of the honest producers: an honest producer that has
// not produced yet is always the lowest-numbered unused one.
type vfHist struct {
	n, faulty int
	s         *Status
	chain     []*types.Block
	producer  []int    // producer of chain[i]
	lastOwn   []uint64 // last block number per producer
	usedHon   int      // honest producers that have produced so far
	branch    byte     // tag of the branch new blocks belong to (distinct block ids per branch)
}

func vfNewHist(n, faulty int) *vfHist {
	genesis := vfBlock(0, 0, nil, -1, 0)
	return &vfHist{n: n, faulty: faulty, s: vfNewStatus(uint16(n), genesis), chain: []*types.Block{genesis},
		producer: []int{-1}, lastOwn: make([]uint64, n)}
}

// next builds the next block (producer by choice) without applying it.
func (hi *vfHist) next() *types.Block {
	avail := hi.faulty + hi.usedHon
	if avail < hi.n {
		avail++ // one fresh honest producer
	}
	p := vf.Choice("producer", avail)
	return hi.nextBy(p)
}

// nextBy builds the next block by producer p.
func (hi *vfHist) nextBy(p int) *types.Block {
	if p >= hi.faulty+hi.usedHon {
		hi.usedHon = p - hi.faulty + 1
	}
	no := uint64(len(hi.chain))
	var confirms uint64
	if p < hi.faulty {
		confirms = vf.U64("confirms")
	} else {
		confirms = no - hi.lastOwn[p]
	}
	blk := vfBlock(no, hi.branch, hi.chain[no-1], p, confirms)
	hi.chain = append(hi.chain, blk)
	hi.producer = append(hi.producer, p)
	hi.lastOwn[p] = no
	return blk
}

// distinctFrom: number of distinct producers of chain[from..best].
func (hi *vfHist) distinctFrom(from uint64) int {
	seen := make([]bool, hi.n)
	cnt := 0
	for i := int(from); i < len(hi.chain); i++ {
		if p := hi.producer[i]; p >= 0 && !seen[p] {
			seen[p] = true
			cnt++
		}
	}
	return cnt
}

// liarFrom: a lying producer produced one of chain[from..best].
func (hi *vfHist) liarFrom(from uint64) bool {
	for i := int(from); i < len(hi.chain); i++ {
		if p := hi.producer[i]; p >= 0 && p < hi.faulty {
			return true
		}
	}
	return false
}

const vfFindingQuorum = "F-C08-1-lib-quorum-lying-producer"

// VF_C08_c: all producers honest (n <= 3 tolerates no fault: f < n/3).
func VF_C08_c() {
	vfLinearHistory(vf.Param("n", 3), vf.Param("h", 4), 0, "C08.c")
}

// VF_C08_c_byz: n = 4 producers, one of them (f = 1 < 4/3) puts arbitrary Confirms values into its headers.
func VF_C08_c_byz() {
	vfLinearHistory(vf.Param("n", 4), vf.Param("h", 4), vf.Param("faulty", 1), "C08.c.byz")
}

func vfLinearHistory(n, h, faulty int, reach string) {
	// Map iteration order: the only order-sensitive range in Status.Update is calcLIB's collection of the proposals,
	// and C08.b decides (all orders) that its result is the order statistic of the multiset of proposals. Exploring the
	// k! orders again after every block would only multiply identical paths.
	vf.NoMapPerm(true)
	hi := vfNewHist(n, faulty)
	s := hi.s
	prevLib := uint64(0)
	for k := 1; k <= h; k++ {
		blk := hi.next()
		s.Update(blk) // REAL: addConfirmInfo, update (getPreLIB, calcLIB), updateLIB, gc, setConfirmsRequired
		lib := s.libState.Lib
		vf.Reach(reach)
		vf.Assert(lib != nil, "C08.c.onchain")
		no := uint64(k)
		vf.Assert(lib.BlockNo <= no, "C08.c.bounded")
		vf.Assert(lib.BlockNo >= prevLib, "C08.c.monotone")
		if lib.BlockNo <= no {
			if lib.BlockNo == 0 && lib.BlockHash == "" {
				// the initial status (newLibStatus): no LIB computed yet
			} else {
				vf.Assert(lib.BlockHash == hi.chain[lib.BlockNo].ID(), "C08.c.onchain")
			}
			if lib.BlockNo > 0 {
				// blocks of more than two thirds of the producers build on the LIB
				d := hi.distinctFrom(lib.BlockNo)
				// known class: a lying producer's block is among the blocks from the LIB on AND not all n producers are
				// recorded in Prpsd yet (calcLIB then takes its quorum over the recorded ones only)
				vf.AssertKnown(d >= int(s.libState.confirmsRequired), "C08.c.quorum", vfFindingQuorum,
					vf.And(hi.liarFrom(lib.BlockNo), len(s.libState.Prpsd) < n))
			}
		}
		vf.Assert(s.libNo() == lib.BlockNo, "C08.c.bounded")
		vf.Assert(s.bestBlock == blk, "C08.c.bounded")
		vf.Assert(s.libState.confirms.Len() <= s.libState.gcNumLimit(), "C08.c.gc")
		prevLib = lib.BlockNo
	}
	vf.Observe("lib", prevLib)
}

// ---- C08.e restart equality --------------------------------------------------------------------------------------

// vfChainDB: the consensus.ChainDB a restarted node reads its blocks and the saved LIB status from.
type vfChainDB struct {
	hi *vfHist
	kv *vf.KV
}

type vfNoBlock struct{}

func (vfNoBlock) Error() string { return "vf: no such block" }

func (c *vfChainDB) GetBestBlock() (*types.Block, error) { return c.hi.chain[len(c.hi.chain)-1], nil }
func (c *vfChainDB) GetBlockByNo(no types.BlockNo) (*types.Block, error) {
	if no >= uint64(len(c.hi.chain)) {
		return nil, vfNoBlock{}
	}
	return c.hi.chain[no], nil
}
func (c *vfChainDB) GetHashByNo(no types.BlockNo) ([]byte, error) {
	b, err := c.GetBlockByNo(no)
	if err != nil {
		return nil, err
	}
	return b.BlockHash(), nil
}
func (c *vfChainDB) GetBlock(hash []byte) (*types.Block, error) {
	for _, b := range c.hi.chain {
		if bytes.Equal(b.BlockHash(), hash) {
			return b, nil
		}
	}
	return nil, vfNoBlock{}
}
func (c *vfChainDB) GetGenesisInfo() *types.Genesis { return nil }
func (c *vfChainDB) Get(key []byte) []byte          { return c.kv.Get(key) }
func (c *vfChainDB) NewTx() db.Transaction          { return c.kv.NewTx() }

func vfSameInfo(a, b *blockInfo) bool {
	if a == nil || b == nil {
		return a == b
	}
	return vf.And(a.BlockNo == b.BlockNo, a.BlockHash == b.BlockHash)
}

// vfSameLibState: the finality bookkeeping that determines the present and every future LIB is the same:
// Lib, the per-producer proposals, and the confirmation counters of the blocks above the LIB.
func vfSameLibState(a, b *libStatus, ob, finding string, class bool) {
	vf.AssertKnown(vfSameInfo(a.Lib, b.Lib), ob+".lib", finding, class)
	for id, pa := range a.Prpsd {
		pb := b.Prpsd[id]
		if pa == nil || pb == nil {
			vf.AssertKnown(pa == pb, ob+".proposed", finding, class)
			continue
		}
		vf.AssertKnown(vf.And(vfSameInfo(pa.Plib, pb.Plib), vfSameInfo(pa.PlibBy, pb.PlibBy)), ob+".proposed", finding, class)
	}
	vf.AssertKnown(len(a.Prpsd) == len(b.Prpsd), ob+".proposed", finding, class)
	// confirmation counters above the LIB, oldest first
	ea, eb := a.confirms.Front(), b.confirms.Front()
	for ea != nil && cInfo(ea).BlockNo <= a.Lib.BlockNo {
		ea = ea.Next()
	}
	for eb != nil && cInfo(eb).BlockNo <= b.Lib.BlockNo {
		eb = eb.Next()
	}
	for ea != nil && eb != nil {
		ca, cb := cInfo(ea), cInfo(eb)
		vf.AssertKnown(vf.And(ca.BlockNo == cb.BlockNo, ca.confirmsLeft == cb.confirmsLeft), ob+".confirms", finding, class)
		ea, eb = ea.Next(), eb.Next()
	}
	vf.AssertKnown(ea == nil && eb == nil, ob+".confirms", finding, class)
	vf.AssertKnown(a.confirmsRequired == b.confirmsRequired, ob+".confirms", finding, class)
}

const vfFindingRestart = "F-C08-2-restart-confirms-required"
const vfFindingRestartH1 = "F-C08-4-restart-at-height-1"

// VF_C08_e: a node follows a linear honest history of h blocks, saving the LIB status with every block (Status.Save,
// gob); after block r (choice) a second node object is started on the same data (real Status.init: bootLoader.load,
// loadLibStatus, libStatus.load, loadPlibStatus; then Status.load). Its finality state must equal that of the node that
// never stopped, immediately and after each of the remaining blocks.
func VF_C08_e() { vfRestart(vf.Param("n", 3), vf.Param("h", 4), "C08.e") }

// VF_C08_e_n5: the same with n >= 5 producers, where the restart path is known to differ (F-C08-2).
func VF_C08_e_n5() { vfRestart(vf.Param("n", 5), vf.Param("h", 4), "C08.e.n5") }

func vfRestart(n, h int, reach string) {
	vf.NoMapPerm(true)
	hi := vfNewHist(n, 0)
	cdb := &vfChainDB{hi: hi, kv: vf.NewKV()}
	s1 := hi.s
	r := 1 + vf.Choice("restartAfter", h)
	save := func(s *Status) {
		tx := cdb.kv.NewTx()
		if err := s.Save(tx); err != nil {
			panic(err)
		}
		tx.Commit()
	}
	for k := 1; k <= r; k++ {
		s1.Update(hi.next())
		save(s1)
	}
	// restart
	s2 := &Status{libState: newLibStatus(uint16(n)), bps: bp.NewSnapshots(&vfCluster{size: uint16(n)}, nil, nil)}
	s2.init(cdb, 0)
	s2.load()
	// known class: confirmsRequired is fed back into newLibStatus(bpCount) on the restart path, which only is the
	// identity when 2*(2n/3+1)/3+1 == 2n/3+1 (n <= 4)
	cr := uint16(n)*2/3 + 1
	finding, class := vfFindingRestart, cr*2/3+1 != cr
	if !class {
		// second known class (harmless): a restart when the chain consists of genesis + ONE block — loadPlibStatus
		// returns nil for begBlockNo == endBlockNo == 1, so the confirmation info of block 1 is not rebuilt
		finding, class = vfFindingRestartH1, r == 1
	}
	vf.Reach(reach)
	vf.Assert(s2.bestBlock == s1.bestBlock, "C08.e.best")
	vfSameLibState(s1.libState, s2.libState, "C08.e.restored", finding, class)
	for k := r + 1; k <= h; k++ {
		blk := hi.next()
		s1.Update(blk)
		s2.Update(blk)
		vfSameLibState(s1.libState, s2.libState, "C08.e.continued", finding, class)
	}
	vf.Observe("lib1", s1.libState.Lib.BlockNo)
	vf.Observe("lib2", s2.libState.Lib.BlockNo)
}

// ---- C08.f reorganisation above the LIB ------------------------------------------------------------------------------

// truncate drops the blocks above number r (they are abandoned) and starts a new branch.
func (hi *vfHist) truncate(r int) {
	hi.chain = hi.chain[:r+1]
	hi.producer = hi.producer[:r+1]
	for p := range hi.lastOwn {
		hi.lastOwn[p] = 0
	}
	for i := 1; i <= r; i++ {
		hi.lastOwn[hi.producer[i]] = uint64(i)
	}
	hi.branch++
}

const vfFindingReorgLib = "F-C08-3-lib-decreases-after-reorg"

// vfRollbackUpdate executes the finality-relevant statements of the ROLLBACK branch of Status.Update (status.go), in
// their order. The branch itself cannot be run: besides these statements it reloads the BP snapshot and the voting-power
// ranking from the state DB (bps.UpdateCluster, InitVPR(sdb.OpenNewStateDB(root)), system.CommitParams), which need a
// real state trie. None of those touch libState; UpdateCluster's result only feeds gc's producer filter (nil = keep all).
func vfRollbackUpdate(s *Status, block *types.Block) {
	s.load()
	if err := s.libState.rollbackStatusTo(block, s.libState.Lib); err != nil {
		panic(err)
	}
	s.libState.gc(nil)
	s.libState.setConfirmsRequired(s.bps.Size())
	s.bestBlock = block
}

// VF_C08_f: a node built by the real Status.init on a chain DB follows a main chain of k honest blocks, then the chain
// service reorganises to a branch rooted at block r with LIB <= r < k (allowed by NeedReorganization): it calls
// Status.Update(branch root) — the rollback path: libStatus.rollbackStatusTo/load/loadPlibStatus — and then Update for
// every block of the new branch. The LIB must not decrease and must lie on the new main chain.
// Main-chain producers: rotation over the first q producers (q by choice; rr=1) or any order (rr=0).
func VF_C08_f() {
	n := vf.Param("n", 3)
	k := vf.Param("k", 7)
	maxNew := vf.Param("maxNew", 2)
	rr := vf.Param("rr", 1)
	vf.NoMapPerm(true)
	hi := vfNewHist(n, 0)
	cdb := &vfChainDB{hi: hi, kv: vf.NewKV()}
	s := &Status{libState: newLibStatus(uint16(n)), bps: bp.NewSnapshots(&vfCluster{size: uint16(n)}, nil, nil)}
	s.init(cdb, 0) // real boot loader on the genesis-only chain
	hi.s = s
	// this node is producer `self` (self == n: an observer that produces nothing)
	self := vf.Choice("self", n+1)
	s.load() // the first Update would do it: adopts the boot loader's libStatus (in production every libStatus carries the node's id)
	if self < n {
		s.libState.bpid = vfBPIDs[self]
	}
	q := n
	if rr == 1 && n > 3 {
		q = 3 + vf.Choice("active", n-2)
	}
	for i := 1; i <= k; i++ {
		if rr == 1 {
			s.Update(hi.nextBy((i - 1) % q))
		} else {
			s.Update(hi.next())
		}
	}
	lib0 := s.libState.Lib.BlockNo
	vf.Assume(lib0 < uint64(k))
	r := int(lib0) + vf.Choice("root", k-int(lib0))
	vf.Assert(s.NeedReorganization(uint64(r)), "C08.f.veto") // roots at or above the LIB are admitted
	if lib0 > 0 {
		vf.Assert(!s.NeedReorganization(lib0-1), "C08.f.veto")
	}
	before := map[string]uint64{}
	for id, pl := range s.libState.Prpsd {
		before[id] = pl.Plib.BlockNo
	}
	// own highest block among ALL blocks applied so far, abandoned ones included (what BlockFactory.worker reads back
	// through Status.lpbNo() after a restart to compute Confirms = blockNo - lpbNo)
	lpb0 := uint64(0)
	for i := 1; i <= k; i++ {
		if self < n && hi.producer[i] == self {
			lpb0 = uint64(i)
		}
	}
	vf.Assert(uint64(s.libState.LpbNo) == lpb0, "C08.f.lpb")
	hi.truncate(r)
	vfRollbackUpdate(s, hi.chain[r]) // rollback path of Status.Update
	vf.Reach("C08.f")
	// a reorganisation never lowers the last-produced number: the producer's next Confirms must not re-cover a height
	// it has already confirmed on the abandoned branch (the honest-Confirms premise of C08.c)
	vf.Assert(uint64(s.libState.LpbNo) >= lpb0, "C08.f.lpb")
	vf.Assert(s.bestBlock == hi.chain[r], "C08.f.best")
	vf.Assert(s.libState.Lib.BlockNo == lib0, "C08.f.rollback-keeps-lib")
	lowered := false
	for id, pl := range s.libState.Prpsd {
		if pl.Plib.BlockNo < before[id] {
			lowered = true
		}
	}
	prev := lib0
	ownNew := false
	for j := 1; j <= maxNew; j++ {
		blk := hi.next()
		s.Update(blk)
		lib := s.libState.Lib
		// known class: the rollback lowered some producer's proposed LIB (rebuilt from the blocks up to the branch root)
		vf.AssertKnown(lib.BlockNo >= prev, "C08.f.monotone", vfFindingReorgLib, lowered)
		vf.Assert(lib.BlockNo <= uint64(len(hi.chain)-1), "C08.f.bounded")
		if lib.BlockNo <= uint64(len(hi.chain)-1) && !(lib.BlockNo == 0 && lib.BlockHash == "") {
			vf.Assert(lib.BlockHash == hi.chain[lib.BlockNo].ID(), "C08.f.onchain")
		}
		if lib.BlockNo > prev {
			prev = lib.BlockNo
		}
		// (once the node itself produces on the new branch, LpbNo is that block's number — legitimately lower)
		if hi.producer[len(hi.chain)-1] == self {
			ownNew = true
		}
		if !ownNew {
			vf.Assert(uint64(s.libState.LpbNo) >= lpb0, "C08.f.lpb")
		}
	}
	vf.Observe("lpb", uint64(s.libState.LpbNo))
	vf.Observe("lib0", lib0)
	vf.Observe("lib", s.libState.Lib.BlockNo)
}
