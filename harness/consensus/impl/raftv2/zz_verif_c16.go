package raftv2

import (
	"bytes"
	"context"
	"errors"
	"strings"

	"github.com/aergoio/aergo/v2/chain"
	"github.com/aergoio/aergo/v2/consensus"
	"github.com/aergoio/aergo/v2/types"
	vf "github.com/aergoio/aergo/v2/zzvf"
	raftlib "github.com/aergoio/etcd/raft"
	"github.com/aergoio/etcd/raft/raftpb"
)

// ---- C16.d membership validation ------------------------------------------------------------------------------------

const vfAddrPrefix = "/ip4/127.0.0.1/tcp/"

// vfParseMultiaddr replaces types.ParseMultiaddr in the engine (the multiaddr parser is third-party string parsing that
// is not the subject). Harness addresses are either vfAddrPrefix + two decimal digits (a valid multiaddr) or do not start
// with '/' (invalid); the native side runs the real parser on the same strings.
func vfParseMultiaddr(str string) (types.Multiaddr, error) {
	if strings.HasPrefix(str, vfAddrPrefix) {
		return nil, nil
	}
	return nil, errors.New("vf: invalid multiaddr")
}

func vfDigits(name string) string {
	s := vf.Str(name, 2)
	vf.Assume(s[0] >= '0')
	vf.Assume(s[0] <= '9')
	vf.Assume(s[1] >= '0')
	vf.Assume(s[1] <= '9')
	return s
}

// vfMember: a member with symbolic id, 2-byte name, address with 2 symbolic port digits, 2-byte peer id.
func vfMember(tag string) *consensus.Member {
	return &consensus.Member{MemberAttr: types.MemberAttr{
		ID:      vf.U64(tag + ".id"),
		Name:    vf.Str(tag+".name", 2),
		Address: vfAddrPrefix + vfDigits(tag+".port"),
		PeerID:  vf.Bytes(tag+".peer", 2),
	}}
}

func vfDistinct(a, b *consensus.Member) bool {
	return vf.And(vf.And(a.ID != b.ID, a.Name != b.Name), vf.And(a.Address != b.Address, !bytes.Equal(a.PeerID, b.PeerID)))
}

// VF_C16_d: validateChangeMembership against a cluster of nA applied and nR removed members (symbolic attributes,
// cluster invariant: applied members pairwise distinct in every attribute, ids non-zero, removed ids not applied).
func VF_C16_d() {
	maxA := vf.Param("maxApplied", 3)
	maxR := vf.Param("maxRemoved", 1)
	nA := vf.Choice("nApplied", maxA+1)
	nR := vf.Choice("nRemoved", maxR+1)
	cl := &Cluster{appliedMembers: newMembers("applied"), removedMembers: newMembers("removed")}
	applied := make([]*consensus.Member, nA)
	for i := 0; i < nA; i++ {
		m := vfMember("a")
		vf.Assume(m.ID != consensus.InvalidMemberID)
		for j := 0; j < i; j++ {
			vf.Assume(vfDistinct(m, applied[j]))
		}
		applied[i] = m
		cl.appliedMembers.add(m) // real bookkeeping
	}
	removed := make([]*consensus.Member, nR)
	for i := 0; i < nR; i++ {
		m := vfMember("r")
		vf.Assume(m.ID != consensus.InvalidMemberID)
		for j := 0; j < nA; j++ {
			vf.Assume(m.ID != applied[j].ID)
		}
		for j := 0; j < i; j++ {
			vf.Assume(m.ID != removed[j].ID)
		}
		removed[i] = m
		cl.removedMembers.add(m)
	}

	// the request
	kind := vf.Choice("kind", 4) // 0 add, 1 remove, 2 other conf-change type, 3 nil member
	shape := vf.Choice("shape", 4)
	req := vfMember("q")
	switch shape {
	case 1:
		req.Address = "x" + vf.Str("q.badaddr", 2) // not a multiaddr
	case 2:
		req.Name = ""
	case 3:
		req.PeerID = nil
	}
	orig := *req
	var cc raftpb.ConfChange
	switch kind {
	case 0:
		cc.Type = raftpb.ConfChangeAddNode
	case 1:
		cc.Type = raftpb.ConfChangeRemoveNode
	case 2:
		cc.Type = raftpb.ConfChangeUpdateNode
	}
	if kind == 3 {
		vf.Reach("C16.d")
		vf.Assert(cl.validateChangeMembership(&cc, nil, true) == ErrCCMemberIsNil, "C16.d.nil")
		return
	}

	// specification terms (built without forking)
	idInvalid := req.ID == consensus.InvalidMemberID
	inRemoved := false
	for _, m := range removed {
		inRemoved = vf.Or(inRemoved, m.ID == req.ID)
	}
	inApplied := false
	dupAttr := false
	for _, m := range applied {
		inApplied = vf.Or(inApplied, m.ID == req.ID)
		dupAttr = vf.Or(dupAttr, vf.Or(vf.Or(m.Name == req.Name, m.Address == req.Address), bytes.Equal(m.PeerID, req.PeerID)))
	}
	fieldsOK := shape == 0

	err := cl.validateChangeMembership(&cc, req, true)
	vf.Reach("C16.d")
	switch kind {
	case 0:
		refuse := vf.Or(vf.Or(idInvalid, inRemoved), vf.Or(!fieldsOK, vf.Or(inApplied, dupAttr)))
		vf.Assert((err != nil) == refuse, "C16.d.add")
		// which refusal
		if err == consensus.ErrInvalidMemberID {
			vf.Assert(idInvalid, "C16.d.add")
		} else if err == ErrCCAlreadyRemoved {
			vf.Assert(inRemoved, "C16.d.add")
		} else if err == ErrInvalidMember {
			vf.Assert(!fieldsOK, "C16.d.add")
		} else if err == ErrCCAlreadyAdded {
			vf.Assert(inApplied, "C16.d.add")
		} else if err == ErrDupBP {
			vf.Assert(dupAttr, "C16.d.add")
		} else {
			vf.Assert(err == nil, "C16.d.add")
			// inductive step of the cluster invariant: the accepted member keeps the applied set pairwise distinct
			cl.appliedMembers.add(req)
			for _, m := range applied {
				vf.Assert(vfDistinct(m, req), "C16.d.invariant")
			}
			vf.Assert(req.ID != consensus.InvalidMemberID, "C16.d.invariant")
			for _, m := range removed {
				vf.Assert(m.ID != req.ID, "C16.d.invariant")
			}
			vf.Assert(cl.appliedMembers.len() == nA+1, "C16.d.invariant")
		}
	case 1:
		refuse := vf.Or(vf.Or(idInvalid, inRemoved), !inApplied)
		vf.Assert((err != nil) == refuse, "C16.d.remove")
		if err == nil {
			// the request is completed with the attributes of the member that is removed
			found := false
			for _, m := range applied {
				if m.ID == orig.ID {
					found = true
					vf.Assert(req.Equal(m), "C16.d.remove")
				}
			}
			vf.Assert(found, "C16.d.remove")
		} else {
			vf.Assert(vf.Or(vf.Or(err == consensus.ErrInvalidMemberID, err == ErrCCAlreadyRemoved), err == ErrCCNoMemberToRemove), "C16.d.remove")
			vf.Assert(req.Equal(&orig), "C16.d.remove")
		}
	case 2:
		vf.Assert(err != nil, "C16.d.type")
		if !vf.Or(idInvalid, inRemoved) {
			vf.Assert(err == ErrInvCCType, "C16.d.type")
		}
	}
	vf.Observe("refused", err != nil)
}

// VF_C16_d_attr: Member.HasDuplicatedAttr is exactly "some attribute (name, id, address, peer id) coincides".
func VF_C16_d_attr() {
	a := vfMember("a")
	b := vfMember("b")
	vf.Reach("C16.d.attr")
	want := vf.Or(vf.Or(a.Name == b.Name, a.ID == b.ID), vf.Or(a.Address == b.Address, bytes.Equal(a.PeerID, b.PeerID)))
	vf.Assert(a.HasDuplicatedAttr(b) == want, "C16.d.attr")
	vf.Assert(a.HasDuplicatedAttr(b) == b.HasDuplicatedAttr(a), "C16.d.attr")
	vf.Observe("dup", a.HasDuplicatedAttr(b))
}

// ---- C16.e availability check --------------------------------------------------------------------------------------

// vfNode: a raft node whose Status() is harness-chosen; isEnableChangeMembership and GetClusterProgress only call Status().
type vfNode struct{ st raftlib.Status }

func (n *vfNode) Tick()                                                           {}
func (n *vfNode) Campaign(ctx context.Context) error                               { return nil }
func (n *vfNode) Propose(ctx context.Context, data []byte) error                   { return nil }
func (n *vfNode) ProposeConfChange(ctx context.Context, cc raftpb.ConfChange) error { return nil }
func (n *vfNode) Step(ctx context.Context, msg raftpb.Message) error               { return nil }
func (n *vfNode) Ready() <-chan raftlib.Ready                                      { return nil }
func (n *vfNode) Advance()                                                        {}
func (n *vfNode) ApplyConfChange(cc raftpb.ConfChange) *raftpb.ConfState           { return nil }
func (n *vfNode) TransferLeadership(ctx context.Context, lead, transferee uint64) {}
func (n *vfNode) ReadIndex(ctx context.Context, rctx []byte) error                 { return nil }
func (n *vfNode) Status() raftlib.Status                                          { return n.st }
func (n *vfNode) ReportUnreachable(id uint64)                                     {}
func (n *vfNode) ReportSnapshot(id uint64, status raftlib.SnapshotStatus)         {}
func (n *vfNode) Stop()                                                           {}

// vfStatusJSON replaces (raft.Status).MarshalJSON in the engine: its result is only written to the debug log.
func vfStatusJSON(s raftlib.Status) ([]byte, error) { return nil, nil }

// VF_C16_e: isEnableChangeMembership on a leader with N members; per member a symbolic replication state and match
// index (so the health vector computed by the real GetClusterProgress is arbitrary).
func VF_C16_e() {
	maxN := vf.Param("maxN", 3)
	n := 1 + vf.Choice("N", maxN)
	lastIdx := vf.U64("lastIndex")
	vf.Assume(lastIdx >= 1)
	vfQuorumCheck(n, lastIdx, "C16.e", func(i int) raftlib.Progress {
		st := vf.U64("state")
		vf.Assume(st <= 2)
		return raftlib.Progress{Match: vf.U64("match"), State: raftlib.ProgressStateType(st)}
	})
}

// VF_C16_e_vec: larger clusters. The health class of every follower is a choice (healthy: replicating and caught up;
// slow: probing; syncing: receiving a snapshot); followers are interchangeable for the code (they are counted and looked
// up by id), so class vectors are enumerated in non-decreasing order only. Ids and the last index stay symbolic.
func VF_C16_e_vec() {
	maxN := vf.Param("maxN", 5)
	n := 1 + vf.Choice("N", maxN)
	lastIdx := vf.U64("lastIndex")
	vf.Assume(lastIdx >= 1)
	minClass := 0
	vfQuorumCheck(n, lastIdx, "C16.e.vec", func(i int) raftlib.Progress {
		if i == 0 {
			return raftlib.Progress{Match: lastIdx, State: raftlib.ProgressStateReplicate}
		}
		cls := minClass + vf.Choice("class", 3-minClass)
		minClass = cls
		switch cls {
		case 0:
			return raftlib.Progress{Match: lastIdx, State: raftlib.ProgressStateReplicate}
		case 1:
			return raftlib.Progress{Match: lastIdx, State: raftlib.ProgressStateProbe}
		}
		return raftlib.Progress{Match: lastIdx, State: raftlib.ProgressStateSnapshot}
	})
}

func vfQuorumCheck(n int, lastIdx uint64, reach string, mkProgress func(i int) raftlib.Progress) {
	vf.NoMapPerm(true) // Progress / MemberProgresses are only counted and looked up; ids are pairwise distinct symbols
	ids := make([]uint64, n)
	prog := map[uint64]raftlib.Progress{}
	for i := 0; i < n; i++ {
		ids[i] = vf.U64("id")
		vf.Assume(ids[i] != 0)
		for j := 0; j < i; j++ {
			vf.Assume(ids[i] != ids[j])
		}
		prog[ids[i]] = mkProgress(i)
	}
	self := ids[0] // this node is the leader
	ms := raftlib.NewMemoryStorage()
	if err := ms.ApplySnapshot(raftpb.Snapshot{Metadata: raftpb.SnapshotMetadata{Index: lastIdx, Term: 1}}); err != nil {
		panic(err)
	}
	cl := &Cluster{}
	cl.identity.ID = self
	rs := &raftServer{cluster: cl, raftStorage: ms, node: &vfNode{st: raftlib.Status{ID: self, Progress: prog}}}
	rs.leaderStatus.IsLeader = true
	rs.leaderStatus.Leader = self
	cl.rs = rs

	// health vector as the real code classifies it
	cp, err := rs.GetClusterProgress()
	vf.Assert(err == nil, "C16.e")
	vf.Assert(cp.N == n, "C16.e")
	healthy := 0
	allHealthy := true
	for i := 0; i < n; i++ {
		mp := cp.MemberProgresses[ids[i]]
		vf.Assert(mp != nil, "C16.e")
		if mp.Status == MemberProgressStateHealthy {
			healthy++
		} else {
			allHealthy = false
		}
	}
	vf.Assert(cp.MemberProgresses[self].Status == MemberProgressStateHealthy, "C16.e.leader-healthy")

	// request: 0 add, 1 other type, 2.. remove of member target = op-2 (target == n: not a member)
	op := vf.Choice("op", n+3)
	kind, target := op, n
	if op >= 2 {
		kind, target = 2, op-2
	}
	var cc raftpb.ConfChange
	if target < n {
		cc.NodeID = ids[target]
	} else {
		cc.NodeID = vf.U64("otherID")
		for i := 0; i < n; i++ {
			vf.Assume(cc.NodeID != ids[i])
		}
	}
	switch kind {
	case 0:
		cc.Type = raftpb.ConfChangeAddNode
	case 1:
		cc.Type = raftpb.ConfChangeUpdateNode
	case 2:
		cc.Type = raftpb.ConfChangeRemoveNode
	}
	res := cl.isEnableChangeMembership(&cc)
	vf.Reach(reach)
	switch kind {
	case 0: // add: refused iff some member is not healthy
		vf.Assert((res != nil) == !allHealthy, "C16.e.add")
		if res != nil {
			vf.Assert(res == ErrUnhealtyNodeExist, "C16.e.add")
		}
	case 2:
		if target == n {
			vf.Assert(res == ErrNotExitRaftProgress, "C16.e.remove")
		} else if cp.MemberProgresses[ids[target]].Status != MemberProgressStateHealthy {
			vf.Assert(res == nil, "C16.e.remove") // a slow node may always be removed
		} else {
			// removing a healthy node: the remaining healthy-1 nodes must be a majority of the remaining N-1
			refuse := healthy-1 < (n-1)/2+1
			vf.Assert((res != nil) == refuse, "C16.e.remove")
			vf.Assert(vf.Implies(res == nil, 2*(healthy-1) > n-1), "C16.e.remove")
			if res != nil {
				vf.Assert(res == ErrRemoveHealthyNode, "C16.e.remove")
			}
		}
	case 1:
		vf.Assert(res == ErrInvalidMembershipReqType, "C16.e.type")
	}
	vf.Observe("healthy", healthy)
	vf.Observe("refused", res != nil)

	// a node that is not an initialised raft member refuses everything
	rs.node = &vfNode{}
	vf.Assert(cl.isEnableChangeMembership(&cc) == ErrRaftStatusEmpty, "C16.e.uninit")
}

// ---- C16.c: the consensus library is handed back the log it acknowledged ------------------------------------------

// VF_C16_c: a log of L entries (kinds block / empty / conf-change in rotation, symbolic terms, hashes, payloads) is
// written with the real ChainDB.WriteRaftEntry together with identity and hard state; after a restart the real
// WalDB.ReadAll(snapshot) — convertWalToRaft per entry — returns the entries snapIdx+1..L in order with their terms,
// raft entry types and payloads (block entries: the stored block), or refuses a log whose term is below the snapshot's.
func VF_C16_c() {
	maxL := vf.Param("maxL", 3)
	L := vf.Choice("L", maxL+1)
	snapIdx := vf.Choice("snapIdx", L+1)
	kv := vf.NewKV()
	cdb := chain.VFChainDBOn(kv)
	ents := make([]*consensus.WalEntry, L)
	blocks := make([]*types.Block, L)
	ccs := make([]*raftpb.ConfChange, L)
	var hashes [][]byte
	for i := 0; i < L; i++ {
		e := &consensus.WalEntry{Type: consensus.EntryType(i % 3), Term: vf.U64("term"), Index: uint64(i + 1)}
		switch e.Type {
		case consensus.EntryBlock:
			h := vf.Bytes("hash", 4)
			for _, o := range hashes {
				vf.Assume(!bytes.Equal(h, o))
			}
			hashes = append(hashes, h)
			blocks[i] = &types.Block{Hash: h, Header: &types.BlockHeader{BlockNo: vf.U64("blockNo")}, Body: &types.BlockBody{}}
			e.Data = h
		case consensus.EntryConfChange:
			e.Data = vf.Bytes("ccData", 3)
			ccs[i] = &raftpb.ConfChange{ID: 0, Type: raftpb.ConfChangeAddNode}
		}
		ents[i] = e
	}
	if L > 0 {
		if err := cdb.WriteRaftEntry(ents, blocks, ccs); err != nil {
			panic(err)
		}
	}
	id := &consensus.RaftIdentity{ClusterID: vf.U64("cluster"), ID: vf.U64("id"), Name: "n1", PeerID: "p1"}
	hs := &raftpb.HardState{Term: vf.U64("hsTerm"), Vote: vf.U64("hsVote"), Commit: vf.U64("hsCommit")}
	cdb.WriteIdentity(id)
	cdb.WriteHardState(hs)

	wal := NewWalDB(chain.VFChainDBOn(kv.Reopen())) // restart
	var snap *raftpb.Snapshot
	snapTerm := uint64(0)
	if snapIdx > 0 {
		snapTerm = vf.U64("snapTerm")
		snap = &raftpb.Snapshot{Metadata: raftpb.SnapshotMetadata{Index: uint64(snapIdx), Term: snapTerm}}
	}
	lowTerm := false
	for i := snapIdx; i < L; i++ {
		lowTerm = vf.Or(lowTerm, ents[i].Term < snapTerm)
	}
	gid, gst, out, err := wal.ReadAll(snap)
	vf.Reach("C16.c")
	vf.Assert((err != nil) == lowTerm, "C16.c")
	if err != nil {
		vf.Assert(err == ErrWalEntryTooLowTerm, "C16.c")
		vf.Assert(out == nil, "C16.c")
		return
	}
	vf.Assert(vf.And(gid != nil, gst != nil), "C16.c.state")
	if gid != nil && gst != nil {
		vf.Assert(vf.And(vf.And(gid.ClusterID == id.ClusterID, gid.ID == id.ID), vf.And(gid.Name == id.Name, gid.PeerID == id.PeerID)), "C16.c.state")
		vf.Assert(vf.And(gst.Term == hs.Term, vf.And(gst.Vote == hs.Vote, gst.Commit == hs.Commit)), "C16.c.state")
	}
	vf.Assert(len(out) == L-snapIdx, "C16.c.entries")
	for k := 0; k < len(out) && k < L-snapIdx; k++ {
		e := ents[snapIdx+k]
		vf.Assert(vf.And(out[k].Index == e.Index, out[k].Term == e.Term), "C16.c.entries")
		switch e.Type {
		case consensus.EntryEmpty:
			vf.Assert(vf.And(out[k].Type == raftpb.EntryNormal, len(out[k].Data) == 0), "C16.c.entries")
		case consensus.EntryConfChange:
			vf.Assert(vf.And(out[k].Type == raftpb.EntryConfChange, bytes.Equal(out[k].Data, e.Data)), "C16.c.entries")
		case consensus.EntryBlock:
			vf.Assert(out[k].Type == raftpb.EntryNormal, "C16.c.entries")
			blk, err := unmarshalEntryData(out[k].Data)
			vf.Assert(err == nil, "C16.c.block")
			if err == nil {
				b0 := blocks[snapIdx+k]
				vf.Assert(vf.And(bytes.Equal(blk.Hash, b0.Hash), blk.Header.BlockNo == b0.Header.BlockNo), "C16.c.block")
			}
		}
	}
	vf.Observe("n", len(out))
}
