package trie

import (
	"bytes"

	vf "github.com/aergoio/aergo/v2/zzvf"
)

// ---------------------------------------------------------------------------------------------
// C11.a — completeness: for the canonical trie of every subset of the universe and every queried key (present;
// absent below an empty subtree; absent behind a foreign leaf) the outputs of the real MerkleProof and
// MerkleProofCompressed are accepted by the real VerifyInclusion(C) / VerifyNonInclusion(C) against Root, the
// `included` flag and the returned value / proof leaf agree with the model.
// The queried key is symbolic in the universe's key bits AND in its last byte, so it can share every distinguishing
// bit with a stored key and still be a different key (foreign-leaf case at full shared prefix).
// C11.d — no transplant: the honest inclusion proof of (k, v) verifies for no other (k', v') (32 symbolic bytes each),
// and the honest compressed proof verifies for no other claimed `length`.
// ---------------------------------------------------------------------------------------------

// Known finding: non-inclusion can never be verified against the EMPTY trie. MerkleProof returns (nil, false, nil, nil),
// VerifyNonInclusion(nil, key, nil, nil) compares Root (nil) with DefaultLeaf ([]byte{0}) and answers false.
const vfF15id = "F15-noninclusion-empty-trie-unverifiable"

func vfC11a(pre int) {
	n := vf.Param("N", 2)
	maxLen := vf.Param("maxLen", 2)
	if pre >= 1<<uint(n) {
		vf.Reach("C11.a")
		vf.Reach("C11.d")
		return
	}
	t, m, keys := vfRealTrie(n, pre, "C11.a")
	emptyTrie := pre == 0
	q := vfTrieKey("q")
	q[31] = vf.U8("qtail")
	present := vfKeyInModel(m, keys, q)

	// --- plain proof
	ap, inc, pk, pv, err := t.MerkleProof(q)
	vf.Reach("C11.a")
	vf.Assert(err == nil, "C11.a.err")
	vf.Assert(inc == present, "C11.a.flag")
	if inc {
		vf.Assert(len(pk) == 0, "C11.a.incl")
		vf.Assert(vfInModel(m, keys, q, pv), "C11.a.incl")
		vf.Assert(t.VerifyInclusion(ap, q, pv), "C11.a.incl")
	} else {
		if len(pk) != 0 {
			// foreign leaf: a pair of the model, different from q
			vf.Assert(vfInModel(m, keys, pk, pv), "C11.a.leaf")
			vf.Assert(!bytes.Equal(pk, q), "C11.a.leaf")
		} else {
			vf.Assert(len(pv) == 0, "C11.a.empty")
		}
		vf.AssertKnown(t.VerifyNonInclusion(ap, q, pv, pk), "C11.a.nonincl", vfF15id, emptyTrie)
	}

	// --- compressed proof
	bitmap, apc, length, incC, pkC, pvC, err := t.MerkleProofCompressed(q)
	vf.Assert(err == nil, "C11.a.err")
	vf.Assert(incC == inc, "C11.a.flag")
	vf.Assert(length == len(ap), "C11.a.length")
	vf.Assert(bytes.Equal(pkC, pk), "C11.a.flag")
	vf.Assert(bytes.Equal(pvC, pv), "C11.a.flag")
	if incC {
		vf.Assert(t.VerifyInclusionC(bitmap, q, pvC, apc, length), "C11.a.inclC")
	} else {
		vf.AssertKnown(t.VerifyNonInclusionC(apc, length, bitmap, q, pvC, pkC), "C11.a.noninclC", vfF15id, emptyTrie)
	}

	// --- no transplant of an honest inclusion proof
	if inc {
		vf.Reach("C11.d")
		k2 := vf.Bytes("k2", 32)
		v2 := vf.Bytes("v2", 32)
		same := vf.And(bytes.Equal(k2, q), bytes.Equal(v2, pv))
		vf.Assert(vf.Implies(t.VerifyInclusion(ap, k2, v2), same), "C11.d.kv")
		vf.Assert(vf.Implies(vfVerifyInclusionC(t, bitmap, k2, v2, apc, length), same), "C11.d.kvC")
		l2 := vf.Choice("length2", maxLen+2)
		if l2 != length {
			vf.Assert(!vfVerifyInclusionC(t, bitmap, q, pv, apc, l2), "C11.d.length")
		}
	}
	vf.Observe("inc", inc)
	vf.Observe("length", length)
}

func VF_C11_a_p0() { vfC11a(0) }
func VF_C11_a_p1() { vfC11a(1) }
func VF_C11_a_p2() { vfC11a(2) }
func VF_C11_a_p3() { vfC11a(3) }
