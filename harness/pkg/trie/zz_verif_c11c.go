package trie

import (
	vf "github.com/aergoio/aergo/v2/zzvf"
)

// ---------------------------------------------------------------------------------------------
// C11 — soundness of the COMPRESSED proof verifiers VerifyInclusionC / VerifyNonInclusionC.
// Same attacker model as zz_verif_c11.go: the real trie is the canonical trie of a subset of the universe, the proof
// is arbitrary: `length` (claimed depth of the proof leaf) 0..maxLen, a bitmap whose `length` relevant bits are
// arbitrary, an audit path of arbitrary items (DefaultLeaf, a digest of the real trie, 32 other bytes, 64 bytes when
// wide) whose number need not match the number of set bitmap bits. Whatever the verifier accepts is true of the model.
// A malformed proof (more set bits than items) makes the real verifier index out of range; the harness recovers the
// panic and counts it as "rejected" (soundness only says something about accepted proofs; noted in notes/C11.md).
// ---------------------------------------------------------------------------------------------

// vfCProof: an arbitrary compressed proof shape. Returns bitmap, audit path, length and the index in ap of the item
// that is hashed next to the leaf (deepest level), -1 if the deepest sibling is compressed away / there is no level.
func vfCProof(wide bool, cands [][]byte) ([]byte, [][]byte, int, int) {
	maxLen := vf.Param("maxLen", 2)
	maxL := vf.Param("maxL", 2)
	slack := vf.Param("apslack", 0)
	length := vf.Choice("length", maxLen+1)
	// bitmap bit i (MSB first) = level length-1-i below the root has a non-default sibling: a shape, enumerated.
	// The bits >= length (never read by a correct verifier for length <= 8) stay symbolic.
	bm := byte(0)
	pc := 0
	bits := make([]bool, length)
	for i := 0; i < length; i++ {
		if vf.Choice("bit", 2) == 1 {
			bits[i] = true
			bm |= 1 << uint(7-i)
			pc++
		}
	}
	bm |= vf.U8("bmpad") & (0xff >> uint(length))
	// number of items: exactly the number of set bits (slack 0), or that -1 / +1 (slack 1), or anything (slack 2)
	var l int
	switch slack {
	case 0:
		l = pc
	case 1:
		l = pc - 1 + vf.Choice("apdelta", 3)
	default:
		l = vf.Choice("L", maxL+1)
	}
	if l < 0 || l > maxL {
		return nil, nil, 0, -2
	}
	ap := vfAuditPath(l, wide, cands)
	deepest := -1
	if length > 0 && bits[0] && l >= pc {
		deepest = l - pc // the verifier consumes items from the END of ap, top level first
	}
	return []byte{bm}, ap, length, deepest
}

func vfVerifyInclusionC(t *Trie, bitmap, key, value []byte, ap [][]byte, length int) (ok bool) {
	defer func() {
		if r := recover(); r != nil {
			ok = false
		}
	}()
	return t.VerifyInclusionC(bitmap, key, value, ap, length)
}

func vfVerifyNonInclusionC(t *Trie, ap [][]byte, length int, bitmap, key, value, proofKey []byte) (ok bool) {
	defer func() {
		if r := recover(); r != nil {
			ok = false
		}
	}()
	return t.VerifyNonInclusionC(ap, length, bitmap, key, value, proofKey)
}

// C11.bC: VerifyInclusionC(bitmap, key', value', ap, length) accepts only pairs of the model.
func vfC11bC(pre int) {
	n := vf.Param("N", 2)
	wide := vf.Param("wide", 0) != 0
	if pre >= 1<<uint(n) {
		vf.Reach("C11.bC")
		return
	}
	t, m, keys := vfRealTrie(n, pre, "C11.bC")
	var cands [][]byte
	vfTrieDigests(t, t.Root, nil, 0, t.TrieHeight, false, &cands)
	bitmap, ap, length, deepest := vfCProof(wide, cands)
	if deepest == -2 {
		return
	}
	qk := vf.Bytes("qkey", 32)
	qv := vf.Bytes("qval", 32)
	ok := vfVerifyInclusionC(t, bitmap, qk, qv, ap, length)
	vf.Reach("C11.bC")
	vf.Assert(vf.Implies(ok, vfInModel(m, keys, qk, qv)), "C11.bC")
	vf.Observe("ok", ok)
}

func VF_C11_bC_p0() { vfC11bC(0) }
func VF_C11_bC_p1() { vfC11bC(1) }
func VF_C11_bC_p2() { vfC11bC(2) }
func VF_C11_bC_p3() { vfC11bC(3) }

// C11.cC (empty-subtree form): VerifyNonInclusionC(ap, length, bitmap, key', nil, nil) accepts only absent keys.
// Known finding F13 carries over: the 1-byte DefaultLeaf that stands for the empty subtree is hashed next to the
// deepest sibling; if that sibling is an (unvalidated) 64-byte item the pair is the 65-byte preimage of a leaf.
func vfC11cEmptyC(pre int) {
	n := vf.Param("N", 2)
	wide := vf.Param("wide", 0) != 0
	if pre >= 1<<uint(n) {
		vf.Reach("C11.cC.empty")
		return
	}
	t, m, keys := vfRealTrie(n, pre, "C11.cC.empty")
	var cands [][]byte
	vfTrieDigests(t, t.Root, nil, 0, t.TrieHeight, true, &cands)
	bitmap, ap, length, deepest := vfCProof(wide, cands)
	if deepest == -2 {
		return
	}
	qk := vf.Bytes("qkey", 32)
	ok := vfVerifyNonInclusionC(t, ap, length, bitmap, qk, nil, nil)
	vf.Reach("C11.cC.empty")
	present := vfKeyInModel(m, keys, qk)
	wideItem := deepest >= 0 && len(ap[deepest]) == 64
	vf.AssertKnown(vf.Implies(ok, !present), "C11.cC.empty", "F13-noninclusion-default-leaf-confusion", wideItem)
	vf.Observe("ok", ok)
}

func VF_C11_cC_empty_p0() { vfC11cEmptyC(0) }
func VF_C11_cC_empty_p1() { vfC11cEmptyC(1) }
func VF_C11_cC_empty_p2() { vfC11cEmptyC(2) }
func VF_C11_cC_empty_p3() { vfC11cEmptyC(3) }

// C11.cC (foreign-leaf form): VerifyNonInclusionC(ap, length, bitmap, key', proofVal, proofKey) accepts only absent
// keys. The proof leaf must lie on the path of key' for ALL `length` leading bits: siblings that are default are
// compressed away, so len(ap) < length in general and comparing only len(ap) bits is not enough.
func vfC11cLeafC(pre int) {
	n := vf.Param("N", 2)
	wide := vf.Param("wide", 0) != 0
	if pre >= 1<<uint(n) {
		vf.Reach("C11.cC.leaf")
		return
	}
	t, m, keys := vfRealTrie(n, pre, "C11.cC.leaf")
	var cands [][]byte
	vfTrieDigests(t, t.Root, nil, 0, t.TrieHeight, false, &cands)
	bitmap, ap, length, deepest := vfCProof(wide, cands)
	if deepest == -2 {
		return
	}
	qk := vf.Bytes("qkey", 32)
	pk := vf.Bytes("pkey", 32)
	pv := vf.Bytes("pval", 32)
	ok := vfVerifyNonInclusionC(t, ap, length, bitmap, qk, pv, pk)
	vf.Reach("C11.cC.leaf")
	present := vfKeyInModel(m, keys, qk)
	vf.Assert(vf.Implies(ok, !present), "C11.cC.leaf")
	vf.Observe("ok", ok)
}

func VF_C11_cC_leaf_p0() { vfC11cLeafC(0) }
func VF_C11_cC_leaf_p1() { vfC11cLeafC(1) }
func VF_C11_cC_leaf_p2() { vfC11cLeafC(2) }
func VF_C11_cC_leaf_p3() { vfC11cLeafC(3) }
