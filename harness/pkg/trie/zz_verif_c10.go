package trie

import (
	"bytes"

	"github.com/aergoio/aergo/v2/internal/common"
	vf "github.com/aergoio/aergo/v2/zzvf"
)

// ---------------------------------------------------------------------------------------------
// C10 — the sparse Merkle trie as a persistent, history-independent map.
// Keys: 32 bytes, directly symbolic in the bit positions selected by the tier parameter "kmask" (a mask over
// the first 16 key bits, MSB first), zero elsewhere. The engine forks on every bitIsSet(key, h) of a symbolic
// bit, i.e. it explores every trie shape the universe admits. Values: symbolic 32 bytes (never DefaultLeaf).
// ---------------------------------------------------------------------------------------------

func vfTrieKey(tag string) []byte {
	kmask := vf.Param("kmask", 0x9980)
	k := make([]byte, 32)
	k[0] = vf.U8(tag) & byte(kmask>>8)
	k[1] = vf.U8(tag) & byte(kmask)
	return k
}

// vfUniverse returns n keys, strictly increasing (w.l.o.g.: the universe is a set, batches are sorted).
func vfUniverse(n int) [][]byte {
	ks := make([][]byte, n)
	for i := range ks {
		ks[i] = vfTrieKey("key")
		if i > 0 {
			vf.Assume(bytes.Compare(ks[i-1], ks[i]) < 0)
		}
	}
	return ks
}

func vfNewTrie(root []byte, kv *vf.KV) *Trie { return NewTrie(root, common.Hasher, kv) }

// vfModel: harness-side association model over the universe.
type vfModel struct {
	present []bool
	val     [][]byte
}

func vfNewModel(n int) *vfModel { return &vfModel{present: make([]bool, n), val: make([][]byte, n)} }

// vfBatch applies one sorted batch to the trie and to the model. ops[i]: 0 = key i not in the batch,
// 1 = set to a fresh symbolic value, 2 = delete (DefaultLeaf; also for absent keys).
func vfBatch(t *Trie, m *vfModel, keys [][]byte, ops []int, ob string) {
	var bk, bv [][]byte
	for i, op := range ops {
		switch op {
		case 1:
			v := vf.Bytes("val", 32)
			bk = append(bk, keys[i])
			bv = append(bv, v)
			m.present[i], m.val[i] = true, v
		case 2:
			bk = append(bk, keys[i])
			bv = append(bv, DefaultLeaf)
			m.present[i], m.val[i] = false, nil
		}
	}
	if len(bk) == 0 {
		return // the node never calls Update with an empty batch (stateBuffer.updateTrie)
	}
	_, err := t.Update(bk, bv)
	vf.Assert(err == nil, ob+".upd")
}

func vfChoices(tag string, n, k int) []int {
	r := make([]int, n)
	for i := range r {
		r[i] = vf.Choice(tag, k)
	}
	return r
}

// vfCheckGets: Get of every universe key agrees with the model (cls: class of known finding F14, see vfF14).
func vfCheckGets(t *Trie, m *vfModel, keys [][]byte, ob string, cls bool) {
	for i, k := range keys {
		got, err := t.Get(k)
		vf.Assert(err == nil, ob+".err")
		if m.present[i] {
			vf.AssertKnown(bytes.Equal(got, m.val[i]), ob+".val", vfF14id, cls)
		} else {
			vf.AssertKnown(len(got) == 0, ob+".absent", vfF14id, cls)
		}
	}
}

const vfF14id = "F14-trie-delete-between-inserts"

// vfF14: trigger of known finding F14 (maybeAddShortcutToKV): the batch deletes a key S that is the ONLY content of
// its subtree (a lone shortcut) and also carries a smaller and a larger key that fall into that subtree. After handling
// the deletion the loop goes on and appends keys[:i], S, keys[i:] a second time, so the merged batch is unsorted and
// contains duplicates (and the deleted shortcut again). In an N=3 universe k0<k1<k2 this is: content == {k1},
// op(k1) = delete, k0 and k2 both in the batch.
func vfF14(m *vfModel, ops []int) bool {
	if len(ops) != 3 {
		return false
	}
	return !m.present[0] && m.present[1] && !m.present[2] && ops[1] == 2 && ops[0] != 0 && ops[2] != 0
}

// vfCanonicalRoot: root of a fresh trie (own store) that receives the model content in ONE batch.
func vfCanonicalRoot(m *vfModel, keys [][]byte, ob string) []byte {
	var bk, bv [][]byte
	for i := range keys {
		if m.present[i] {
			bk = append(bk, keys[i])
			bv = append(bv, m.val[i])
		}
	}
	if len(bk) == 0 {
		return nil
	}
	t := vfNewTrie(nil, vf.NewKV())
	r, err := t.Update(bk, bv)
	vf.Assert(err == nil, ob)
	return r
}

// VF_C10_ab: map semantics (C10.a) and history independence (C10.b), step form.
// pre-content: an arbitrary subset of the universe inserted in one batch (the canonical trie of that content);
// then `nb` further batches, each an arbitrary mix of inserts/updates/deletes (deletes of absent keys included),
// each followed by the per-block commit (StageUpdates into the KV model) when commit=1.
// After every batch: Get(k) == model for every universe key, and Root == root of the canonical trie of the model
// (nil for the empty map). By induction over batches this covers histories of any length whose every prefix
// content is a subset of the universe.
func vfC10ab(pre int) {
	n := vf.Param("N", 2)
	nb := vf.Param("batches", 1)
	commit := vf.Param("commit", 1) != 0
	if vf.Param("tierskip", 0) != 0 || pre >= 1<<uint(n) {
		vf.Reach("C10.a")
		vf.Reach("C10.b")
		return // shape does not exist for N keys, or job switched off in this tier (tierskip)
	}
	keys := vfUniverse(n)
	kv := vf.NewKV()
	t := vfNewTrie(nil, kv)
	m := vfNewModel(n)
	// pre-content: key i present iff bit i of pre
	pops := make([]int, n)
	for i := range pops {
		pops[i] = (pre >> uint(i)) & 1
	}
	vfBatch(t, m, keys, pops, "C10.a")
	if commit {
		vf.Assert(t.Commit() == nil, "C10.a.commit")
	}
	for b := 0; b < nb; b++ {
		ops := vfChoices("op", n, 3)
		cls := vfF14(m, ops)
		vfBatch(t, m, keys, ops, "C10.a")
		vf.Reach("C10.a")
		vfCheckGets(t, m, keys, "C10.a", cls)
		vf.Reach("C10.b")
		want := vfCanonicalRoot(m, keys, "C10.b")
		if want == nil {
			vf.AssertKnown(len(t.Root) == 0, "C10.b", vfF14id, cls)
		} else {
			vf.AssertKnown(bytes.Equal(t.Root, want), "C10.b", vfF14id, cls)
		}
		if commit {
			vf.Assert(t.Commit() == nil, "C10.a.commit")
		}
	}
	vf.Observe("root", t.Root)
}

// one job per pre-content shape (jobs are the engine's unit of parallelism)
func VF_C10_ab_p0() { vfC10ab(0) }
func VF_C10_ab_p1() { vfC10ab(1) }
func VF_C10_ab_p2() { vfC10ab(2) }
func VF_C10_ab_p3() { vfC10ab(3) }
func VF_C10_ab_p4() { vfC10ab(4) }
func VF_C10_ab_p5() { vfC10ab(5) }
func VF_C10_ab_p6() { vfC10ab(6) }
func VF_C10_ab_p7() { vfC10ab(7) }

// N=3 jobs (params N=3): pre-content shapes 0, 1, 2, 4; shape 2 = {k1} is the shape of known finding F14
func VF_C10_ab_n3p0() { vfC10ab(0) }
func VF_C10_ab_n3p1() { vfC10ab(1) }
func VF_C10_ab_n3p2() { vfC10ab(2) }
func VF_C10_ab_n3p4() { vfC10ab(4) }

// VF_C10_a_fresh: Get of a key outside the content returns nothing (and of a content key its value), on the
// canonical trie of every subset of the universe; the queried key is symbolic in the same bit positions.
func VF_C10_a_fresh() {
	n := vf.Param("N", 2)
	keys := vfUniverse(n)
	t := vfNewTrie(nil, vf.NewKV())
	m := vfNewModel(n)
	vfBatch(t, m, keys, vfChoices("pre", n, 2), "C10.a.fresh")
	q := vfTrieKey("q")
	got, err := t.Get(q)
	vf.Reach("C10.a.fresh")
	vf.Assert(err == nil, "C10.a.fresh")
	hit := false
	for i, k := range keys {
		if m.present[i] && bytes.Equal(k, q) {
			hit = true
			vf.Assert(bytes.Equal(got, m.val[i]), "C10.a.fresh")
		}
	}
	if !hit {
		vf.Assert(len(got) == 0, "C10.a.fresh")
	}
	vf.Observe("got", got)
}

// ---------------------------------------------------------------------------------------------
// C10.c — batch codec: parseBatch(serializeBatch(b)) == b.
// A batch has 31 slots; slot 0 is the shortcut flag, slots 1..30 are empty or 33 bytes (hash|flag, key|2, value|2).
// Occupancy is a shape (slice lengths are concrete), so it is enumerated: `occ` occupied slots at symbolic,
// strictly increasing positions (sparse family) or all slots occupied except `occ` holes (dense family);
// contents are symbolic. Shortcut batches: slots 1,2 occupied, rest empty (what leafHash/moveUpShortcut build).
// ---------------------------------------------------------------------------------------------

func vfPositions(k int) []int {
	ps := make([]int, k)
	for i := range ps {
		p := int(vf.U8("pos"))
		vf.Assume(p >= 1)
		vf.Assume(p <= 30)
		if i > 0 {
			vf.Assume(p > ps[i-1])
		}
		ps[i] = p
	}
	return ps
}

func VF_C10_c() {
	maxOcc := vf.Param("maxOcc", 2)
	fam := vf.Choice("family", 3) // 0 sparse interior, 1 dense interior, 2 shortcut batch
	batch := make([][]byte, 31)
	switch fam {
	case 0:
		batch[0] = []byte{0}
		k := vf.Choice("occ", maxOcc+1)
		marks := make([]bool, 31)
		for _, p := range vfPositions(k) {
			marks[p] = true // symbolic index => the engine forks over the feasible positions
		}
		for i := 1; i <= 30; i++ {
			if marks[i] {
				batch[i] = vf.Bytes("slot", 33)
			}
		}
	case 1:
		batch[0] = []byte{0}
		k := vf.Choice("holes", maxOcc+1)
		marks := make([]bool, 31)
		for _, p := range vfPositions(k) {
			marks[p] = true
		}
		for i := 1; i <= 30; i++ {
			if !marks[i] {
				batch[i] = vf.Bytes("slot", 33)
			}
		}
	case 2:
		batch[0] = []byte{1}
		batch[1] = vf.Bytes("slot", 33)
		batch[2] = vf.Bytes("slot", 33)
	}
	c := &CacheDB{}
	ser := c.serializeBatch(batch)
	s := &Trie{}
	got := s.parseBatch(ser)
	vf.Reach("C10.c")
	vf.Assert(len(got) == 31, "C10.c")
	vf.Assert(len(got[0]) == 1, "C10.c")
	vf.Assert(got[0][0] == batch[0][0], "C10.c")
	for i := 1; i <= 30; i++ {
		if len(batch[i]) == 0 {
			vf.Assert(len(got[i]) == 0, "C10.c")
		} else {
			vf.Assert(bytes.Equal(got[i], batch[i]), "C10.c")
		}
	}
	vf.Observe("serlen", len(ser))
}
