package trie

import (
	"bytes"

	vf "github.com/aergoio/aergo/v2/zzvf"
)

// ---------------------------------------------------------------------------------------------
// C11 — Merkle proofs. The real trie is the canonical trie of an arbitrary subset of the C10 universe
// (symbolic keys/values); the PROOF is arbitrary (attacker): an audit path of L <= maxL items, each DefaultLeaf or
// 32 symbolic bytes (64 symbolic bytes too when wide=1), a symbolic 32-byte queried key and value, a symbolic
// proof key / proof value. Soundness: whatever the real verifier accepts is true of the model.
// ---------------------------------------------------------------------------------------------

// vfRealTrie builds the canonical trie of the subset `pre` (bit i = key i present) of an n-key universe.
func vfRealTrie(n, pre int, ob string) (*Trie, *vfModel, [][]byte) {
	keys := vfUniverse(n)
	t := vfNewTrie(nil, vf.NewKV())
	m := vfNewModel(n)
	ops := make([]int, n)
	for i := range ops {
		ops[i] = (pre >> uint(i)) & 1
	}
	vfBatch(t, m, keys, ops, ob)
	return t, m, keys
}

// vfTrieDigests walks the real trie and returns the digests of all nodes below the root (interior nodes and
// shortcut leaves), the only digests an audit-path item can usefully be equal to. If noZeroEdge is set it also assumes
// that none of them starts or ends with a zero byte (see vfC11cEmpty).
func vfTrieDigests(t *Trie, root []byte, batch [][]byte, iBatch, height int, noZeroEdge bool, out *[][]byte) {
	if len(root) == 0 {
		return
	}
	batch, iBatch, l, r, isShortcut, err := t.loadChildren(root, height, iBatch, batch)
	if err != nil || isShortcut || height == 0 {
		return
	}
	for _, c := range [][]byte{l, r} {
		if len(c) != 0 {
			if noZeroEdge {
				vf.Assume(c[0] != 0)
				vf.Assume(c[HashLength-1] != 0)
			}
			*out = append(*out, c[:HashLength])
		}
	}
	vfTrieDigests(t, l, batch, 2*iBatch+1, height-1, noZeroEdge, out)
	vfTrieDigests(t, r, batch, 2*iBatch+2, height-1, noZeroEdge, out)
}

// vfAuditPath: an arbitrary audit path of l items. An item is DefaultLeaf, one of the real trie's node digests
// (`cands`, taken from the real trie so that a counterexample replays with the real SHA-256), 32 symbolic bytes
// different from all those digests (the case split is complete), or — wide — 64 symbolic bytes.
func vfAuditPath(l int, wide bool, cands [][]byte) [][]byte {
	kinds := 2
	if wide {
		kinds = 3
	}
	ap := make([][]byte, l)
	for i := range ap {
		k := vf.Choice("apkind", kinds+len(cands))
		switch {
		case k == 0:
			ap[i] = DefaultLeaf
		case k == 1:
			it := vf.Bytes("ap", 32)
			for _, c := range cands {
				vf.Assume(!bytes.Equal(it, c))
			}
			ap[i] = it
		case k == 2 && wide:
			ap[i] = vf.Bytes("apw", 64)
		default:
			ap[i] = cands[k-kinds]
		}
	}
	return ap
}

// vfInModel: (k -> v) is in the model / k is a key of the model (terms, no forks).
func vfInModel(m *vfModel, keys [][]byte, k, v []byte) bool {
	r := false
	for i := range keys {
		if m.present[i] {
			r = vf.Or(r, vf.And(bytes.Equal(keys[i], k), bytes.Equal(m.val[i], v)))
		}
	}
	return r
}

func vfKeyInModel(m *vfModel, keys [][]byte, k []byte) bool {
	r := false
	for i := range keys {
		if m.present[i] {
			r = vf.Or(r, bytes.Equal(keys[i], k))
		}
	}
	return r
}

// C11.b: VerifyInclusion(ap, key', value') accepts only pairs of the model.
func vfC11b(pre int) {
	n := vf.Param("N", 2)
	maxL := vf.Param("maxL", 2)
	wide := vf.Param("wide", 0) != 0
	if pre >= 1<<uint(n) {
		vf.Reach("C11.b")
		return
	}
	t, m, keys := vfRealTrie(n, pre, "C11.b")
	var cands [][]byte
	vfTrieDigests(t, t.Root, nil, 0, t.TrieHeight, false, &cands)
	l := vf.Choice("L", maxL+1)
	ap := vfAuditPath(l, wide, cands)
	qk := vf.Bytes("qkey", 32)
	qv := vf.Bytes("qval", 32)
	ok := t.VerifyInclusion(ap, qk, qv)
	vf.Reach("C11.b")
	vf.Assert(vf.Implies(ok, vfInModel(m, keys, qk, qv)), "C11.b")
	vf.Observe("ok", ok)
}

func VF_C11_b_p0() { vfC11b(0) }
func VF_C11_b_p1() { vfC11b(1) }
func VF_C11_b_p2() { vfC11b(2) }
func VF_C11_b_p3() { vfC11b(3) }

// No-zero-edge assumption of C11.c.empty: no node digest of the real trie starts or ends with a zero byte.
// DefaultLeaf is the single byte 0x00 and node inputs are not domain separated, so H(0x00||R) == H(L||0x00) as strings
// when L = 0x00||R[0:31] and R[31] == 0; a real trie has such a node with probability 2/256 per node, but a model of the
// uninterpreted hash cannot be replayed natively for it. That case is demonstrated by VF_C11_c_zero (native grinding).

// C11.c (empty-subtree form): VerifyNonInclusion(ap, key', nil, nil) accepts only keys absent from the model.
func vfC11cEmpty(pre int) {
	n := vf.Param("N", 2)
	maxL := vf.Param("maxL", 2)
	wide := vf.Param("wide", 0) != 0
	if pre >= 1<<uint(n) {
		vf.Reach("C11.c.empty")
		return
	}
	t, m, keys := vfRealTrie(n, pre, "C11.c.empty")
	var cands [][]byte
	vfTrieDigests(t, t.Root, nil, 0, t.TrieHeight, true, &cands)
	l := vf.Choice("L", maxL+1)
	ap := vfAuditPath(l, wide, cands)
	qk := vf.Bytes("qkey", 32)
	ok := t.VerifyNonInclusion(ap, qk, nil, nil)
	vf.Reach("C11.c.empty")
	present := vfKeyInModel(m, keys, qk)
	// F13: the item hashed next to the 1-byte DefaultLeaf (ap[0], the deepest one) is 64 bytes long: the pair is read
	// as the 65-byte preimage key||value||height of a leaf (item||0x00 with height byte byte(256) == 0 for the root
	// leaf of a single-key trie, 0x00||item for a leaf whose key starts with a zero byte)
	wideItem := len(ap) > 0 && len(ap[0]) == 64
	vf.AssertKnown(vf.Implies(ok, !present), "C11.c.empty", "F13-noninclusion-default-leaf-confusion", wideItem)
	vf.Observe("ok", ok)
}

func VF_C11_c_empty_p0() { vfC11cEmpty(0) }
func VF_C11_c_empty_p1() { vfC11cEmpty(1) }
func VF_C11_c_empty_p2() { vfC11cEmpty(2) }
func VF_C11_c_empty_p3() { vfC11cEmpty(3) }

// C11.c (foreign-leaf form): VerifyNonInclusion(ap, key', proofVal, proofKey) accepts only keys absent from the model.
// Known finding F7: the verifier never checks proofKey != key', so a present key's own inclusion proof is accepted
// as a proof of its absence; class = proofKey equals the queried key.
func vfC11cLeaf(pre int) {
	n := vf.Param("N", 2)
	maxL := vf.Param("maxL", 2)
	wide := vf.Param("wide", 0) != 0
	if pre >= 1<<uint(n) {
		vf.Reach("C11.c.leaf")
		return
	}
	t, m, keys := vfRealTrie(n, pre, "C11.c.leaf")
	var cands [][]byte
	vfTrieDigests(t, t.Root, nil, 0, t.TrieHeight, false, &cands)
	l := vf.Choice("L", maxL+1)
	ap := vfAuditPath(l, wide, cands)
	qk := vf.Bytes("qkey", 32)
	pk := vf.Bytes("pkey", 32)
	pv := vf.Bytes("pval", 32)
	ok := t.VerifyNonInclusion(ap, qk, pv, pk)
	vf.Reach("C11.c.leaf")
	present := vfKeyInModel(m, keys, qk)
	vf.AssertKnown(vf.Implies(ok, !present), "C11.c.leaf", "F7-noninclusion-proofkey-equals-key", bytes.Equal(pk, qk))
	vf.Observe("ok", ok)
}

func VF_C11_c_leaf_p0() { vfC11cLeaf(0) }
func VF_C11_c_leaf_p1() { vfC11cLeaf(1) }
func VF_C11_c_leaf_p2() { vfC11cLeaf(2) }
func VF_C11_c_leaf_p3() { vfC11cLeaf(3) }
