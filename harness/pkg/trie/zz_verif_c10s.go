package trie

import (
	"bytes"

	vf "github.com/aergoio/aergo/v2/zzvf"
)

// ---------------------------------------------------------------------------------------------
// C10.a / C10.b over TWO committed batches on a pre-content whose shape crosses a batch boundary ("sibling" jobs).
// Universe of 4 keys: k0 < k1 collide on the first `sib` key bits (sib = 4m+3) and differ on bit `sib`, so each of them
// is a shortcut batch of its own at height 256-sib-1 (a multiple of 4) and their parent sits on the last row of the
// enclosing 4-level batch; k2 < k3 carry bit sib-1 (so they never equal k0/k1) and are symbolic in key bits 0 and 1
// (every position relative to the pair: same half, other half, next to the pair's grandparent).
// Pre-content: all four keys, one batch, committed (reads of later batches go through loadBatch/parseBatch).
// Batch 1: per key keep / delete (ops1=2) or keep / set / delete (ops1=3); commit.
// Batch 2: one arbitrary universe key set to a fresh value or deleted (deletes of absent keys included); commit.
// (two jobs: key index 0..1 = one of the pair, key index 2..3 = one of the others; params key2lo, key2n)
// After each batch: Get(k) == model for every universe key, Root == root of the canonical trie of the content.
// No batch has three keys of which the middle one is a delete of a lone shortcut, so known finding F14 cannot occur.
// ---------------------------------------------------------------------------------------------

func vfSibUniverse() [][]byte {
	sib := vf.Param("sib", 3) // 3, 7, 11: number of leading bits shared by the sibling pair
	setBit := func(k []byte, i int) { k[i/8] |= 1 << uint(7-i%8) }
	k0 := make([]byte, 32)
	k1 := make([]byte, 32)
	setBit(k1, sib)
	others := make([][]byte, 2)
	for i := range others {
		k := make([]byte, 32)
		k[0] = vf.U8("okey") & 0xC0
		setBit(k, sib-1)
		others[i] = k
	}
	vf.Assume(bytes.Compare(others[0], others[1]) < 0)
	return [][]byte{k0, k1, others[0], others[1]}
}

func vfSibCheck(t *Trie, m *vfModel, keys [][]byte) {
	vf.Reach("C10.a")
	vfCheckGets(t, m, keys, "C10.a", false)
	vf.Reach("C10.b")
	want := vfCanonicalRoot(m, keys, "C10.b")
	if want == nil {
		vf.Assert(len(t.Root) == 0, "C10.b")
	} else {
		vf.Assert(bytes.Equal(t.Root, want), "C10.b")
	}
	vf.Assert(t.Commit() == nil, "C10.a.commit")
}

func VF_C10_ab_sib_pair()  { vfC10abSib() }
func VF_C10_ab_sib_other() { vfC10abSib() }

func vfC10abSib() {
	if vf.Param("tierskip", 0) != 0 {
		vf.Reach("C10.a")
		vf.Reach("C10.b")
		return
	}
	vf.NoMapPerm(true) // Commit writes the updated batches in map order; the writes are independent (distinct keys)
	ops1 := vf.Param("ops1", 2)
	keys := vfSibUniverse()
	n := len(keys)
	kv := vf.NewKV()
	t := vfNewTrie(nil, kv)
	m := vfNewModel(n)
	vfBatch(t, m, keys, []int{1, 1, 1, 1}, "C10.a")
	vf.Assert(t.Commit() == nil, "C10.a.commit")
	// batch 1
	b1 := make([]int, n)
	for i := range b1 {
		c := vf.Choice("op1", ops1)
		if ops1 == 2 {
			c *= 2 // 0 keep, 2 delete
		}
		b1[i] = c
	}
	vfBatch(t, m, keys, b1, "C10.a")
	vfSibCheck(t, m, keys)
	// batch 2: one key, set or delete
	b2 := make([]int, n)
	b2[vf.Param("key2lo", 0)+vf.Choice("key2", vf.Param("key2n", n))] = 1 + vf.Choice("op2", 2)
	vfBatch(t, m, keys, b2, "C10.a")
	vfSibCheck(t, m, keys)
	// a fresh instance at the final root over the store answers the same
	f := vfNewTrie(t.Root, kv)
	vfCheckGets(f, m, keys, "C10.d.fresh", false)
	vf.Observe("root", t.Root)
}
