package mempool

import (
	"bytes"
	"math"
	"time"

	"github.com/aergoio/aergo/v2/internal/enc/proto"

	"github.com/aergoio/aergo/v2/types"
	vf "github.com/aergoio/aergo/v2/zzvf"
)

// ---------------------------------------------------------------------------------------------------------------
// C13.c / C13.d — MemPool bookkeeping (real put / removeTx / removeOnBlockArrival of mempool/mempool.go), one step
// from an ARBITRARY pool satisfying the pool invariant PINV:
//   P1 every list in mp.pool is non-empty, satisfies INV (C13.a) and is keyed by the id of its account
//   P2 the id cache holds exactly the listed transactions (id -> that transaction), ids pairwise distinct
//   P3 mp.length = Σ len(list), mp.orphan = Σ (len(list) - ready)
// ---------------------------------------------------------------------------------------------------------------

var vfC13Shapes = [][2]int{{0, 0}, {1, 0}, {1, 1}, {2, 0}, {2, 1}, {3, 0}, {2, 2}, {3, 1}}

var vfC13Name = []byte("namedaccount") // a 12-byte account name owned by vfC13Acc[0]

// vfC13NamedTx: a transaction sent by a NAME; the verifier resolved the name to its owner address (real
// MemPool.verifyTx does tx.SetVerifedAccount(owner)), so the pool files it under the owner's account.
func vfC13NamedTx() types.Transaction {
	tx := vfC13Tx(1, vfC13Name)
	tx.SetVerifedAccount(vfC13Acc[0])
	return tx
}

func vfC13Sender(tx types.Transaction) []byte {
	if tx.HasVerifedAccount() {
		return tx.GetVerifedAccount()
	}
	return tx.GetBody().GetAccount()
}

func vfC13AccKey(a int) string { return types.ToAccountID(vfC13Acc[a]).String() }

// vfC13SetState: symbolic chain state (nonce, balance) of both accounts, through the code's own test maps.
func vfC13SetState() {
	for a := range vfC13Acc {
		n := vf.U64("stateNonce")
		vf.Assume(n < math.MaxUint64)
		nonce[vfC13AccKey(a)] = n
		balance[vfC13AccKey(a)] = vf.U64("stateBalance")
	}
}

type vfC13Snap struct {
	lists          [2][]types.Transaction
	ready          [2]int
	length, orphan int
	npool          int
}

func vfC13List2(mp *MemPool, a int) *txList { return mp.pool[types.ToAccountID(vfC13Acc[a])] }

func vfC13TakeSnap(mp *MemPool) *vfC13Snap {
	s := &vfC13Snap{length: mp.length, orphan: mp.orphan, npool: len(mp.pool)}
	for a := range vfC13Acc {
		if tl := vfC13List2(mp, a); tl != nil {
			s.lists[a] = append([]types.Transaction(nil), tl.list...)
			s.ready[a] = tl.ready
		}
	}
	return s
}

func vfC13Unchanged(mp *MemPool, s *vfC13Snap, ob string) {
	vf.Assert(mp.length == s.length, ob)
	vf.Assert(mp.orphan == s.orphan, ob)
	vf.Assert(len(mp.pool) == s.npool, ob)
	for a := range vfC13Acc {
		tl := vfC13List2(mp, a)
		if tl == nil {
			vf.Assert(len(s.lists[a]) == 0, ob)
			continue
		}
		vf.Assert(vfSameList(tl.list, s.lists[a]), ob)
		vf.Assert(tl.ready == s.ready[a], ob)
	}
}

// vfC13BuildPool: arbitrary pool satisfying PINV with <= 2 accounts; the shape (list lengths) is enumerated.
func vfC13BuildPool(named bool) (*MemPool, []types.Transaction) {
	mp := vfC13Pool()
	lo, hi := vf.Param("shapeLo", 0), vf.Param("shapeHi", 4)
	shape := vfC13Shapes[lo+vf.Choice("shape", hi-lo+1)]
	var all []types.Transaction
	for a := 0; a < 2; a++ {
		n := shape[a]
		if n == 0 {
			continue // an empty list is never kept (releaseMemPoolList)
		}
		base := &types.State{Nonce: vf.U64("baseNonce"), Balance: vf.BigBytes("baseBalance")}
		list := make([]types.Transaction, n)
		if vfC13Sized >= 0 {
			vfC13Sized = 0
		}
		for i := range list {
			if named && a == 0 && i == 0 {
				list[i] = vfC13NamedTx()
			} else {
				list[i] = vfC13Tx(1, vfC13Acc[a])
			}
		}
		ready := vf.Choice("ready", n+1)
		prev := base.Nonce
		for i := 0; i < n; i++ {
			x := vfNonce(list[i])
			vf.Assume(x > prev)
			prev = x
		}
		for i := 0; i < ready; i++ {
			vf.Assume(vfNonce(list[i]) == base.Nonce+uint64(i)+1)
		}
		if ready < n {
			vf.Assume(vfNonce(list[ready]) != base.Nonce+uint64(ready)+1)
		}
		mp.pool[types.ToAccountID(vfC13Acc[a])] = &txList{base: base, account: vfC13Acc[a], ready: ready, list: list, mp: mp}
		mp.length += n
		mp.orphan += n - ready
		all = append(all, list...)
	}
	for i := range all {
		for j := i + 1; j < len(all); j++ {
			vf.Assume(!bytes.Equal(all[i].GetHash(), all[j].GetHash()))
		}
	}
	for _, tx := range all {
		mp.cache.Store(types.ToTxID(tx.GetHash()), tx)
	}
	return mp, all
}

// vfC13CheckPool asserts PINV.
func vfC13CheckPool(mp *MemPool, ob string) {
	total, orphan, lists := 0, 0, 0
	for a := range vfC13Acc {
		tl := vfC13List2(mp, a)
		if tl == nil {
			continue
		}
		lists++
		vf.Assert(len(tl.list) > 0, ob)
		vf.Assert(bytes.Equal(tl.account, vfC13Acc[a]), ob)
		vfC13CheckInv(tl, ob)
		for _, tx := range tl.list {
			vf.Assert(bytes.Equal(vfC13Sender(tx), vfC13Acc[a]), ob)
			v, ok := mp.cache.Load(types.ToTxID(tx.GetHash()))
			vf.Assert(ok, ob) // every listed transaction is cached ...
			if ok {
				vf.Assert(v.(types.Transaction) == tx, ob)
			}
		}
		total += len(tl.list)
		orphan += len(tl.list) - tl.ready
	}
	vf.Assert(len(mp.pool) == lists, ob)
	cached := 0
	mp.cache.Range(func(k, v interface{}) bool { cached++; return true })
	vf.Assert(cached == total, ob) // ... and vice versa (ids of listed transactions are pairwise distinct)
	l, o := mp.Size()
	vf.Assert(l == total, ob) // the reported totals equal what the pool holds
	vf.Assert(o == orphan, ob)
}

// C13.c/d (put): one MemPool.put of an arbitrary transaction (either account, any nonce, any id — possibly the id of
// a pooled transaction), against an arbitrary chain state.
func VF_C13_c_put() {
	const ob = "C13.c.put"
	mp, all := vfC13BuildPool(false)
	vfC13SetState()
	a := vf.Choice("acc", 2)
	var tx types.Transaction
	if a == 0 && vf.Choice("named", 1+vf.Param("named", 0)) == 1 {
		tx = vfC13NamedTx()
	} else {
		tx = vfC13Tx(1, vfC13Acc[a])
	}
	if vf.Param("noQuirk", 0) != 0 {
		vf.Assume(!types.IsQuirkTx(tx.GetHash())) // not the one hard-coded legacy id that skips the recipient check
	}
	snap := vfC13TakeSnap(mp)
	dupHash, dupNonce := false, false
	for _, o := range all {
		dupHash = vf.Or(dupHash, bytes.Equal(o.GetHash(), tx.GetHash()))
	}
	for _, o := range snap.lists[a] {
		dupNonce = vf.Or(dupNonce, vfNonce(o) == vfNonce(tx))
	}
	err := mp.put(tx)
	vf.Reach(ob)
	// C13.d: same id => ErrTxAlreadyInMempool; same (account, nonce) => refused
	vf.Assert((err == types.ErrTxAlreadyInMempool) == dupHash, "C13.d")
	vf.Assert(vf.Implies(dupNonce, err != nil), "C13.d")
	vf.Assert(vf.Implies(err == types.ErrSameNonceAlreadyInMempool, dupNonce), "C13.d")
	if err != nil {
		vfC13Unchanged(mp, snap, ob)
	} else {
		vf.Assert(mp.length == snap.length+1, ob)
		tl := vfC13List2(mp, a)
		vf.Assert(tl != nil, ob)
		if tl != nil {
			vf.Assert(len(tl.list) == len(snap.lists[a])+1, ob)
			vf.Assert(vfCount(tl.list, tx) == 1, ob)
			for _, o := range snap.lists[a] {
				vf.Assert(vfCount(tl.list, o) == 1, ob)
			}
		}
		if other := vfC13List2(mp, 1-a); other != nil {
			vf.Assert(vfSameList(other.list, snap.lists[1-a]), ob)
		} else {
			vf.Assert(len(snap.lists[1-a]) == 0, ob)
		}
	}
	vfC13CheckPool(mp, ob)
	vf.Observe("err", err != nil)
	vf.Observe("length", mp.length)
	vf.Observe("orphan", mp.orphan)
}

// C13.c (removeTx): MemPool.removeTx of a pooled transaction (its own *types.Tx, as chain service sends it for a
// transaction that timed out in the block factory) or of a transaction that is not pooled.
func VF_C13_c_remove() {
	const ob = "C13.c.remove"
	mp, all := vfC13BuildPool(vf.Param("named", 0) != 0)
	snap := vfC13TakeSnap(mp)
	k := vf.Choice("victim", len(all)+1)
	var victim types.Transaction
	var arg *types.Tx
	if k < len(all) {
		victim = all[k]
		arg = victim.GetTx()
	} else {
		arg = &types.Tx{Hash: vf.Bytes("rmHash", 32), Body: &types.TxBody{Account: vfC13Acc[vf.Choice("rmAcc", 2)]}}
		for _, o := range all {
			vf.Assume(!bytes.Equal(o.GetHash(), arg.Hash))
		}
	}
	err := mp.removeTx(arg)
	vf.Reach(ob)
	if victim == nil {
		vf.Assert(err == types.ErrTxNotFound, ob)
		vfC13Unchanged(mp, snap, ob)
		vfC13CheckPool(mp, ob)
	} else {
		// a transaction sent by a name is filed under the owner address but looked up under the name
		isNamed := victim.HasVerifedAccount()
		vf.Assert(err == nil, ob)
		_, still := mp.cache.Load(types.ToTxID(victim.GetHash()))
		vf.Assert(!still, ob)
		listed := 0
		for a := range vfC13Acc {
			if tl := vfC13List2(mp, a); tl != nil {
				listed += vfCount(tl.list, victim)
			}
		}
		l, _ := mp.Size()
		vf.Assert(l == snap.length-1, ob)
		if !isNamed {
			vfC13CheckPool(mp, ob)
		}
		vf.Observe("listed", listed)
		// last (the engine continues under the asserted condition): the transaction is gone from its list
		vf.AssertKnown(listed == 0, ob, "F13-removeTx-name-sender", isNamed)
	}
	vf.Observe("err", err != nil)
	vf.Observe("length", mp.length)
	vf.Observe("orphan", mp.orphan)
}

// C13.c (block arrival): MemPool.removeOnBlockArrival with an arbitrary new chain state per account (advance or
// rewind); afterwards no pooled transaction has a nonce at or below its account's nonce.
func VF_C13_c_block() {
	const ob = "C13.c.block"
	mp, _ := vfC13BuildPool(false)
	vfC13SetState()
	err := mp.removeOnBlockArrival(&types.Block{})
	vf.Reach(ob)
	vf.Assert(err == nil, ob)
	for a := range vfC13Acc {
		if tl := vfC13List2(mp, a); tl != nil {
			vf.Assert(tl.base.Nonce == nonce[vfC13AccKey(a)], ob)
			for _, tx := range tl.list {
				vf.Assert(vfNonce(tx) > nonce[vfC13AccKey(a)], ob)
			}
		}
	}
	vfC13CheckPool(mp, ob)
	vf.Observe("length", mp.length)
	vf.Observe("orphan", mp.orphan)
}

// C13.c (get): what MemPool.get hands to a block producer under an ARBITRARY block-body size limit: per account a
// prefix of the gap-free run (nonces base+1, base+2, ... in order, nothing parked behind a gap, nothing skipped when
// the size cut-off is hit in the middle of a run), no transaction twice, total wire size within the limit, and
// everything that is ready when the limit allows it. Map iteration order of the accounts: all orders.
func VF_C13_c_get() {
	const ob = "C13.c.get"
	vfC13Sized = 0
	mp, all := vfC13BuildPool(false)
	limit := vf.U32("maxBlockBodySize")
	txs, err := mp.get(limit)
	vf.Reach(ob)
	vf.Assert(err == nil, ob)
	size, readyTotal, readySize := 0, 0, 0
	for a := range vfC13Acc {
		tl := vfC13List2(mp, a)
		if tl == nil {
			continue
		}
		idx := 0
		for _, t := range txs {
			if vfCount(tl.list, t) == 0 {
				continue
			}
			// the k-th transaction returned for this account is the k-th of its gap-free run
			vf.Assert(idx < tl.ready, ob)
			if idx < tl.ready {
				vf.Assert(t == tl.list[idx], ob)
				vf.Assert(vfNonce(t) == tl.base.Nonce+uint64(idx)+1, ob)
			}
			idx++
		}
		readyTotal += tl.ready
		for i := 0; i < tl.ready; i++ {
			readySize += proto.Size(tl.list[i].GetTx())
		}
	}
	for _, t := range txs {
		vf.Assert(vfCount(all, t) == 1, ob) // only pooled transactions
		vf.Assert(vfCount(txs, t) == 1, ob) // none twice
		size += proto.Size(t.GetTx())
	}
	vf.Assert(uint64(size) <= uint64(limit), ob)
	// nothing is withheld when everything that is ready fits
	vf.Assert(vf.Implies(uint64(readySize) <= uint64(limit), len(txs) == readyTotal), ob)
	vfC13CheckPool(mp, ob) // get does not modify the pool
	vf.Observe("n", len(txs))
	vf.Observe("size", size)
}

// C13.c (evict): MemPool.evictTransactions drops every account list that has not been modified within the evict
// period, together with its cache entries and counters (also lists with transactions parked behind a nonce gap), and
// leaves the other lists alone.
func VF_C13_c_evict() {
	const ob = "C13.c.evict"
	mp, _ := vfC13BuildPool(false)
	// a stale list: never modified (zero time); a fresh one: modified "in the future" (year 2106) so that the verdict
	// does not depend on the clock. evictPeriod = 0; the 4 ms work timer is not modelled (never fires).
	evictPeriod = 0
	evictWorkTimeout = time.Hour
	var stale [2]bool
	for a := range vfC13Acc {
		if tl := vfC13List2(mp, a); tl != nil {
			if vf.Choice("stale", 2) == 1 {
				stale[a] = true
			} else {
				tl.lastTime = time.Unix(1<<32, 0)
			}
		}
	}
	snap := vfC13TakeSnap(mp)
	mp.evictTransactions()
	vf.Assume(time.Now().Before(time.Unix(1<<32, 0))) // the wall clock is before 2106
	vf.Reach(ob)
	for a := range vfC13Acc {
		tl := vfC13List2(mp, a)
		if stale[a] {
			vf.Assert(tl == nil, ob)
			for _, tx := range snap.lists[a] {
				_, ok := mp.cache.Load(types.ToTxID(tx.GetHash()))
				vf.Assert(!ok, ob)
			}
		} else if len(snap.lists[a]) > 0 {
			vf.Assert(tl != nil, ob)
			if tl != nil {
				vf.Assert(vfSameList(tl.list, snap.lists[a]), ob)
				vf.Assert(tl.ready == snap.ready[a], ob)
			}
		}
	}
	vfC13CheckPool(mp, ob)
	vf.Observe("length", mp.length)
	vf.Observe("orphan", mp.orphan)
}
