package mempool

import (
	"bytes"
	"math"
	"math/big"

	"github.com/aergoio/aergo-lib/log"
	"github.com/aergoio/aergo/v2/config"
	"github.com/aergoio/aergo/v2/contract/system"
	"github.com/aergoio/aergo/v2/fee"
	"github.com/aergoio/aergo/v2/pkg/component"
	"github.com/aergoio/aergo/v2/types"
	"github.com/aergoio/aergo/v2/types/dbkey"
	"github.com/aergoio/aergo/v2/types/message"
	vf "github.com/aergoio/aergo/v2/zzvf"
)

// ---------------------------------------------------------------------------------------------------------------
// C13 — transaction pool. All functions under test are the real ones of mempool/txlist.go and mempool/mempool.go.
// ---------------------------------------------------------------------------------------------------------------

// vfC13Params feeds system.InitSystemParams (real code) so that system.GetGasPrice() returns a symbolic gas price.
type vfC13Params struct{ gasPrice []byte }

func (p vfC13Params) GetData(key []byte) ([]byte, error) {
	if bytes.Equal(key, dbkey.SystemParam("GASPRICE")) {
		return p.gasPrice, nil
	}
	return nil, nil
}

var vfC13Acc = [][]byte{
	[]byte("\x02aaaaaaaaaaaaaaaaaaaaaaaaaaaaaaaa"),
	[]byte("\x03bbbbbbbbbbbbbbbbbbbbbbbbbbbbbbbb"),
}

// vfC13Pool: a MemPool literal with exactly the fields the called methods touch. testConfig=true is the switch the
// real code itself offers: account state comes from the package-level maps `balance`/`nonce` (mempool/stub.go)
// instead of the state trie and the p2p notification is skipped.
func vfC13Pool() *MemPool {
	// hardfork heights: param hf = 0 all versions enabled from block 0 (version 5 everywhere), 1 = one symbolic
	// height for V2..V5 (version 0 or 5), 2 = four symbolic ascending heights (versions 0,2,3,4,5)
	hf := &config.HardforkConfig{}
	switch vf.Param("hf", 0) {
	case 1:
		h := vf.U64("hfAll")
		hf.V2, hf.V3, hf.V4, hf.V5 = h, h, h, h
	case 2:
		hf.V2, hf.V3, hf.V4, hf.V5 = vf.U64("hfV2"), vf.U64("hfV3"), vf.U64("hfV4"), vf.U64("hfV5")
		vf.Assume(hf.V2 <= hf.V3)
		vf.Assume(hf.V3 <= hf.V4)
		vf.Assume(hf.V4 <= hf.V5)
	}
	if vf.Param("zeroFee", 0) != 0 {
		fee.EnableZeroFee() // what NewMemPoolService does when it runs without a chain service
	} else {
		fee.DisableZeroFee()
	}
	best := vf.U64("bestNo")
	vf.Assume(best < math.MaxUint64)
	gp := vf.BigBytes("gasPrice")
	vf.Assume(new(big.Int).SetBytes(gp).Sign() > 0) // gas price >= 1
	system.InitSystemParams(vfC13Params{gasPrice: gp}, 23)
	mp := &MemPool{
		cfg:           &config.Config{Hardfork: hf, Mempool: &config.MempoolConfig{}},
		bestBlockInfo: &types.BlockHeaderInfo{No: best},
		pool:          map[types.AccountID]*txList{},
		testConfig:    true,
	}
	mp.BaseComponent = component.NewBaseComponent(message.MemPoolSvc, mp, log.NewLogger("mempool"))
	return mp
}

// vfC13Tx: one transaction with symbolic nonce, id, amount and gas limit; the transaction type is a shape (Choice).
func vfC13Tx(kinds int, acc []byte) types.Transaction {
	body := &types.TxBody{Nonce: vf.U64("nonce"), Account: acc, Recipient: vfC13Acc[1]}
	switch vf.Choice("kind", kinds) {
	case 0:
		body.Type = types.TxType_TRANSFER
		body.Amount = vf.BigBytes("amount")
		body.GasLimit = vf.U64("gasLimit")
	case 1:
		body.Type = types.TxType_FEEDELEGATION
		body.Amount = vf.BigBytes("amount")
	case 2:
		body.Type = types.TxType_GOVERNANCE
		body.Recipient = []byte(types.AergoName)
		body.Amount = vf.BigBytes("amount")
	}
	if vfC13Sized >= 0 {
		// variant for MemPool.get: concrete amount image and a payload whose length depends on the position in the
		// account's list (big, small, big, ...), so that wire sizes differ and a big transaction sits IN FRONT of a
		// small one of the same account; the nonce varint stays symbolic
		body.Amount = []byte{1}
		if vfC13Sized%2 == 0 {
			body.Payload = make([]byte, 300)
		}
		vfC13Sized++
	}
	return types.NewTransaction(&types.Tx{Hash: vf.Bytes("hash", 32), Body: body})
}

// vfC13Sized >= 0 switches vfC13Tx to the sized variant (counter = position parity)
var vfC13Sized = -1

func vfNonce(tx types.Transaction) uint64 { return tx.GetBody().GetNonce() }

// vfC13List: an ARBITRARY txList of length <= maxN satisfying the representation invariant INV:
//
//	nonces strictly ascending, all > base.Nonce, ready = length of the maximal prefix base+1, base+2, ...
//
// (the inductive hypothesis; C13.b shows that newTxList + Put establish it).
func vfC13List(kinds int) (*txList, []types.Transaction) {
	mp := vfC13Pool()
	// shard parameters: list length in [nLo, nHi], ready in [rLo, rHi] (clipped to the length)
	nLo, nHi := vf.Param("nLo", 0), vf.Param("nHi", 3)
	n := nLo + vf.Choice("n", nHi-nLo+1)
	base := &types.State{Nonce: vf.U64("baseNonce"), Balance: vf.BigBytes("baseBalance")}
	list := make([]types.Transaction, n, n+vf.Choice("capExtra", 1+vf.Param("capx", 0)))
	for i := 0; i < n; i++ {
		list[i] = vfC13Tx(kinds, vfC13Acc[0])
	}
	rLo, rHi := vf.Param("rLo", 0), vf.Param("rHi", n)
	if rHi > n {
		rHi = n
	}
	if rLo > rHi {
		rLo = rHi
	}
	ready := rLo + vf.Choice("ready", rHi-rLo+1)
	prev := base.Nonce
	for i := 0; i < n; i++ {
		x := vfNonce(list[i])
		vf.Assume(x > prev)
		prev = x
	}
	for i := 0; i < ready; i++ {
		vf.Assume(vfNonce(list[i]) == base.Nonce+uint64(i)+1)
	}
	if ready < n {
		vf.Assume(vfNonce(list[ready]) != base.Nonce+uint64(ready)+1)
	}
	old := append([]types.Transaction(nil), list...)
	return &txList{base: base, account: vfC13Acc[0], ready: ready, list: list, mp: mp}, old
}

// vfC13CheckInv asserts INV on the current state of tl.
func vfC13CheckInv(tl *txList, ob string) {
	b := tl.base.Nonce
	n := len(tl.list)
	vf.Assert(tl.ready >= 0, ob)
	vf.Assert(tl.ready <= n, ob)
	prev := b
	for i := 0; i < n; i++ {
		x := vfNonce(tl.list[i])
		vf.Assert(x > prev, ob) // strictly ascending, above the account nonce, hence no two entries with equal nonce
		prev = x
	}
	for i := 0; i < tl.ready && i < n; i++ {
		vf.Assert(vfNonce(tl.list[i]) == b+uint64(i)+1, ob)
	}
	if tl.ready >= 0 && tl.ready < n {
		vf.Assert(vfNonce(tl.list[tl.ready]) != b+uint64(tl.ready)+1, ob)
	}
	// Get() hands out exactly the gap-free run
	got := tl.Get()
	vf.Assert(len(got) == tl.ready, ob)
	for i := range got {
		vf.Assert(got[i] == tl.list[i], ob)
	}
}

func vfCount(xs []types.Transaction, x types.Transaction) int {
	c := 0
	for _, y := range xs {
		if y == x {
			c++
		}
	}
	return c
}

func vfSameList(a, b []types.Transaction) bool {
	if len(a) != len(b) {
		return false
	}
	for i := range a {
		if a[i] != b[i] {
			return false
		}
	}
	return true
}

// C13.a (Put): one Put on an arbitrary list satisfying INV.
func VF_C13_a_put() {
	const ob = "C13.a.put"
	tl, old := vfC13List(1)
	n, oldReady := len(old), tl.ready
	tx := vfC13Tx(1, vfC13Acc[0])
	nonce := vfNonce(tx)
	low := nonce <= tl.base.Nonce
	dup := false
	for _, o := range old {
		dup = vf.Or(dup, vfNonce(o) == nonce)
	}
	diff, err := tl.Put(tx)
	vf.Reach(ob)
	if err != nil {
		vf.Assert(vf.Or(low, dup), ob)
		vf.Assert((err == types.ErrTxNonceTooLow) == low, ob)
		vf.Assert((err == types.ErrSameNonceAlreadyInMempool) == dup, ob)
		vf.Assert(vfSameList(tl.list, old), ob)
		vf.Assert(tl.ready == oldReady, ob)
		vf.Assert(diff == 0, ob)
	} else {
		vf.Assert(!low, ob)
		vf.Assert(!dup, ob)
		vf.Assert(len(tl.list) == n+1, ob)
		vf.Assert(vfCount(tl.list, tx) == 1, ob)
		for _, o := range old {
			vf.Assert(vfCount(tl.list, o) == 1, ob) // nothing lost, nothing duplicated
		}
		// the returned number is the decrease of the orphan count
		vf.Assert(diff == (n-oldReady)-(len(tl.list)-tl.ready), ob)
	}
	vfC13CheckInv(tl, ob)
	vf.Observe("err", err != nil)
	vf.Observe("diff", diff)
	vf.Observe("ready", tl.ready)
	vf.Observe("len", len(tl.list))
}

// C13.a (RemoveTx): one RemoveTx by id on an arbitrary list satisfying INV with pairwise distinct ids.
func VF_C13_a_remove() {
	const ob = "C13.a.remove"
	tl, old := vfC13List(1)
	n, oldReady := len(old), tl.ready
	for i := 0; i < n; i++ {
		for j := i + 1; j < n; j++ {
			vf.Assume(!bytes.Equal(old[i].GetHash(), old[j].GetHash()))
		}
	}
	h := vf.Bytes("rmHash", 32)
	present := false
	for _, o := range old {
		present = vf.Or(present, bytes.Equal(o.GetHash(), h))
	}
	delta, removed := tl.RemoveTx(&types.Tx{Hash: h, Body: &types.TxBody{}})
	vf.Reach(ob)
	if removed == nil {
		vf.Assert(!present, ob)
		vf.Assert(vfSameList(tl.list, old), ob)
		vf.Assert(tl.ready == oldReady, ob)
		vf.Assert(delta == 0, ob)
	} else {
		vf.Assert(present, ob)
		vf.Assert(bytes.Equal(removed.GetHash(), h), ob)
		vf.Assert(vfCount(old, removed) == 1, ob)
		vf.Assert(len(tl.list) == n-1, ob)
		vf.Assert(vfCount(tl.list, removed) == 0, ob)
		for _, o := range old {
			if o != removed {
				vf.Assert(vfCount(tl.list, o) == 1, ob)
			}
		}
		// the returned number is the increase of the orphan count (MemPool.removeTx adds it)
		vf.Assert(delta == (len(tl.list)-tl.ready)-(n-oldReady), ob)
	}
	vfC13CheckInv(tl, ob)
	vf.Observe("removed", removed != nil)
	vf.Observe("delta", delta)
	vf.Observe("ready", tl.ready)
	vf.Observe("len", len(tl.list))
}

// C13.a (FilterByState): one FilterByState(st) with the real ValidateWithSenderState / fee computation.
func VF_C13_a_filter() {
	const ob = "C13.a.filter"
	tl, old := vfC13List(vf.Param("kinds", 2))
	n, oldReady := len(old), tl.ready
	oldBaseNonce := tl.base.Nonce
	st := &types.State{Nonce: vf.U64("stNonce"), Balance: vf.BigBytes("stBalance")}
	// account nonces grow by one per executed transaction; 2^64-1 is not reachable (there nonce+1 wraps in
	// ValidateWithSenderState)
	vf.Assume(st.Nonce < math.MaxUint64)
	diff, removed := tl.FilterByState(st)
	vf.Reach(ob)
	vf.Assert(tl.base == st, ob)
	if oldBaseNonce == st.Nonce {
		vf.Assert(removed == nil, ob)
		vf.Assert(diff == 0, ob)
		vf.Assert(vfSameList(tl.list, old), ob)
		vf.Assert(tl.ready == oldReady, ob)
	} else {
		// removed ∪ left = old list: nothing lost, nothing duplicated (removed aliases the old backing array)
		vf.Assert(len(tl.list)+len(removed) == n, ob)
		for _, o := range old {
			vf.Assert(vfCount(tl.list, o)+vfCount(removed, o) == 1, ob)
		}
		vf.Assert(diff == (n-oldReady)-(len(tl.list)-tl.ready), ob)
		for _, x := range tl.list {
			vf.Assert(vfNonce(x) > st.Nonce, ob) // no stale entry survives
		}
		for _, x := range removed {
			// only transactions that are invalid against the new state are dropped
			err := x.ValidateWithSenderState(st, system.GetGasPrice(), tl.mp.nextBlockVersion())
			vf.Assert(err != nil, ob)
			vf.Assert(err != types.ErrTxNonceToohigh, ob)
		}
	}
	vfC13CheckInv(tl, ob)
	vf.Observe("diff", diff)
	vf.Observe("removed", len(removed))
	vf.Observe("ready", tl.ready)
	vf.Observe("len", len(tl.list))
}

// C13.b: INV is established by newTxList and preserved along any sequence of <= maxPuts Puts from empty
// (so the inductive hypothesis of C13.a is reachable), and the orphan deltas add up.
func VF_C13_b() {
	const ob = "C13.b"
	mp := vfC13Pool()
	base := &types.State{Nonce: vf.U64("baseNonce"), Balance: vf.BigBytes("baseBalance")}
	tl := newTxList(vfC13Acc[0], base, mp)
	vfC13CheckInv(tl, ob)
	k := vf.Param("maxPuts", 3)
	orphans, total := 0, 0
	for i := 0; i < k; i++ {
		tx := vfC13Tx(1, vfC13Acc[0])
		diff, err := tl.Put(tx)
		if err == nil {
			total++
			orphans -= diff
		}
		vfC13CheckInv(tl, ob)
		vf.Assert(len(tl.list) == total, ob)
		vf.Assert(len(tl.list)-tl.ready == orphans, ob)
	}
	vf.Reach(ob)
	vf.Observe("ready", tl.ready)
	vf.Observe("len", len(tl.list))
}
