package types

import (
	"bytes"

	vf "github.com/aergoio/aergo/v2/zzvf"
)

// ---------------------------------------------------------------------------------------------
// C19.a: the block id commits to every header field; the signing digest to every field but Sign.

func vfBaseHeader(l int) *BlockHeader {
	return &BlockHeader{
		ChainID:          vf.Bytes("h.ChainID", l),
		PrevBlockHash:    vf.Bytes("h.PrevBlockHash", l),
		BlockNo:          vf.U64("h.BlockNo"),
		Timestamp:        vf.I64("h.Timestamp"),
		BlocksRootHash:   vf.Bytes("h.BlocksRootHash", l),
		TxsRootHash:      vf.Bytes("h.TxsRootHash", l),
		ReceiptsRootHash: vf.Bytes("h.ReceiptsRootHash", l),
		Confirms:         vf.U64("h.Confirms"),
		PubKey:           vf.Bytes("h.PubKey", l),
		CoinbaseAccount:  vf.Bytes("h.CoinbaseAccount", l),
		Sign:             vf.Bytes("h.Sign", l),
		Consensus:        vf.Bytes("h.Consensus", l),
	}
}

// vfMutate returns a fresh byte string (length by choice 0..maxLen) and the condition "differs from old".
func vfMutate(name string, old []byte, maxLen int) ([]byte, bool) {
	n := vf.Choice(name+".len", maxLen+1)
	nb := vf.Bytes(name, n)
	return nb, !bytes.Equal(nb, old)
}

func VF_C19_a() {
	l := vf.Param("baseLen", 2)
	maxLen := vf.Param("maxLen", 3)
	h1 := vfBaseHeader(l)
	h2 := *h1
	f := vf.Choice("field", 12)
	var differs bool
	switch f {
	case 0:
		h2.ChainID, differs = vfMutate("m", h1.ChainID, maxLen)
	case 1:
		h2.PrevBlockHash, differs = vfMutate("m", h1.PrevBlockHash, maxLen)
	case 2:
		h2.BlockNo = vf.U64("m")
		differs = h2.BlockNo != h1.BlockNo
	case 3:
		h2.Timestamp = vf.I64("m")
		differs = h2.Timestamp != h1.Timestamp
	case 4:
		h2.BlocksRootHash, differs = vfMutate("m", h1.BlocksRootHash, maxLen)
	case 5:
		h2.TxsRootHash, differs = vfMutate("m", h1.TxsRootHash, maxLen)
	case 6:
		h2.ReceiptsRootHash, differs = vfMutate("m", h1.ReceiptsRootHash, maxLen)
	case 7:
		h2.Confirms = vf.U64("m")
		differs = h2.Confirms != h1.Confirms
	case 8:
		h2.PubKey, differs = vfMutate("m", h1.PubKey, maxLen)
	case 9:
		h2.CoinbaseAccount, differs = vfMutate("m", h1.CoinbaseAccount, maxLen)
	case 10:
		h2.Sign, differs = vfMutate("m", h1.Sign, maxLen)
	case 11:
		h2.Consensus, differs = vfMutate("m", h1.Consensus, maxLen)
	}
	vf.Assume(differs)
	b1 := &Block{Header: h1}
	b2 := &Block{Header: &h2}
	id1 := b1.calculateBlockHash()
	id2 := b2.calculateBlockHash()
	vf.Reach("C19.a.id")
	vf.Assert(!bytes.Equal(id1, id2), "C19.a.id")
	// BlockHash() of a block without a cached hash is the computed one
	vf.Assert(bytes.Equal(b1.BlockHash(), id1), "C19.a.id")
	d1, e1 := h1.bytesForDigest()
	d2, e2 := h2.bytesForDigest()
	vf.Assert(e1 == nil, "C19.a.digest")
	vf.Assert(e2 == nil, "C19.a.digest")
	vf.Reach("C19.a.digest")
	if f == 10 {
		vf.Assert(bytes.Equal(d1, d2), "C19.a.digest")
	} else {
		vf.Assert(!bytes.Equal(d1, d2), "C19.a.digest")
	}
	vf.Observe("id1", id1)
	vf.Observe("d1", d1)
}

// ---------------------------------------------------------------------------------------------
// C19.b: the tx id commits to every body field (incl. Sign).

func vfBaseTxBody(l int) *TxBody {
	return &TxBody{
		Nonce:       vf.U64("t.Nonce"),
		Account:     vf.Bytes("t.Account", l),
		Recipient:   vf.Bytes("t.Recipient", l),
		Amount:      vf.Bytes("t.Amount", l),
		Payload:     vf.Bytes("t.Payload", l),
		GasLimit:    vf.U64("t.GasLimit"),
		GasPrice:    vf.Bytes("t.GasPrice", l),
		Type:        TxType(vf.I32("t.Type")),
		ChainIdHash: vf.Bytes("t.ChainIdHash", l),
		Sign:        vf.Bytes("t.Sign", l),
	}
}

func vfMutateTx(b1 *TxBody, maxLen int) (*TxBody, int) {
	b2 := *b1
	f := vf.Choice("field", 10)
	var differs bool
	switch f {
	case 0:
		b2.Nonce = vf.U64("m")
		differs = b2.Nonce != b1.Nonce
	case 1:
		b2.Account, differs = vfMutate("m", b1.Account, maxLen)
	case 2:
		b2.Recipient, differs = vfMutate("m", b1.Recipient, maxLen)
	case 3:
		b2.Amount, differs = vfMutate("m", b1.Amount, maxLen)
	case 4:
		b2.Payload, differs = vfMutate("m", b1.Payload, maxLen)
	case 5:
		b2.GasLimit = vf.U64("m")
		differs = b2.GasLimit != b1.GasLimit
	case 6:
		b2.GasPrice, differs = vfMutate("m", b1.GasPrice, maxLen)
	case 7:
		b2.Type = TxType(vf.I32("m"))
		differs = b2.Type != b1.Type
	case 8:
		b2.ChainIdHash, differs = vfMutate("m", b1.ChainIdHash, maxLen)
	case 9:
		b2.Sign, differs = vfMutate("m", b1.Sign, maxLen)
	}
	vf.Assume(differs)
	return &b2, f
}

func VF_C19_b() {
	l := vf.Param("baseLen", 2)
	maxLen := vf.Param("maxLen", 3)
	b1 := vfBaseTxBody(l)
	b2, _ := vfMutateTx(b1, maxLen)
	t1 := &Tx{Body: b1}
	t2 := &Tx{Body: b2}
	id1 := t1.CalculateTxHash()
	id2 := t2.CalculateTxHash()
	vf.Reach("C19.b.id")
	vf.Assert(!bytes.Equal(id1, id2), "C19.b.id")
	vf.Observe("id1", id1)
}

// ---------------------------------------------------------------------------------------------
// C19.f: chain id codec round-trip.

func VF_C19_f() {
	maxLen := vf.Param("maxLen", 3)
	cid := &ChainID{
		Version:   vf.I32("version"),
		PublicNet: vf.Bool("public"),
		MainNet:   vf.Bool("mainnet"),
		Magic:     vf.Str("magic", vf.Choice("magic.len", maxLen+1)),
		Consensus: vf.Str("consensus", vf.Choice("consensus.len", maxLen+1)),
	}
	// class of the known finding F2: a separator byte inside magic or consensus
	hasSep := false
	for i := 0; i < len(cid.Magic); i++ {
		hasSep = vf.Or(hasSep, cid.Magic[i] == '/')
	}
	for i := 0; i < len(cid.Consensus); i++ {
		hasSep = vf.Or(hasSep, cid.Consensus[i] == '/')
	}
	b, err := cid.Bytes()
	vf.Reach("C19.f")
	// a chain id is encodable iff it can be decoded again: a separator byte inside a field must be refused by the
	// encoder (finding F2: the unrepaired encoder accepted it and Read then failed or returned other fields)
	vf.AssertKnown((err != nil) == hasSep, "C19.f.encode", "F2-chainid-separator", hasSep)
	if err != nil {
		vf.Observe("encerr", true)
		return
	}
	back := NewChainID()
	err = back.Read(b)
	vf.Assert(err == nil, "C19.f.roundtrip")
	if err == nil {
		vf.Assert(cid.Equals(back), "C19.f.roundtrip")
	}
	vf.Assert(DecodeChainIdVersion(b) == cid.Version, "C19.f.version")
	vf.Observe("bytes", b)
	vf.Observe("readerr", err == nil)
}

// ---------------------------------------------------------------------------------------------
// C19.f.make: MakeChainId(cid, v) (used to derive the chain id of the next block from the previous header) returns
// version(v) || cid[4:] and leaves the bytes of its argument — the previous block's header field, to which that block's
// cached id commits — untouched, for every content and every version, also when the versions differ.
func VF_C19_f_make() {
	n := 4 + vf.Choice("tail.len", vf.Param("maxLen", 3)+1)
	cid := vf.Bytes("cid", n)
	before := append([]byte(nil), cid...)
	v := vf.I32("v")
	out := MakeChainId(cid, v)
	vf.Reach("C19.f.make")
	vf.Assert(bytes.Equal(cid, before), "C19.f.make") // the caller's slice (a header field of another block) is not rewritten
	vf.Assert(len(out) == n, "C19.f.make")
	vf.Assert(DecodeChainIdVersion(out) == v, "C19.f.make")
	vf.Assert(bytes.Equal(out[4:], before[4:]), "C19.f.make")
	vf.Assert(ChainIdEqualWithoutVersion(out, before), "C19.f.make")
	vf.Observe("out", out)
}
