package types

import (
	"bytes"
	"math/big"

	vf "github.com/aergoio/aergo/v2/zzvf"
)

// ---------------------------------------------------------------------------------------------
// C04.a: a transaction is accepted against a sender state only if its nonce is exactly state nonce + 1.
// Real code: (*transaction).ValidateWithSenderState, ValidateMaxFee, fee.TxMaxFee, json decoding of system payloads.

func vfGovRecipient(name string) []byte {
	switch vf.Choice(name, 4) {
	case 0:
		return []byte(AergoSystem)
	case 1:
		return []byte(AergoName)
	case 2:
		return []byte(AergoEnterprise)
	}
	return vf.Bytes(name+".other", 2)
}

var vfC04Shape = vf.CallShape{
	Names:   []string{"v1stake", "v1unstake", "v1voteBP"},
	SymName: []int{2},
	MaxArgs: 1,
	Alts:    []vf.Alt{vf.ANull(), vf.ASym(1), vf.ABool(true), vf.AArr(), vf.AObj()},
}

func vfC04aCheck(body *TxBody) {
	st := &State{Nonce: vf.U64("st.nonce"), Balance: vf.BigBytes("st.balance")}
	gasPrice := vf.Big("gasPrice")
	vf.Assume(gasPrice.Sign() > 0)    // callers pass system.GetGasPrice(); a DAO vote cannot set it to 0 (validateById)
	vf.Assume(st.Nonce != ^uint64(0)) // 2^64-1 executed transactions of one account
	version := vf.I32("version")
	vf.Assume(version >= 0)
	vf.Assume(version <= 4)
	tx := &transaction{Tx: &Tx{Body: body}}
	err := tx.ValidateWithSenderState(st, gasPrice, version)
	vf.Reach("C04.a")
	if err == nil {
		vf.Reach("C04.a.accept")
		vf.Assert(body.Nonce == st.Nonce+1, "C04.a")
	}
	// a stale nonce (replay of an executed transaction) is refused whatever else the transaction says
	if body.Nonce <= st.Nonce {
		vf.Assert(err != nil, "C04.a.replay")
	}
	vf.Observe("accepted", err == nil)
}

// every transaction type except GOVERNANCE (arbitrary int32, also undefined types)
func VF_C04_a() {
	body := &TxBody{
		Nonce:     vf.U64("tx.nonce"),
		Account:   vf.Bytes("tx.account", 2),
		Recipient: vf.Bytes("tx.recipient", 2),
		Amount:    vf.BigBytes("tx.amount"),
		Payload:   vf.Bytes("tx.payload", vf.Param("rawLen", 2)),
		GasLimit:  vf.U64("tx.gasLimit"),
		GasPrice:  vf.BigBytes("tx.gasPrice"),
		Type:      TxType(vf.I32("tx.type")),
	}
	vf.Assume(body.Type != TxType_GOVERNANCE)
	vfC04aCheck(body)
}

// GOVERNANCE: the three governance recipients or another one; payload absent, arbitrary short bytes, or a call document
func VF_C04_a_gov() {
	body := &TxBody{
		Nonce:    vf.U64("tx.nonce"),
		Account:  vf.Bytes("tx.account", 2),
		Amount:   vf.BigBytes("tx.amount"),
		GasLimit: vf.U64("tx.gasLimit"),
		GasPrice: vf.BigBytes("tx.gasPrice"),
		Type:     TxType_GOVERNANCE,
	}
	body.Recipient = vfGovRecipient("tx.recipient")
	switch vf.Choice("payloadKind", 3) {
	case 0: // no payload
	case 1: // arbitrary short bytes
		body.Payload = vf.Bytes("tx.payload", vf.Param("rawLen", 2))
	case 2: // a governance call document
		body.Payload, _ = vf.NondetCall("ci", &vfC04Shape)
	}
	vfC04aCheck(body)
}

// ---------------------------------------------------------------------------------------------
// C04.b: stateless validation accepts a transaction only if it is bound to this chain (ChainIdHash equals the hash of
// the node's chain id) and its Hash field is the hash of its body; account/recipient/amount/price are bounded.

// nil, n or n+1 bytes
func vfField(name string, n int, alts int) []byte {
	switch vf.Choice(name+".len", alts) {
	case 0:
		return vf.Bytes(name, n)
	case 1:
		return nil
	}
	return vf.Bytes(name, n+1)
}

func VF_C04_b() {
	addrLen := vf.Param("addrLen", AddressLength)
	idLen := vf.Param("idLen", 32)
	amtLen := vf.Param("amountLen", 12) // MaxAER needs 12 bytes
	body := &TxBody{
		Nonce:       vf.U64("tx.nonce"),
		Account:     vfField("tx.account", addrLen, 3),
		Recipient:   vfField("tx.recipient", addrLen, 2),
		Amount:      vf.Bytes("tx.amount", amtLen),
		Payload:     vf.Bytes("tx.payload", vf.Choice("tx.payload.len", 2)),
		GasLimit:    vf.U64("tx.gasLimit"),
		GasPrice:    vf.Bytes("tx.gasPrice", amtLen),
		Type:        TxType(vf.I32("tx.type")),
		ChainIdHash: vf.Bytes("tx.chainIdHash", idLen-vf.Choice("tx.chainIdHash.short", 2)),
		Sign:        vf.Bytes("tx.sign", 2),
	}
	if body.Type == TxType_GOVERNANCE {
		// governance payload shapes are the subject of C14.a; here: private network, enterprise recipient, any non-empty payload
		InitGovernance("dpos", false)
		body.Recipient = []byte(AergoEnterprise)
	}
	tx := &transaction{Tx: &Tx{Body: body}}
	switch vf.Choice("tx.hash.shape", 3) {
	case 0: // the hash a signer computes (SHA-256 is uninterpreted for the engine: only this shape replays natively)
		tx.Tx.Hash = tx.Tx.CalculateTxHash()
	case 1: // arbitrary
		tx.Tx.Hash = vf.Bytes("tx.hash", idLen)
	case 2: // absent
	}
	chainIdHash := vf.Bytes("chainIdHash", idLen)
	isPublic := vf.Bool("isPublic")
	err := tx.Validate(chainIdHash, isPublic)
	vf.Reach("C04.b")
	if err == nil {
		vf.Reach("C04.b.accept")
		vfC04bPost(tx, chainIdHash)
	}
	vf.Observe("accepted", err == nil)
}

func vfC04bPost(tx *transaction, chainIdHash []byte) {
	body := tx.Tx.Body
	vf.Assert(bytes.Equal(body.ChainIdHash, chainIdHash), "C04.b.chainid")
	vf.Assert(bytes.Equal(tx.Tx.Hash, tx.Tx.CalculateTxHash()), "C04.b.hash")
	vf.Assert(len(body.Account) <= AddressLength, "C04.b.bounds")
	vf.Assert(body.Account != nil, "C04.b.bounds")
	vf.Assert(len(body.Recipient) <= AddressLength, "C04.b.bounds")
	vf.Assert(new(big.Int).SetBytes(body.Amount).Cmp(MaxAER) <= 0, "C04.b.bounds")
	vf.Assert(new(big.Int).SetBytes(body.GasPrice).Cmp(MaxAER) <= 0, "C04.b.bounds")
}
