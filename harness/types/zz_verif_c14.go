package types

import (
	vf "github.com/aergoio/aergo/v2/zzvf"
)

// ---------------------------------------------------------------------------------------------
// C14.a: stateless admission (*transaction).Validate never panics, whatever the transaction says.

const (
	vfTokName   = "abcdefghijkl"                                         // a well-formed 12-character name
	vfTokBadNm  = "abcdefghijk!"                                         // 12 characters, one not allowed
	vfTokAddr   = "AmLWfkRQeQ8wXUutdYcTpRwxp6p2jUpYVc79pkfN5whEbrd8c9y2" // EncodeAddress of a 33-byte key
	vfTokPeerID = "QmNQatwxYrvx45JHzALe54be3KTBVQrLtHdPfkmvNNhQkw"       // base58 of a sha256 multihash (peer id)
)

// vfPanics runs f and reports whether it panicked.
func vfPanics(f func()) (panicked bool) {
	defer func() {
		if r := recover(); r != nil {
			panicked = true
		}
	}()
	f()
	return false
}

func vfIsStr(v interface{}) bool {
	_, ok := v.(string)
	return ok
}

// known panic classes of validateNameTx, as predicates over the decoded call document
func vfClassF4(doc *vf.CallDoc) bool { // v1updateName, well-formed name, second argument not a string
	if doc == nil || doc.Name != NameUpdate || len(doc.Args) != 2 {
		return false
	}
	nm, ok := doc.Args[0].(string)
	if !ok || len(nm) != NameLength || validateAllowedChar([]byte(nm)) != nil {
		return false
	}
	return !vfIsStr(doc.Args[1])
}

func vfClassF5(doc *vf.CallDoc) bool { // v1setOwner without arguments
	return doc != nil && doc.Name == SetContractOwner && len(doc.Args) == 0
}

// vfValidateNoPanic runs Validate under recover and states the obligation, with the two recorded classes split off.
func vfValidateNoPanic(tx *transaction, chainIdHash []byte, isPublic bool, doc *vf.CallDoc, nameTx bool, ob string) {
	var err error
	panicked := vfPanics(func() { err = tx.Validate(chainIdHash, isPublic) })
	vf.Reach(ob)
	switch {
	case nameTx && vfClassF4(doc):
		vf.AssertKnown(!panicked, ob, "F4-nametx-updatename-arg-type", true)
	case nameTx && vfClassF5(doc):
		vf.AssertKnown(!panicked, ob, "F5-nametx-setowner-no-args", true)
	default:
		vf.Assert(!panicked, ob)
	}
	vf.Observe("panicked", panicked)
	vf.Observe("accepted", err == nil)
}

func vfC14Body(recipient, payload []byte, typ TxType) *TxBody {
	return &TxBody{
		Nonce:       vf.U64("tx.nonce"),
		Account:     vf.Bytes("tx.account", 2),
		Recipient:   recipient,
		Amount:      vf.Bytes("tx.amount", 2),
		Payload:     payload,
		GasLimit:    vf.U64("tx.gasLimit"),
		GasPrice:    vf.Bytes("tx.gasPrice", 2),
		Type:        typ,
		ChainIdHash: vf.Bytes("tx.chainIdHash", 2),
		Sign:        vf.Bytes("tx.sign", 2),
	}
}

// vfSealed returns a transaction whose hash and chain id pass the first checks of Validate, so that the type-specific
// part is reached on every path.
func vfSealed(body *TxBody) (*transaction, []byte) {
	tx := &transaction{Tx: &Tx{Body: body}}
	tx.Tx.Hash = tx.Tx.CalculateTxHash()
	return tx, body.ChainIdHash
}

// every non-governance transaction type (arbitrary int32, also undefined ones); field lengths nil, 0, 1, 33, 34 for
// account and recipient, 0..2 payload bytes, amounts of 0, 1 and 13 bytes (MaxAER has 12). Quick tier: one group of
// fields at a time leaves its default shape ({account}, {recipient, payload}, {amount}, {price}); thorough: account x
// recipient x payload crossed.
func vfShape(name string, n int, k int) []byte {
	switch k {
	case 0:
		return vf.Bytes(name, n)
	case 1:
		return nil
	case 2:
		return []byte{}
	case 3:
		return vf.Bytes(name, 1)
	}
	return vf.Bytes(name, n+1)
}

func vfAmount(name string, k int) []byte {
	switch k {
	case 0:
		return vf.Bytes(name, 1)
	case 1:
		return nil
	}
	return vf.Bytes(name, 13)
}

func VF_C14_a_types() {
	n := vf.Param("addrLen", AddressLength)
	InitGovernance("dpos", true)
	var acc, rcp, pay, amt, prc int
	pay = 1
	if vf.Param("cross", 0) == 1 {
		acc, rcp, pay = vf.Choice("account.shape", 5), vf.Choice("recipient.shape", 5), vf.Choice("payload.len", 3)
		switch vf.Choice("amounts", 3) {
		case 1:
			amt = 1 + vf.Choice("amount.shape", 2)
		case 2:
			prc = 1 + vf.Choice("price.shape", 2)
		}
	} else {
		switch vf.Choice("vary", 4) {
		case 0:
			acc = vf.Choice("account.shape", 5)
		case 1:
			rcp, pay = vf.Choice("recipient.shape", 5), vf.Choice("payload.len", 3)
		case 2:
			amt = 1 + vf.Choice("amount.shape", 2)
		case 3:
			prc = 1 + vf.Choice("price.shape", 2)
		}
	}
	body := &TxBody{
		Nonce:       vf.U64("tx.nonce"),
		Account:     vfShape("tx.account", n, acc),
		Recipient:   vfShape("tx.recipient", n, rcp),
		Amount:      vfAmount("tx.amount", amt),
		Payload:     vf.Bytes("tx.payload", pay),
		GasLimit:    vf.U64("tx.gasLimit"),
		GasPrice:    vfAmount("tx.gasPrice", prc),
		Type:        TxType(vf.I32("tx.type")),
		ChainIdHash: vf.Bytes("tx.chainIdHash", 2),
		Sign:        vf.Bytes("tx.sign", 1),
	}
	vf.Assume(body.Type != TxType_GOVERNANCE) // governance: VF_C14_a_cfg, _system, _name
	tx := &transaction{Tx: &Tx{Body: body}}
	tx.Tx.Hash = tx.Tx.CalculateTxHash() // the type-specific part is reached
	vfValidateNoPanic(tx, body.ChainIdHash, vf.Bool("isPublic"), nil, false, "C14.a.types")
}

// degenerate transactions: nil Tx, nil body, wrong hash, wrong chain id
func VF_C14_a_degenerate() {
	InitGovernance("dpos", true)
	body := vfC14Body(vf.Bytes("tx.recipient", 2), vf.Bytes("tx.payload", 1), TxType(vf.I32("tx.type")))
	tx := &transaction{Tx: &Tx{Body: body}}
	switch vf.Choice("shape", 5) {
	case 0:
		tx = nil
	case 1:
		tx.Tx = nil
	case 2:
		tx.Tx.Body = nil
	case 3: // arbitrary hash of arbitrary length 0..2
		tx.Tx.Hash = vf.Bytes("tx.hash", vf.Choice("tx.hash.len", 3))
	case 4: // matching hash, arbitrary chain id hash
		tx.Tx.Hash = tx.Tx.CalculateTxHash()
	}
	vfValidateNoPanic(tx, vf.Bytes("chainIdHash", vf.Choice("chainIdHash.len", 3)), vf.Bool("isPublic"), nil, false, "C14.a.degenerate")
}

// governance transactions: every network kind x every governance recipient (or another one) x small payload set
// (absent, arbitrary short bytes, a few call documents)
var vfC14CfgShape = vf.CallShape{
	Names:   []string{"v1voteDAO", SetContractOwner, "appendAdmin"},
	SymName: []int{1},
	MaxArgs: 1,
	Alts:    []vf.Alt{vf.ANull(), vf.ASym(1)},
}

func VF_C14_a_cfg() {
	InitGovernance([]string{"dpos", "raft"}[vf.Choice("consensus", 2)], vf.Choice("govPublic", 2) == 1)
	var recipient []byte
	switch vf.Choice("recipient", 5) {
	case 0:
		recipient = []byte(AergoSystem)
	case 1:
		recipient = []byte(AergoName)
	case 2:
		recipient = []byte(AergoEnterprise)
	case 3:
		recipient = vf.Bytes("tx.recipient", 2)
	case 4:
		recipient = nil
	}
	var payload []byte
	var doc *vf.CallDoc
	switch vf.Choice("payloadKind", 3) {
	case 0:
	case 1:
		payload = vf.Bytes("tx.payload", vf.Param("rawLen", 2))
	case 2:
		payload, doc = vf.NondetCall("ci", &vfC14CfgShape)
	}
	tx, cid := vfSealed(vfC14Body(recipient, payload, TxType_GOVERNANCE))
	vfValidateNoPanic(tx, cid, vf.Bool("isPublic"), doc, string(recipient) == AergoName, "C14.a.cfg")
}

// vfAlts: the argument alternatives of a tier: null, a symbolic string, the given well-formed strings, a number, a
// huge number, true, false, [], {} and (param nest=1) [s], {"k":s}.
func vfAlts(tokens ...string) []vf.Alt {
	a := []vf.Alt{vf.ANull(), vf.ASym(1)}
	for _, t := range tokens {
		a = append(a, vf.AStr(t))
	}
	a = append(a, vf.ANum("1", 1), vf.ANum("1e30", 1e30), vf.ABool(true), vf.ABool(false), vf.AArr(), vf.AObj())
	if vf.Param("nest", 0) == 1 {
		a = append(a, vf.ASym(3), vf.AArrSym(), vf.AObjSym())
	}
	return a
}

// aergo.system payload shapes (dpos network: ValidateSystemTx)
func vfSystemShape() *vf.CallShape {
	names := []string{"v1stake", "v1unstake", "v1voteBP", "v1voteDAO"}
	sh := &vf.CallShape{
		SymName: []int{2},
		MaxArgs: vf.Param("maxArgs", 2),
		Alts:    vfAlts(vfTokPeerID, "BPCOUNT", "13"),
	}
	if k := vf.Param("name", -1); k >= 0 && k < len(names) {
		sh.Names = names[k : k+1]
		sh.SymName = nil
	} else if k == len(names) {
		sh.Names = nil
	} else {
		sh.Names = names
	}
	return sh
}

func VF_C14_a_system() {
	InitGovernance("dpos", vf.Bool("govPublic"))
	payload, doc := vf.NondetCall("ci", vfSystemShape())
	tx, cid := vfSealed(vfC14Body([]byte(AergoSystem), payload, TxType_GOVERNANCE))
	vfValidateNoPanic(tx, cid, vf.Bool("isPublic"), doc, false, "C14.a.system")
}

// aergo.name payload shapes (validateNameTx on every network kind)
func vfNameShape() *vf.CallShape {
	names := []string{NameCreate, NameUpdate, SetContractOwner}
	sh := &vf.CallShape{
		SymName: []int{2},
		MaxArgs: vf.Param("maxArgs", 2),
		Alts:    vfAlts(vfTokName, vfTokBadNm, vfTokAddr),
	}
	if k := vf.Param("name", -1); k >= 0 && k < len(names) {
		sh.Names = names[k : k+1]
		sh.SymName = nil
	} else if k == len(names) {
		sh.Names = nil
	} else {
		sh.Names = names
	}
	return sh
}

func VF_C14_a_name() {
	InitGovernance("dpos", vf.Bool("govPublic"))
	payload, doc := vf.NondetCall("ci", vfNameShape())
	tx, cid := vfSealed(vfC14Body([]byte(AergoName), payload, TxType_GOVERNANCE))
	vfValidateNoPanic(tx, cid, vf.Bool("isPublic"), doc, true, "C14.a.name")
}
