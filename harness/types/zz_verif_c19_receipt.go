package types

import (
	"bytes"

	vf "github.com/aergoio/aergo/v2/zzvf"
)

// ---------------------------------------------------------------------------------------------
// C19.d / C19.e: receipt commitment (MarshalMerkleBinary / V2, ReceiptMerkle.GetHash) and receipt store codec
// (Receipts.MarshalBinary / UnmarshalBinary), both format versions.

type vfVersionner struct{ v2 bool }

func (v vfVersionner) Version(BlockNo) int32 {
	if v.v2 {
		return 2
	}
	return 1
}
func (v vfVersionner) IsV2Fork(BlockNo) bool { return v.v2 }

var vfStatuses = [4]string{"SUCCESS", "CREATED", "ERROR", "RECREATED"}

// sizes of the fixed-size fields: the real ones (33-byte address, 32-byte hash, 256-byte bloom) unless a job lowers them
// for the commitment check C19.d, whose encoders do not depend on these sizes (the store codec C19.e always uses the
// real sizes, its decoder hard-codes them)
var vfAddrLen, vfHashLen, vfBloomLen = AddressLength, 32, BloomBitByte

func vfEvent(tag string, l int) *Event {
	return &Event{
		ContractAddress: vf.Bytes(tag+".ContractAddress", vfAddrLen),
		EventName:       vf.Str(tag+".EventName", l),
		JsonArgs:        vf.Str(tag+".JsonArgs", l),
		TxHash:          vf.Bytes(tag+".TxHash", vfHashLen),
		EventIdx:        vf.I32(tag + ".EventIdx"),
	}
}

// vfReceipt builds a receipt as chain.executeTx does: 33-byte contract address, 32-byte tx hash, fee bytes, no
// CumulativeFeeUsed (no writer sets it), optional 256-byte bloom, nEv events.
func vfReceipt(tag string, status string, l int, withBloom bool, nEv int) *Receipt {
	r := &Receipt{
		ContractAddress: vf.Bytes(tag+".ContractAddress", vfAddrLen),
		Status:          status,
		Ret:             vf.Str(tag+".Ret", l),
		TxHash:          vf.Bytes(tag+".TxHash", vfHashLen),
		FeeUsed:         vf.Bytes(tag+".FeeUsed", l),
		GasUsed:         vf.U64(tag + ".GasUsed"),
		FeeDelegation:   vf.Bool(tag + ".FeeDelegation"),
	}
	if withBloom {
		r.Bloom = vf.Bytes(tag+".Bloom", vfBloomLen)
	}
	for i := 0; i < nEv; i++ {
		r.Events = append(r.Events, vfEvent(tag+".ev", l))
	}
	return r
}

func vfMutateStr(name string, old string, maxLen int) (string, bool) {
	n := vf.Choice(name+".len", maxLen+1)
	ns := vf.Str(name, n)
	return ns, ns != old
}

func vfCloneReceipt(r *Receipt) *Receipt {
	c := *r
	c.Events = nil
	for _, e := range r.Events {
		ec := *e
		c.Events = append(c.Events, &ec)
	}
	return &c
}

// C19.d: single-field mutation of a receipt; the merkle bytes (and the leaf digest ReceiptMerkle.GetHash) change iff the
// field is consensus-relevant in that format version:
//
//	both versions: contract address, status, tx hash, fee, cumulative fee, bloom, number of events, every event field
//	               (address, name, args, tx hash, index), and Ret unless status == ERROR
//	V2 only:       GasUsed, FeeDelegation (V1 leaves them out by design: they did not exist before the V2 fork)
func VF_C19_d() {
	l := vf.Param("baseLen", 2)
	maxLen := vf.Param("maxLen", 2)
	vfAddrLen = vf.Param("addrLen", AddressLength)
	vfHashLen = vf.Param("hashLen", 32)
	vfBloomLen = vf.Param("bloomLen", BloomBitByte)
	v2 := vf.Choice("v2", 2) == 1
	f := vf.Choice("field", 15)
	var status string
	if f == 1 || f == 2 || vf.Param("allStatus", 0) != 0 {
		// the status itself and Ret (whose commitment depends on the status): all four statuses
		status = vfStatuses[vf.Choice("status", 4)]
	} else {
		// other fields: one status that commits Ret and the one that does not
		status = vfStatuses[2*vf.Choice("status", 2)]
	}
	r1 := vfReceipt("r", status, l, false, 1)
	r2 := vfCloneReceipt(r1)
	var differs bool
	committed := true
	switch f {
	case 0:
		r2.ContractAddress = vf.Bytes("m", vfAddrLen)
		differs = !bytes.Equal(r2.ContractAddress, r1.ContractAddress)
	case 1:
		r2.Status = vfStatuses[vf.Choice("m.status", 4)]
		differs = r2.Status != r1.Status
	case 2:
		r2.Ret, differs = vfMutateStr("m", r1.Ret, maxLen)
		committed = status != "ERROR"
	case 3:
		r2.TxHash = vf.Bytes("m", vfHashLen)
		differs = !bytes.Equal(r2.TxHash, r1.TxHash)
	case 4:
		r2.FeeUsed, differs = vfMutate("m", r1.FeeUsed, maxLen)
	case 5:
		r2.CumulativeFeeUsed, differs = vfMutate("m", r1.CumulativeFeeUsed, maxLen)
	case 6:
		r2.GasUsed = vf.U64("m")
		differs = r2.GasUsed != r1.GasUsed
		committed = v2
	case 7:
		r2.FeeDelegation = !r1.FeeDelegation
		differs = true
		committed = v2
	case 8:
		if vf.Choice("m.bloomKind", 2) == 0 {
			r2.Bloom = vf.Bytes("m", vfBloomLen) // absent -> present
			differs = true
		} else {
			r1.Bloom = vf.Bytes("r.Bloom", vfBloomLen) // present -> other content
			r2.Bloom = vf.Bytes("m", vfBloomLen)
			differs = !bytes.Equal(r2.Bloom, r1.Bloom)
		}
	case 9:
		r2.Events[0].ContractAddress = vf.Bytes("m", vfAddrLen)
		differs = !bytes.Equal(r2.Events[0].ContractAddress, r1.Events[0].ContractAddress)
	case 10:
		r2.Events[0].EventName, differs = vfMutateStr("m", r1.Events[0].EventName, maxLen)
	case 11:
		r2.Events[0].JsonArgs, differs = vfMutateStr("m", r1.Events[0].JsonArgs, maxLen)
	case 12:
		r2.Events[0].TxHash = vf.Bytes("m", vfHashLen)
		differs = !bytes.Equal(r2.Events[0].TxHash, r1.Events[0].TxHash)
	case 13:
		r2.Events[0].EventIdx = vf.I32("m")
		differs = r2.Events[0].EventIdx != r1.Events[0].EventIdx
	case 14:
		if vf.Choice("m.evKind", 2) == 0 {
			r2.Events = nil // event dropped
		} else {
			r2.Events = append(r2.Events, vfEvent("m.ev", l)) // event added
		}
		differs = true
	}
	vf.Assume(differs)
	var b1, b2 []byte
	var e1, e2 error
	if v2 {
		b1, e1 = r1.MarshalMerkleBinaryV2()
		b2, e2 = r2.MarshalMerkleBinaryV2()
	} else {
		b1, e1 = r1.MarshalMerkleBinary()
		b2, e2 = r2.MarshalMerkleBinary()
	}
	vf.Reach("C19.d")
	vf.Assert(e1 == nil, "C19.d")
	vf.Assert(e2 == nil, "C19.d")
	ver := vfVersionner{v2}
	h1 := (&ReceiptMerkle{r1, BlockNo(vf.U64("blockNo")), ver}).GetHash()
	h2 := (&ReceiptMerkle{r2, BlockNo(vf.U64("blockNo2")), ver}).GetHash()
	if committed {
		vf.Assert(!bytes.Equal(b1, b2), "C19.d")
		vf.Assert(!bytes.Equal(h1, h2), "C19.d")
	} else {
		vf.Assert(bytes.Equal(b1, b2), "C19.d.excluded")
		vf.Assert(bytes.Equal(h1, h2), "C19.d.excluded")
	}
	vf.Observe("b1", b1)
	vf.Observe("same", bytes.Equal(b1, b2))
}

// C19.d (status domain): a status string outside the four known ones makes both merkle encoders fail (no silent
// commitment to an unknown status).
func VF_C19_d_status() {
	r := vfReceipt("r", vf.Str("status", vf.Choice("status.len", 8)), 1, false, 0)
	known := false
	for _, s := range vfStatuses {
		known = vf.Or(known, r.Status == s)
	}
	_, e1 := r.MarshalMerkleBinary()
	_, e2 := r.MarshalMerkleBinaryV2()
	vf.Reach("C19.d.status")
	vf.Assert((e1 == nil) == known, "C19.d.status")
	vf.Assert((e2 == nil) == known, "C19.d.status")
}

func vfSameReceipt(got, want *Receipt, v2 bool, ob string) {
	vf.Assert(bytes.Equal(got.ContractAddress, want.ContractAddress), ob)
	vf.Assert(got.Status == want.Status, ob)
	vf.Assert(got.Ret == want.Ret, ob)
	vf.Assert(bytes.Equal(got.TxHash, want.TxHash), ob)
	vf.Assert(bytes.Equal(got.FeeUsed, want.FeeUsed), ob)
	vf.Assert(len(got.CumulativeFeeUsed) == 0, ob)
	vf.Assert(bytes.Equal(got.Bloom, want.Bloom), ob)
	vf.Assert(len(got.Bloom) == len(want.Bloom), ob)
	if v2 {
		vf.Assert(got.GasUsed == want.GasUsed, ob)
		vf.Assert(got.FeeDelegation == want.FeeDelegation, ob)
	}
	vf.Assert(len(got.Events) == len(want.Events), ob)
	if len(got.Events) != len(want.Events) {
		return
	}
	for i, e := range want.Events {
		g := got.Events[i]
		vf.Assert(bytes.Equal(g.ContractAddress, e.ContractAddress), ob)
		vf.Assert(g.EventName == e.EventName, ob)
		vf.Assert(g.JsonArgs == e.JsonArgs, ob)
		vf.Assert(g.EventIdx == e.EventIdx, ob)
	}
}

// C19.e: Receipts.UnmarshalBinary(Receipts.MarshalBinary(rs)) == rs for both store formats (choice on IsV2Fork), up to
// maxR receipts built as executeTx builds them, events with the receipt's own address (compact form) or another
// address. Preconditions (stated): no block-level bloom filter object (bloom library not encoded), CumulativeFeeUsed
// empty, event addresses do not start with 0x00 (they are 0x80-padded names or key/contract ids), and in the V1 format
// GasUsed == 0 and FeeDelegation == false (fields that did not exist before the V2 fork and are not stored by V1).
func VF_C19_e() {
	l := vf.Param("baseLen", 2)
	maxR := vf.Param("maxR", 2)
	maxEv := vf.Param("maxEv", 1)
	vfAddrLen, vfHashLen, vfBloomLen = AddressLength, 32, BloomBitByte
	v2 := vf.Choice("v2", 2) == 1
	// shapes: 0 = no receipt, 1 = one receipt (free shape), 2 = two receipts (first free, second fixed shape),
	// 3 = two receipts (first fixed shape, second free); with fullShapes both are free
	full := vf.Param("fullShapes", 0) != 0
	pattern := vf.Choice("pattern", 2+2*(maxR-1))
	nR := 0
	if pattern >= 2 {
		nR = 2
	} else if pattern == 1 {
		nR = 1
	}
	rs := &Receipts{blockNo: BlockNo(vf.U64("blockNo")), hardForkConfig: vfVersionner{v2}}
	for i := 0; i < nR; i++ {
		var r *Receipt
		free := full || pattern == 1 || (pattern == 2 && i == 0) || (pattern == 3 && i == 1)
		if free {
			st := vf.Choice("status", 4)
			withBloom := st%2 == 1 // quick: bloom present for CREATED/RECREATED receipts
			if full {
				withBloom = vf.Choice("bloom", 2) == 1
			}
			r = vfReceipt("r", vfStatuses[st], l, withBloom, vf.Choice("nEvents", maxEv+1))
		} else {
			r = vfReceipt("r", "SUCCESS", l, false, 1)
		}
		for _, e := range r.Events {
			if !free || vf.Choice("evAddrOwn", 2) == 1 {
				e.ContractAddress = r.ContractAddress
			} else {
				vf.Assume(e.ContractAddress[0] != 0)
			}
		}
		if !v2 {
			vf.Assume(r.GasUsed == 0)
			vf.Assume(!r.FeeDelegation)
		}
		rs.receipts = append(rs.receipts, r)
	}
	data, err := rs.MarshalBinary()
	vf.Reach("C19.e")
	vf.Assert(err == nil, "C19.e")
	back := &Receipts{blockNo: rs.blockNo, hardForkConfig: rs.hardForkConfig}
	err = back.UnmarshalBinary(data)
	vf.Assert(err == nil, "C19.e")
	vf.Assert(len(back.receipts) == nR, "C19.e")
	if len(back.receipts) != nR {
		return
	}
	for i, r := range rs.receipts {
		vfSameReceipt(back.receipts[i], r, v2, "C19.e")
	}
	vf.Assert(back.bloom == nil, "C19.e")
	// the decoded list commits to the same root as the original (store and commitment formats agree)
	for _, r := range back.receipts {
		for _, e := range r.Events {
			e.TxHash = r.TxHash // SetMemoryInfo restores the tx hash of events, which the store format omits
		}
	}
	for _, r := range rs.receipts {
		for _, e := range r.Events {
			e.TxHash = r.TxHash
		}
	}
	vf.Assert(bytes.Equal(back.MerkleRoot(), rs.MerkleRoot()), "C19.e.root")
	vf.Observe("data", data)
}
