package types

import (
	"bytes"
	"crypto/rand"

	vf "github.com/aergoio/aergo/v2/zzvf"
	"github.com/libp2p/go-libp2p/core/crypto"
)

// ---- signatures.
// Natively vfSignBlock signs with a real secp256k1 key through the real Block.Sign. For the engine the job replaces it
// by vfSignBlockSym (symbolic key and signature bytes, the signed message is remembered) and
//   crypto.UnmarshalPublicKey => vfUnmarshalPubSym: a key object whose Verify(msg, sig) holds exactly for the remembered
//   (key, message, signature) triple.
// That is the idealised signature scheme (only what the key holder signed verifies); ECDSA itself is outside the technique.

func vfSignBlock(b *Block) {
	priv, _, err := crypto.GenerateSecp256k1Key(rand.Reader)
	if err != nil {
		panic(err)
	}
	if err := b.Sign(priv); err != nil {
		panic(err)
	}
}

type vfSigOracle struct{ pub, msg, sig []byte }

var vfOracle *vfSigOracle

func vfSignBlockSym(b *Block) {
	b.Header.PubKey = vf.Bytes("sig.PubKey", 3)
	msg, err := b.Header.bytesForDigest()
	if err != nil {
		panic(err)
	}
	b.Header.Sign = vf.Bytes("sig.Sign", 3)
	vfOracle = &vfSigOracle{pub: append([]byte{}, b.Header.PubKey...), msg: append([]byte{}, msg...), sig: append([]byte{}, b.Header.Sign...)}
}

type vfPub struct {
	crypto.PubKey
	key []byte
}

func (p *vfPub) Verify(data []byte, sig []byte) (bool, error) {
	o := vfOracle
	return vf.And(bytes.Equal(p.key, o.pub), vf.And(bytes.Equal(data, o.msg), bytes.Equal(sig, o.sig))), nil
}

func vfUnmarshalPubSym(data []byte) (crypto.PubKey, error) {
	return &vfPub{key: append([]byte{}, data...)}, nil
}

// vfTweak changes a byte string for sure: flips bits of its first or last byte (mask != 0) or appends a byte.
func vfTweak(name string, old []byte) []byte {
	nb := append([]byte{}, old...)
	switch vf.Choice(name+".kind", 3) {
	case 0:
		m := vf.U8(name + ".mask")
		vf.Assume(m != 0)
		nb[0] ^= m
	case 1:
		m := vf.U8(name + ".mask")
		vf.Assume(m != 0)
		nb[len(nb)-1] ^= m
	case 2:
		nb = append(nb, vf.U8(name+".extra"))
	}
	return nb
}

// C09.d: a block signed through the real Block.Sign verifies through the real Block.VerifySign, and after changing any
// single header field (any of the 12, variable-length fields to any other content/length) it does not: the signature
// covers every field, VerifySign hands exactly bytesForDigest(), Header.PubKey and Header.Sign to the verifier.
func VF_C09_d() {
	l := vf.Param("baseLen", 2)
	maxLen := vf.Param("maxLen", 2)
	h1 := vfBaseHeader(l)
	b1 := &Block{Header: h1}
	vfSignBlock(b1)
	ok1, err1 := b1.VerifySign()
	vf.Reach("C09.d")
	vf.Assert(err1 == nil, "C09.d.complete")
	vf.Assert(ok1, "C09.d.complete")

	h2 := *h1
	f := vf.Choice("field", 12)
	var differs bool
	switch f {
	case 0:
		h2.ChainID, differs = vfMutate("m", h1.ChainID, maxLen)
	case 1:
		h2.PrevBlockHash, differs = vfMutate("m", h1.PrevBlockHash, maxLen)
	case 2:
		h2.BlockNo = vf.U64("m")
		differs = h2.BlockNo != h1.BlockNo
	case 3:
		h2.Timestamp = vf.I64("m")
		differs = h2.Timestamp != h1.Timestamp
	case 4:
		h2.BlocksRootHash, differs = vfMutate("m", h1.BlocksRootHash, maxLen)
	case 5:
		h2.TxsRootHash, differs = vfMutate("m", h1.TxsRootHash, maxLen)
	case 6:
		h2.ReceiptsRootHash, differs = vfMutate("m", h1.ReceiptsRootHash, maxLen)
	case 7:
		h2.Confirms = vf.U64("m")
		differs = h2.Confirms != h1.Confirms
	case 8:
		h2.PubKey, differs = vfTweak("m", h1.PubKey), true
	case 9:
		h2.CoinbaseAccount, differs = vfMutate("m", h1.CoinbaseAccount, maxLen)
	case 10:
		h2.Sign, differs = vfTweak("m", h1.Sign), true
	case 11:
		h2.Consensus, differs = vfMutate("m", h1.Consensus, maxLen)
	}
	vf.Assume(differs)
	b2 := &Block{Header: &h2}
	ok2, _ := b2.VerifySign()
	vf.Assert(!ok2, "C09.d.covers")
	vf.Observe("ok1", ok1)
	vf.Observe("ok2", ok2)
}
