package types

import (
	"bytes"

	vf "github.com/aergoio/aergo/v2/zzvf"
)

// ---------------------------------------------------------------------------------------------
// C02.b: VoteList.Less (the order in which the vote tally is serialised into state) must be a strict
// total order on entries with distinct candidates.
//
// Amounts: aLen symbolic bytes (big-endian, leading zero bytes allowed, so every value < 2^(8*aLen) is covered;
// Less only looks at the value). Candidates of the BP election are 39-byte peer ids.

func vfVote(name string, aLen, cLen int) *Vote {
	return &Vote{Amount: vf.Bytes(name+".amount", aLen), Candidate: vf.Bytes(name+".cand", cLen)}
}

// class of F3: a tie between entries whose 39-byte candidates agree from byte 7 on (Less skips bytes 0..6).
func vfF3Class(a, b *Vote) bool {
	if len(a.Candidate) != 39 || len(b.Candidate) != 39 {
		return false
	}
	return bytes.Equal(a.Candidate[7:], b.Candidate[7:])
}

// two entries: irreflexive, asymmetric, total on distinct candidates
func VF_C02_b_pair() {
	aLen := vf.Param("amountLen", 13)
	v0 := vfVote("v0", aLen, 39)
	v1 := vfVote("v1", aLen, 39)
	vl := VoteList{Votes: []*Vote{v0, v1}}
	vf.Assume(!bytes.Equal(v0.Candidate, v1.Candidate)) // candidates are keys of one map: distinct
	vf.Reach("C02.b.irreflexive")
	vf.Assert(!vl.Less(0, 0), "C02.b.irreflexive")
	l01 := vl.Less(0, 1)
	l10 := vl.Less(1, 0)
	vf.Reach("C02.b.asymmetric")
	vf.Assert(!vf.And(l01, l10), "C02.b.asymmetric")
	vf.Reach("C02.b.total")
	vf.AssertKnown(vf.Or(l01, l10), "C02.b.total", "F3-votelist-less-tie", vfF3Class(v0, v1))
	vf.Observe("l01", l01)
	vf.Observe("l10", l10)
}

// three entries: transitive
func VF_C02_b_trans() {
	aLen := vf.Param("amountLen", 13)
	v0 := vfVote("v0", aLen, 39)
	v1 := vfVote("v1", aLen, 39)
	v2 := vfVote("v2", aLen, 39)
	vl := VoteList{Votes: []*Vote{v0, v1, v2}}
	if vl.Less(0, 1) {
		if vl.Less(1, 2) {
			vf.Reach("C02.b.transitive")
			vf.Assert(vl.Less(0, 2), "C02.b.transitive")
		}
	}
}

// The "ex" form (parameter votes): candidates are the decimal strings admitted by system.ValidateSystemTx
// (big.Int.SetString(s, 10) succeeds): an optional sign followed by digits. Lengths by choice from
// {1..maxLen} and 39 (a 39-character string such as "000...02" is admitted as well).
func vfExCand(name string, maxLen int) []byte {
	k := vf.Choice(name+".len", maxLen+1)
	n := k + 1
	if k == maxLen {
		n = 39
	}
	c := vf.Bytes(name, n)
	for i := range c {
		digit := vf.And(c[i] >= '0', c[i] <= '9')
		if i == 0 && n > 1 {
			digit = vf.Or(digit, vf.Or(c[i] == '+', c[i] == '-'))
		}
		vf.Assume(digit)
	}
	return c
}

func VF_C02_b_ex() {
	aLen := vf.Param("amountLen", 13)
	maxLen := vf.Param("maxLen", 4)
	v0 := &Vote{Amount: vf.Bytes("v0.amount", aLen), Candidate: vfExCand("v0.cand", maxLen)}
	v1 := &Vote{Amount: vf.Bytes("v1.amount", aLen), Candidate: vfExCand("v1.cand", maxLen)}
	vl := VoteList{Votes: []*Vote{v0, v1}}
	vf.Assume(!bytes.Equal(v0.Candidate, v1.Candidate))
	// class of F3b: equal amounts, one candidate of length 39 and the other shorter than 7: Less slices [7:]
	short := vf.Or(vf.And(len(v0.Candidate) == 39, len(v1.Candidate) < 7), vf.And(len(v1.Candidate) == 39, len(v0.Candidate) < 7))
	vf.Reach("C02.b.ex")
	l01, p01 := vfLessNoPanic(vl, 0, 1)
	l10, p10 := vfLessNoPanic(vl, 1, 0)
	vf.AssertKnown(!vf.Or(p01, p10), "C02.b.ex.nopanic", "F3b-votelist-less-slice-panic", short)
	if p01 || p10 {
		return
	}
	vf.Assert(!vf.And(l01, l10), "C02.b.ex.asymmetric")
	vf.AssertKnown(vf.Or(l01, l10), "C02.b.ex.total", "F3-votelist-less-tie", vfF3Class(v0, v1))
}

func vfLessNoPanic(vl VoteList, i, j int) (res bool, panicked bool) {
	defer func() {
		if r := recover(); r != nil {
			panicked = true
		}
	}()
	return vl.Less(i, j), false
}
