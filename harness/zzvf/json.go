package zzvf

import (
	"encoding/json"
	"fmt"
	"reflect"
)

var _ = json.Valid

// JSONBind declares that text is a JSON document which the real decoder turns into *v (v is a pointer).
//
// Native build (this body): the claim is CHECKED with encoding/json — a harness that binds a text to a value it does
// not decode to panics on every native run (replay, differential validation), so the binding cannot silently be wrong.
// Engine: an intrinsic records text -> deep snapshot of *v; json.Unmarshal(text, &x) then yields that snapshot with a
// nil error (engine/sym/intr_json.go). Strings inside v must consist of bytes that JSON text carries verbatim
// (see JSONSafe), which is what makes the text the engine sees byte-for-byte the text the native run sees.
func JSONBind(text []byte, v interface{}) {
	nv := reflect.New(reflect.TypeOf(v).Elem())
	if err := json.Unmarshal(text, nv.Interface()); err != nil {
		panic(fmt.Sprintf("vf.JSONBind: %q does not decode: %v", text, err))
	}
	if !reflect.DeepEqual(nv.Interface(), v) {
		panic(fmt.Sprintf("vf.JSONBind: %q decodes to %#v, bound to %#v", text, nv.Elem().Interface(), reflect.ValueOf(v).Elem().Interface()))
	}
}

// JSONSafe is the condition "every byte of s is carried verbatim inside a JSON string literal":
// 0x20..0x7f except '"' and '\\' (no escapes needed, no UTF-8 repair by the decoder).
func JSONSafe(s string) bool {
	ok := true
	for i := 0; i < len(s); i++ {
		b := s[i]
		ok = And(ok, And(And(b >= 0x20, b < 0x80), And(b != '"', b != '\\')))
	}
	return ok
}

// CallDoc mirrors types.CallInfo (same field names and types); package zzvf cannot import types.
type CallDoc struct {
	Name string
	Args []interface{}
}

// CallShape bounds the governance call documents produced by NondetCall.
type CallShape struct {
	Names    []string  // command names to choose from
	SymName  []int     // lengths of the additional "unknown, symbolic name" alternatives
	MaxArgs  int       // Args has 0..MaxArgs elements; one more alternative: the "Args" key is absent (nil slice)
	SymStr   []int     // lengths of symbolic string arguments
	Tokens   []string  // well-formed concrete string arguments (names, addresses, ids, numbers ...)
	Nums     []float64 // number arguments (encoding/json decodes every number into float64) ...
	NumText  []string  // ... and their JSON spelling (NumText[i] must decode to Nums[i]; checked natively by JSONBind)
	Nest     bool      // nested arrays / objects with one symbolic string inside, besides the empty ones
	ArgKinds int       // if > 0: only the first ArgKinds alternatives of the list below are used
}

// number of alternatives for one argument
func (sh *CallShape) argAlts() int {
	n := len(sh.SymStr) + len(sh.Tokens) + len(sh.Nums) + 2 /*bool*/ + 1 /*null*/ + 2 /*[] {}*/
	if sh.Nest {
		n += 2
	}
	if sh.ArgKinds > 0 && sh.ArgKinds < n {
		n = sh.ArgKinds
	}
	return n
}

// symStr returns a symbolic string of length n restricted to JSON-verbatim bytes.
func symStr(name string, n int) string {
	s := Str(name, n)
	Assume(JSONSafe(s))
	return s
}

// nondetArg returns (JSON text, decoded value) of one argument. Alternatives, in this order:
// null, symbolic strings, tokens, numbers, true, false, [], {}, [sym], {"k":sym}.
func nondetArg(tag string, sh *CallShape) (string, interface{}) {
	k := Choice(tag+".kind", sh.argAlts())
	if k < 0 || k >= sh.argAlts() {
		Assume(false)
	}
	if k == 0 {
		return "null", nil
	}
	k--
	if k < len(sh.SymStr) {
		s := symStr(tag+".str", sh.SymStr[k])
		return `"` + s + `"`, s
	}
	k -= len(sh.SymStr)
	if k < len(sh.Tokens) {
		return `"` + sh.Tokens[k] + `"`, sh.Tokens[k]
	}
	k -= len(sh.Tokens)
	if k < len(sh.Nums) {
		return sh.NumText[k], sh.Nums[k]
	}
	k -= len(sh.Nums)
	switch k {
	case 0:
		return "true", true
	case 1:
		return "false", false
	case 2:
		return "[]", []interface{}{}
	case 3:
		return "{}", map[string]interface{}{}
	case 4:
		s := symStr(tag+".in", 1)
		return `["` + s + `"]`, []interface{}{s}
	}
	s := symStr(tag+".in", 1)
	return `{"k":"` + s + `"}`, map[string]interface{}{"k": s}
}

// NondetCall returns an arbitrary governance call document inside the shape bound: its JSON text (bound to the value
// with JSONBind) and the value the real decoder produces for it.
func NondetCall(tag string, sh *CallShape) ([]byte, *CallDoc) {
	doc := &CallDoc{}
	nn := len(sh.Names) + len(sh.SymName)
	k := Choice(tag+".name", nn)
	if k < 0 || k >= nn {
		Assume(false)
	}
	if k < len(sh.Names) {
		doc.Name = sh.Names[k]
	} else {
		doc.Name = symStr(tag+".name.sym", sh.SymName[k-len(sh.Names)])
	}
	text := `{"Name":"` + doc.Name + `"`
	na := Choice(tag+".nargs", sh.MaxArgs+2) // MaxArgs+1: key absent
	if na < 0 || na > sh.MaxArgs+1 {
		Assume(false)
	}
	if na <= sh.MaxArgs {
		text += `,"Args":[`
		doc.Args = make([]interface{}, 0, na)
		for i := 0; i < na; i++ {
			t, v := nondetArg(fmt.Sprintf("%s.arg%d", tag, i), sh)
			if i > 0 {
				text += ","
			}
			text += t
			doc.Args = append(doc.Args, v)
		}
		text += "]"
	}
	text += "}"
	payload := []byte(text)
	JSONBind(payload, doc)
	return payload, doc
}
