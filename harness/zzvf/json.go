package zzvf

import (
	"encoding/json"
	"fmt"
	"reflect"
)

var _ = json.Valid

// JSONBind declares that text is a JSON document which the real decoder turns into *v (v is a pointer).
//
// Native build (this body): the claim is CHECKED with encoding/json — a harness that binds a text to a value it does
// not decode to panics on every native run (replay, differential validation), so the binding cannot silently be wrong.
// Engine: an intrinsic records text -> deep snapshot of *v; json.Unmarshal(text, &x) then yields that snapshot with a
// nil error (engine/sym/intr_json.go). Strings inside v must consist of bytes that JSON text carries verbatim
// (see JSONSafe), which is what makes the text the engine sees byte-for-byte the text the native run sees.
func JSONBind(text []byte, v interface{}) {
	nv := reflect.New(reflect.TypeOf(v).Elem())
	if err := json.Unmarshal(text, nv.Interface()); err != nil {
		panic(fmt.Sprintf("vf.JSONBind: %q does not decode: %v", text, err))
	}
	if !reflect.DeepEqual(nv.Interface(), v) {
		panic(fmt.Sprintf("vf.JSONBind: %q decodes to %#v, bound to %#v", text, nv.Elem().Interface(), reflect.ValueOf(v).Elem().Interface()))
	}
}

// JSONSafe is the condition "every byte of s is carried verbatim inside a JSON string literal by both the decoder and
// the encoder of encoding/json": 0x20..0x7f except '"', '\\' and the HTML-escaped '<', '>', '&'.
func JSONSafe(s string) bool {
	ok := true
	for i := 0; i < len(s); i++ {
		b := s[i]
		ok = And(ok, And(And(b >= 0x20, b < 0x80), And(b != '"', b != '\\')))
		ok = And(ok, And(b != '<', And(b != '>', b != '&')))
	}
	return ok
}

// CallDoc mirrors types.CallInfo (same field names and types); package zzvf cannot import types.
type CallDoc struct {
	Name string
	Args []interface{}
}

// Alt is one alternative for an argument of a call document: either a concrete JSON text with the value encoding/json
// decodes it to, or (Kind != 0) a shape with one symbolic string inside.
type Alt struct {
	Kind int // 0 concrete; 1 symbolic string of length N; 2 [sym]; 3 {"k":sym}
	N    int
	Text string
	Val  interface{}
}

func ASym(n int) Alt    { return Alt{Kind: 1, N: n} }          // "s" with n symbolic bytes
func AStr(s string) Alt { return Alt{Text: quote(s), Val: s} } // a well-formed concrete string
func ANull() Alt        { return Alt{Text: "null", Val: nil} }
func ABool(b bool) Alt {
	if b {
		return Alt{Text: "true", Val: true}
	}
	return Alt{Text: "false", Val: false}
}
func ANum(t string, f float64) Alt     { return Alt{Text: t, Val: f} } // t must decode to f (checked natively)
func AArr() Alt                        { return Alt{Text: "[]", Val: []interface{}{}} }
func AObj() Alt                        { return Alt{Text: "{}", Val: map[string]interface{}{}} }
func AArrSym() Alt                     { return Alt{Kind: 2, N: 1} }
func AObjSym() Alt                     { return Alt{Kind: 3, N: 1} }
func ADoc(t string, v interface{}) Alt { return Alt{Text: t, Val: v} } // any concrete document

// CallShape bounds the governance call documents produced by NondetCall.
type CallShape struct {
	Names   []string // command names to choose from
	SymName []int    // lengths of the additional "unknown, symbolic name" alternatives
	MaxArgs int      // Args has 0..MaxArgs elements; one more alternative: the "Args" key is absent (nil slice)
	Alts    []Alt    // alternatives for each argument
}

// quote renders a concrete string as a JSON string literal ('"' and '\\' escaped; other bytes must be verbatim ones).
func quote(s string) string {
	out := `"`
	for i := 0; i < len(s); i++ {
		if s[i] == '"' || s[i] == '\\' {
			out += "\\"
		}
		out += s[i : i+1]
	}
	return out + `"`
}

// symStr returns a symbolic string of length n restricted to JSON-verbatim bytes.
func symStr(name string, n int) string {
	s := Str(name, n)
	Assume(JSONSafe(s))
	return s
}

// nondetArg returns (JSON text, decoded value) of one argument.
func nondetArg(tag string, sh *CallShape) (string, interface{}) {
	k := Choice(tag+".kind", len(sh.Alts))
	if k < 0 || k >= len(sh.Alts) {
		Assume(false)
	}
	a := sh.Alts[k]
	switch a.Kind {
	case 1:
		s := symStr(tag+".str", a.N)
		return `"` + s + `"`, s
	case 2:
		s := symStr(tag+".in", a.N)
		return `["` + s + `"]`, []interface{}{s}
	case 3:
		s := symStr(tag+".in", a.N)
		return `{"k":"` + s + `"}`, map[string]interface{}{"k": s}
	}
	return a.Text, a.Val
}

// NondetCall returns an arbitrary governance call document inside the shape bound: its JSON text (bound to the value
// with JSONBind) and the value the real decoder produces for it.
func NondetCall(tag string, sh *CallShape) ([]byte, *CallDoc) {
	doc := &CallDoc{}
	nn := len(sh.Names) + len(sh.SymName)
	k := Choice(tag+".name", nn)
	if k < 0 || k >= nn {
		Assume(false)
	}
	if k < len(sh.Names) {
		doc.Name = sh.Names[k]
		if quote(doc.Name) != `"`+doc.Name+`"` {
			panic("vf.NondetCall: command names must not need escaping")
		}
	} else {
		doc.Name = symStr(tag+".name.sym", sh.SymName[k-len(sh.Names)])
	}
	text := `{"Name":"` + doc.Name + `"`
	na := Choice(tag+".nargs", sh.MaxArgs+2) // MaxArgs+1: key absent
	if na < 0 || na > sh.MaxArgs+1 {
		Assume(false)
	}
	if na <= sh.MaxArgs {
		text += `,"Args":[`
		doc.Args = make([]interface{}, 0, na)
		for i := 0; i < na; i++ {
			t, v := nondetArg(fmt.Sprintf("%s.arg%d", tag, i), sh)
			if i > 0 {
				text += ","
			}
			text += t
			doc.Args = append(doc.Args, v)
		}
		text += "]"
	}
	text += "}"
	payload := []byte(text)
	JSONBind(payload, doc)
	return payload, doc
}
