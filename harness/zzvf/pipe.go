package zzvf

import "io"

// Pipe is the byte-stream model used in place of a libp2p stream: an in-memory FIFO whose Read may deliver the
// available bytes in pieces. The delivery schedule is a harness choice (so that the engine explores every schedule
// of the chosen family) and is recorded in the model, so a replay delivers the same pieces.
//
//	Mode 0: every Read delivers as much as fits
//	Mode 1: every Read delivers exactly one byte
//	Mode 2: the stream is delivered in pieces that end at the offsets listed in Cuts (ascending); after the last cut
//	        as much as fits
//
// EndErr is returned once the stream is exhausted (io.EOF unless set). A Read never returns (0, nil) for a non-empty
// destination. Limit >= 0 truncates the stream: bytes at offsets >= Limit are never delivered (reader sees EndErr).
type Pipe struct {
	Buf    []byte
	R      int
	Mode   int
	Cuts   []int
	Limit  int
	EndErr error
	Reads  int
	Writes int
	Closed bool
	// WriteErrAt >= 0: the Write call that would move the stream past that many bytes fails (short write)
	WriteErrAt int
}

func NewPipe() *Pipe { return &Pipe{Limit: -1, WriteErrAt: -1} }

// ChooseSchedule picks a delivery schedule for a stream of total bytes: all-at-once, byte-wise, or nCuts cut points
// (each by Choice over the remaining offsets).
func (p *Pipe) ChooseSchedule(total int, nCuts int) {
	if nCuts <= 0 || total < 2 {
		p.Mode = Choice("pipe.mode", 2)
		return
	}
	p.Mode = Choice("pipe.mode", 3)
	if p.Mode != 2 {
		return
	}
	lo := 1
	for i := 0; i < nCuts; i++ {
		if total-lo <= 0 {
			break
		}
		c := lo + Choice("pipe.cut", total-lo)
		p.Cuts = append(p.Cuts, c)
		lo = c + 1
	}
}

func (p *Pipe) end() int {
	e := len(p.Buf)
	if p.Limit >= 0 && p.Limit < e {
		e = p.Limit
	}
	return e
}

func (p *Pipe) Read(b []byte) (int, error) {
	p.Reads++
	if len(b) == 0 {
		return 0, nil
	}
	avail := p.end() - p.R
	if avail <= 0 {
		if p.EndErr != nil {
			return 0, p.EndErr
		}
		return 0, io.EOF
	}
	n := len(b)
	if n > avail {
		n = avail
	}
	switch p.Mode {
	case 1:
		n = 1
	case 2:
		for _, c := range p.Cuts {
			if c > p.R {
				if c-p.R < n {
					n = c - p.R
				}
				break
			}
		}
	}
	copy(b, p.Buf[p.R:p.R+n])
	p.R += n
	return n, nil
}

func (p *Pipe) Write(b []byte) (int, error) {
	p.Writes++
	if p.WriteErrAt >= 0 && len(p.Buf)+len(b) > p.WriteErrAt {
		k := p.WriteErrAt - len(p.Buf)
		if k < 0 {
			k = 0
		}
		p.Buf = append(p.Buf, b[:k]...)
		return k, io.ErrShortWrite
	}
	p.Buf = append(p.Buf, b...)
	return len(b), nil
}

func (p *Pipe) Close() error { p.Closed = true; return nil }

// Rest returns the bytes not yet delivered.
func (p *Pipe) Rest() []byte { return p.Buf[p.R:] }
