package zzvf

import "github.com/aergoio/aergo-lib/db"

// PrefixKV is a view of a KV in which every key carries a fixed prefix. Two stores of one process (chain DB and
// state DB) are modelled as two views of ONE KV, so that they share a single journal of durable units and a single
// crash index ("the process dies between any two durable writes"), while their key spaces stay disjoint.
type PrefixKV struct {
	KV     *KV
	Prefix []byte
}

var _ db.DB = (*PrefixKV)(nil)

func (p *PrefixKV) k(key []byte) []byte {
	out := make([]byte, 0, len(p.Prefix)+len(key))
	out = append(out, p.Prefix...)
	return append(out, key...)
}

func (p *PrefixKV) Type() string          { return "vfkv-prefix" }
func (p *PrefixKV) Set(key, value []byte) { p.KV.Set(p.k(key), value) }
func (p *PrefixKV) Delete(key []byte)     { p.KV.Delete(p.k(key)) }
func (p *PrefixKV) Get(key []byte) []byte { return p.KV.Get(p.k(key)) }
func (p *PrefixKV) Exist(key []byte) bool { return p.KV.Exist(p.k(key)) }
func (p *PrefixKV) Close()                {}
func (p *PrefixKV) NewTx() db.Transaction { return &prefixTx{p: p, tx: p.KV.NewTx()} }
func (p *PrefixKV) NewBulk() db.Bulk      { return &prefixBulk{p: p, b: p.KV.NewBulk()} }
func (p *PrefixKV) Iterator(start, end []byte) db.Iterator {
	panic("PrefixKV.Iterator is not modelled")
}

type prefixTx struct {
	p  *PrefixKV
	tx db.Transaction
}

func (t *prefixTx) Set(key, value []byte) { t.tx.Set(t.p.k(key), value) }
func (t *prefixTx) Delete(key []byte)     { t.tx.Delete(t.p.k(key)) }
func (t *prefixTx) Commit()               { t.tx.Commit() }
func (t *prefixTx) Discard()              { t.tx.Discard() }

type prefixBulk struct {
	p *PrefixKV
	b db.Bulk
}

func (t *prefixBulk) Set(key, value []byte) { t.b.Set(t.p.k(key), value) }
func (t *prefixBulk) Delete(key []byte)     { t.b.Delete(t.p.k(key)) }
func (t *prefixBulk) Flush()                { t.b.Flush() }
func (t *prefixBulk) DiscardLast()          { t.b.DiscardLast() }
