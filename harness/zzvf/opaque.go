package zzvf

// OpaqueBytes returns a zero-filled []byte whose length is the nondet int `name`, 0 <= length <= max.
// For the engine this is an *opaque slice* (intrinsic in engine/sym/intr_opaque.go): the length stays a symbolic
// term; len/cap, nil test, pass-through, proto.Size and hashing are allowed, any access to the content is not.
// Use it for payloads whose content is irrelevant but whose length drives the code under test.
func OpaqueBytes(name string, max int) []byte {
	n := Int(name)
	Assume(n >= 0)
	Assume(n <= max)
	return make([]byte, n)
}
