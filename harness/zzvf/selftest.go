package zzvf

import "bytes"

// VF_Self_kv: engine self-test of the KV model (transactions are atomic under every crash index).
func VF_Self_kv() {
	kv := NewKV()
	k1 := Bytes("k1", 2)
	k2 := Bytes("k2", 2)
	v1 := Bytes("v1", 1)
	v2 := Bytes("v2", 1)
	kv.CrashAt = Choice("crashAt", 4) - 1
	crashed := RunUntilCrash(func() {
		kv.Set(k1, v1)
		tx := kv.NewTx()
		tx.Set(k1, v2)
		tx.Set(k2, v2)
		tx.Commit()
		kv.Delete(k1)
	})
	Reach("T00.kv")
	re := kv.Reopen()
	g1 := re.Get(k1)
	g2 := re.Get(k2)
	switch kv.CrashAt {
	case -1:
		Assert(!crashed, "T00.kv")
		if bytes.Equal(k1, k2) {
			Assert(g1 == nil, "T00.kv")
		} else {
			Assert(g1 == nil, "T00.kv")
			Assert(bytes.Equal(g2, v2), "T00.kv")
		}
	case 0:
		Assert(crashed, "T00.kv")
		Assert(g1 == nil, "T00.kv")
		Assert(g2 == nil, "T00.kv")
	case 1:
		Assert(crashed, "T00.kv")
		Assert(bytes.Equal(g1, v1), "T00.kv")
		if !bytes.Equal(k1, k2) {
			Assert(g2 == nil, "T00.kv")
		}
	case 2:
		Assert(crashed, "T00.kv")
		Assert(bytes.Equal(g1, v2), "T00.kv")
		Assert(bytes.Equal(g2, v2), "T00.kv")
	}
	Observe("units", kv.Units)
	Observe("g1", g1)
}
