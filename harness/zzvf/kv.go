package zzvf

import (
	"bytes"
	"sort"

	"github.com/aergoio/aergo-lib/db"
)

// KV is the key-value store model used by harnesses in place of badger/leveldb: a map with a journal of
// durable units (single Set/Delete, committed Transaction, flushed Bulk). If CrashAt == k the k-th durable unit
// (0-based) and everything after it is NOT applied and the "process" dies (panic(KVCrash{})); harnesses catch
// it with RunUntilCrash and continue with a fresh service object over the surviving store.
type KV struct {
	M       map[string][]byte
	Units   int  // durable units applied so far
	CrashAt int  // -1 = never
	Crashed bool // set once the crash happened; later writes are dropped silently
	// PartialBulk: when the crash hits a Bulk flush, the first BulkCut writes of that bulk are applied (torn bulk)
	PartialBulk bool
	BulkCut     int
	TornApplied int // number of writes of the crashing bulk that were applied (0 unless PartialBulk tore a bulk)
	Writes      []KVWrite // journal (for harness-side inspection)
}

type KVWrite struct {
	Key   []byte
	Value []byte
	Del   bool
	Unit  int
}

type KVCrash struct{}

func NewKV() *KV { return &KV{M: map[string][]byte{}, CrashAt: -1} }

var _ db.DB = (*KV)(nil)

type kvOp struct {
	key, value []byte
	del        bool
}

func nz(b []byte) []byte {
	if b == nil {
		return []byte{}
	}
	return b
}

func (kv *KV) applyOne(op kvOp) {
	if op.del {
		delete(kv.M, string(op.key))
	} else {
		kv.M[string(op.key)] = op.value
	}
	kv.Writes = append(kv.Writes, KVWrite{Key: op.key, Value: op.value, Del: op.del, Unit: kv.Units})
}

// unit applies ops as one durable unit (or crashes instead).
func (kv *KV) unit(ops []kvOp, bulk bool) {
	if kv.Crashed {
		return
	}
	if kv.CrashAt >= 0 && kv.Units == kv.CrashAt {
		if bulk && kv.PartialBulk {
			for i := 0; i < len(ops) && i < kv.BulkCut; i++ {
				kv.applyOne(ops[i])
				kv.TornApplied++
			}
		}
		kv.Crashed = true
		panic(KVCrash{})
	}
	for _, op := range ops {
		kv.applyOne(op)
	}
	kv.Units++
}

func (kv *KV) Type() string           { return "vfkv" }
func (kv *KV) Set(key, value []byte) { kv.unit([]kvOp{{key: nz(key), value: nz(value)}}, false) }
func (kv *KV) Delete(key []byte)     { kv.unit([]kvOp{{key: nz(key), del: true}}, false) }
func (kv *KV) Get(key []byte) []byte { return kv.M[string(nz(key))] }
func (kv *KV) Exist(key []byte) bool { _, ok := kv.M[string(nz(key))]; return ok }
func (kv *KV) Close()                {}
func (kv *KV) NewTx() db.Transaction { return &kvTx{kv: kv} }
func (kv *KV) NewBulk() db.Bulk      { return &kvBulk{kv: kv} }

// Reopen returns the store as a restarted process sees it: same content, no pending crash.
func (kv *KV) Reopen() *KV {
	m := map[string][]byte{}
	for k, v := range kv.M {
		m[k] = v
	}
	return &KV{M: m, CrashAt: -1}
}

type kvTx struct {
	kv        *KV
	ops       []kvOp
	committed bool
	discarded bool
}

func (t *kvTx) Set(key, value []byte) { t.ops = append(t.ops, kvOp{key: nz(key), value: nz(value)}) }
func (t *kvTx) Delete(key []byte)     { t.ops = append(t.ops, kvOp{key: nz(key), del: true}) }
func (t *kvTx) Discard()              { t.discarded = true }
func (t *kvTx) Commit() {
	if t.discarded {
		panic("Commit after discard tx is not allowed")
	}
	if t.committed {
		panic("Commit occurs two times")
	}
	t.kv.unit(t.ops, false)
	t.committed = true
}

type kvBulk struct {
	kv        *KV
	ops       []kvOp
	committed bool
	discarded bool
}

func (t *kvBulk) Set(key, value []byte) { t.ops = append(t.ops, kvOp{key: nz(key), value: nz(value)}) }
func (t *kvBulk) Delete(key []byte)     { t.ops = append(t.ops, kvOp{key: nz(key), del: true}) }
func (t *kvBulk) DiscardLast()          { t.discarded = true }
func (t *kvBulk) Flush() {
	if t.discarded {
		panic("Commit after dicard tx is not allowed")
	}
	if t.committed {
		panic("Commit occures two times")
	}
	t.kv.unit(t.ops, true)
	t.committed = true
}

type kvIter struct {
	keys   []string
	vals   [][]byte
	cursor int
}

func (it *kvIter) Next()         { it.cursor++ }
func (it *kvIter) Valid() bool   { return it.cursor < len(it.keys) }
func (it *kvIter) Key() []byte   { return []byte(it.keys[it.cursor]) }
func (it *kvIter) Value() []byte { return it.vals[it.cursor] }

// Iterator: ascending over [start, end) or, if start > end, descending over (end, start] like aergo-lib's stores.
func (kv *KV) Iterator(start, end []byte) db.Iterator {
	reverse := bytes.Compare(start, end) == 1
	var keys []string
	for k := range kv.M {
		kb := []byte(k)
		if reverse {
			if start != nil && bytes.Compare(start, kb) < 0 {
				continue
			}
			if end != nil && bytes.Compare(kb, end) <= 0 {
				continue
			}
		} else {
			if bytes.Compare(kb, start) < 0 {
				continue
			}
			if end != nil && bytes.Compare(end, kb) <= 0 {
				continue
			}
		}
		keys = append(keys, k)
	}
	sort.Slice(keys, func(i, j int) bool {
		if reverse {
			return keys[i] > keys[j]
		}
		return keys[i] < keys[j]
	})
	it := &kvIter{keys: keys}
	for _, k := range keys {
		it.vals = append(it.vals, kv.M[k])
	}
	return it
}

// RunUntilCrash runs f; reports whether the KV crash signal ended it.
func RunUntilCrash(f func()) (crashed bool) {
	defer func() {
		if r := recover(); r != nil {
			if _, ok := r.(KVCrash); ok {
				crashed = true
				return
			}
			panic(r)
		}
	}()
	f()
	return false
}
