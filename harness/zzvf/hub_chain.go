package zzvf

import (
	"time"

	"github.com/aergoio/aergo-actor/actor"
	"github.com/aergoio/aergo/v2/pkg/component"
)

// Recording stand-ins for the actor hub (used by the chain-package harnesses C05-C07): a RecComp is registered in a
// real component.ComponentHub under the name of a service (mempool, rpc, ...) and records every message that the
// code under test sends to that service with RequestTo / TellTo. Nothing is delivered, no actor is started.

// HubMsg is declared in hub.go (Kind: "request" | "tell" here).

type HubLog struct {
	Msgs []HubMsg
}

type RecComp struct {
	Name string
	Log  *HubLog
	hub  *component.ComponentHub
}

var _ component.IComponent = (*RecComp)(nil)

func (r *RecComp) GetName() string                  { return r.Name }
func (r *RecComp) Start()                           {}
func (r *RecComp) Stop()                            {}
func (r *RecComp) Status() component.Status         { return component.StartedStatus }
func (r *RecComp) SetHub(h *component.ComponentHub) { r.hub = h }
func (r *RecComp) Hub() *component.ComponentHub     { return r.hub }
func (r *RecComp) MsgQueueLen() int32               { return 0 }
func (r *RecComp) Receive(actor.Context)            {}
func (r *RecComp) Tell(message interface{}) {
	r.Log.Msgs = append(r.Log.Msgs, HubMsg{To: r.Name, Kind: "tell", Msg: message})
}
func (r *RecComp) Request(message interface{}, sender *actor.PID) {
	r.Log.Msgs = append(r.Log.Msgs, HubMsg{To: r.Name, Kind: "request", Msg: message})
}
func (r *RecComp) RequestFuture(message interface{}, timeout time.Duration, tip string) *actor.Future {
	r.Log.Msgs = append(r.Log.Msgs, HubMsg{To: r.Name, Kind: "future", Msg: message})
	return nil
}

// NewRecHub returns a hub in which every name of names is a recording component writing to one shared log.
func NewRecHub(names ...string) (*component.ComponentHub, *HubLog) {
	hub := component.NewComponentHub()
	log := &HubLog{}
	for _, n := range names {
		hub.Register(&RecComp{Name: n, Log: log})
	}
	return hub, log
}
