package zzvf

import (
	"errors"
	"time"
)

// Hub is a recording stand-in for the actor hub: it satisfies component.IComponentRequester
// (TellTo / RequestTo / RequestToFutureResult) structurally, logs every message in order and lets the harness answer
// synchronously through callbacks (e.g. push a reply into a buffered channel of the component under test).
// Ordinary Go: interpreted by the engine and compiled natively, so both sides run the same code.
type HubMsg struct {
	Kind string // "tell", "request", "future"
	To   string
	Msg  interface{}
}

type Hub struct {
	Log       []HubMsg
	OnTell    func(to string, msg interface{})
	OnRequest func(to string, msg interface{})
	OnFuture  func(to string, msg interface{}) (interface{}, error)
}

func (h *Hub) TellTo(to string, msg interface{}) {
	h.Log = append(h.Log, HubMsg{"tell", to, msg})
	if h.OnTell != nil {
		h.OnTell(to, msg)
	}
}

func (h *Hub) RequestTo(to string, msg interface{}) {
	h.Log = append(h.Log, HubMsg{"request", to, msg})
	if h.OnRequest != nil {
		h.OnRequest(to, msg)
	}
}

func (h *Hub) RequestToFutureResult(to string, msg interface{}, timeout time.Duration, tip string) (interface{}, error) {
	h.Log = append(h.Log, HubMsg{"future", to, msg})
	if h.OnFuture != nil {
		return h.OnFuture(to, msg)
	}
	return nil, errors.New("zzvf.Hub: no responder")
}

// Count returns the number of logged messages of the given kind sent to `to` ("" = any).
func (h *Hub) Count(kind, to string) int {
	n := 0
	for _, m := range h.Log {
		if m.Kind == kind && (to == "" || m.To == to) {
			n++
		}
	}
	return n
}
