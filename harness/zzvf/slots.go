package zzvf

import "bytes"

// Slots is a lazily drawn pre-state of a key-value storage (a contract's storage) for harnesses that quantify over
// "whatever the storage holds": each slot is a key together with a generator of its initial value (nondet, named by the
// slot's tag so that the value does not depend on WHEN it is drawn).
//
// Under the engine the harness maps the storage accessors of the code under test onto Get/Set/Del/Initial (props
// "stubs"), so a slot is drawn only on the paths that read it (no fork otherwise). In a native or concrete run
// (!Symbolic()) the harness calls Eager, which draws every slot at once and writes the values into the real storage;
// the real accessors then run unstubbed (native) or stubbed over the same values (engine, concrete mode).
// The two agree as long as the real storage behaves as a map, which is what the stub assumes (stated in the props).
type Slots struct {
	tags  []string
	keys  [][]byte
	gens  []func(tag string) []byte
	drawn []bool
	init  [][]byte // drawn initial values
	// current contents: overrides by writes
	wkeys [][]byte
	wvals [][]byte
	wdel  []bool
}

func NewSlots() *Slots { return &Slots{} }

// Add registers a slot. gen returns the initial value (nil: absent).
func (s *Slots) Add(tag string, key []byte, gen func(tag string) []byte) {
	for _, k := range s.keys {
		if bytes.Equal(k, key) {
			return // first registration wins
		}
	}
	s.tags = append(s.tags, tag)
	s.keys = append(s.keys, key)
	s.gens = append(s.gens, gen)
	s.drawn = append(s.drawn, false)
	s.init = append(s.init, nil)
}

func (s *Slots) draw(i int) []byte {
	if !s.drawn[i] {
		s.drawn[i] = true
		s.init[i] = s.gens[i](s.tags[i])
	}
	return s.init[i]
}

// Initial returns the value the key had before any write (keys without a slot: absent).
func (s *Slots) Initial(key []byte) []byte {
	for i, k := range s.keys {
		if bytes.Equal(k, key) {
			return s.draw(i)
		}
	}
	return nil
}

// Get returns the current value of key.
func (s *Slots) Get(key []byte) []byte {
	for i := len(s.wkeys) - 1; i >= 0; i-- {
		if bytes.Equal(s.wkeys[i], key) {
			if s.wdel[i] {
				return nil
			}
			return s.wvals[i]
		}
	}
	return s.Initial(key)
}

func (s *Slots) Set(key, val []byte) {
	s.wkeys = append(s.wkeys, key)
	s.wvals = append(s.wvals, val)
	s.wdel = append(s.wdel, false)
}

func (s *Slots) Del(key []byte) {
	s.wkeys = append(s.wkeys, key)
	s.wvals = append(s.wvals, nil)
	s.wdel = append(s.wdel, true)
}

// Eager draws every slot now and hands the present ones to set (native / concrete runs).
func (s *Slots) Eager(set func(key, val []byte)) {
	for i := range s.keys {
		if v := s.draw(i); v != nil {
			set(s.keys[i], v)
		}
	}
}
