package zzvf

import "fmt"

// NondetCallPos is NondetCall with per-position argument alternatives: argument i ranges over pos[i] when that list
// exists and is non-empty, otherwise over sh.Alts. Used where an argument position has its own well-formed tokens
// (proposal id at position 0, decimal numbers behind it) and a symbolic string is only wanted at some positions.
func NondetCallPos(tag string, sh *CallShape, pos [][]Alt) ([]byte, *CallDoc) {
	doc := &CallDoc{}
	nn := len(sh.Names) + len(sh.SymName)
	k := Choice(tag+".name", nn)
	if k < 0 || k >= nn {
		Assume(false)
	}
	if k < len(sh.Names) {
		doc.Name = sh.Names[k]
		if quote(doc.Name) != `"`+doc.Name+`"` {
			panic("vf.NondetCallPos: command names must not need escaping")
		}
	} else {
		doc.Name = symStr(tag+".name.sym", sh.SymName[k-len(sh.Names)])
	}
	text := `{"Name":"` + doc.Name + `"`
	na := Choice(tag+".nargs", sh.MaxArgs+2) // MaxArgs+1: key absent
	if na < 0 || na > sh.MaxArgs+1 {
		Assume(false)
	}
	if na <= sh.MaxArgs {
		text += `,"Args":[`
		doc.Args = make([]interface{}, 0, na)
		for i := 0; i < na; i++ {
			one := sh
			if i < len(pos) && len(pos[i]) > 0 {
				one = &CallShape{Alts: pos[i]}
			}
			t, v := nondetArg(fmt.Sprintf("%s.arg%d", tag, i), one)
			if i > 0 {
				text += ","
			}
			text += t
			doc.Args = append(doc.Args, v)
		}
		text += "]"
	}
	text += "}"
	payload := []byte(text)
	JSONBind(payload, doc)
	return payload, doc
}
