package chain

import (
	"bytes"

	"github.com/aergoio/aergo/v2/consensus"
	"github.com/aergoio/aergo/v2/internal/enc/proto"
	"github.com/aergoio/aergo/v2/types"
	"github.com/aergoio/aergo/v2/types/dbkey"
	vf "github.com/aergoio/aergo/v2/zzvf"
	"github.com/aergoio/etcd/raft/raftpb"
)

// ---- C16.a: one WriteRaftEntry step on a well-formed log (inductive step) ------------------------------------------

const vfHashLen = 4 // block hashes are symbolic byte strings; their length is irrelevant to the WAL code

type vfWalItem struct {
	ent   *consensus.WalEntry
	block *types.Block // EntryBlock only
}

// vfWalEntry: an entry of the given kind at index idx with symbolic term; block entries carry a block with a symbolic
// hash (pairwise distinct from all hashes in `others`) and symbolic number.
func vfWalEntry(kind consensus.EntryType, idx uint64, others *[][]byte) vfWalItem {
	e := &consensus.WalEntry{Type: kind, Term: vf.U64("term"), Index: idx}
	it := vfWalItem{ent: e}
	if kind == consensus.EntryBlock {
		h := vf.Bytes("hash", vfHashLen)
		for _, o := range *others {
			vf.Assume(!bytes.Equal(h, o))
		}
		*others = append(*others, h)
		it.block = &types.Block{Hash: h, Header: &types.BlockHeader{BlockNo: vf.U64("blockNo")}, Body: &types.BlockBody{}}
		e.Data = h
	}
	return it
}

// vfStoreLog writes a well-formed log 1..len(items) straight into the store, in the storage format of WriteRaftEntry
// (entry by index, block by hash, inverted index for block entries, last index).
func vfStoreLog(kv *vf.KV, items []vfWalItem) {
	for _, it := range items {
		data, err := it.ent.ToBytes()
		if err != nil {
			panic(err)
		}
		kv.Set(dbkey.RaftEntry(it.ent.Index), data)
		if it.block != nil {
			bb, err := proto.Encode(it.block)
			if err != nil {
				panic(err)
			}
			kv.Set(it.block.BlockHash(), bb)
			kv.Set(dbkey.RaftEntryInvert(it.block.BlockHash()), types.Uint64ToBytes(it.ent.Index))
		}
	}
	if len(items) > 0 {
		kv.Set(dbkey.RaftEntryLastIdx(), types.BlockNoToBytes(uint64(len(items))))
	}
}

func vfSameEntry(a, b *consensus.WalEntry) bool {
	return vf.And(vf.And(a.Type == b.Type, a.Term == b.Term), vf.And(a.Index == b.Index, bytes.Equal(a.Data, b.Data)))
}

func vfCdb(kv *vf.KV) *ChainDB {
	cdb := NewChainDB()
	cdb.store = kv
	return cdb
}

// vfCheckOldLog: the log `old` is readable unchanged.
func vfCheckOldLog(cdb *ChainDB, old []vfWalItem, upto int, ob string) {
	for i := 0; i < upto; i++ {
		got, err := cdb.GetRaftEntry(uint64(i + 1))
		vf.Assert(err == nil, ob)
		if err == nil {
			vf.Assert(vfSameEntry(got, old[i].ent), ob)
		}
	}
}

// VF_C16_a: pre-state = well-formed log of L entries (odd indices block entries, even indices empty entries, symbolic
// terms/hashes); one real WriteRaftEntry with m entries of contiguous indices s..s+m-1, 1 <= s <= L+1 (s symbolic),
// kinds by choice. Everything is read back through a fresh ChainDB on the reopened store (restart).
func VF_C16_a() {
	maxL := vf.Param("maxL", 3)
	maxM := vf.Param("maxM", 2)
	L := vf.Choice("L", maxL+1)
	m := 1 + vf.Choice("m", maxM)
	kv := vf.NewKV()
	var hashes [][]byte
	old := make([]vfWalItem, L)
	for i := 0; i < L; i++ {
		kind := consensus.EntryEmpty
		if i%2 == 0 {
			kind = consensus.EntryBlock
		}
		old[i] = vfWalEntry(kind, uint64(i+1), &hashes)
	}
	vfStoreLog(kv, old)

	s := vf.U64("start")
	vf.Assume(s >= 1)
	vf.Assume(s <= uint64(L)+1)
	ents := make([]*consensus.WalEntry, m)
	blocks := make([]*types.Block, m)
	ccs := make([]*raftpb.ConfChange, m)
	items := make([]vfWalItem, m)
	for j := 0; j < m; j++ {
		kind := consensus.EntryType(vf.Choice("kind", 3))
		items[j] = vfWalEntry(kind, s+uint64(j), &hashes)
		ents[j] = items[j].ent
		blocks[j] = items[j].block
		if kind == consensus.EntryConfChange {
			ccs[j] = &raftpb.ConfChange{ID: vf.U64("ccID"), Type: raftpb.ConfChangeAddNode, NodeID: vf.U64("ccNode")}
		}
	}

	units := kv.Units
	err := vfCdb(kv).WriteRaftEntry(ents, blocks, ccs)
	vf.Reach("C16.a")
	vf.Assert(err == nil, "C16.a")
	vf.Assert(kv.Units == units+1, "C16.a.atomic") // the whole update is ONE durable unit (a committed transaction)

	// restart: fresh ChainDB over the reopened store
	cdb := vfCdb(kv.Reopen())
	last, err := cdb.GetRaftEntryLastIdx()
	vf.Assert(err == nil, "C16.a.last")
	vf.Assert(last == s+uint64(m)-1, "C16.a.last")

	// new entries
	for j := 0; j < m; j++ {
		got, err := cdb.GetRaftEntry(s + uint64(j))
		vf.Assert(err == nil, "C16.a.new")
		if err == nil {
			vf.Assert(vfSameEntry(got, ents[j]), "C16.a.new")
		}
		if blocks[j] != nil {
			idx, err := cdb.GetRaftEntryIndexOfBlock(blocks[j].BlockHash())
			vf.Assert(err == nil, "C16.a.block")
			vf.Assert(idx == s+uint64(j), "C16.a.block")
			e2, err := cdb.GetRaftEntryOfBlock(blocks[j].BlockHash())
			vf.Assert(err == nil, "C16.a.block")
			if err == nil {
				vf.Assert(vfSameEntry(e2, ents[j]), "C16.a.block")
			}
			blk, err := cdb.GetBlock(blocks[j].BlockHash())
			vf.Assert(err == nil, "C16.a.block")
			if err == nil {
				vf.Assert(vf.And(bytes.Equal(blk.Hash, blocks[j].Hash), blk.Header.BlockNo == blocks[j].Header.BlockNo), "C16.a.block")
			}
		}
		if ccs[j] != nil {
			pr, err := cdb.GetConfChangeProgress(ccs[j].ID)
			vf.Assert(err == nil, "C16.a.cc")
			if ccs[j].ID == 0 {
				vf.Assert(pr == nil, "C16.a.cc")
			} else {
				vf.Assert(pr != nil, "C16.a.cc")
				if pr != nil {
					vf.Assert(pr.State == types.ConfChangeState_CONF_CHANGE_STATE_SAVED, "C16.a.cc")
				}
			}
		}
	}
	// old entries
	for i := 1; i <= L+1; i++ {
		idx := uint64(i)
		got, err := cdb.GetRaftEntry(idx)
		if idx < s {
			vf.Assert(err == nil, "C16.a.keep") // below the batch: untouched
			if err == nil {
				vf.Assert(vfSameEntry(got, old[i-1].ent), "C16.a.keep")
			}
		} else if idx > s+uint64(m)-1 {
			vf.Assert(err == ErrNoWalEntry, "C16.a.truncate") // old suffix beyond the batch: gone
			// a block entry removed by the overwrite must not be found through its hash any more
			if i <= L && old[i-1].block != nil {
				_, err := cdb.GetRaftEntryOfBlock(old[i-1].block.BlockHash())
				vf.AssertKnown(err != nil, "C16.a.stale-index", vfFindingStaleInvert, idx >= s)
			}
		} else if i <= L && old[i-1].block != nil {
			// overwritten in place: looking the OLD block up must not hand back the entry of another block
			e2, err := cdb.GetRaftEntryOfBlock(old[i-1].block.BlockHash())
			if err == nil {
				vf.AssertKnown(bytes.Equal(e2.Data, old[i-1].block.BlockHash()), "C16.a.stale-index", vfFindingStaleInvert, idx >= s)
			}
		}
	}
	vf.Observe("last", last)
}

const vfFindingStaleInvert = "F-C16-1-stale-inverted-raft-index"

// VF_C16_a_crash: the process dies at the durable unit of WriteRaftEntry (before it is applied): after restart the old
// log is intact — never a mix of old and new.
func VF_C16_a_crash() {
	maxL := vf.Param("maxL", 2)
	L := vf.Choice("L", maxL+1)
	m := 1 + vf.Choice("m", 2)
	kv := vf.NewKV()
	var hashes [][]byte
	old := make([]vfWalItem, L)
	for i := 0; i < L; i++ {
		kind := consensus.EntryEmpty
		if i%2 == 0 {
			kind = consensus.EntryBlock
		}
		old[i] = vfWalEntry(kind, uint64(i+1), &hashes)
	}
	vfStoreLog(kv, old)
	s := vf.U64("start")
	vf.Assume(s >= 1)
	vf.Assume(s <= uint64(L)+1)
	ents := make([]*consensus.WalEntry, m)
	blocks := make([]*types.Block, m)
	ccs := make([]*raftpb.ConfChange, m)
	for j := 0; j < m; j++ {
		it := vfWalEntry(consensus.EntryBlock, s+uint64(j), &hashes)
		ents[j], blocks[j] = it.ent, it.block
	}
	kv.CrashAt = kv.Units
	crashed := vf.RunUntilCrash(func() { vfCdb(kv).WriteRaftEntry(ents, blocks, ccs) })
	vf.Reach("C16.a.crash")
	vf.Assert(crashed, "C16.a.crash")
	cdb := vfCdb(kv.Reopen())
	last, err := cdb.GetRaftEntryLastIdx()
	vf.Assert(err == nil, "C16.a.crash")
	vf.Assert(last == uint64(L), "C16.a.crash")
	vfCheckOldLog(cdb, old, L, "C16.a.crash")
	for j := 0; j < m; j++ {
		_, err := cdb.GetRaftEntryIndexOfBlock(blocks[j].BlockHash())
		vf.Assert(err == ErrNoWalEntryForBlock, "C16.a.crash")
		_, err = cdb.GetBlock(blocks[j].BlockHash())
		vf.Assert(err != nil, "C16.a.crash")
	}
	_, err = cdb.GetRaftEntry(uint64(L) + 1)
	vf.Assert(err == ErrNoWalEntry, "C16.a.crash")
	vf.Observe("last", last)
}

// ---- C16.b: hard state, snapshot, identity, ResetWAL, ClearWAL read back what was written, across a restart ---------

func vfLogGone(cdb *ChainDB, old []vfWalItem, ob string) {
	for i := range old {
		_, err := cdb.GetRaftEntry(uint64(i + 1))
		vf.Assert(err == ErrNoWalEntry, ob)
	}
}

func VF_C16_b() {
	op := vf.Choice("op", 5)
	kv := vf.NewKV()
	cdb := vfCdb(kv)
	switch op {
	case 0: // hard state
		_, err := cdb.GetHardState()
		vf.Assert(err == ErrWalNoHardState, "C16.b.hardstate")
		hs := &raftpb.HardState{Term: vf.U64("term"), Vote: vf.U64("vote"), Commit: vf.U64("commit")}
		vf.Assert(cdb.WriteHardState(hs) == nil, "C16.b.hardstate")
		hs2 := &raftpb.HardState{Term: vf.U64("term"), Vote: vf.U64("vote"), Commit: vf.U64("commit")}
		vf.Assert(cdb.WriteHardState(hs2) == nil, "C16.b.hardstate") // overwrite: the latest one is read back
		got, err := vfCdb(kv.Reopen()).GetHardState()
		vf.Reach("C16.b")
		vf.Assert(err == nil, "C16.b.hardstate")
		if err == nil {
			vf.Assert(vf.And(got.Term == hs2.Term, vf.And(got.Vote == hs2.Vote, got.Commit == hs2.Commit)), "C16.b.hardstate")
		}
	case 1: // identity
		id0, err := cdb.GetIdentity()
		vf.Assert(vf.And(id0 == nil, err == nil), "C16.b.identity")
		id := &consensus.RaftIdentity{ClusterID: vf.U64("cluster"), ID: vf.U64("id"), Name: vf.Str("name", 2), PeerID: vf.Str("peer", 3)}
		vf.Assert(cdb.WriteIdentity(id) == nil, "C16.b.identity")
		cdb2 := vfCdb(kv.Reopen())
		got, err := cdb2.GetIdentity()
		vf.Reach("C16.b")
		vf.Assert(err == nil, "C16.b.identity")
		if err == nil && got != nil {
			vf.Assert(vf.And(vf.And(got.ClusterID == id.ClusterID, got.ID == id.ID), vf.And(got.Name == id.Name, got.PeerID == id.PeerID)), "C16.b.identity")
		} else {
			vf.Fail("C16.b.identity")
		}
		// HasWal: same identity + hard state present
		ok, err := cdb2.HasWal(*id)
		vf.Assert(vf.And(!ok, err == ErrWalNoHardState), "C16.b.haswal")
		cdb2.WriteHardState(&raftpb.HardState{Term: 1})
		ok, err = cdb2.HasWal(*id)
		vf.Assert(vf.And(ok, err == nil), "C16.b.haswal")
		other := *id
		other.Name = vf.Str("othername", 2)
		ok, err = cdb2.HasWal(other)
		vf.Assert(ok == (other.Name == id.Name), "C16.b.haswal")
	case 2: // snapshot
		s0, err := cdb.GetSnapshot()
		vf.Assert(vf.And(s0 == nil, err == nil), "C16.b.snapshot")
		sd := &consensus.SnapshotData{Chain: consensus.ChainSnapshot{No: vf.U64("snapNo"), Hash: vf.Bytes("snapHash", vfHashLen)}}
		data, err := sd.Encode()
		vf.Assert(err == nil, "C16.b.snapshot")
		snap := &raftpb.Snapshot{Data: data, Metadata: raftpb.SnapshotMetadata{Index: vf.U64("snapIndex"), Term: vf.U64("snapTerm")}}
		vf.Assert(cdb.WriteSnapshot(snap) == nil, "C16.b.snapshot")
		got, err := vfCdb(kv.Reopen()).GetSnapshot()
		vf.Reach("C16.b")
		vf.Assert(err == nil, "C16.b.snapshot")
		if err == nil && got != nil {
			vf.Assert(vf.And(got.Metadata.Index == snap.Metadata.Index, got.Metadata.Term == snap.Metadata.Term), "C16.b.snapshot")
			var sd2 consensus.SnapshotData
			vf.Assert(sd2.Decode(got.Data) == nil, "C16.b.snapshot")
			vf.Assert(sd2.Chain.Equal(&sd.Chain), "C16.b.snapshot")
		} else {
			vf.Fail("C16.b.snapshot")
		}
	case 3, 4: // ClearWAL / ResetWAL on a store holding a log of L entries, identity, hard state and snapshot
		L := vf.Choice("L", vf.Param("maxL", 2)+1)
		var hashes [][]byte
		old := make([]vfWalItem, L)
		for i := 0; i < L; i++ {
			kind := consensus.EntryEmpty
			if i%2 == 0 {
				kind = consensus.EntryBlock
			}
			old[i] = vfWalEntry(kind, uint64(i+1), &hashes)
		}
		vfStoreLog(kv, old)
		cdb.WriteIdentity(&consensus.RaftIdentity{ClusterID: 1, ID: 2, Name: "n1", PeerID: "p1"})
		cdb.WriteHardState(&raftpb.HardState{Term: 3, Vote: 2, Commit: uint64(L)})
		best := &types.Block{Hash: vf.Bytes("bestHash", vfHashLen), Header: &types.BlockHeader{BlockNo: vf.U64("bestNo")}, Body: &types.BlockBody{}}
		cdb.bestBlock.Store(best)
		if op == 3 {
			cdb.ClearWAL()
			c2 := vfCdb(kv.Reopen())
			vf.Reach("C16.b")
			id, err := c2.GetIdentity()
			vf.Assert(vf.And(id == nil, err == nil), "C16.b.clear")
			_, err = c2.GetHardState()
			vf.Assert(err == ErrWalNoHardState, "C16.b.clear")
			sn, err := c2.GetSnapshot()
			vf.Assert(vf.And(sn == nil, err == nil), "C16.b.clear")
			last, err := c2.GetRaftEntryLastIdx()
			vf.Assert(vf.And(last == 0, err == nil), "C16.b.clear")
			vfLogGone(c2, old, "C16.b.clear")
			return
		}
		hsi := &types.HardStateInfo{Term: vf.U64("rterm"), Commit: vf.U64("rcommit")}
		vf.Assert(cdb.ResetWAL(nil) == ErrNilHardState, "C16.b.reset")
		vf.Assert(cdb.ResetWAL(hsi) == nil, "C16.b.reset")
		c2 := vfCdb(kv.Reopen())
		vf.Reach("C16.b")
		hs, err := c2.GetHardState()
		vf.Assert(err == nil, "C16.b.reset")
		if err == nil {
			vf.Assert(vf.And(hs.Term == hsi.Term, hs.Commit == hsi.Commit), "C16.b.reset")
		}
		last, err := c2.GetRaftEntryLastIdx()
		vf.Assert(vf.And(last == hsi.Commit, err == nil), "C16.b.reset") // the log continues after the commit index
		sn, err := c2.GetSnapshot()
		vf.Assert(err == nil, "C16.b.reset")
		if err == nil && sn != nil {
			vf.Assert(vf.And(sn.Metadata.Index == hsi.Commit, sn.Metadata.Term == hsi.Term), "C16.b.reset")
			var sd consensus.SnapshotData
			vf.Assert(sd.Decode(sn.Data) == nil, "C16.b.reset")
			vf.Assert(vf.And(sd.Chain.No == best.Header.BlockNo, bytes.Equal(sd.Chain.Hash, best.Hash)), "C16.b.reset")
		} else {
			vf.Fail("C16.b.reset")
		}
		// old entries are gone unless the new last index makes the index valid again: no stale entry is served
		for i := range old {
			_, err := c2.GetRaftEntry(uint64(i + 1))
			vf.Assert(err == ErrNoWalEntry, "C16.b.reset")
		}
	}
}

// VFChainDBOn gives harnesses of other packages (raftv2: C16.c) a ChainDB over the KV model.
func VFChainDBOn(kv *vf.KV) *ChainDB { return vfCdb(kv) }
