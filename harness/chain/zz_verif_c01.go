package chain

import (
	"math/big"

	"github.com/aergoio/aergo/v2/contract"
	"github.com/aergoio/aergo/v2/contract/name"
	"github.com/aergoio/aergo/v2/fee"
	"github.com/aergoio/aergo/v2/internal/common"
	"github.com/aergoio/aergo/v2/state"
	"github.com/aergoio/aergo/v2/state/statedb"
	"github.com/aergoio/aergo/v2/types"
	"github.com/aergoio/aergo/v2/types/dbkey"
	vf "github.com/aergoio/aergo/v2/zzvf"
)

// ------------------------------------------------------------------------------------------------
// Shared ledger harness for C01 (conservation) and C03 (atomicity).
//
// World: a real state.BlockState over a real statedb.StateDB (empty trie root, store = vf.KV), so every account
// read/write of the code under test is answered by the real state buffer. The accounts of the world have fixed,
// pairwise distinct ids (aliasing is a Choice, not a solver question); their nonces and balances are symbolic.
// ------------------------------------------------------------------------------------------------

const (
	vfLgSender    = iota // A: the tx sender (always exists)
	vfLgOther            // B: an ordinary second account
	vfLgBystander        // U: never named by the tx
	vfLgVault            // aergo.vault (special account used as a plain recipient)
	vfLgSystem           // aergo.system (custody of stakes)
	vfLgName             // aergo.name (custody of name fees until an owner is set)
	vfLgCreated          // the contract id a DEPLOY tx of A creates (filled in per tx)
	vfLgN
)

// vfLgNameEntry: one entry of the name registry that an EARLIER block committed (pre-state of the step).
type vfLgNameEntry struct {
	name        string
	owner, dest int // account indices
}

// vfLgNames is read by vfLgWorld: the registry entries to commit into the storage trie of aergo.name.
var vfLgNames []vfLgNameEntry

type vfLedger struct {
	bs      *state.BlockState
	ids     [vfLgN][]byte
	exists  [vfLgN]bool
	nonce0  [vfLgN]uint64
	bal0    [vfLgN]*big.Int
	reward0 *big.Int
}

// stated bounds: balances and the accumulated reward are at most 2*MaxAER (the total supply is MaxAER); amount and
// gas price fields of the tx are below 2^256 (the wire format allows any length; Validate refuses values > MaxAER)
var vfLgMaxBal = new(big.Int).Mul(types.MaxAER, big.NewInt(2))
var vfLgMaxField = new(big.Int).Lsh(big.NewInt(1), 256)

func vfLgBig(name string, max *big.Int) *big.Int {
	v := vf.Big(name)
	vf.Assume(v.Cmp(max) < 0)
	return v
}

func vfLgAddr(tag byte) []byte {
	b := make([]byte, types.AddressLength)
	b[0] = 0x02
	for i := 1; i < len(b); i++ {
		b[i] = tag
	}
	return b
}

type vfLgObs struct {
	present [vfLgN]bool
	nonce   [vfLgN]uint64
	bal     [vfLgN]*big.Int
	code    [vfLgN]int
	rp      [vfLgN]uint64
	sroot   [vfLgN]int
	reward  *big.Int
	nrcpt   int
}

// vfLgObserve reads every account of the world through the real read API.
func (w *vfLedger) observe() *vfLgObs {
	o := &vfLgObs{}
	for i := 0; i < vfLgN; i++ {
		if w.ids[i] == nil {
			o.bal[i] = new(big.Int)
			continue
		}
		st, err := w.bs.GetState(types.ToAccountID(w.ids[i]))
		if err != nil {
			vf.Fail("harness-read")
		}
		o.bal[i] = new(big.Int)
		if st != nil {
			o.present[i] = true
			o.nonce[i] = st.Nonce
			o.bal[i] = st.GetBalanceBigInt()
			o.code[i] = len(st.CodeHash)
			o.rp[i] = st.SqlRecoveryPoint
			o.sroot[i] = len(st.StorageRoot)
		}
	}
	o.reward = new(big.Int).Set(&w.bs.BpReward)
	o.nrcpt = len(w.bs.Receipts().Get())
	return o
}

func (o *vfLgObs) sum() *big.Int {
	s := new(big.Int)
	for i := 0; i < vfLgN; i++ {
		s.Add(s, o.bal[i])
	}
	return s
}

// same reports (as one term, no forking) whether account i looks identical in both observations.
func (o *vfLgObs) same(p *vfLgObs, i int) bool {
	r := o.present[i] == p.present[i]
	r = vf.And(r, o.nonce[i] == p.nonce[i])
	r = vf.And(r, o.bal[i].Cmp(p.bal[i]) == 0)
	r = vf.And(r, o.code[i] == p.code[i])
	r = vf.And(r, o.rp[i] == p.rp[i])
	r = vf.And(r, o.sroot[i] == p.sroot[i])
	return r
}

// vfLgWorld builds the pre-state. otherKind: 0 = B exists (plain account), 1 = B does not exist, 2 = B is a contract.
func vfLgWorld(otherKind int, gasPrice *big.Int) *vfLedger {
	w := &vfLedger{}
	sdb := statedb.NewStateDB(vf.NewKV(), nil, false)
	w.bs = state.NewBlockState(sdb, state.SetGasPrice(gasPrice))
	w.ids[vfLgSender] = vfLgAddr(0xA1)
	w.ids[vfLgOther] = vfLgAddr(0xB2)
	w.ids[vfLgBystander] = vfLgAddr(0xC3)
	w.ids[vfLgVault] = []byte(types.AergoVault)
	w.ids[vfLgSystem] = []byte(types.AergoSystem)
	w.ids[vfLgName] = []byte(types.AergoName)
	for i := 0; i < vfLgN; i++ {
		w.bal0[i] = new(big.Int)
		if w.ids[i] == nil {
			continue
		}
		if i == vfLgOther && otherKind == 1 {
			continue
		}
		w.exists[i] = true
		w.nonce0[i] = vf.U64("nonce0")
		w.bal0[i] = vf.Big("bal0")
		vf.Assume(w.bal0[i].Cmp(vfLgMaxBal) <= 0)
		st := &types.State{Nonce: w.nonce0[i], Balance: w.bal0[i].Bytes()}
		if i == vfLgOther && otherKind == 2 {
			st.CodeHash = common.Hasher([]byte("vf-code"))
		}
		if i == vfLgName && len(vfLgNames) > 0 {
			// the registry entries were written and committed by an earlier block: real registerOwner, real storage trie
			// update and staging (statedb.VFCommitStorage); the account state carries the resulting storage root
			cs, err := statedb.OpenContractState(w.ids[i], st, sdb)
			if err != nil {
				vf.Fail("harness-setup")
			}
			for _, e := range vfLgNames {
				if err := name.VFRegister(cs, []byte(e.name), w.ids[e.owner], w.ids[e.dest]); err != nil {
					vf.Fail("harness-setup")
				}
			}
			if err := statedb.VFCommitStorage(cs); err != nil {
				vf.Fail("harness-setup")
			}
		}
		if err := sdb.PutState(types.ToAccountID(w.ids[i]), st); err != nil {
			vf.Fail("harness-setup")
		}
		if i == vfLgOther && otherKind == 2 {
			// the contract B was created by A (creator meta in its staged storage): REDEPLOY by A is admissible
			cs, err := statedb.OpenContractState(w.ids[i], st, sdb)
			if err != nil {
				vf.Fail("harness-setup")
			}
			cs.SetData(dbkey.CreatorMeta(), []byte(types.EncodeAddress(w.ids[vfLgSender])))
			statedb.StageContractState(cs, sdb)
		}
	}
	w.reward0 = vf.Big("reward0")
	vf.Assume(w.reward0.Cmp(vfLgMaxBal) <= 0)
	w.bs.BpReward.Set(w.reward0)
	return w
}

var vfLgTxTypes = []types.TxType{types.TxType_NORMAL, types.TxType_TRANSFER, types.TxType_CALL, types.TxType_DEPLOY,
	types.TxType_FEEDELEGATION, types.TxType_REDEPLOY, types.TxType_MULTICALL}

// vfLgPick returns the k-th set bit index of mask by a Choice over the set bits.
func vfLgPick(name string, mask int, n int) int {
	var idx []int
	for i := 0; i < n; i++ {
		if mask&(1<<uint(i)) != 0 {
			idx = append(idx, i)
		}
	}
	return idx[vf.Choice(name, len(idx))]
}

// vfLgTx runs one transaction through the real NewTxExecutor closure (Snapshot -> executeTx -> Rollback on error)
// and asserts the obligations selected by mode (1 = C01.a conservation, 2 = C03.a atomicity).
func vfLgTx(mode int, obC01, obC03, rp string) {
	verMask := vf.Param("verMask", 0x1c) // bit v = hardfork version v
	typMask := vf.Param("typMask", 0x03) // bit i = vfLgTxTypes[i]
	rcvMask := vf.Param("rcvMask", 0x1f) // recipient shapes, see below
	feeMask := vf.Param("feeMask", 0x01) // bit0 = fees on (public), bit1 = zero-fee network
	lenMask := vf.Param("lenMask", 0x0f) // payload length representatives
	priceSel := vf.Param("priceMode", 0) // 0 = symbolic gas price, k>0 = concrete representative k
	ver := int32(vfLgPick("ver", verMask, 6))
	typ := vfLgTxTypes[vfLgPick("type", typMask, len(vfLgTxTypes))]
	zeroFee := vfLgPick("feeMode", feeMask, 2) == 1
	if zeroFee {
		fee.EnableZeroFee()
	} else {
		fee.DisableZeroFee()
	}
	pubNet = !zeroFee

	var gasPrice *big.Int
	switch priceSel {
	case 0:
		gasPrice = vf.Big("gasPrice")
		vf.Assume(gasPrice.Sign() > 0)
		vf.Assume(gasPrice.Cmp(types.MaxAER) <= 0)
	case 1:
		gasPrice = big.NewInt(1)
	case 2:
		gasPrice = big.NewInt(50000000000) // the mainnet default, 50 gaer
	default:
		gasPrice = new(big.Int).Set(types.MaxAER)
	}

	// recipient shape: 0 B plain, 1 B new, 2 B contract, 3 self, 4 aergo.vault, 5 none (deploy: the created contract),
	// 6 none (multicall: the sender itself), 7 recipient = a NAME that an earlier block registered for the sender's own
	// account (name.Resolve -> sender), 8 the tx ACCOUNT is that name and the recipient is the sender's address
	var rcv, otherKind int
	switch typ {
	case types.TxType_DEPLOY:
		rcv = 5
	case types.TxType_MULTICALL:
		rcv = 6
	default:
		rcv = vfLgPick("rcv", rcvMask, 9)
	}
	if rcv == 1 || rcv == 2 {
		otherKind = rcv
	}
	vfLgNames = nil
	if rcv == 7 || rcv == 8 {
		vfLgNames = []vfLgNameEntry{{vfLgTheName, vfLgSender, vfLgSender}}
	}
	w := vfLgWorld(otherKind, gasPrice)

	// the transaction
	// DEPLOY: the id of the created contract is a hash of (account, tx nonce); a concrete tx nonce keeps that id
	// concrete (the sender's state nonce stays symbolic, so all nonce outcomes low / exact / high remain covered)
	txNonce := uint64(1000)
	if typ != types.TxType_DEPLOY {
		txNonce = vf.U64("tx.nonce")
	}
	body := &types.TxBody{
		Nonce:    txNonce,
		Account:  w.ids[vfLgSender],
		Amount:   vfLgBig("tx.amount", vfLgMaxField).Bytes(),
		GasLimit: vf.U64("tx.gasLimit"),
		GasPrice: vfLgBig("tx.gasPrice", vfLgMaxField).Bytes(),
		Type:     typ,
	}
	rcvIdx := vfLgOther
	switch rcv {
	case 0, 1, 2:
		body.Recipient = w.ids[vfLgOther]
	case 3:
		body.Recipient = w.ids[vfLgSender]
		rcvIdx = vfLgSender
	case 4:
		body.Recipient = w.ids[vfLgVault]
		rcvIdx = vfLgVault
	case 5:
		rcvIdx = vfLgCreated
		w.ids[vfLgCreated] = contract.CreateContractID(w.ids[vfLgSender], txNonce)
	case 6:
		rcvIdx = vfLgSender
	case 7:
		body.Recipient = []byte(vfLgTheName)
		rcvIdx = vfLgSender
	case 8:
		body.Account = []byte(vfLgTheName)
		body.Recipient = w.ids[vfLgSender]
		rcvIdx = vfLgSender
	}
	// payload: content is irrelevant on these paths (the VM is an environment stub); the LENGTH drives the fee
	// functions. Selector 5 = opaque slice of symbolic length 0..TxMaxSize+1024 (every length decided at once);
	// selectors 0..4 = concrete representatives below / at / above the free size (200) and a large one.
	plens := []int{0, 1, 200, 201, 4096}
	if sel := vfLgPick("payloadLen", lenMask, len(plens)+1); sel < len(plens) {
		if plens[sel] > 0 {
			body.Payload = make([]byte, plens[sel])
		}
	} else {
		body.Payload = vf.OpaqueBytes("tx.payloadLen", types.TxMaxSize+1024)
	}
	bi := &types.BlockHeaderInfo{No: 100, Ts: 1, PrevBlockHash: make([]byte, 32), ChainId: []byte("vf-chain"), ForkVersion: ver}
	body.ChainIdHash = bi.ChainIdHash()
	tx := &types.Tx{Body: body}
	tx.Hash = tx.CalculateTxHash()
	if vf.Param("quirk", 0) == 0 {
		// the transaction is not the one mainnet quirk tx (types/quirk.go), which only switches name resolution to
		// its legacy rule
		vf.Assume(!types.IsQuirkTx(tx.Hash))
	}
	pre := w.observe()
	exec := NewTxExecutor(nil, nil, nil, bi, 0)
	err := exec(w.bs, types.NewTransaction(tx))
	post := w.observe()

	amount := body.GetAmountBigInt()
	dReward := new(big.Int).Sub(post.reward, pre.reward)

	if mode == 3 {
		vfLgReplay(w, exec, tx, body, pre, post, err, obC01)
		return
	}
	if err != nil {
		// outcome REJECTED
		vf.Reach(rp + ".rejected")
		if mode == 2 {
			ok := post.reward.Cmp(pre.reward) == 0
			ok = vf.And(ok, post.nrcpt == pre.nrcpt)
			for i := 0; i < vfLgN; i++ {
				ok = vf.And(ok, post.same(pre, i))
			}
			vf.Assert(ok, obC03)
		}
		if mode == 1 {
			vf.Assert(post.sum().Cmp(pre.sum()) == 0, obC01)
		}
		vf.Observe("outcome", "rejected")
		return
	}
	// a receipt was appended
	rcpts := w.bs.Receipts().Get()
	if len(rcpts) != pre.nrcpt+1 {
		vf.Fail(obC03)
		return
	}
	rc := rcpts[len(rcpts)-1]
	feeUsed := new(big.Int).SetBytes(rc.FeeUsed)
	payer := vfLgSender
	if typ == types.TxType_FEEDELEGATION {
		payer = rcvIdx
	}
	if rc.Status == "ERROR" {
		vf.Reach(rp + ".error")
		if mode == 1 {
			vf.Assert(dReward.Cmp(feeUsed) == 0, obC01)
			vf.Assert(new(big.Int).Add(post.sum(), dReward).Cmp(pre.sum()) == 0, obC01)
			vf.Assert(new(big.Int).Add(post.bal[payer], feeUsed).Cmp(pre.bal[payer]) == 0, obC01)
		}
		if mode == 2 {
			// only payer balance -= fee and sender nonce := tx nonce differ
			ok := dReward.Cmp(feeUsed) == 0
			for i := 0; i < vfLgN; i++ {
				if i == payer || i == vfLgSender {
					continue
				}
				ok = vf.And(ok, post.same(pre, i))
			}
			ok = vf.And(ok, post.nonce[vfLgSender] == body.Nonce)
			ok = vf.And(ok, new(big.Int).Add(post.bal[payer], feeUsed).Cmp(pre.bal[payer]) == 0)
			if payer != vfLgSender {
				ok = vf.And(ok, post.bal[vfLgSender].Cmp(pre.bal[vfLgSender]) == 0)
				ok = vf.And(ok, post.nonce[payer] == pre.nonce[payer])
			}
			ok = vf.And(ok, post.code[vfLgSender] == pre.code[vfLgSender])
			ok = vf.And(ok, post.code[payer] == pre.code[payer])
			vf.Assert(ok, obC03)
		}
		vf.Observe("outcome", "error")
		return
	}
	vf.Reach(rp + ".success")
	if mode == 1 {
		vf.Assert(dReward.Cmp(feeUsed) == 0, obC01)
		vf.AssertKnown(new(big.Int).Add(post.sum(), dReward).Cmp(pre.sum()) == 0, obC01, "F13-feedelegation-self-fee-not-debited",
			typ == types.TxType_FEEDELEGATION && rcvIdx == vfLgSender)
		// the payer lost exactly fee (+ amount if it is the sender and the recipient is somebody else)
		lost := new(big.Int).Set(feeUsed)
		if payer == vfLgSender && rcvIdx != vfLgSender {
			lost.Add(lost, amount)
		}
		if payer != vfLgSender {
			lost.Sub(lost, amount) // fee delegation: the contract pays the fee and receives the amount
		}
		// F13: FEEDELEGATION whose recipient is the sender's own account: executeTx debits the fee on the `receiver`
		// AccountState object but only puts the `sender` object (same account id), so the fee reaches BpReward
		// without being debited
		f13 := typ == types.TxType_FEEDELEGATION && rcvIdx == vfLgSender
		vf.AssertKnown(new(big.Int).Add(post.bal[payer], lost).Cmp(pre.bal[payer]) == 0, obC01, "F13-feedelegation-self-fee-not-debited", f13)
		if rcvIdx != vfLgSender && payer == vfLgSender {
			vf.Assert(new(big.Int).Add(pre.bal[rcvIdx], amount).Cmp(post.bal[rcvIdx]) == 0, obC01)
		}
		vf.Assert(post.same(pre, vfLgBystander), obC01)
	}
	if mode == 2 {
		ok := rc.Status == "SUCCESS" || rc.Status == "CREATED" || rc.Status == "RECREATED"
		vf.Assert(ok, obC03)
		// all effects applied: nonce, amount moved, fee charged, nobody else touched
		vf.Assert(post.nonce[vfLgSender] == body.Nonce, obC03)
		vf.Assert(dReward.Cmp(feeUsed) == 0, obC03)
		if !(typ == types.TxType_FEEDELEGATION && rcvIdx == vfLgSender) { // that shape: finding F13 of C01
			dS := new(big.Int).Sub(pre.bal[vfLgSender], post.bal[vfLgSender]) // what the sender lost
			want := new(big.Int)
			if rcvIdx != vfLgSender {
				want.Add(want, amount)
				vf.Assert(new(big.Int).Sub(post.bal[rcvIdx], pre.bal[rcvIdx]).Cmp(vfLgRcvGain(amount, feeUsed, payer != vfLgSender)) == 0, obC03)
			}
			if payer == vfLgSender {
				want.Add(want, feeUsed)
			}
			vf.Assert(dS.Cmp(want) == 0, obC03)
		}
		for i := 0; i < vfLgN; i++ {
			if i != vfLgSender && i != rcvIdx {
				vf.Assert(post.same(pre, i), obC03)
			}
		}
	}
	vf.Observe("outcome", rc.Status)
	vf.Observe("fee", feeUsed)
}

// vfLgRcvGain: what the recipient gains on success: the amount, minus the fee if it pays it (fee delegation).
func vfLgRcvGain(amount, fee *big.Int, paysFee bool) *big.Int {
	g := new(big.Int).Set(amount)
	if paysFee {
		g.Sub(g, fee)
	}
	return g
}

// vfLgReplay (C04.a, executor half): a transaction that the executor EXECUTED (a receipt was appended: success or ERROR
// status) has advanced the stored nonce of the sender's account to exactly tx.Nonce, which was state nonce + 1, and the
// very same transaction offered again to the same block state is refused without any effect. A transaction that was
// refused left the nonce alone.
func vfLgReplay(w *vfLedger, exec TxExecFn, tx *types.Tx, body *types.TxBody, pre, post *vfLgObs, err error, ob string) {
	if err != nil {
		vf.Reach(ob + ".rejected")
		vf.Assert(post.nonce[vfLgSender] == pre.nonce[vfLgSender], ob+".rejected")
		vf.Observe("outcome", "rejected")
		return
	}
	vf.Reach(ob + ".executed")
	vf.Assert(body.Nonce == pre.nonce[vfLgSender]+1, ob+".next")
	vf.Assert(post.nonce[vfLgSender] == body.Nonce, ob+".advanced")
	err2 := exec(w.bs, types.NewTransaction(tx))
	again := w.observe()
	vf.Assert(err2 != nil, ob+".replay-refused")
	ok := again.reward.Cmp(post.reward) == 0
	ok = vf.And(ok, again.nrcpt == post.nrcpt)
	for i := 0; i < vfLgN; i++ {
		ok = vf.And(ok, again.same(post, i))
	}
	vf.Assert(ok, ob+".replay-no-effect")
	vf.Observe("outcome", "executed")
}

func VF_C04_a_exec() { vfLgTx(3, "C04.a.exec", "C04.a.exec", "C04.a.exec") }

func VF_C01_a() { vfLgTx(1, "C01.a", "C01.a", "C01.a") }
func VF_C03_a() { vfLgTx(2, "C03.a", "C03.a", "C03.a") }

// C01.c (coinbase part): the block epilogue credits exactly BpReward to the coinbase account iff a coinbase is
// configured and the reward is positive; nothing else changes; with no coinbase nothing changes at all (the fees
// already debited from the payers are then burnt -- the permitted exception of C01).
func VF_C01_c() {
	// coinbase shape: 0 = none (nil), 1 = existing account B, 2 = B does not exist yet, 3 = empty non-nil slice
	shape := vf.Choice("coinbase", 4)
	otherKind := 0
	if shape == 2 {
		otherKind = 1
	}
	w := vfLgWorld(otherKind, big.NewInt(1))
	var coinbase []byte
	switch shape {
	case 1, 2:
		coinbase = w.ids[vfLgOther]
	case 3:
		coinbase = []byte{}
	}
	pre := w.observe()
	err := sendRewardCoinbase(w.bs, coinbase)
	post := w.observe()
	vf.Reach("C01.c")
	if shape == 3 {
		// an empty (non-nil) coinbase is refused by the state db (empty account id); nothing may change
		vf.Observe("err", err != nil)
	} else {
		vf.Assert(err == nil, "C01.c")
	}
	paid := w.reward0.Sign() > 0 && (shape == 1 || shape == 2) // concrete shape, symbolic sign: forks once
	for i := 0; i < vfLgN; i++ {
		if i == vfLgOther && paid {
			continue
		}
		vf.Assert(post.same(pre, i), "C01.c")
	}
	if paid {
		vf.Reach("C01.c.paid")
		vf.Assert(new(big.Int).Add(pre.bal[vfLgOther], w.reward0).Cmp(post.bal[vfLgOther]) == 0, "C01.c")
		vf.Assert(post.nonce[vfLgOther] == pre.nonce[vfLgOther], "C01.c")
		vf.Assert(new(big.Int).Add(pre.sum(), w.reward0).Cmp(post.sum()) == 0, "C01.c")
	} else {
		vf.Reach("C01.c.skipped")
		vf.Assert(post.sum().Cmp(pre.sum()) == 0, "C01.c")
	}
	vf.Assert(post.reward.Cmp(pre.reward) == 0, "C01.c")
	vf.Observe("paid", paid)
}
