package chain

import (
	"bytes"

	"github.com/aergoio/aergo/v2/consensus"
	"github.com/aergoio/aergo/v2/types"
	vf "github.com/aergoio/aergo/v2/zzvf"
	lru "github.com/hashicorp/golang-lru"
)

// vfC18Cons is the consensus seen by ChainService.addBlock in C18.e: signature verification rejects the forged block
// (its sender cannot sign for a block producer), the genuine block is stopped right after the negative-cache lookup
// (timestamp check) because what is under test is only whether the cache refuses it.
type vfC18Cons struct {
	consensus.ChainConsensus
	forged, genuine *types.Block
}

func (c *vfC18Cons) VerifyTimestamp(b *types.Block) bool { return b != c.genuine }
func (c *vfC18Cons) VerifySign(b *types.Block) error {
	if b == c.forged {
		return vf.OpaqueErr("bad signature")
	}
	return nil
}
func (c *vfC18Cons) IsConnectedBlock(b *types.Block) bool { return false }
func (c *vfC18Cons) IsForkEnable() bool                   { return true }

func vfC18Header(tag string, l int) *types.BlockHeader {
	return &types.BlockHeader{
		PrevBlockHash:    vf.Bytes(tag+".PrevBlockHash", l),
		BlockNo:          vf.U64(tag + ".BlockNo"),
		Timestamp:        vf.I64(tag + ".Timestamp"),
		BlocksRootHash:   vf.Bytes(tag+".BlocksRootHash", l),
		TxsRootHash:      vf.Bytes(tag+".TxsRootHash", l),
		ReceiptsRootHash: vf.Bytes(tag+".ReceiptsRootHash", l),
		Confirms:         vf.U64(tag + ".Confirms"),
		PubKey:           vf.Bytes(tag+".PubKey", l),
		CoinbaseAccount:  vf.Bytes(tag+".CoinbaseAccount", l),
		Sign:             vf.Bytes(tag+".Sign", l),
		Consensus:        vf.Bytes(tag+".Consensus", l),
	}
}

// vfDigest is the content address of a header: the real calculateBlockHash (through BlockHash of a block without a
// cached Hash field).
func vfDigest(h *types.BlockHeader) []byte { return (&types.Block{Header: h}).BlockHash() }

// C18.e (chain side): a block received from the network whose processing fails is negatively cached by the real
// ChainService.addBlock; the cache must only ever refuse THAT content. Here: a forged block f (arbitrary header, Hash
// field chosen by the sender) fails signature verification; afterwards a genuine block g with a different header must
// not be refused by the cache.
//
//	hashKind 0: f.Hash = H(f.header) (honest sender)          -> plain assertions
//	hashKind 1: f.Hash = H(g.header) (sender announces g's id) -> F8: g is refused (known finding, class = this kind)
//	hashKind 2: f.Hash = any other 32 bytes                    -> g must be accepted by the cache
func VF_C18_e_cache() {
	l := vf.Param("fieldLen", 2)
	fh := vfC18Header("f", l)
	gh := vfC18Header("g", l)
	dF := vfDigest(fh)
	dG := vfDigest(gh)
	vf.Assume(!bytes.Equal(dF, dG)) // g is a different block
	kind := vf.Choice("hashKind", 3)
	f := &types.Block{Header: fh}
	switch kind {
	case 0:
		f.Hash = append([]byte{}, dF...)
	case 1:
		f.Hash = append([]byte{}, dG...)
	case 2:
		f.Hash = vf.Bytes("f.Hash", 32)
		vf.Assume(!bytes.Equal(f.Hash, dF))
		vf.Assume(!bytes.Equal(f.Hash, dG))
	}
	g := &types.Block{Header: gh, Hash: append([]byte{}, dG...)}

	cdb := NewChainDB()
	cdb.bestBlock.Store(&types.Block{Header: &types.BlockHeader{}})
	cache, _ := lru.New(4)
	cs := &ChainService{Core: &Core{cdb: cdb}, errBlocks: cache, ChainConsensus: &vfC18Cons{forged: f, genuine: g}}

	err1 := cs.addBlock(f, nil, types.PeerID(""))
	vf.Reach("C18.e")
	vf.Assert(err1 != nil, "C18.e")
	vf.Assert(err1 != ErrBlockCachedErrLRU, "C18.e")
	if kind == 0 {
		// honest announcement: the failed content is remembered under its own digest
		vf.Assert(cs.errBlocks.Contains(types.ToHashID(dF)), "C18.e")
	}
	err2 := cs.addBlock(g, nil, types.PeerID(""))
	// g was never processed before; it may fail for its own reasons but not because of the negative cache
	vf.AssertKnown(err2 != ErrBlockCachedErrLRU, "C18.e", "F8-block-id-not-recomputed", kind == 1)
	// and f itself is refused from now on
	err3 := cs.addBlock(f, nil, types.PeerID(""))
	vf.Assert(err3 == ErrBlockCachedErrLRU, "C18.e")
	vf.Observe("poisoned", err2 == ErrBlockCachedErrLRU)
}
