package chain

import (
	"bytes"

	"github.com/aergoio/aergo/v2/types"
	"github.com/aergoio/aergo/v2/types/dbkey"
	vf "github.com/aergoio/aergo/v2/zzvf"
	lru "github.com/hashicorp/golang-lru"
)

// C05.c: reorganizer.gather returns exactly the blocks above the common ancestor on both sides, in descending order,
// and identifies the fork block, for every shape (a, f, b) with the side tip higher than the best block.
func VF_C05_c() {
	a, f, b := vfShape(vf.Param("maxA", 2), vf.Param("maxExtra", 2))
	u := vfBuild(a, b, f, nil, nil)
	u.populate()
	top := u.side[b-1]
	reorg := &reorganizer{cs: u.cs, brTopBlock: top,
		newBlocks: make([]*types.Block, 0, initBlkCount), oldBlocks: make([]*types.Block, 0, initBlkCount)}
	err := reorg.gather()
	vf.Reach("C05.c")
	vf.Assert(err == nil, "C05.c")
	if err != nil {
		return
	}
	vf.Assert(vfSameBlocks(reorg.newBlocks, vfRev(u.side)), "C05.c")
	vf.Assert(vfSameBlocks(reorg.oldBlocks, vfRev(u.main[f:])), "C05.c")
	vf.Assert(bytes.Equal(reorg.brStartBlock.GetHash(), u.mainAt(f).Hash), "C05.c")
	vf.Assert(reorg.brStartBlock.GetHeader().GetBlockNo() == uint64(f), "C05.c")
	vf.Assert(bytes.Equal(reorg.bestBlock.GetHash(), u.mainAt(a).Hash), "C05.c")
	vf.Observe("new", len(reorg.newBlocks))
	vf.Observe("old", len(reorg.oldBlocks))
}

// C05.a: after every prefix of main-branch connects the latest pointer, the cached best block and the height index
// form a parent-linked path to genesis and every tx of a path block is found at (block, idx).
func VF_C05_a() {
	a := 1 + vf.Choice("a", vf.Param("maxA", 2))
	u := vfBuild(a, 0, 0, vfTxRange(vf.Param("minTx", 1), vf.Param("maxTx", 1)), nil)
	if err := u.connect(u.gen); err != nil {
		vf.Fail("C05.a")
	}
	vfCheckChain("C05.a", u.cs, u.kv, []*types.Block{u.gen})
	for i := 1; i <= a; i++ {
		ok, err := u.cs.cdb.isMainChain(u.main[i-1])
		vf.Assert(err == nil && ok, "C05.a")
		if err := u.connect(u.main[i-1]); err != nil {
			vf.Fail("C05.a")
		}
		vfCheckChain("C05.a", u.cs, u.kv, u.oldPath()[:i+1])
		for _, blk := range u.oldPath()[:i+1] {
			vfCheckReceipts("C05.a", u.cs, blk)
		}
	}
	vf.Reach("C05.a")
	vf.Observe("best", u.cs.cdb.getBestBlockNo())
	vf.Observe("units", u.kv.Units)
}

// C05.b: after the index part of a reorganisation to the side branch (gather + swapChain on a reorganizer built by
// the harness, so that block execution is not entered) the invariant holds for the new branch; a tx that is only on the
// abandoned branch is no longer reported, a tx on both is reported at its new block; the reorg marker is gone.
func VF_C05_b() {
	a, f, b := vfShape(vf.Param("maxA", 2), vf.Param("maxExtra", 1))
	u := vfBuild(a, b, f, vfTxRange(vf.Param("minTx", 1), vf.Param("maxTx", 1)), nil)
	u.populate()
	reorg := &reorganizer{cs: u.cs, brTopBlock: u.side[b-1],
		newBlocks: make([]*types.Block, 0, initBlkCount), oldBlocks: make([]*types.Block, 0, initBlkCount)}
	if err := reorg.gather(); err != nil {
		vf.Fail("C05.b")
		return
	}
	reorg.newMarker()
	err := reorg.swapChain()
	vf.Reach("C05.b")
	vf.Assert(err == nil, "C05.b")
	vfCheckChain("C05.b", u.cs, u.kv, u.newPath())
	vfCheckAbandoned("C05.b", u)
	vf.Assert(len(u.kv.Get(dbkey.ReOrg())) == 0, "C05.b")
	m, err := u.cs.cdb.getReorgMarker()
	vf.Assert(err == nil && m == nil, "C05.b")
	vf.Observe("best", u.cs.cdb.getBestBlockNo())
	vf.Observe("units", u.kv.Units)
}

// vfCheckAbandoned: txs of abandoned main blocks are reported iff they are also on the new branch; the receipts of
// abandoned blocks are deleted and not reported.
func vfCheckAbandoned(ob string, u *vfUniverse) {
	for _, blk := range u.main[u.f:] {
		vf.Assert(!u.cs.cdb.checkExistReceipts(blk.Hash, blk.BlockNo()), ob)
	}
	for i, tx := range u.txs {
		p := u.txAt[i]
		if p.side || p.no <= u.f {
			continue
		}
		shared := false
		for j, o := range u.txs {
			if u.txAt[j].side {
				shared = vf.Or(shared, bytes.Equal(tx.Hash, o.Hash))
			}
		}
		got, idx, err := u.cs.getTx(tx.Hash)
		if err == nil {
			vf.Assert(shared, ob)
			vf.Assert(got != nil && idx != nil, ob)
		} else {
			vf.Assert(!shared, ob)
			vf.Assert(idx == nil, ob)
		}
		// the tx index itself holds no entry for it either (swapTxMapping removes the mapping of abandoned-only txs)
		_, _, rawErr := u.cs.cdb.getTx(tx.Hash)
		if rawErr == nil {
			vf.Assert(shared, ob)
		} else {
			vf.Assert(!shared, ob)
		}
	}
}

// C05.d: ChainDB.ResetBest / dropBlock (manual reset of the best block): after dropping the blocks above resetNo the
// invariant holds for the remaining prefix and nothing of the dropped blocks is left (block, height mapping, tx mapping,
// receipts).
func VF_C05_d() {
	a := 1 + vf.Choice("a", vf.Param("maxA", 2))
	u := vfBuild(a, 0, 0, vfTxRange(vf.Param("minTx", 1), vf.Param("maxTx", 1)), nil)
	u.populate()
	resetNo := vf.Choice("resetNo", a+1)
	err := u.cs.cdb.ResetBest(uint64(resetNo))
	vf.Reach("C05.d")
	if resetNo >= a {
		vf.Assert(err == ErrTooBigResetHeight, "C05.d")
		vfCheckChain("C05.d", u.cs, u.kv, u.oldPath())
		return
	}
	vf.Assert(err == nil, "C05.d")
	vfCheckChain("C05.d", u.cs, u.kv, u.oldPath()[:resetNo+1])
	for _, blk := range u.main[resetNo:] {
		_, e := u.cs.cdb.getBlock(blk.Hash)
		vf.Assert(e != nil, "C05.d")
		_, e = u.cs.cdb.getHashByNo(blk.BlockNo())
		vf.Assert(e != nil, "C05.d")
		vf.Assert(!u.cs.cdb.checkExistReceipts(blk.Hash, blk.BlockNo()), "C05.d")
		for _, tx := range blk.Body.Txs {
			_, _, e := u.cs.cdb.getTx(tx.Hash)
			vf.Assert(e != nil, "C05.d")
			// raw key: ChainDB.getTx (and dropBlock's own checkBlockDropped) cannot see a stale entry once the block is gone
			vf.Assert(len(u.kv.Get(tx.Hash)) == 0, "C05.d")
		}
	}
	vf.Observe("best", u.cs.cdb.getBestBlockNo())
}

// C05.e: arrival histories. After genesis, ALL blocks of the tree (main branch and side branch) are handed to the real
// ChainService.addBlock in EVERY order (children before parents => orphan pool; the branches overtake each other =>
// reorganisations back and forth through the real reorg); block execution is vfExec through the hook. After every
// single arrival the chain database is coherent: the cached best block is a block of the tree, the C05 invariant holds
// for the chain that ends in it, the state DB root is its state root and no reorg marker is left. After the last arrival
// the best block is the tip of the (strictly longest) side branch, the abandoned-tx rule holds, every block is stored
// and the orphan pool is empty.
func VF_C05_e() {
	a, f, b := vfShape(vf.Param("maxA", 1), vf.Param("maxExtra", 1))
	w := vfCrashUniverse(a, f, b, vf.Param("minTx", 1), vf.Param("maxTx", 1))
	u := w.u
	// node start: genesis executed and connected
	w.commitState(u.skv, u.gen)
	if err := u.connect(u.gen); err != nil {
		vf.Fail("setup")
	}
	u.cs.sdb.SetRoot(u.gen.Header.BlocksRootHash)
	u.cs.op = NewOrphanPool(DfltOrphanPoolSize)
	u.cs.errBlocks, _ = lru.New(dfltErrBlocks)
	e := &vfExec{w: w, skv: u.skv, failAt: -1}
	vfExecHook = e.hook
	blocks := append(append([]*types.Block{}, u.main...), u.side...)
	parentOf := func(i int) int { // index of the parent in blocks; -1 = genesis
		switch {
		case i < a:
			return i - 1
		case i == a:
			return f - 1
		}
		return i - 1
	}
	rest := make([]int, len(blocks))
	for i := range rest {
		rest[i] = i
	}
	// bookkeeping for the expectations: which blocks can be stored at all. The orphan pool keeps ONE waiting child per
	// missing parent (OrphanPool.addOrphan: "already exist"): a second child of the same missing parent is dropped.
	stored := make([]bool, len(blocks))
	waiting := map[int]int{} // missing parent -> waiting child
	dropped := false
	for len(rest) > 0 {
		k := vf.Choice("next", len(rest))
		i := rest[k]
		blk := blocks[i]
		rest = append(append([]int{}, rest[:k]...), rest[k+1:]...)
		if p := parentOf(i); p < 0 || stored[p] {
			stored[i] = true
			for cur := i; ; {
				c, ok := waiting[cur]
				if !ok {
					break
				}
				delete(waiting, cur)
				stored[c] = true
				cur = c
			}
		} else if _, busy := waiting[p]; busy {
			dropped = true
		} else {
			waiting[p] = i
		}
		err := u.cs.addBlock(blk, nil, "")
		vf.Assert(err == nil, "C05.e")
		vfCheckCoherent("C05.e", u)
	}
	vf.Reach("C05.e")
	for i, blk := range blocks {
		_, err := u.cs.cdb.getBlock(blk.Hash)
		vf.Assert((err == nil) == stored[i], "C05.e")
	}
	vf.Assert(u.cs.op.curCnt == len(waiting) && len(u.cs.op.cache) == len(waiting), "C05.e")
	// C07.f: every block was delivered once, the side branch is strictly the longest: the node ends on its tip.
	best, _ := u.cs.cdb.GetBestBlock()
	onTip := best != nil && bytes.Equal(best.GetHash(), u.side[b-1].Hash)
	if dropped {
		vf.Reach("C07.f.dropped")
		vf.AssertKnown(onTip, "C07.f", "F14-orphan-pool-one-child-per-parent", dropped)
	} else {
		vf.Reach("C07.f")
		vf.Assert(onTip, "C07.f")
		vf.Assert(len(waiting) == 0, "C07.f")
		vfCheckAbandoned("C07.f", u)
	}
	vf.Observe("executed", len(e.executed))
	vf.Observe("best", u.cs.cdb.getBestBlockNo())
	vf.Observe("dropped", dropped)
}

// vfCheckCoherent: the cached best block is a block of the universe; the C05 invariant (and receipts) holds for the
// chain ending in it; the state DB stands at its root; no reorg marker is left.
func vfCheckCoherent(ob string, u *vfUniverse) {
	best, _ := u.cs.cdb.GetBestBlock()
	vf.Assert(best != nil, ob)
	if best == nil {
		return
	}
	var tip *types.Block
	for _, o := range u.all {
		if bytes.Equal(o.Hash, best.GetHash()) {
			tip = o
			break
		}
	}
	vf.Assert(tip != nil, ob)
	if tip == nil {
		return
	}
	// the chain ending in tip, by the universe's own parent links
	var rev []*types.Block
	for cur := tip; cur != nil; {
		rev = append(rev, cur)
		var parent *types.Block
		for _, o := range u.all {
			if o.Header.BlockNo+1 == cur.Header.BlockNo && bytes.Equal(o.Hash, cur.Header.PrevBlockHash) {
				parent = o
				break
			}
		}
		cur = parent
	}
	path := vfRev(rev)
	vfCheckChain(ob, u.cs, u.kv, path)
	for _, blk := range path {
		vfCheckReceipts(ob, u.cs, blk)
	}
	vf.Assert(bytes.Equal(u.cs.sdb.GetRoot(), tip.Header.BlocksRootHash), ob)
	vf.Assert(len(u.kv.Get(dbkey.ReOrg())) == 0, ob)
}
