package chain

import (
	"bytes"

	"github.com/aergoio/aergo/v2/types"
	"github.com/aergoio/aergo/v2/types/dbkey"
	vf "github.com/aergoio/aergo/v2/zzvf"
)

// C05.c: reorganizer.gather returns exactly the blocks above the common ancestor on both sides, in descending order,
// and identifies the fork block, for every shape (a, f, b) with the side tip higher than the best block.
func VF_C05_c() {
	a, f, b := vfShape(vf.Param("maxA", 2), vf.Param("maxExtra", 2))
	u := vfBuild(a, b, f, nil, nil)
	u.populate()
	top := u.side[b-1]
	reorg := &reorganizer{cs: u.cs, brTopBlock: top,
		newBlocks: make([]*types.Block, 0, initBlkCount), oldBlocks: make([]*types.Block, 0, initBlkCount)}
	err := reorg.gather()
	vf.Reach("C05.c")
	vf.Assert(err == nil, "C05.c")
	if err != nil {
		return
	}
	vf.Assert(vfSameBlocks(reorg.newBlocks, vfRev(u.side)), "C05.c")
	vf.Assert(vfSameBlocks(reorg.oldBlocks, vfRev(u.main[f:])), "C05.c")
	vf.Assert(bytes.Equal(reorg.brStartBlock.GetHash(), u.mainAt(f).Hash), "C05.c")
	vf.Assert(reorg.brStartBlock.GetHeader().GetBlockNo() == uint64(f), "C05.c")
	vf.Assert(bytes.Equal(reorg.bestBlock.GetHash(), u.mainAt(a).Hash), "C05.c")
	vf.Observe("new", len(reorg.newBlocks))
	vf.Observe("old", len(reorg.oldBlocks))
}

// C05.a: after every prefix of main-branch connects the latest pointer, the cached best block and the height index
// form a parent-linked path to genesis and every tx of a path block is found at (block, idx).
func VF_C05_a() {
	a := 1 + vf.Choice("a", vf.Param("maxA", 2))
	u := vfBuild(a, 0, 0, vfTxRange(vf.Param("minTx", 1), vf.Param("maxTx", 1)), nil)
	if err := u.connect(u.gen); err != nil {
		vf.Fail("C05.a")
	}
	vfCheckChain("C05.a", u.cs, u.kv, []*types.Block{u.gen})
	for i := 1; i <= a; i++ {
		ok, err := u.cs.cdb.isMainChain(u.main[i-1])
		vf.Assert(err == nil && ok, "C05.a")
		if err := u.connect(u.main[i-1]); err != nil {
			vf.Fail("C05.a")
		}
		vfCheckChain("C05.a", u.cs, u.kv, u.oldPath()[:i+1])
		for _, blk := range u.oldPath()[:i+1] {
			vfCheckReceipts("C05.a", u.cs, blk)
		}
	}
	vf.Reach("C05.a")
	vf.Observe("best", u.cs.cdb.getBestBlockNo())
	vf.Observe("units", u.kv.Units)
}

// C05.b: after the index part of a reorganisation to the side branch (gather + swapChain on a reorganizer built by
// the harness, so that block execution is not entered) the invariant holds for the new branch; a tx that is only on the
// abandoned branch is no longer reported, a tx on both is reported at its new block; the reorg marker is gone.
func VF_C05_b() {
	a, f, b := vfShape(vf.Param("maxA", 2), vf.Param("maxExtra", 1))
	u := vfBuild(a, b, f, vfTxRange(vf.Param("minTx", 1), vf.Param("maxTx", 1)), nil)
	u.populate()
	reorg := &reorganizer{cs: u.cs, brTopBlock: u.side[b-1],
		newBlocks: make([]*types.Block, 0, initBlkCount), oldBlocks: make([]*types.Block, 0, initBlkCount)}
	if err := reorg.gather(); err != nil {
		vf.Fail("C05.b")
		return
	}
	reorg.newMarker()
	err := reorg.swapChain()
	vf.Reach("C05.b")
	vf.Assert(err == nil, "C05.b")
	vfCheckChain("C05.b", u.cs, u.kv, u.newPath())
	vfCheckAbandoned("C05.b", u)
	vf.Assert(len(u.kv.Get(dbkey.ReOrg())) == 0, "C05.b")
	m, err := u.cs.cdb.getReorgMarker()
	vf.Assert(err == nil && m == nil, "C05.b")
	vf.Observe("best", u.cs.cdb.getBestBlockNo())
	vf.Observe("units", u.kv.Units)
}

// vfCheckAbandoned: txs of abandoned main blocks are reported iff they are also on the new branch; the receipts of
// abandoned blocks are deleted and not reported.
func vfCheckAbandoned(ob string, u *vfUniverse) {
	for _, blk := range u.main[u.f:] {
		vf.Assert(!u.cs.cdb.checkExistReceipts(blk.Hash, blk.BlockNo()), ob)
	}
	for i, tx := range u.txs {
		p := u.txAt[i]
		if p.side || p.no <= u.f {
			continue
		}
		shared := false
		for j, o := range u.txs {
			if u.txAt[j].side {
				shared = vf.Or(shared, bytes.Equal(tx.Hash, o.Hash))
			}
		}
		got, idx, err := u.cs.getTx(tx.Hash)
		if err == nil {
			vf.Assert(shared, ob)
			vf.Assert(got != nil && idx != nil, ob)
		} else {
			vf.Assert(!shared, ob)
			vf.Assert(idx == nil, ob)
		}
		// the tx index itself holds no entry for it either (swapTxMapping removes the mapping of abandoned-only txs)
		_, _, rawErr := u.cs.cdb.getTx(tx.Hash)
		if rawErr == nil {
			vf.Assert(shared, ob)
		} else {
			vf.Assert(!shared, ob)
		}
	}
}

// C05.d: ChainDB.ResetBest / dropBlock (manual reset of the best block): after dropping the blocks above resetNo the
// invariant holds for the remaining prefix and nothing of the dropped blocks is left (block, height mapping, tx mapping,
// receipts).
func VF_C05_d() {
	a := 1 + vf.Choice("a", vf.Param("maxA", 2))
	u := vfBuild(a, 0, 0, vfTxRange(vf.Param("minTx", 1), vf.Param("maxTx", 1)), nil)
	u.populate()
	resetNo := vf.Choice("resetNo", a+1)
	err := u.cs.cdb.ResetBest(uint64(resetNo))
	vf.Reach("C05.d")
	if resetNo >= a {
		vf.Assert(err == ErrTooBigResetHeight, "C05.d")
		vfCheckChain("C05.d", u.cs, u.kv, u.oldPath())
		return
	}
	vf.Assert(err == nil, "C05.d")
	vfCheckChain("C05.d", u.cs, u.kv, u.oldPath()[:resetNo+1])
	for _, blk := range u.main[resetNo:] {
		_, e := u.cs.cdb.getBlock(blk.Hash)
		vf.Assert(e != nil, "C05.d")
		_, e = u.cs.cdb.getHashByNo(blk.BlockNo())
		vf.Assert(e != nil, "C05.d")
		vf.Assert(!u.cs.cdb.checkExistReceipts(blk.Hash, blk.BlockNo()), "C05.d")
		for _, tx := range blk.Body.Txs {
			_, _, e := u.cs.cdb.getTx(tx.Hash)
			vf.Assert(e != nil, "C05.d")
			// raw key: ChainDB.getTx (and dropBlock's own checkBlockDropped) cannot see a stale entry once the block is gone
			vf.Assert(len(u.kv.Get(tx.Hash)) == 0, "C05.d")
		}
	}
	vf.Observe("best", u.cs.cdb.getBestBlockNo())
}
