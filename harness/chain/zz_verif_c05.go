package chain

import (
	"bytes"

	"github.com/aergoio/aergo/v2/types"
	vf "github.com/aergoio/aergo/v2/zzvf"
)

// C05.c: reorganizer.gather returns exactly the blocks above the common ancestor on both sides, in descending order,
// and identifies the fork block, for every shape (a, f, b) with the side tip higher than the best block.
func VF_C05_c() {
	a, f, b := vfShape(vf.Param("maxA", 2), vf.Param("maxExtra", 2))
	u := vfBuild(a, b, f, nil, nil)
	u.populate()
	top := u.side[b-1]
	reorg := &reorganizer{cs: u.cs, brTopBlock: top,
		newBlocks: make([]*types.Block, 0, initBlkCount), oldBlocks: make([]*types.Block, 0, initBlkCount)}
	err := reorg.gather()
	vf.Reach("C05.c")
	vf.Assert(err == nil, "C05.c")
	if err != nil {
		return
	}
	vf.Assert(vfSameBlocks(reorg.newBlocks, vfRev(u.side)), "C05.c")
	vf.Assert(vfSameBlocks(reorg.oldBlocks, vfRev(u.main[f:])), "C05.c")
	vf.Assert(bytes.Equal(reorg.brStartBlock.GetHash(), u.mainAt(f).Hash), "C05.c")
	vf.Assert(reorg.brStartBlock.GetHeader().GetBlockNo() == uint64(f), "C05.c")
	vf.Assert(bytes.Equal(reorg.bestBlock.GetHash(), u.mainAt(a).Hash), "C05.c")
	vf.Observe("new", len(reorg.newBlocks))
	vf.Observe("old", len(reorg.oldBlocks))
}
