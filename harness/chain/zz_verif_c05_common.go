package chain

import (
	"bytes"
	"errors"

	"github.com/aergoio/aergo-lib/db"
	"github.com/aergoio/aergo/v2/config"
	"github.com/aergoio/aergo/v2/consensus"
	"github.com/aergoio/aergo/v2/pkg/component"
	"github.com/aergoio/aergo/v2/state"
	"github.com/aergoio/aergo/v2/types"
	"github.com/aergoio/aergo/v2/types/dbkey"
	"github.com/aergoio/aergo/v2/types/message"
	vf "github.com/aergoio/aergo/v2/zzvf"
)

// Shared scaffolding of the chain-package harnesses (C05, C06, C07).
//
// Universe: genesis + main branch of length a (heights 1..a) + side branch of length b forking at height f
// (heights f+1..f+b). Heights are concrete (shape); block hashes and tx hashes are symbolic 32-byte values
// (block hashes pairwise distinct and distinct from tx hashes - stated assumptions; which txs are shared between
// blocks/branches is decided by the solver). The store is the KV model; the actor hub records; consensus is vfCC.

// vfCC is the stub of consensus.ChainConsensus (an injected dependency of ChainService/ChainDB).
type vfCC struct {
	lib        types.BlockNo // NeedReorganization(rootNo) == rootNo >= lib (the DPoS rule; see C07.b for the real one)
	updates    []*types.Block
	validCalls []*types.Block
	validBest  []*types.Block
	failAt     int  // IsBlockValid fails at its failAt-th call (0-based); -1 never
	rejectAll  bool // IsBlockValid fails always
	saves      int
	needCalls  int
}

var vfErrInvalidBlock = errors.New("vf: block rejected by the consensus stub")

func (c *vfCC) MakeConfChangeProposal(req *types.MembershipChange) (*consensus.ConfChangePropose, error) {
	return nil, nil
}
func (c *vfCC) GetType() consensus.ConsensusType        { return consensus.ConsensusDPOS }
func (c *vfCC) IsTransactionValid(tx *types.Tx) bool    { return true }
func (c *vfCC) VerifyTimestamp(block *types.Block) bool { return true }
func (c *vfCC) VerifySign(block *types.Block) error     { return nil }
func (c *vfCC) IsBlockValid(block *types.Block, bestBlock *types.Block) error {
	n := len(c.validCalls)
	c.validCalls = append(c.validCalls, block)
	c.validBest = append(c.validBest, bestBlock)
	if n == c.failAt || c.rejectAll {
		return vfErrInvalidBlock
	}
	return nil
}
func (c *vfCC) Update(block *types.Block)        { c.updates = append(c.updates, block) }
func (c *vfCC) Save(tx consensus.TxWriter) error { c.saves++; return nil }
func (c *vfCC) NeedReorganization(rootNo types.BlockNo) bool {
	c.needCalls++
	return rootNo >= c.lib
}
func (c *vfCC) NeedNotify() bool                         { return false }
func (c *vfCC) HasWAL() bool                             { return false }
func (c *vfCC) IsConnectedBlock(block *types.Block) bool { return false }
func (c *vfCC) IsForkEnable() bool                       { return true }
func (c *vfCC) Info() string                             { return "" }

type vfUniverse struct {
	kv   *vf.KV // chain DB store
	skv  db.DB  // state DB store
	cs   *ChainService
	cc   *vfCC
	hub  *component.ComponentHub
	log  *vf.HubLog
	gen  *types.Block
	main []*types.Block // heights 1..a
	side []*types.Block // heights f+1..f+b
	a    int
	b    int
	f    int
	all  []*types.Block
	txs  []*types.Tx
	txAt []vfTxPos // position of txs[i]
}

type vfTxPos struct {
	side bool // on the side branch (else main)
	no   int  // block height
	idx  int
	blk  *types.Block
}

// vfNewCS builds a ChainService over the two stores: only the parts the chain-index code touches.
func vfNewCS(kv db.DB, skv db.DB, cc *vfCC, sroot []byte) (*ChainService, *component.ComponentHub, *vf.HubLog) {
	cdb := NewChainDB()
	cdb.store = kv
	cdb.cc = cc
	cs := &ChainService{
		ChainConsensus: cc,
		Core:           &Core{cdb: cdb, sdb: state.VFChainStateDB(skv, sroot)},
		stat:           newStats(),
	}
	cs.BaseComponent = component.NewBaseComponent(message.ChainSvc, cs, logger)
	hub, log := vf.NewRecHub(message.MemPoolSvc, message.RPCSvc, message.P2PSvc, message.SyncerSvc)
	cs.BaseComponent.SetHub(hub)
	return cs, hub, log
}

func (u *vfUniverse) newTx(pos vfTxPos) *types.Tx {
	tx := &types.Tx{Hash: vf.Bytes("txHash", 32), Body: &types.TxBody{Nonce: uint64(len(u.txs) + 1)}}
	// a tx hash never equals a block hash (both are SHA-256 values of differently shaped inputs)
	for _, b := range u.all {
		vf.Assume(!bytes.Equal(tx.Hash, b.Hash))
	}
	// one chain never contains the same tx twice (nonce rule): distinct from the txs of its own branch and of its
	// ancestors; whether it equals a tx of the competing branch is left to the solver
	for i, o := range u.txs {
		op := u.txAt[i]
		if op.side == pos.side || (pos.side && op.no <= u.f) {
			vf.Assume(!bytes.Equal(tx.Hash, o.Hash))
		}
	}
	u.txs = append(u.txs, tx)
	u.txAt = append(u.txAt, pos)
	return tx
}

func (u *vfUniverse) newBlock(no uint64, prev *types.Block, ntx int, root []byte, side bool) *types.Block {
	var prevHash []byte
	if prev != nil {
		prevHash = prev.Hash
	}
	blk := &types.Block{
		Hash:   vf.Bytes("blockHash", 32),
		Header: &types.BlockHeader{BlockNo: no, PrevBlockHash: prevHash, BlocksRootHash: root},
		Body:   &types.BlockBody{},
	}
	for _, o := range u.all {
		vf.Assume(!bytes.Equal(blk.Hash, o.Hash))
	}
	for _, t := range u.txs {
		vf.Assume(!bytes.Equal(blk.Hash, t.Hash))
	}
	u.all = append(u.all, blk)
	for i := 0; i < ntx; i++ {
		blk.Body.Txs = append(blk.Body.Txs, u.newTx(vfTxPos{side: side, no: int(no), idx: i, blk: blk}))
	}
	return blk
}

// vfHardfork: all forks active from genesis (receipts are stored in the V2 format).
var vfHardfork = &config.HardforkConfig{}

// vfReceipts: one SUCCESS receipt per tx of blk, as blockExecutor leaves them in the block state.
func vfReceipts(blk *types.Block) *types.Receipts {
	rs := &types.Receipts{}
	rs.SetHardFork(vfHardfork, blk.BlockNo())
	var l []*types.Receipt
	for _, tx := range blk.GetBody().GetTxs() {
		l = append(l, &types.Receipt{ContractAddress: make([]byte, 33), Status: "SUCCESS", TxHash: tx.GetHash()})
	}
	rs.Set(l)
	return rs
}

// vfWriteReceipts: what executeBlock does with the receipts of an executed block (real writeReceiptsAndOperations).
func vfWriteReceipts(cs *ChainService, blk *types.Block) {
	cs.cdb.writeReceiptsAndOperations(blk, vfReceipts(blk), "")
}

// vfCheckReceipts: the receipts of blk are stored under (hash, no) and carry the tx hashes in order; for a block
// without txs nothing is stored.
func vfCheckReceipts(ob string, cs *ChainService, blk *types.Block) {
	txs := blk.GetBody().GetTxs()
	exists := cs.cdb.checkExistReceipts(blk.GetHash(), blk.BlockNo())
	vf.Assert(exists == (len(txs) > 0), ob)
	if !exists {
		return
	}
	rs, err := cs.cdb.getReceipts(blk.GetHash(), blk.BlockNo(), vfHardfork)
	vf.Assert(err == nil && rs != nil, ob)
	if err != nil || rs == nil {
		return
	}
	vf.Assert(len(rs.Get()) == len(txs), ob)
	for i, r := range rs.Get() {
		if i < len(txs) {
			vf.Assert(bytes.Equal(r.GetTxHash(), txs[i].GetHash()), ob)
		}
	}
}

// connect makes blk the new best block the way executeBlock + chainProcessor.execute do after executing it:
// receipts first, then the connectToChain transaction.
func (u *vfUniverse) connect(blk *types.Block) error {
	vfWriteReceipts(u.cs, blk)
	cp := &chainProcessor{ChainService: u.cs, block: blk, isMainChain: true}
	_, err := cp.connectToChain(blk)
	return err
}

// store adds a side-branch block (no index changes) the way chainProcessor.addBlock does.
func (u *vfUniverse) store(blk *types.Block) error {
	cp := &chainProcessor{ChainService: u.cs, block: blk, isMainChain: false}
	return cp.addBlock(blk)
}

// vfBuild creates the universe and the blocks (nothing is written yet). txsPer[i] txs in the i-th created block.
func vfBuild(a, b, f int, ntx func(branch string, i int) int, rootOf func(branch string, i int) []byte) *vfUniverse {
	return vfBuildOn(vf.NewKV(), vf.NewKV(), a, b, f, ntx, rootOf)
}

// vfBuildOn: the same over given stores (C06 uses two views of one KV so that both DBs share one crash index).
func vfBuildOn(kv *vf.KV, skv db.DB, a, b, f int, ntx func(branch string, i int) int, rootOf func(branch string, i int) []byte) *vfUniverse {
	u := &vfUniverse{a: a, b: b, f: f, kv: kv, skv: skv, cc: &vfCC{failAt: -1}}
	if rootOf == nil {
		rootOf = func(string, int) []byte { return nil }
	}
	if ntx == nil {
		ntx = func(string, int) int { return 0 }
	}
	u.gen = u.newBlock(0, nil, 0, rootOf("gen", 0), false)
	prev := u.gen
	for i := 1; i <= a; i++ {
		blk := u.newBlock(uint64(i), prev, ntx("main", i), rootOf("main", i), false)
		u.main = append(u.main, blk)
		prev = blk
	}
	prev = u.gen
	if f > 0 {
		prev = u.main[f-1]
	}
	for i := 1; i <= b; i++ {
		blk := u.newBlock(uint64(f+i), prev, ntx("side", i), rootOf("side", i), true)
		u.side = append(u.side, blk)
		prev = blk
	}
	u.cs, u.hub, u.log = vfNewCS(u.kv, u.skv, u.cc, rootOf("gen", 0))
	return u
}

// mainAt returns the main-branch block of height h (0 = genesis).
func (u *vfUniverse) mainAt(h int) *types.Block {
	if h == 0 {
		return u.gen
	}
	return u.main[h-1]
}

// populate connects genesis and the main branch and stores the side branch.
func (u *vfUniverse) populate() {
	if err := u.connect(u.gen); err != nil {
		vf.Fail("setup")
	}
	for _, blk := range u.main {
		if err := u.connect(blk); err != nil {
			vf.Fail("setup")
		}
	}
	for _, blk := range u.side {
		if err := u.store(blk); err != nil {
			vf.Fail("setup")
		}
	}
}

// vfShape enumerates (a, f, b): main length 1..maxA, fork height 0..a-1, side branch longer than the rest of main by 1..maxExtra.
// vfExecHook is called at the top of the real ChainService.executeBlock by a test hook that the props file inserts into
// chainhandle.go through the overlay (identically for the analysis and for the native build): block execution itself
// (validator, tx execution, state trie update) is outside these obligations, the code that decides WHEN and IN WHICH
// ORDER blocks are executed (chainProcessor, reorg, rollforward) stays real. nil => the real body runs.
var vfExecHook func(cs *ChainService, bstate *state.BlockState, block *types.Block) error

// vfExec is the recording stand-in for block execution: consensus validity check first (as executeBlock), then the
// durable and in-memory effects of a successful execution the surrounding code relies on: state commit (one bulk on a
// real trie, marker last), receipts (real writeReceiptsAndOperations), state DB root and consensus status at the block.
type vfExec struct {
	w        *vfCrashWorld
	skv      db.DB
	executed []*types.Block
	rootAt   [][]byte // state DB root at the time of each execution
	failAt   int      // the failAt-th execution (0-based) fails; -1 never
}

func (e *vfExec) hook(cs *ChainService, _ *state.BlockState, blk *types.Block) error {
	best, err := cs.cdb.GetBestBlock()
	if err != nil {
		return err
	}
	if err = cs.IsBlockValid(blk, best); err != nil {
		return err
	}
	n := len(e.executed)
	e.executed = append(e.executed, blk)
	e.rootAt = append(e.rootAt, cs.sdb.GetRoot())
	if n == e.failAt {
		return vfErrExec
	}
	e.w.commitState(e.skv, blk)
	vfWriteReceipts(cs, blk)
	cs.sdb.SetRoot(blk.GetHeader().GetBlocksRootHash())
	cs.Update(blk)
	return nil
}

func vfShape(maxA, maxExtra int) (a, f, b int) {
	if fa := vf.Param("fixA", 0); fa > 0 {
		a = fa // the thorough tier splits the shapes over several jobs (one job = one worker)
	} else {
		a = 1 + vf.Choice("a", maxA)
	}
	if ff := vf.Param("fixF", -1); ff >= 0 {
		f = ff
	} else {
		f = vf.Choice("f", a)
	}
	b = a - f + 1 + vf.Choice("extra", maxExtra)
	return
}

func vfSameBlocks(got []*types.Block, want []*types.Block) bool {
	if len(got) != len(want) {
		return false
	}
	ok := true
	for i := range got {
		ok = vf.And(ok, bytes.Equal(got[i].GetHash(), want[i].GetHash()))
		ok = vf.And(ok, got[i].GetHeader().GetBlockNo() == want[i].GetHeader().GetBlockNo())
	}
	return ok
}

func vfRev(l []*types.Block) []*types.Block {
	out := make([]*types.Block, 0, len(l))
	for i := len(l) - 1; i >= 0; i-- {
		out = append(out, l[i])
	}
	return out
}

// vfTxRange: number of txs of a block is a shape choice minTx..maxTx.
func vfTxRange(minTx, maxTx int) func(string, int) int {
	return func(string, int) int { return minTx + vf.Choice("ntx", maxTx-minTx+1) }
}

// newPath: the main chain after a reorganisation to the side branch.
func (u *vfUniverse) newPath() []*types.Block {
	p := []*types.Block{u.gen}
	p = append(p, u.main[:u.f]...)
	return append(p, u.side...)
}

func (u *vfUniverse) oldPath() []*types.Block {
	return append([]*types.Block{u.gen}, u.main...)
}

// vfCheckChain asserts the C05 index invariant for the expected main chain path (path[h] has height h):
// latest pointer (persisted and cached), cached best block, height index, hash->block, parent links, tx index.
func vfCheckChain(ob string, cs *ChainService, kv *vf.KV, path []*types.Block) {
	cdb := cs.cdb
	tip := path[len(path)-1]
	tipNo := uint64(len(path) - 1)
	vf.Assert(cdb.getBestBlockNo() == tipNo, ob)
	best, err := cdb.GetBestBlock()
	vf.Assert(err == nil && best != nil, ob)
	if best == nil {
		return
	}
	vf.Assert(bytes.Equal(best.GetHash(), tip.Hash), ob)
	vf.Assert(bytes.Equal(kv.Get(dbkey.LatestBlock()), types.BlockNoToBytes(tipNo)), ob)
	// nothing is mapped above the tip
	_, err = cdb.getHashByNo(tipNo + 1)
	vf.Assert(err != nil, ob)
	// walk the parent links from the best block down to genesis
	cur := best
	for h := len(path) - 1; h >= 0; h-- {
		vf.Assert(cur.GetHeader().GetBlockNo() == uint64(h), ob)
		vf.Assert(bytes.Equal(cur.GetHash(), path[h].Hash), ob)
		hash, err := cdb.getHashByNo(uint64(h))
		vf.Assert(err == nil, ob)
		vf.Assert(bytes.Equal(hash, path[h].Hash), ob)
		byNo, err := cdb.GetBlockByNo(uint64(h))
		vf.Assert(err == nil && byNo != nil, ob)
		if byNo != nil {
			vf.Assert(bytes.Equal(byNo.GetHash(), path[h].Hash), ob)
			vf.Assert(len(byNo.GetBody().GetTxs()) == len(path[h].GetBody().GetTxs()), ob)
		}
		if h > 0 {
			vf.Assert(bytes.Equal(cur.GetHeader().GetPrevBlockHash(), path[h-1].Hash), ob)
			cur, err = cdb.getBlock(cur.GetHeader().GetPrevBlockHash())
			vf.Assert(err == nil && cur != nil, ob)
			if cur == nil {
				return
			}
		}
	}
	// every tx of a path block is reported at (block, idx)
	for _, blk := range path {
		for i, tx := range blk.GetBody().GetTxs() {
			got, idx, err := cs.getTx(tx.Hash)
			vf.Assert(err == nil && got != nil && idx != nil, ob)
			if err != nil || got == nil || idx == nil {
				continue
			}
			vf.Assert(bytes.Equal(got.GetHash(), tx.Hash), ob)
			vf.Assert(bytes.Equal(idx.GetBlockHash(), blk.Hash), ob)
			vf.Assert(idx.GetIdx() == int32(i), ob)
		}
	}
}
