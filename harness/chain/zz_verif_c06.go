package chain

import (
	"bytes"

	"github.com/aergoio/aergo-lib/db"
	"github.com/aergoio/aergo/v2/internal/common"
	"github.com/aergoio/aergo/v2/pkg/trie"
	"github.com/aergoio/aergo/v2/state"
	"github.com/aergoio/aergo/v2/state/statedb"
	"github.com/aergoio/aergo/v2/types"
	"github.com/aergoio/aergo/v2/types/dbkey"
	vf "github.com/aergoio/aergo/v2/zzvf"
)

// C06: crash recovery. The chain DB and the state DB are two views of ONE KV model, so a single symbolic crash index
// ranges over the global sequence of durable write units of both. After the crash a fresh ChainDB / ChainService is
// built over the surviving store the way Core.init does and the real recovery code runs:
// ChainDB.loadChainData, ChainDB.recover -> ReorgMarker.RecoverChainMapping, ChainService.Recover -> recoverNormal /
// recoverReorg -> reorg(marker) -> initRecovery, gatherReco, rollback, rollforward(executeBlockReco), swapChain.

// vfState is the committed world state of one block: a real (tiny) state trie, so that the state root is readable by the
// real code after recovery (reorg re-reads the system parameters through it). Distinct contents => distinct roots.
type vfState struct {
	tr   *trie.Trie
	root []byte
}

func vfMakeState(store db.DB, i int) *vfState {
	tr := trie.NewTrie(nil, common.Hasher, store)
	key := common.Hasher([]byte{0x4b, byte(i)})
	val := common.Hasher([]byte{0x56, byte(i)})
	if _, err := tr.Update([][]byte{key}, [][]byte{val}); err != nil {
		vf.Fail("setup")
	}
	return &vfState{tr: tr, root: tr.Root}
}

// commit: what StateDB.Commit does: ONE flushed bulk that carries the trie nodes and, last, the state marker.
func (s *vfState) commit(store db.DB) {
	bulk := store.NewBulk()
	s.tr.StageUpdates(bulk)
	bulk.Set(common.Hasher(s.root), statedb.StateMarker)
	bulk.Flush()
}

type vfCrashWorld struct {
	u   *vfUniverse
	idx map[*types.Block]int // content index of the block's world state
}

// commitState makes the world state of blk durable in store (a fresh trie each time: a state commit that died
// leaves nothing behind, a repeated one rewrites the same nodes).
func (w *vfCrashWorld) commitState(store db.DB, blk *types.Block) {
	vfMakeState(store, w.idx[w.find(blk)]).commit(store)
}

func vfCrashUniverse(a, f, b int, minTx, maxTx int) *vfCrashWorld {
	kv := vf.NewKV()
	skv := &vf.PrefixKV{KV: kv, Prefix: []byte("S")}
	n := 0
	rootOf := func(string, int) []byte {
		st := vfMakeState(skv, n)
		n++
		return st.root
	}
	u := vfBuildOn(kv, skv, a, b, f, vfTxRange(minTx, maxTx), rootOf)
	w := &vfCrashWorld{u: u, idx: map[*types.Block]int{}}
	for i, blk := range u.all {
		w.idx[blk] = i
	}
	return w
}

// restart: a new process over the surviving store: Core.init (ChainDB.Init = loadChainData + recover; the state DB
// opens at the best block's root) and then ChainService.Recover.
func vfRestart(ob string, kv *vf.KV, crashAt int, afterInit func(cdb *ChainDB, kv2 *vf.KV), opened **vf.KV) (*ChainService, *vf.KV, *vf.HubLog, error) {
	return vfRestartAt(kv, crashAt, afterInit, opened, nil)
}

// vfRestartAt: sroot != nil opens the state DB at that root instead of the best block's (a state DB that is not in
// step with the chain DB).
func vfRestartAt(kv *vf.KV, crashAt int, afterInit func(cdb *ChainDB, kv2 *vf.KV), opened **vf.KV, srootOverride []byte) (*ChainService, *vf.KV, *vf.HubLog, error) {
	kv2 := kv.Reopen()
	if opened != nil {
		*opened = kv2
	}
	if crashAt >= 0 {
		kv2.CrashAt = crashAt
	}
	skv2 := &vf.PrefixKV{KV: kv2, Prefix: []byte("S")}
	cc := &vfCC{failAt: -1}
	cdb := NewChainDB()
	cdb.store = kv2
	cdb.cc = cc
	if err := cdb.loadChainData(); err != nil {
		return nil, kv2, nil, err
	}
	if err := cdb.recover(); err != nil {
		return nil, kv2, nil, err
	}
	if afterInit != nil {
		afterInit(cdb, kv2)
	}
	best, _ := cdb.GetBestBlock()
	var sroot []byte
	if best != nil {
		sroot = best.GetHeader().GetBlocksRootHash()
	}
	if srootOverride != nil {
		sroot = srootOverride
	}
	cs, _, log := vfNewCS(kv2, skv2, cc, sroot)
	cs.Core.cdb = cdb
	var err error
	if crashAt < 0 {
		err = cs.Recover()
	} else {
		// a crash inside Recover: its deferred RecoverExit would turn the modelled crash signal (a panic) into
		// os.Exit(10) - the same process death; so the steps of Recover are called without that wrapper
		err = vfRecoverBody(cs)
	}
	return cs, kv2, log, err
}

// vfRecoverBody: the statements of ChainService.Recover without `defer RecoverExit()` and the OS-thread pinning.
func vfRecoverBody(cs *ChainService) error {
	marker, err := cs.cdb.getReorgMarker()
	if err != nil {
		return err
	}
	if marker == nil {
		return cs.recoverNormal()
	}
	best, err := cs.GetBestBlock()
	if err != nil {
		return err
	}
	if !bytes.Equal(best.BlockHash(), marker.BrBestHash) {
		return ErrRecoInvalidBest
	}
	return cs.recoverReorg(marker)
}

// C06.a: the process dies at an arbitrary durable write of a reorganisation (roll-forward state commits, marker write,
// receipt deletion, tx-mapping swap, chain-mapping swap, marker deletion). After restart + recovery: no error, the C05
// invariant holds, the best block is the old tip or the new tip, the state DB root is the best block's root and that
// root is marked complete, no reorg marker is left.
func VF_C06_a() {
	a, f, b := vfShape(vf.Param("maxA", 1), vf.Param("maxExtra", 1))
	w := vfCrashUniverse(a, f, b, vf.Param("minTx", 1), vf.Param("maxTx", 1))
	u := w.u
	// history before the reorganisation: genesis and the main branch are executed (state committed) and connected,
	// the side branch is stored
	w.history()
	bestRoot := u.mainAt(a).Header.BlocksRootHash
	u.cs.sdb.SetRoot(bestRoot)
	top := u.side[b-1]
	exec := func(_ *state.BlockState, blk *types.Block) error {
		// durable effect of a successful executeBlock: the state commit (one bulk, marker last)
		w.commitState(u.skv, blk)
		vfWriteReceipts(u.cs, blk)
		u.cs.sdb.SetRoot(blk.GetHeader().GetBlocksRootHash())
		u.cs.Update(blk)
		return nil
	}
	k := vf.Int("crashAt")
	vf.Assume(k >= -1)
	vf.Assume(k <= 64)
	if k >= 0 {
		u.kv.CrashAt = u.kv.Units + k
	}
	if vf.Param("partial", 0) != 0 {
		// torn bulk: the crashing bulk applies an arbitrary prefix of its writes
		cut := vf.Int("bulkCut")
		vf.Assume(cut >= 0)
		vf.Assume(cut <= 16)
		u.kv.PartialBulk = true
		u.kv.BulkCut = cut
	}
	var rerr error
	crashed := vf.RunUntilCrash(func() {
		_, rerr = vfReorgWith(u.cs, top, exec)
	})
	if !crashed {
		vf.Assert(rerr == nil, "C06.a")
	}
	markerLeft := len(u.kv.M[string(dbkey.ReOrg())]) != 0
	// C06.a.map: when a reorg marker survived, ChainDB.Init (loadChainData + recover -> RecoverChainMapping) presents
	// the OLD chain again: persisted and cached latest pointer, height index, nothing mapped above the old tip
	afterInit := func(cdb *ChainDB, kv2 *vf.KV) {
		// (only for atomic units: after a TORN swapChainMapping bulk the latest pointer is still the old one, so
		// RecoverChainMapping sees best == marker.BrBestHash and leaves the partly swapped height index for the reorg
		// that Recover() re-runs; the property demands coherence after recovery, which C06.b asserts below)
		if markerLeft && u.kv.TornApplied == 0 {
			vf.Reach("C06.a.map")
			vfCheckHeights("C06.a.map", cdb, kv2, u.oldPath(), u.f+b)
		}
	}
	var cs2 *ChainService
	var kv2 *vf.KV
	var err error
	if vf.Param("recrash", 0) == 0 {
		cs2, kv2, _, err = vfRestart("C06.a", u.kv, -1, afterInit, nil)
	} else {
		// the recovery itself dies at an arbitrary durable write; the next restart must still recover
		k2 := vf.Int("recrashAt")
		vf.Assume(k2 >= 0)
		vf.Assume(k2 <= 64)
		var kvr *vf.KV
		crashed2 := vf.RunUntilCrash(func() {
			cs2, kv2, _, err = vfRestart("C06.a", u.kv, k2, afterInit, &kvr)
		})
		if crashed2 {
			vf.Reach("C06.a.recrash")
			markerLeft = len(kvr.M[string(dbkey.ReOrg())]) != 0
			cs2, kv2, _, err = vfRestart("C06.a", kvr, -1, afterInit, nil)
		}
	}
	vf.Reach("C06.a")
	vf.Assert(err == nil, "C06.a")
	if err != nil || cs2 == nil {
		return
	}
	best, _ := cs2.GetBestBlock()
	vf.Assert(best != nil, "C06.a")
	if best == nil {
		return
	}
	isOld := bytes.Equal(best.GetHash(), u.mainAt(a).Hash)
	if isOld {
		vf.Reach("C06.a.old")
		vf.Assert(!markerLeft, "C06.a")
		vfCheckChain("C06.a", cs2, kv2, u.oldPath())
		for _, blk := range u.oldPath() {
			vfCheckReceipts("C06.a", cs2, blk)
		}
	} else {
		vf.Reach("C06.a.new")
		vf.Assert(bytes.Equal(best.GetHash(), top.Hash), "C06.a")
		vfCheckChain("C06.a", cs2, kv2, u.newPath())
		for _, blk := range u.newPath() {
			vfCheckReceipts("C06.a", cs2, blk)
		}
		u2 := *u
		u2.cs = cs2
		vfCheckAbandoned("C06.a", &u2)
	}
	sroot := cs2.sdb.GetRoot()
	vf.Assert(bytes.Equal(sroot, best.GetHeader().GetBlocksRootHash()), "C06.a")
	vf.Assert(cs2.sdb.GetStateDB().HasMarker(best.GetHeader().GetBlocksRootHash()), "C06.a")
	m, merr := cs2.cdb.getReorgMarker()
	vf.Assert(merr == nil && m == nil, "C06.a")
	vf.Observe("crashed", crashed)
	vf.Observe("old", isOld)
	vf.Observe("units", u.kv.Units)
}

// find maps a block object obtained from the DB back to the universe's block (by hash).
func (w *vfCrashWorld) find(blk *types.Block) *types.Block {
	for _, o := range w.u.all {
		if o == blk {
			return o
		}
	}
	for _, o := range w.u.all {
		if bytes.Equal(o.Hash, blk.GetHash()) {
			return o
		}
	}
	vf.Fail("setup")
	return nil
}

// vfCheckHeights: latest pointer (persisted and cached), cached best block and height index describe path; heights
// above its tip up to maxNo are unmapped.
func vfCheckHeights(ob string, cdb *ChainDB, kv *vf.KV, path []*types.Block, maxNo int) {
	tip := path[len(path)-1]
	tipNo := uint64(len(path) - 1)
	vf.Assert(cdb.getBestBlockNo() == tipNo, ob)
	best, _ := cdb.GetBestBlock()
	vf.Assert(best != nil, ob)
	if best != nil {
		vf.Assert(bytes.Equal(best.GetHash(), tip.Hash), ob)
	}
	vf.Assert(bytes.Equal(kv.Get(dbkey.LatestBlock()), types.BlockNoToBytes(tipNo)), ob)
	for h := range path {
		hash, err := cdb.getHashByNo(uint64(h))
		vf.Assert(err == nil, ob)
		vf.Assert(bytes.Equal(hash, path[h].Hash), ob)
	}
	for h := len(path); h <= maxNo; h++ {
		_, err := cdb.getHashByNo(uint64(h))
		vf.Assert(err != nil, ob)
	}
}

// history: what happened before the scenario: genesis and the main branch were executed (state committed) and connected,
// the side branch was received and stored; the state DB stands at the best block's root.
func (w *vfCrashWorld) history() {
	u := w.u
	w.commitState(u.skv, u.gen)
	for _, blk := range u.main {
		w.commitState(u.skv, blk)
	}
	u.populate()
	u.cs.sdb.SetRoot(u.mainAt(u.a).Header.BlocksRootHash)
}

// C06.n: normal recovery refuses a state DB whose root is not the best block's root (and accepts the matching one).
func VF_C06_n() {
	a := 1 + vf.Choice("a", vf.Param("maxA", 2))
	w := vfCrashUniverse(a, 0, 0, vf.Param("minTx", 0), vf.Param("maxTx", 0))
	w.history()
	u := w.u
	other := vf.Choice("stateAt", a+1) // height whose root the state DB is opened at
	cs2, _, _, err := vfRestartAt(u.kv, -1, nil, nil, u.mainAt(other).Header.BlocksRootHash)
	vf.Reach("C06.n")
	vf.Assert(cs2 != nil, "C06.n")
	if other == a {
		vf.Assert(err == nil, "C06.n")
	} else {
		vf.Assert(err == ErrRecoInvalidSdbRoot, "C06.n")
	}
	vf.Observe("err", err != nil)
}

// C06.l: the process dies while one block is being connected (durable units: the state commit of the executed block,
// then the single chain-DB transaction of chainProcessor.connectToChain). After restart + normal recovery: no error,
// the best block is the previous tip or the new block, the C05 invariant holds for it (the tip move is all-or-nothing),
// the best block's state root is marked complete.
func VF_C06_l() {
	a := 1 + vf.Choice("a", vf.Param("maxA", 2))
	w := vfCrashUniverse(a, 0, 0, vf.Param("minTx", 1), vf.Param("maxTx", 1))
	u := w.u
	last := u.main[a-1]
	u.main = u.main[:a-1]
	u.a = a - 1
	w.history()
	k := vf.Int("crashAt")
	vf.Assume(k >= -1)
	vf.Assume(k <= 8)
	if k >= 0 {
		u.kv.CrashAt = u.kv.Units + k
	}
	var cerr error
	crashed := vf.RunUntilCrash(func() {
		w.commitState(u.skv, last) // blockExecutor.commit
		cerr = u.connect(last)     // chainProcessor.connectToChain
	})
	if !crashed {
		vf.Assert(cerr == nil, "C06.l")
	}
	cs2, kv2, _, err := vfRestart("C06.l", u.kv, -1, nil, nil)
	vf.Reach("C06.l")
	vf.Assert(err == nil && cs2 != nil, "C06.l")
	if err != nil || cs2 == nil {
		return
	}
	best, _ := cs2.GetBestBlock()
	vf.Assert(best != nil, "C06.l")
	if best == nil {
		return
	}
	if bytes.Equal(best.GetHash(), last.Hash) {
		vf.Reach("C06.l.new")
		vfCheckChain("C06.l", cs2, kv2, append(u.oldPath(), last))
	} else {
		vf.Reach("C06.l.old")
		vf.Assert(crashed, "C06.l")
		vfCheckChain("C06.l", cs2, kv2, u.oldPath())
	}
	vf.Assert(cs2.sdb.GetStateDB().HasMarker(best.GetHeader().GetBlocksRootHash()), "C06.l")
	vf.Assert(bytes.Equal(cs2.sdb.GetRoot(), best.GetHeader().GetBlocksRootHash()), "C06.l")
	vf.Observe("crashed", crashed)
	vf.Observe("best", cs2.cdb.getBestBlockNo())
}

// C06.c: convergence. After the crash and the recovery, handing the tip of the side branch to the node again (when the
// recovery ended on the old tip) leads to exactly the store content of a run without the crash, key by key (both DBs).
func VF_C06_c() {
	a, f, b := vfShape(vf.Param("maxA", 1), vf.Param("maxExtra", 1))
	w := vfCrashUniverse(a, f, b, vf.Param("minTx", 1), vf.Param("maxTx", 1))
	u := w.u
	w.history()
	top := u.side[b-1]
	bestRoot := u.mainAt(a).Header.BlocksRootHash
	run := func(cs *ChainService, skv db.DB, tip *types.Block) error {
		_, err := vfReorgWith(cs, tip, func(_ *state.BlockState, blk *types.Block) error {
			w.commitState(skv, blk)
			vfWriteReceipts(cs, blk)
			cs.sdb.SetRoot(blk.GetHeader().GetBlocksRootHash())
			cs.Update(blk)
			return nil
		})
		return err
	}
	// reference: the same reorganisation without a crash, on a copy of the store
	kvRef := u.kv.Reopen()
	skvRef := &vf.PrefixKV{KV: kvRef, Prefix: []byte("S")}
	csRef, _, _ := vfNewCS(kvRef, skvRef, &vfCC{failAt: -1}, bestRoot)
	if err := csRef.cdb.loadChainData(); err != nil {
		vf.Fail("setup")
	}
	if err := run(csRef, skvRef, top); err != nil {
		vf.Fail("setup")
	}
	// the run that dies
	k := vf.Int("crashAt")
	vf.Assume(k >= 0)
	vf.Assume(k <= 64)
	u.kv.CrashAt = u.kv.Units + k
	crashed := vf.RunUntilCrash(func() { run(u.cs, u.skv, top) })
	vf.Assume(crashed)
	cs2, kv2, _, err := vfRestart("C06.c", u.kv, -1, nil, nil)
	vf.Assert(err == nil && cs2 != nil, "C06.c")
	if err != nil || cs2 == nil {
		return
	}
	best, _ := cs2.GetBestBlock()
	if bytes.Equal(best.GetHash(), u.mainAt(a).Hash) {
		vf.Reach("C06.c.redo")
		tip, err := cs2.GetBlock(top.Hash)
		vf.Assert(err == nil && tip != nil, "C06.c")
		vf.Assert(cs2.needReorg(tip), "C06.c")
		skv2 := &vf.PrefixKV{KV: kv2, Prefix: []byte("S")}
		vf.Assert(run(cs2, skv2, tip) == nil, "C06.c")
	}
	vf.Reach("C06.c")
	vf.Assert(len(kv2.M) == len(kvRef.M), "C06.c")
	for key, want := range kvRef.M {
		got, ok := kv2.M[key]
		vf.Assert(ok, "C06.c")
		if ok {
			vf.Assert(bytes.Equal(got, want), "C06.c")
		}
	}
	vf.Observe("keys", len(kv2.M))
}
