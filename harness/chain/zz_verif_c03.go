package chain

import (
	"bytes"
	"errors"

	"github.com/aergoio/aergo/v2/state"
	"github.com/aergoio/aergo/v2/types"
	vf "github.com/aergoio/aergo/v2/zzvf"
)

// C03.c: a block that fails leaves the node state untouched.
// Real blockExecutor.execute / commit, real BlockValidator.ValidatePost, real BlockState / ChainStateDB over vf.KV.
// Shapes (Choice): commitOnly (block produced locally, already executed) or not; verifyOnly; the block has no tx,
// one tx that the (real) executor rejects, or a tx loop that fails by an arbitrary executor error.
// Symbolic: the header's state root and receipts root (32 bytes each, or equal to the computed ones), the chain
// state root before the block, `verbose` (= cfg.Blockchain.VerifyBlock != 0, the diagnostic verify-only mode).
// Assert: state-root mismatch OR (receipts-root mismatch AND !verbose) OR a failing tx  =>  execute returns an
// error, nothing was written to the store, the chain state root is unchanged; verifyOnly => nothing written either.
func VF_C03_c() {
	kv := vf.NewKV()
	root0 := vf.Bytes("root0", 32)
	sdb := state.VFLedgerChainStateDB(kv, root0)
	bs := state.NewBlockState(sdb.OpenNewStateDB(sdb.GetRoot()))
	commitOnly := vf.Choice("commitOnly", 2) == 1
	verifyOnly := vf.Choice("verifyOnly", 2) == 1
	verbose := vf.Bool("verbose")
	txShape := 0
	if !commitOnly {
		txShape = vf.Choice("txShape", 3) // 0 no tx, 1 one tx rejected by the real executor, 2 arbitrary executor error
	}

	// header commitments: either the computed values or arbitrary other bytes
	hdr := &types.BlockHeader{BlockNo: 100}
	computedRoot := bs.GetRoot()
	computedRcpt := bs.Receipts().MerkleRoot()
	if vf.Choice("hdrRootMatches", 2) == 1 {
		hdr.BlocksRootHash = computedRoot
	} else {
		hdr.BlocksRootHash = vf.Bytes("hdrRoot", 32)
	}
	if vf.Choice("hdrRcptMatches", 2) == 1 {
		hdr.ReceiptsRootHash = computedRcpt
	} else {
		hdr.ReceiptsRootHash = vf.Bytes("hdrRcpt", 32)
	}
	block := &types.Block{Header: hdr, Body: &types.BlockBody{}}
	bv := &BlockValidator{verbose: verbose}

	bi := &types.BlockHeaderInfo{No: 100, Ts: 1, PrevBlockHash: make([]byte, 32), ChainId: []byte("vf-chain"), ForkVersion: 3}
	var txs []*types.Tx
	exec := NewTxExecutor(nil, nil, nil, bi, 0)
	switch txShape {
	case 1:
		// a tx with a wrong chain id hash: rejected by the real executeTx (Validate)
		body := &types.TxBody{Nonce: 1, Account: vfLgAddr(0xA1), Recipient: vfLgAddr(0xB2), Type: types.TxType_TRANSFER,
			ChainIdHash: make([]byte, 32)}
		tx := &types.Tx{Body: body}
		tx.Hash = tx.CalculateTxHash()
		txs = []*types.Tx{tx}
	case 2:
		txs = []*types.Tx{{Body: &types.TxBody{}}}
		exec = func(bState *state.BlockState, tx types.Transaction) error { return errors.New("vf: tx failed") }
	}
	e := &blockExecutor{
		BlockState:      bs,
		sdb:             sdb,
		execTx:          exec,
		txs:             txs,
		coinbaseAccount: nil,
		validatePost: func() error {
			return bv.ValidatePost(bs.GetRoot(), bs.Receipts(), block)
		},
		commitOnly: commitOnly,
		verifyOnly: verifyOnly,
		bi:         bi,
	}
	err := e.execute()
	vf.Reach("C03.c")

	rootBad := !bytes.Equal(hdr.BlocksRootHash, computedRoot)
	rcptBad := !bytes.Equal(hdr.ReceiptsRootHash, computedRcpt)
	mustFail := vf.Or(vf.Or(rootBad, vf.And(rcptBad, !verbose)), txShape != 0)
	failed := err != nil
	written := kv.Units != 0 || len(kv.Writes) != 0
	rootMoved := !bytes.Equal(sdb.GetRoot(), root0)
	vf.Assert(vf.Implies(mustFail, failed), "C03.c")
	if failed {
		vf.Reach("C03.c.failed")
		vf.Assert(!written, "C03.c")
		vf.Assert(!rootMoved, "C03.c")
	} else {
		vf.Reach("C03.c.ok")
		// converse: a block that passes had matching commitments (receipts root only outside the verbose mode)
		vf.Assert(!rootBad, "C03.c")
		vf.Assert(vf.Or(!rcptBad, verbose), "C03.c")
	}
	if verifyOnly {
		vf.Assert(!written, "C03.c")
		vf.Assert(!rootMoved, "C03.c")
	}
	vf.Observe("failed", failed)
	vf.Observe("written", written)
}
