package chain

import (
	"bytes"
	"math/big"

	"github.com/aergoio/aergo/v2/contract/name"
	"github.com/aergoio/aergo/v2/fee"
	"github.com/aergoio/aergo/v2/state"
	"github.com/aergoio/aergo/v2/state/statedb"
	"github.com/aergoio/aergo/v2/types"
	"github.com/aergoio/aergo/v2/types/dbkey"
	vf "github.com/aergoio/aergo/v2/zzvf"
)

// ------------------------------------------------------------------------------------------------
// C01.b / C03.a (governance): GOVERNANCE transactions through the real NewTxExecutor closure -> executeTx ->
// executeGovernanceTx -> system.ExecuteSystemTx (stake, unstake) / name.ExecuteNameTx (create name, set owner).
// Payloads are concrete JSON documents (the shapes); amounts, balances, nonces, block numbers are symbolic.
// ------------------------------------------------------------------------------------------------

// governance observation: account world + the storage slots the commands write
type vfLgGovObs struct {
	acc     *vfLgObs
	staking []byte // aergo.system: staking record of the sender
	total   []byte // aergo.system: staking total
	owner   []byte // aergo.name: name map of "aergo.name" (contract owner)
	nm      []byte // aergo.name: name map of the name used by the tx
}

const vfLgTheName = "vfnameabcdef" // 12 characters

func (w *vfLedger) govObserve() *vfLgGovObs {
	o := &vfLgGovObs{acc: w.observe()}
	sys, err := statedb.OpenContractStateAccount(w.ids[vfLgSystem], w.bs.StateDB)
	if err != nil {
		vf.Fail("harness-read")
	}
	o.staking, _ = sys.GetData(dbkey.SystemStaking(w.ids[vfLgSender]))
	o.total, _ = sys.GetData(dbkey.SystemStakingTotal())
	nm, err := statedb.OpenContractStateAccount(w.ids[vfLgName], w.bs.StateDB)
	if err != nil {
		vf.Fail("harness-read")
	}
	o.owner, _ = nm.GetData(dbkey.Name([]byte(types.AergoName)))
	o.nm, _ = nm.GetData(dbkey.Name([]byte(vfLgTheName)))
	return o
}

func (o *vfLgGovObs) sameStorage(p *vfLgGovObs) bool {
	r := bytes.Equal(o.staking, p.staking)
	r = vf.And(r, bytes.Equal(o.total, p.total))
	r = vf.And(r, bytes.Equal(o.owner, p.owner))
	r = vf.And(r, bytes.Equal(o.nm, p.nm))
	return r
}

func vfLgGovTx(w *vfLedger, bi *types.BlockHeaderInfo, rcpt int, payload string, amount *big.Int, nonce uint64) (*types.TxBody, error) {
	body := &types.TxBody{
		Nonce:     nonce,
		Account:   w.ids[vfLgSender],
		Recipient: w.ids[rcpt],
		Amount:    amount.Bytes(),
		Payload:   []byte(payload),
		Type:      types.TxType_GOVERNANCE,
	}
	body.ChainIdHash = bi.ChainIdHash()
	tx := &types.Tx{Body: body}
	tx.Hash = tx.CalculateTxHash()
	vf.Assume(!types.IsQuirkTx(tx.Hash))
	exec := NewTxExecutor(nil, nil, nil, bi, 0)
	return body, exec(w.bs, types.NewTransaction(tx))
}

// shapes: 0 stake, 1 unstake (fresh storage), 2 createName (no owner), 3 setOwner(B), 4 setOwner(sender),
// 5 createName after owner := B, 6 createName after owner := sender, 7 stake then (system balance arbitrary) unstake,
// 8 updateName(N -> B) of a name the sender registered in an earlier block (no owner of aergo.name),
// 9 the same after owner := B in this block, 10 createName when an EARLIER block set owner := B,
// 11 updateName when an earlier block set owner := B.
// "after owner := X" (5, 6, 9): name.SetContractOwner ran earlier in the same block (staged storage); 10, 11: the owner
// entry is in the committed storage of aergo.name.
var vfLgGovNames = []string{"stake", "unstake-fresh", "createName", "setOwner-other", "setOwner-self", "createName.owner-set",
	"createName.owner-is-sender", "unstake", "updateName", "updateName.owner-set", "createName.owner-committed", "updateName.owner-committed"}

func vfLgGov(mode int, ob string) {
	shape := vfLgPick("gov", vf.Param("govMask", 0xfff), 12)
	vfLgNames = nil
	switch shape {
	case 8, 9:
		vfLgNames = []vfLgNameEntry{{vfLgTheName, vfLgSender, vfLgSender}}
	case 10:
		vfLgNames = []vfLgNameEntry{{types.AergoName, vfLgOther, vfLgName}}
	case 11:
		vfLgNames = []vfLgNameEntry{{types.AergoName, vfLgOther, vfLgName}, {vfLgTheName, vfLgSender, vfLgSender}}
	}
	ver := int32(vfLgPick("ver", vf.Param("verMask", 0x1c), 6))
	fee.DisableZeroFee()
	pubNet = true
	types.InitGovernance("dpos", true)
	w := vfLgWorld(0, big.NewInt(50000000000))
	blockNo := vf.U64("blockNo")
	vf.Assume(blockNo < 1<<62)
	bi := &types.BlockHeaderInfo{No: blockNo, Ts: 1, PrevBlockHash: make([]byte, 32), ChainId: []byte("vf-chain"), ForkVersion: ver}
	addrA := types.EncodeAddress(w.ids[vfLgSender])
	addrB := types.EncodeAddress(w.ids[vfLgOther])

	// set-up of the name owner for shapes 5/6 through the real name.SetContractOwner (moves the name account's
	// balance to the owner and stages the name storage); done BEFORE the pre-observation
	if shape == 5 || shape == 6 || shape == 9 {
		nmAcc, err := vfLgAccount(w, vfLgName)
		if err != nil {
			vf.Fail("harness-setup")
		}
		scs, _ := statedb.OpenContractState(nmAcc.IDNoPadding(), nmAcc.State(), w.bs.StateDB)
		ownerAddr := addrB
		if shape == 6 {
			ownerAddr = addrA
		}
		ownerState, err := name.SetContractOwner(w.bs, scs, ownerAddr, nmAcc)
		if err != nil {
			vf.Fail("harness-setup")
		}
		ownerState.PutState()
		nmAcc.PutState()
		statedb.StageContractState(scs, w.bs.StateDB)
	}

	amount := vfLgBig("tx.amount", vfLgMaxField)
	nonce := vf.U64("tx.nonce")
	var rcpt int
	var payload string
	switch shape {
	case 0, 7:
		rcpt, payload = vfLgSystem, `{"Name":"v1stake"}`
	case 1:
		rcpt, payload = vfLgSystem, `{"Name":"v1unstake"}`
	case 2, 5, 6, 10:
		rcpt, payload = vfLgName, `{"Name":"v1createName","Args":["`+vfLgTheName+`"]}`
	case 8, 9, 11:
		rcpt, payload = vfLgName, `{"Name":"v1updateName","Args":["`+vfLgTheName+`","`+addrB+`"]}`
	case 3:
		rcpt, payload = vfLgName, `{"Name":"v1setOwner","Args":["`+addrB+`"]}`
	case 4:
		rcpt, payload = vfLgName, `{"Name":"v1setOwner","Args":["`+addrA+`"]}`
	}
	if shape == 7 {
		// first tx of the block: a successful stake of exactly the staking minimum (concrete), so that the system
		// storage is staged and SHARED with the next tx; then the system account's balance is replaced by an
		// arbitrary value (the pre-state of the step is not constrained by the staking invariant of C15)
		_, err := vfLgGovTx(w, bi, vfLgSystem, `{"Name":"v1stake"}`, new(big.Int).Set(types.StakingMinimum), nonce)
		vf.Assume(err == nil)
		sysBal := vf.Big("sysBal")
		vf.Assume(sysBal.Cmp(vfLgMaxBal) <= 0)
		sysAcc, err := vfLgAccount(w, vfLgSystem)
		if err != nil {
			vf.Fail("harness-setup")
		}
		sysAcc.State().Balance = sysBal.Bytes()
		sysAcc.PutState()
		nonce = nonce + 1
		blockNo2 := vf.U64("blockNo2")
		vf.Assume(blockNo2 >= blockNo)
		vf.Assume(blockNo2 < 1<<62)
		bi = &types.BlockHeaderInfo{No: blockNo2, Ts: 2, PrevBlockHash: make([]byte, 32), ChainId: []byte("vf-chain"), ForkVersion: ver}
		payload = `{"Name":"v1unstake"}`
	}

	pre := w.govObserve()
	body, err := vfLgGovTx(w, bi, rcpt, payload, amount, nonce)
	post := w.govObserve()
	dReward := new(big.Int).Sub(post.acc.reward, pre.acc.reward)

	if err != nil {
		vf.Reach(ob + ".rejected")
		if mode == 1 {
			vf.Assert(post.acc.sum().Cmp(pre.acc.sum()) == 0, ob)
		} else {
			ok := post.acc.reward.Cmp(pre.acc.reward) == 0
			ok = vf.And(ok, post.acc.nrcpt == pre.acc.nrcpt)
			for i := 0; i < vfLgN; i++ {
				ok = vf.And(ok, post.acc.same(pre.acc, i))
			}
			vf.Assert(ok, ob)
			vf.Assert(post.sameStorage(pre), ob)
		}
		vf.Observe("outcome", "rejected")
		return
	}
	rcpts := w.bs.Receipts().Get()
	if len(rcpts) != pre.acc.nrcpt+1 {
		vf.Fail(ob)
		return
	}
	rc := rcpts[len(rcpts)-1]
	if rc.Status == "ERROR" {
		// only enterprise transactions (private networks) produce run-time governance errors; not a shape here
		vf.Reach(ob + ".error")
		vf.Fail(ob)
		return
	}
	vf.Reach(ob + ".success")
	vf.Reach(ob + ".success." + vfLgGovNames[shape]) // every shape must have a successful execution (vacuity)
	// governance is free of charge: no fee, no reward
	vf.Assert(dReward.Sign() == 0, ob+".free")
	vf.Assert(len(rc.FeeUsed) == 0, ob+".free")
	// F14: v1setOwner with the sender itself as new owner: the credit of the name account's balance to the owner is
	// overwritten by executeTx's later sender.PutState()
	f14 := shape == 4
	vf.AssertKnown(post.acc.sum().Cmp(pre.acc.sum()) == 0, ob+".sum", "F14-setowner-self-burns-name-balance", f14)
	vf.Assert(post.acc.nonce[vfLgSender] == body.Nonce, ob+".nonce")
	vf.Assert(post.acc.same(pre.acc, vfLgBystander), ob+".bystander")
	vf.Assert(post.acc.same(pre.acc, vfLgVault), ob+".bystander")
	amt := body.GetAmountBigInt()
	lostA := new(big.Int).Sub(pre.acc.bal[vfLgSender], post.acc.bal[vfLgSender])
	switch shape {
	case 0:
		// stake: A -> aergo.system, staking total grows by the same amount
		vf.Assert(lostA.Cmp(amt) == 0, ob+".move")
		vf.Assert(new(big.Int).Sub(post.acc.bal[vfLgSystem], pre.acc.bal[vfLgSystem]).Cmp(amt) == 0, ob+".move")
		dTotal := new(big.Int).Sub(new(big.Int).SetBytes(post.total), new(big.Int).SetBytes(pre.total))
		vf.Assert(dTotal.Cmp(amt) == 0, ob+".move")
		vf.Assert(post.acc.same(pre.acc, vfLgName), ob+".move")
	case 7:
		// unstake: aergo.system -> A of the actual adjustment; total shrinks by the same amount
		gain := new(big.Int).Neg(lostA)
		vf.Assert(new(big.Int).Sub(pre.acc.bal[vfLgSystem], post.acc.bal[vfLgSystem]).Cmp(gain) == 0, ob+".move")
		dTotal := new(big.Int).Sub(new(big.Int).SetBytes(pre.total), new(big.Int).SetBytes(post.total))
		vf.Assert(dTotal.Cmp(gain) == 0, ob+".move")
		vf.Assert(gain.Sign() >= 0, ob+".move")
	case 2, 8:
		// name fee: A -> aergo.name
		vf.Assert(lostA.Cmp(amt) == 0, ob+".move")
		vf.Assert(new(big.Int).Sub(post.acc.bal[vfLgName], pre.acc.bal[vfLgName]).Cmp(amt) == 0, ob+".move")
	case 5, 9, 10, 11:
		// name fee: A -> owner B
		vf.Assert(lostA.Cmp(amt) == 0, ob+".move")
		vf.Assert(new(big.Int).Sub(post.acc.bal[vfLgOther], pre.acc.bal[vfLgOther]).Cmp(amt) == 0, ob+".move")
		vf.Assert(post.acc.same(pre.acc, vfLgName), ob+".move")
	case 6:
		// the sender owns the name contract: pays itself
		vf.Assert(lostA.Sign() == 0, ob+".move")
	case 3:
		// owner B receives the whole balance of aergo.name
		vf.Assert(post.acc.bal[vfLgName].Sign() == 0, ob+".move")
		vf.Assert(new(big.Int).Sub(post.acc.bal[vfLgOther], pre.acc.bal[vfLgOther]).Cmp(pre.acc.bal[vfLgName]) == 0, ob+".move")
		vf.Assert(lostA.Sign() == 0, ob+".move")
	}
	vf.Observe("outcome", rc.Status)
}

func vfLgAccount(w *vfLedger, i int) (*state.AccountState, error) {
	return state.GetAccountState(w.ids[i], w.bs.StateDB)
}

func VF_C01_b()     { vfLgGov(1, "C01.b") }
func VF_C03_a_gov() { vfLgGov(2, "C03.a.gov") }
