package chain

import (
	"encoding/json"

	"github.com/aergoio/aergo-lib/db"
	"github.com/aergoio/aergo/v2/config"
	"github.com/aergoio/aergo/v2/types"
	"github.com/aergoio/aergo/v2/types/dbkey"
	vf "github.com/aergoio/aergo/v2/zzvf"
)

// C19.h — the hardfork configuration is persisted only after it was found compatible, and the verdict of the start-up
// check is stable across restarts.
//
// Real code: ChainService.checkHardfork, ChainDB.Hardfork / WriteHardfork / getBestBlockNo, HardforkDbConfig.FixDbConfig,
// HardforkConfig.CheckCompatibility / validate / Height, checkOlderNode, over the key-value model.

// which network the genesis block belongs to: 0 private (the operator's [hardfork] section counts), 1 mainnet, 2 testnet
// (the built-in heights replace the operator's). vfIsMainNet/vfIsTestNet replace (*types.Genesis).IsMainNet/IsTestNet,
// which decode the built-in genesis JSON documents; the native run installs a genesis of the same kind instead.
var vfNet int

func vfIsMainNet(g *types.Genesis) bool { return vfNet == 1 }
func vfIsTestNet(g *types.Genesis) bool { return vfNet == 2 }

func vfInstallGenesis(net int) {
	vfNet = net
	if vf.Symbolic() {
		return
	}
	switch net {
	case 1:
		Genesis = types.GetMainNetGenesis()
	case 2:
		Genesis = types.GetTestNetGenesis()
	default:
		Genesis = &types.Genesis{ID: types.ChainID{Magic: "vf.private", Consensus: "sbp"}}
	}
}

func vfHFConfig(tag string) *config.HardforkConfig {
	return &config.HardforkConfig{V2: vf.U64(tag + ".V2"), V3: vf.U64(tag + ".V3"), V4: vf.U64(tag + ".V4"), V5: vf.U64(tag + ".V5")}
}

// vfReadHF decodes the stored record with the decoder the chain DB uses.
func vfReadHF(store db.DB) config.HardforkDbConfig {
	data := store.Get(dbkey.HardFork())
	if len(data) == 0 {
		return nil
	}
	var m config.HardforkDbConfig
	if err := json.Unmarshal(data, &m); err != nil {
		vf.Fail("C19.h.setup")
	}
	return m
}

func vfStart(store db.DB, operator config.HardforkConfig, best uint64) (*ChainService, error) {
	cdb := NewChainDB()
	cdb.store = store
	cdb.latest.Store(types.BlockNo(best))
	n := operator // the operator's configuration file is read anew at every start
	cs := &ChainService{Core: &Core{cdb: cdb}, cfg: &config.Config{Hardfork: &n}}
	return cs, cs.checkHardfork()
}

func vfMonotone(c *config.HardforkConfig) bool {
	return vf.And(c.V2 <= c.V3, vf.And(c.V3 <= c.V4, c.V4 <= c.V5))
}

var vfHFKeys = [5]string{"V2", "V3", "V4", "V5", "V6"}

func VF_C19_h_private() { vfC19h(0) }
func VF_C19_h_mainnet() { vfC19h(1) }
func VF_C19_h_testnet() { vfC19h(2) }

func vfC19h(net int) {
	vfInstallGenesis(net)
	store := vf.NewKV()
	cdb0 := NewChainDB()
	cdb0.store = store

	// the stored record: none (fresh chain DB); written by an earlier start of this binary with an arbitrary
	// configuration; written by an older binary that knew fewer forks (V2..V3 or V2..V4: the reader completes it from the
	// node configuration); written by a newer binary that knows one more fork (V6)
	kind := vf.Choice("stored", 4)
	nStored := 0
	switch kind {
	case 1:
		vf.Assert(cdb0.WriteHardfork(vfHFConfig("stored")) == nil, "C19.h.setup")
		nStored = 4
	case 2, 3:
		nStored = 2 + vf.Choice("olderKeys", 2)
		if kind == 3 {
			nStored = 5
		}
		m := config.HardforkDbConfig{}
		for i := 0; i < nStored; i++ {
			m[vfHFKeys[i]] = vf.U64("stored." + vfHFKeys[i])
		}
		data, err := json.Marshal(m)
		vf.Assert(err == nil, "C19.h.setup")
		store.Set(dbkey.HardFork(), data)
	}
	before := vfReadHF(store)
	vf.Assert(len(before) == nStored, "C19.h.setup")
	units := store.Units

	operator := *vfHFConfig("node")
	best := vf.U64("best")
	// the restart happens at the same height (quick tier) or after the chain has grown by any amount (thorough tier)
	best2 := best
	if vf.Param("grow", 0) == 1 {
		best2 = vf.U64("best2")
		vf.Assume(best2 >= best)
	}
	cs, err := vfStart(store, operator, best)
	node := cs.cfg.Hardfork // what the node runs with (the built-in heights on mainnet/testnet)
	after := vfReadHF(store)

	vf.Reach("C19.h")
	if err != nil {
		// refused: nothing was written, the record is what it was
		vf.Assert(store.Units == units, "C19.h")
		vf.Assert(len(after) == len(before), "C19.h")
		for i := 0; i < nStored; i++ {
			vf.Assert(after[vfHFKeys[i]] == before[vfHFKeys[i]], "C19.h")
		}
	} else {
		// accepted: the record is exactly the configuration the node runs with
		vf.Assert(len(after) == 4, "C19.h")
		vf.Assert(vf.And(vf.And(after["V2"] == node.V2, after["V3"] == node.V3), vf.And(after["V4"] == node.V4, after["V5"] == node.V5)), "C19.h")
	}
	// the verdict itself, from the primitives: with a record, the start is accepted iff the node's heights are
	// non-decreasing, every fork that either side places at or below the best block has the same height on both sides
	// (a fork the record does not know imposes nothing), and a fork only the record knows (V6) lies above the best block.
	// Without a record the start is accepted as it is coded (no validation: finding F-C19-1 below).
	vf.Reach("C19.h.compat")
	want := true
	if kind != 0 {
		nodeV := [4]uint64{node.V2, node.V3, node.V4, node.V5}
		want = vfMonotone(node)
		for i := 0; i < nStored; i++ {
			sv := before[vfHFKeys[i]]
			if i < 4 {
				want = vf.And(want, vf.Implies(vf.Or(nodeV[i] <= best, sv <= best), nodeV[i] == sv))
			} else {
				want = vf.And(want, sv > best)
			}
		}
	}
	vf.Assert((err == nil) == want, "C19.h.compat")

	if vfNet == 1 {
		vf.Assert(*node == *config.MainNetHardforkConfig, "C19.h")
	} else if vfNet == 2 {
		vf.Assert(*node == *config.TestNetHardforkConfig, "C19.h")
	} else {
		vf.Assert(*node == operator, "C19.h")
	}

	// restart with the same configuration file: same verdict
	store2 := store.Reopen()
	_, err2 := vfStart(store2, operator, best2)
	vf.Reach("C19.h.restart")
	// F-C19-1: on a chain DB without a record the configuration is persisted WITHOUT validate(); a non-monotone
	// configuration is accepted by the first start and refused by every later one
	unvalidated := vf.And(kind == 0, !vfMonotone(node))
	vf.AssertKnown((err2 == nil) == (err == nil), "C19.h.restart", "F-C19-1-first-start-persists-unvalidated-hardfork", unvalidated)
	if err2 == nil {
		again := vfReadHF(store2)
		vf.Assert(len(again) == 4, "C19.h.restart")
		vf.Assert(vf.And(vf.And(again["V2"] == node.V2, again["V3"] == node.V3), vf.And(again["V4"] == node.V4, again["V5"] == node.V5)), "C19.h.restart")
	} else {
		vf.Assert(store2.Units == 0, "C19.h.restart")
	}
	vf.Observe("ok", err == nil)
	vf.Observe("ok2", err2 == nil)
}
