package chain

import (
	"bytes"
	"errors"

	"github.com/aergoio/aergo/v2/consensus"
	"github.com/aergoio/aergo/v2/state"
	"github.com/aergoio/aergo/v2/types"
	"github.com/aergoio/aergo/v2/types/message"
	vf "github.com/aergoio/aergo/v2/zzvf"
	lru "github.com/hashicorp/golang-lru"
)

// C07.a: a branch displaces the main chain only if its tip is strictly higher than the best block.
func VF_C07_a() {
	best := vf.U64("best")
	no := vf.U64("blockNo")
	cdb := NewChainDB()
	cdb.latest.Store(types.BlockNo(best))
	cs := &ChainService{Core: &Core{cdb: cdb}}
	blk := &types.Block{Header: &types.BlockHeader{BlockNo: no}, Hash: vf.Bytes("hash", 32)}
	need := cs.needReorg(blk)
	vf.Reach("C07.a")
	vf.Assert(need == (no > best), "C07.a")
	vf.Observe("need", need)
}

// vfRoot: the state root of the i-th block of the universe: concrete, pairwise distinct (state roots are opaque
// identifiers for the index code; block execution is not part of these obligations).
func vfRoot(i int) []byte {
	r := make([]byte, 32)
	r[0] = 0xA0
	r[31] = byte(i + 1)
	return r
}

func vfRootSeq() func(branch string, i int) []byte {
	n := 0
	return func(string, int) []byte { n++; return vfRoot(n) }
}

var vfErrExec = errors.New("vf: block execution failed")

// C07.b (chain side) and C07.d at position 0, through the real ChainService.reorg with nothing replaced:
//   - vetoed by consensus (fork point below the LIB): reorg returns consensus.ErrorConsensus before rollback: no SetRoot,
//     no consensus Update, no block execution, not a single KV write, best block unchanged;
//   - not vetoed: rollback + rollforward run; the real executeBlock rejects the first new block (the consensus stub's
//     IsBlockValid fails), reorg returns that error before swapChain: not a single KV write, indexes and best unchanged.
func VF_C07_b() {
	a, f, b := vfShape(vf.Param("maxA", 2), vf.Param("maxExtra", 1))
	u := vfBuild(a, b, f, vfTxRange(vf.Param("minTx", 0), vf.Param("maxTx", 0)), vfRootSeq())
	u.populate()
	bestRoot := u.mainAt(a).Header.BlocksRootHash
	u.cs.sdb.SetRoot(bestRoot)
	lib := vf.U64("lib")
	u.cc.lib = lib
	u.cc.failAt = 0
	units := u.kv.Units
	top := u.side[b-1]
	vf.Assert(u.cs.needReorg(top), "C07.b")
	err := u.cs.reorg(top, nil)
	vetoed := uint64(f) < lib
	vf.Assert(err != nil, "C07.b")
	_, isCons := err.(consensus.ErrorConsensus)
	vf.Assert(u.cc.needCalls == 1, "C07.b")
	if isCons {
		vf.Reach("C07.b")
		vf.Assert(vetoed, "C07.b")
		vf.Assert(len(u.cc.updates) == 0, "C07.b")
		vf.Assert(len(u.cc.validCalls) == 0, "C07.b")
		vf.Assert(bytes.Equal(u.cs.sdb.GetRoot(), bestRoot), "C07.b")
		vf.Assert(u.kv.Units == units, "C07.b")
		vf.Assert(len(u.log.Msgs) == 0, "C07.b")
		vfCheckChain("C07.b", u.cs, u.kv, u.oldPath())
	} else {
		vf.Reach("C07.d.first")
		vf.Assert(!vetoed, "C07.b")
		vf.Assert(err == vfErrInvalidBlock, "C07.d")
		// rollback went to the fork point, exactly one execution was attempted: the first new block
		vf.Assert(len(u.cc.updates) == 1 && bytes.Equal(u.cc.updates[0].GetHash(), u.mainAt(f).Hash), "C07.d")
		vf.Assert(len(u.cc.validCalls) == 1 && bytes.Equal(u.cc.validCalls[0].GetHash(), u.side[0].Hash), "C07.d")
		vf.Assert(u.kv.Units == units, "C07.d")
		vf.Assert(len(u.log.Msgs) == 0, "C07.d")
		vfCheckChain("C07.d", u.cs, u.kv, u.oldPath())
	}
	vf.Observe("consErr", isCons)
	vf.Observe("units", u.kv.Units)
	if !isCons {
		vf.AssertKnown(bytes.Equal(u.cs.sdb.GetRoot(), bestRoot), "C07.d.root", "F13-failed-reorg-state-root",
			!bytes.Equal(u.mainAt(f).Header.BlocksRootHash, bestRoot))
	}
}

// vfReorgWith runs the body of ChainService.reorg on a reorganizer made by the real newReorganizer whose
// executeBlockFn is replaced by exec (block execution itself is outside these obligations).
func vfReorgWith(cs *ChainService, top *types.Block, exec func(*state.BlockState, *types.Block) error) (*reorganizer, error) {
	reorg, err := newReorganizer(cs, top, nil)
	if err != nil {
		return nil, err
	}
	reorg.executeBlockFn = exec
	if err = reorg.gatherFn(); err != nil {
		return reorg, err
	}
	if reorg.gatherPostFn != nil {
		reorg.gatherPostFn()
	}
	if !cs.NeedReorganization(reorg.brStartBlock.BlockNo()) {
		return reorg, consensus.ErrorConsensus{Msg: "reorganization rejected by consensus"}
	}
	if err = reorg.rollback(); err != nil {
		return reorg, err
	}
	if err = reorg.rollforward(); err != nil {
		return reorg, err
	}
	return reorg, reorg.swapChain()
}

// C07.c / C07.d: rollback, rollforward and swapChain of the real reorganizer with a recording executor.
// success: the executed sequence is exactly the new branch from fork+1 to the tip in ascending order, the first execution
// starts from the fork block's state root, the best block is the side tip, the indexes satisfy the C05 invariant for the new
// branch and the MemPoolPut messages are exactly the txs of abandoned blocks that are in no new block;
// failure at position i: error returned before swapChain, no KV write, indexes and best unchanged.
func VF_C07_c() {
	a, f, b := vfShape(vf.Param("maxA", 2), vf.Param("maxExtra", 1))
	u := vfBuild(a, b, f, vfTxRange(vf.Param("minTx", 1), vf.Param("maxTx", 1)), vfRootSeq())
	u.populate()
	bestRoot := u.mainAt(a).Header.BlocksRootHash
	u.cs.sdb.SetRoot(bestRoot)
	failAt := vf.Choice("failAt", b+1) - 1
	var executed []*types.Block
	var rootAt [][]byte
	exec := func(_ *state.BlockState, blk *types.Block) error {
		n := len(executed)
		executed = append(executed, blk)
		rootAt = append(rootAt, u.cs.sdb.GetRoot())
		if n == failAt {
			return vfErrExec
		}
		// what a successful executeBlock leaves behind for the index code: receipts, state root and consensus status at blk
		vfWriteReceipts(u.cs, blk)
		u.cs.sdb.SetRoot(blk.GetHeader().GetBlocksRootHash())
		u.cs.Update(blk)
		return nil
	}
	units := u.kv.Units
	top := u.side[b-1]
	_, err := vfReorgWith(u.cs, top, exec)
	if failAt < 0 {
		vf.Reach("C07.c")
		vf.Assert(err == nil, "C07.c")
		vf.Assert(vfSameBlocks(executed, u.side), "C07.c")
		vf.Assert(len(rootAt) > 0 && bytes.Equal(rootAt[0], u.mainAt(f).Header.BlocksRootHash), "C07.c")
		for i := 1; i < len(rootAt); i++ {
			vf.Assert(bytes.Equal(rootAt[i], u.side[i-1].Header.BlocksRootHash), "C07.c")
		}
		vf.Assert(len(u.cc.updates) == b+1 && bytes.Equal(u.cc.updates[0].GetHash(), u.mainAt(f).Hash), "C07.c")
		vf.Assert(bytes.Equal(u.cs.sdb.GetRoot(), top.Header.BlocksRootHash), "C07.c")
		vfCheckChain("C07.c", u.cs, u.kv, u.newPath())
		for _, blk := range u.newPath() {
			vfCheckReceipts("C07.c", u.cs, blk)
		}
		vfCheckAbandoned("C07.c", u)
		vfCheckMemPoolPut("C07.c", u)
	} else {
		vf.Reach("C07.d")
		vf.Assert(err == vfErrExec, "C07.d")
		vf.Assert(vfSameBlocks(executed, u.side[:failAt+1]), "C07.d")
		// the only durable writes are the receipts of the new blocks executed before the failing one
		wrote := 0
		for _, blk := range u.side[:failAt] {
			if len(blk.Body.Txs) > 0 {
				wrote++
			}
		}
		vf.Assert(u.kv.Units == units+wrote, "C07.d")
		vf.Assert(len(u.log.Msgs) == 0, "C07.d")
		vfCheckChain("C07.d", u.cs, u.kv, u.oldPath())
	}
	vf.Observe("err", err != nil)
	vf.Observe("executed", len(executed))
	vf.Observe("units", u.kv.Units)
	vf.Observe("best", u.cs.cdb.getBestBlockNo())
	if failAt >= 0 {
		// C05 wants "state root == best block's root" after every history: a failed rollforward leaves it behind
		vf.AssertKnown(bytes.Equal(u.cs.sdb.GetRoot(), bestRoot), "C07.d.root", "F13-failed-reorg-state-root",
			!bytes.Equal(u.mainAt(f).Header.BlocksRootHash, bestRoot))
	}
}

// vfCheckMemPoolPut: the MemPoolPut requests are exactly the old-only txs (one message each), nothing else is sent.
func vfCheckMemPoolPut(ob string, u *vfUniverse) {
	var put [][]byte
	for _, m := range u.log.Msgs {
		vf.Assert(m.To == message.MemPoolSvc && m.Kind == "request", ob)
		p, ok := m.Msg.(*message.MemPoolPut)
		vf.Assert(ok, ob)
		if ok {
			put = append(put, p.Tx.GetHash())
		}
	}
	expected := 0
	for i, tx := range u.txs {
		p := u.txAt[i]
		if p.side || p.no <= u.f {
			continue
		}
		shared := false
		for j, o := range u.txs {
			if u.txAt[j].side {
				shared = vf.Or(shared, bytes.Equal(tx.Hash, o.Hash))
			}
		}
		cnt := 0
		for _, h := range put {
			if bytes.Equal(h, tx.Hash) {
				cnt++
			}
		}
		if cnt == 0 {
			vf.Assert(shared, ob)
		} else {
			vf.Assert(!shared, ob)
			vf.Assert(cnt == 1, ob)
			expected++
		}
	}
	vf.Assert(len(put) == expected, ob)
}

// C07.e: delivery order. The main branch is connected; the blocks of the side branch arrive through the real
// ChainService.addBlock (addBlockInternal, isOrphan/handleOrphan, newChainProcessor, run with resolveOrphan, reorganize)
// in EVERY order, children before parents included. The consensus stub either vetoes every reorganisation or rejects
// every block at execution, so the main chain must never be displaced. Decided: a reorganisation is attempted exactly
// when the connected part of the side branch reaches above the best block (never for an equal or shorter branch, never
// while the branch is still detached), every delivered block ends up stored, the orphan pool ends empty, the only KV
// writes are the b block insertions, the indexes and the best block are unchanged.
func VF_C07_e() {
	a := 1 + vf.Choice("a", vf.Param("maxA", 2))
	f := vf.Choice("f", a)
	b := 1 + vf.Choice("b", a-f+vf.Param("maxExtra", 1)) // side tip from below the best up to maxExtra above it
	u := vfBuild(a, b, f, nil, vfRootSeq())
	if err := u.connect(u.gen); err != nil {
		vf.Fail("setup")
	}
	for _, blk := range u.main {
		if err := u.connect(blk); err != nil {
			vf.Fail("setup")
		}
	}
	u.cs.sdb.SetRoot(u.mainAt(a).Header.BlocksRootHash)
	u.cs.op = NewOrphanPool(DfltOrphanPoolSize)
	u.cs.errBlocks, _ = lru.New(dfltErrBlocks)
	veto := vf.Choice("mode", 2) == 0
	if veto {
		u.cc.lib = uint64(f) + 1
	} else {
		u.cc.rejectAll = true
	}
	units := u.kv.Units
	// delivery order: a permutation of the side branch
	rest := make([]int, b)
	for i := range rest {
		rest[i] = i
	}
	delivered := make([]bool, b)
	stored := make([]bool, b)
	attempts := 0
	for len(rest) > 0 {
		k := vf.Choice("next", len(rest))
		i := rest[k]
		rest = append(append([]int{}, rest[:k]...), rest[k+1:]...)
		delivered[i] = true
		// expected effect: the block is stored if its parent is; then the waiting descendants follow; a reorganisation is
		// attempted iff the last block connected by this delivery is higher than the best block
		attempt := false
		if i == 0 || stored[i-1] {
			last := i
			stored[i] = true
			for last+1 < b && delivered[last+1] {
				last++
				stored[last] = true
			}
			attempt = f+last+1 > a
		}
		if attempt {
			attempts++
		}
		err := u.cs.addBlock(u.side[i], nil, "")
		if attempt && !veto {
			vf.Assert(err != nil, "C07.e")
		} else {
			vf.Assert(err == nil, "C07.e")
		}
		vf.Assert(u.cc.needCalls == attempts, "C07.e")
	}
	vf.Reach("C07.e")
	for i, blk := range u.side {
		vf.Assert(stored[i], "C07.e")
		got, err := u.cs.cdb.getBlock(blk.Hash)
		vf.Assert(err == nil && got != nil, "C07.e")
	}
	vf.Assert(u.cs.op.curCnt == 0 && len(u.cs.op.cache) == 0, "C07.e")
	vf.Assert(u.kv.Units == units+b, "C07.e")
	vf.Assert(len(u.cc.validCalls) == 0 || !veto, "C07.e")
	vfCheckChain("C07.e", u.cs, u.kv, u.oldPath())
	vf.Observe("attempts", attempts)
	vf.Observe("units", u.kv.Units)
}
