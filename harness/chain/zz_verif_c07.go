package chain

import (
	"github.com/aergoio/aergo/v2/types"
	vf "github.com/aergoio/aergo/v2/zzvf"
)

// C07.a: a branch displaces the main chain only if its tip is strictly higher than the best block.
func VF_C07_a() {
	best := vf.U64("best")
	no := vf.U64("blockNo")
	cdb := NewChainDB()
	cdb.latest.Store(types.BlockNo(best))
	cs := &ChainService{Core: &Core{cdb: cdb}}
	blk := &types.Block{Header: &types.BlockHeader{BlockNo: no}, Hash: vf.Bytes("hash", 32)}
	need := cs.needReorg(blk)
	vf.Reach("C07.a")
	vf.Assert(need == (no > best), "C07.a")
	vf.Observe("need", need)
}
