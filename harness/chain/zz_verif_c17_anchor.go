package chain

import (
	"bytes"

	"github.com/aergoio/aergo-lib/db"
	"github.com/aergoio/aergo/v2/types"
	vf "github.com/aergoio/aergo/v2/zzvf"
)

// vfAnchorStore: the block-number index of a complete main chain 0..best as a db.DB of which only Get is used by
// ChainDB.getHashByNo: Get(BlockNoToBytes(no)) = id of block no (an opaque symbolic 32-byte value), nil above best.
type vfAnchorStore struct {
	db.DB
	best   uint64
	asked  []uint64
	hashes [][]byte
}

func (s *vfAnchorStore) Get(key []byte) []byte {
	no := types.BlockNoFromBytes(key)
	if no > s.best {
		return nil
	}
	h := vf.Bytes("blockId", 32)
	s.asked = append(s.asked, no)
	s.hashes = append(s.hashes, h)
	return h
}

// C17.b (anchors): real ChainService.getAnchorsNew with a symbolic best height: the anchors are the ids of the heights
// best, best-16, best-32, ... strictly descending with step 16, the list ends with genesis (height 0) or after 32
// items, and lastNo is the height of the last anchor.
func VF_C17_b_anchors() {
	const ob = "C17.b.anchors"
	best := vf.U64("best")
	vf.Assume(best < 1<<40)
	st := &vfAnchorStore{best: best}
	cdb := NewChainDB()
	cdb.store = st
	cdb.latest.Store(types.BlockNo(best))
	cs := &ChainService{Core: &Core{cdb: cdb}}
	anchors, lastNo, err := cs.getAnchorsNew()
	vf.Reach(ob)
	vf.Assert(err == nil, ob)
	n := len(anchors)
	vf.Assert(n >= 1 && n <= MaxAnchors, ob)
	vf.Assert(len(st.asked) == n, ob)
	for i := 0; i < n && i < len(st.asked); i++ {
		vf.Assert(bytes.Equal(anchors[i], st.hashes[i]), ob) // anchor i is the id of height asked[i]
		if i == 0 {
			vf.Assert(st.asked[0] == best, ob)
		} else {
			prev, cur := st.asked[i-1], st.asked[i]
			vf.Assert(cur < prev, ob) // strictly descending
			vf.Assert(vf.Or(vf.And(prev >= Skip, cur == prev-Skip), vf.And(prev < Skip, cur == 0)), ob)
		}
	}
	if n >= 1 && len(st.asked) == n {
		vf.Assert(lastNo == st.asked[n-1], ob)
		// ends at genesis unless the maximum number of anchors was reached
		vf.Assert(vf.Or(st.asked[n-1] == 0, n == MaxAnchors), ob)
	}
	vf.Observe("n", n)
	vf.Observe("last", lastNo)
}
