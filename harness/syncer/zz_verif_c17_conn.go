package syncer

import (
	"bytes"

	"github.com/aergoio/aergo/v2/types"
	"github.com/aergoio/aergo/v2/types/message"
	vf "github.com/aergoio/aergo/v2/zzvf"
)

// ---------------------------------------------------------------------------------------------------------------
// C17.c — connect order. Real newBlockFetcher / NewBlockProcessor / PeerSet / runTask / BlockProcessor.run
// (GetBlockChunkRsp -> isValidResponse, findFinished, pushFreePeer, setMaxChunkRsp, addConnectTask, pushToConnQueue,
// popFromConnQueue, getNextBlockToConnect, connectBlock; AddBlockResponse -> ... stopSyncer) driven by a message
// sequence: the chunk responses of the running fetch tasks arrive in ANY order, interleaved in ANY way with the chain
// service's acknowledgements of the AddBlock requests. Block numbers and parent hashes inside the responses are
// symbolic (a peer may send anything under the requested ids).
// ---------------------------------------------------------------------------------------------------------------

// chunk layouts (sizes of the fetch tasks, in height order)
var vfC17Layouts = [][]int{{1}, {2}, {1, 1}, {1, 2}, {2, 1}, {2, 2}, {1, 1, 1}, {1, 2, 1}, {2, 1, 1}, {1, 1, 2}, {3, 1}, {1, 3}}

type vfC17Blk struct {
	chunk, idx int
}

func VF_C17_c() {
	const ob = "C17.c"
	lo, hi := vf.Param("layoutLo", 0), vf.Param("layoutHi", 3)
	layout := vfC17Layouts[lo+vf.Choice("layout", hi-lo+1)]
	total := 0
	for _, n := range layout {
		total += n
	}
	a := vf.U64("ancestorNo")
	vf.Assume(a < 1<<62)
	ancestor := &types.Block{Header: &types.BlockHeader{BlockNo: a}, Hash: vf.Bytes("ancestorHash", 32)}
	target := a + uint64(total)
	hub := &vf.Hub{}
	ctx := &types.SyncContext{Seq: vf.U64("seq"), PeerID: types.PeerID("peer"), CommonAncestor: ancestor, TargetNo: target, BestNo: a}
	bf := newBlockFetcher(ctx, hub, SyncerCfg)
	bproc := bf.blockProcessor

	// the ids announced by the hash fetcher for heights a+1 .. a+total (pairwise distinct: collision freedom)
	ids := make([]message.BlockHash, total)
	for i := range ids {
		ids[i] = vf.Bytes("id", 32)
		for j := 0; j < i; j++ {
			vf.Assume(!bytes.Equal(ids[i], ids[j]))
		}
	}
	// one running fetch task per chunk, each on its own peer (real PeerSet / runTask)
	type chunkT struct {
		peer   types.PeerID
		blocks []*types.Block
	}
	chunks := make([]chunkT, len(layout))
	where := map[*types.Block]vfC17Blk{}
	start := 0
	for k, n := range layout {
		pid := types.PeerID([]byte{'p', byte('0' + k)})
		bf.peers.addNew(pid)
		peer, err := bf.popFreePeer()
		vf.Assert(err == nil, ob)
		bf.runTask(&FetchTask{count: n, hashes: ids[start : start+n], startNo: a + 1 + uint64(start)}, peer)
		// the peer's answer: the requested ids, but ANY block number and ANY parent hash in the headers
		blocks := make([]*types.Block, n)
		for i := range blocks {
			blocks[i] = &types.Block{
				Hash:   ids[start+i],
				Header: &types.BlockHeader{BlockNo: vf.U64("blockNo"), PrevBlockHash: vf.Bytes("prevHash", 32)},
			}
			where[blocks[i]] = vfC17Blk{k, i}
		}
		chunks[k] = chunkT{pid, blocks}
		start += n
	}

	delivered := []*types.Block{} // blocks handed to the chain service (AddBlock requests), in order
	hub.OnRequest = func(to string, msg interface{}) {
		if ab, ok := msg.(*message.AddBlock); ok && to == message.ChainSvc {
			vf.Assert(ab.IsSync, ob)
			delivered = append(delivered, ab.Block)
		}
	}
	stops := 0
	hub.OnTell = func(to string, msg interface{}) {
		if st, ok := msg.(*message.SyncStop); ok && to == message.SyncerSvc {
			vf.Assert(st.Err == nil, ob)
			vf.Assert(st.Seq == ctx.Seq, ob)
			stops++
		}
	}

	pending := make([]int, len(layout))
	for k := range pending {
		pending[k] = k
	}
	acked := 0
	failed := false
	for !failed && stops == 0 {
		outstanding := len(delivered) > acked
		nopt := len(pending)
		if outstanding {
			nopt++
		}
		if nopt == 0 {
			break
		}
		ev := vf.Choice("event", nopt)
		var err error
		if ev < len(pending) {
			k := pending[ev]
			pending = append(append([]int{}, pending[:ev]...), pending[ev+1:]...)
			err = bproc.run(&message.GetBlockChunksRsp{Seq: ctx.Seq, ToWhom: chunks[k].peer, Blocks: chunks[k].blocks})
		} else {
			cur := delivered[acked]
			acked++
			err = bproc.run(&message.AddBlockRsp{BlockNo: cur.BlockNo(), BlockHash: cur.GetHash()})
			vf.Assert(err == nil, ob) // an honest acknowledgement is always accepted
		}
		if err != nil {
			failed = true // BlockFetcher stops the session with this error
		}
		// never two unacknowledged AddBlock requests
		vf.Assert(len(delivered)-acked <= 1, ob)
	}
	vf.Reach(ob)

	// ---- the delivered sequence
	consecutive := true // inside every chunk the header numbers are firstNo, firstNo+1, ...
	for _, c := range chunks {
		for i := 1; i < len(c.blocks); i++ {
			consecutive = vf.And(consecutive, c.blocks[i].BlockNo() == c.blocks[i-1].BlockNo()+1)
		}
	}
	seen := map[*types.Block]bool{}
	prev := ancestor
	for j, b := range delivered {
		w, known := where[b]
		vf.Assert(known, ob)
		vf.Assert(!seen[b], ob) // no duplicate
		seen[b] = true
		if w.idx == 0 {
			// a chunk is started only if its first block claims the next height
			vf.Assert(b.BlockNo() == prev.BlockNo()+1, ob)
		} else {
			// inside a chunk: delivered right after its predecessor and hash-linked to it
			pw := where[prev]
			vf.Assert(j > 0 && pw.chunk == w.chunk && pw.idx == w.idx-1, ob)
			vf.Assert(bytes.Equal(b.GetHeader().GetPrevBlockHash(), prev.GetHash()), ob)
		}
		prev = b
	}
	// completion: stop is requested (once, without error) exactly when the block with the target height is acknowledged
	reached := 0
	for j := 0; j < acked; j++ {
		if delivered[j].BlockNo() == target {
			reached++
		}
	}
	vf.Assert(stops == reached, ob)
	vf.Assert(vf.Implies(consecutive, stops <= 1), ob)
	if !failed && stops == 0 {
		// nothing left to feed: every fetched chunk that continues the chain has been connected
		vf.Assert(len(delivered) == acked, ob)
	}
	if stops == 1 {
		vf.Assert(vf.Implies(consecutive, acked == total), ob)
	}
	// completeness: if every peer answered truthfully (expected heights, blocks hash-linked inside the chunk), then
	// whatever the arrival order all blocks are connected and the session is completed exactly once
	honest := true
	g := 0
	for _, c := range chunks {
		for i, b := range c.blocks {
			honest = vf.And(honest, b.BlockNo() == a+1+uint64(g))
			if i > 0 {
				honest = vf.And(honest, bytes.Equal(b.GetHeader().GetPrevBlockHash(), c.blocks[i-1].GetHash()))
			}
			g++
		}
	}
	vf.Assert(vf.Implies(honest, !failed), ob)
	vf.Assert(vf.Implies(honest, acked == total), ob)
	vf.Assert(vf.Implies(honest, stops == 1), ob)
	vf.Observe("delivered", len(delivered))
	vf.Observe("acked", acked)
	vf.Observe("stops", stops)
	vf.Observe("failed", failed)

	// ---- the two parts of the property that the syncer itself does not enforce (checked last: the engine continues
	// under the asserted condition)
	prev = ancestor
	for j, b := range delivered {
		// heights ancestor+1, +2, ... without gap or duplicate — holds iff the numbers inside the chunks are consecutive,
		// which nothing checks
		vf.AssertKnown(b.BlockNo() == a+1+uint64(j), ob, "F17-chunk-heights-unchecked", !consecutive)
		prev = b
	}
	prev = ancestor
	for _, b := range delivered {
		if where[b].idx == 0 {
			// the parent hash of a chunk's first block is NOT compared with the previously connected block
			vf.AssertKnown(bytes.Equal(b.GetHeader().GetPrevBlockHash(), prev.GetHash()), ob, "F17-chunk-boundary-unlinked", where[b].idx == 0)
		}
		prev = b
	}
}
