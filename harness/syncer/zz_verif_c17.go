package syncer

import (
	"bytes"
	"errors"
	"math/big"
	"time"

	"github.com/aergoio/aergo/v2/types"
	"github.com/aergoio/aergo/v2/types/message"
	vf "github.com/aergoio/aergo/v2/zzvf"
)

// ---------------------------------------------------------------------------------------------------------------
// C17 — block sync. Real code: Finder.binarySearch / hasSameHash / fullscan / getAncestor (syncer/finder.go),
// BlockProcessor + BlockFetcher bookkeeping (syncer/blockprocessor.go, blockfetcher.go), Syncer.verifySeq.
// The actor hub is zzvf.Hub (records, answers synchronously); channels are buffered FIFOs; timers never fire.
// Timeouts, retries on silence, goroutine schedules and deadlock freedom are NOT decided here.
// ---------------------------------------------------------------------------------------------------------------

// vfChain: the local chain as seen by the finder (types.ChainAccessor). Block hashes are opaque symbolic ids.
type vfChain struct {
	best   uint64
	asked  []uint64
	hashes [][]byte
}

var errVfNoBlock = errors.New("vf: no such block")

func (c *vfChain) GetHashByNo(no types.BlockNo) ([]byte, error) {
	if no > c.best {
		return nil, errVfNoBlock
	}
	again := false
	for _, prev := range c.asked {
		again = vf.Or(again, prev == no)
	}
	vf.Assert(!again, "C17.a")            // a height is never probed twice (the search interval strictly shrinks)
	vf.Assert(len(c.asked) < 70, "C17.a") // and the search terminates: at most 64 probes for any range
	if again || len(c.asked) >= 70 {
		return nil, errVfNoBlock // (keeps a non-terminating search finite in the native replay)
	}
	h := vf.Bytes("localHash", 32)
	c.asked = append(c.asked, no)
	c.hashes = append(c.hashes, h)
	return h, nil
}
func (c *vfChain) GetGenesisInfo() *types.Genesis                         { return nil }
func (c *vfChain) GetConsensusInfo() string                               { return "" }
func (c *vfChain) GetBestBlock() (*types.Block, error)                    { return nil, errVfNoBlock }
func (c *vfChain) GetBlock(blockHash []byte) (*types.Block, error)        { return nil, errVfNoBlock }
func (c *vfChain) GetChainStats() string                                  { return "" }
func (c *vfChain) GetSystemValue(key types.SystemValue) (*big.Int, error) { return nil, errVfNoBlock }
func (c *vfChain) GetEnterpriseConfig(string) (*types.EnterpriseConfig, error) {
	return nil, errVfNoBlock
}
func (c *vfChain) ChainID(bno types.BlockNo) *types.ChainID  { return nil }
func (c *vfChain) HardforkHeights() map[string]types.BlockNo { return nil }

// vfFinder: a Finder literal whose remote peer shares exactly the blocks 0..f of the local chain (shared=false:
// shares nothing, not even genesis). The peer's answer to GetHashByNo is delivered synchronously into the (buffered)
// response channel, so the real hasSameHash receives it in its select.
func vfFinder(ch *vfChain, shared bool, f uint64) (*Finder, *vf.Hub) {
	hub := &vf.Hub{}
	finder := &Finder{
		compRequester: hub,
		chain:         ch,
		fScanCh:       make(chan *message.GetHashByNoRsp, 1),
		lScanCh:       make(chan *types.BlockInfo, 2),
		quitCh:        make(chan interface{}),
		dfltTimeout:   time.Hour,
		cfg:           &SyncerConfig{},
		ctx:           types.SyncContext{Seq: vf.U64("seq"), PeerID: types.PeerID("peer")},
	}
	hub.OnTell = func(to string, msg interface{}) {
		q, ok := msg.(*message.GetHashByNo)
		if !ok {
			return
		}
		local := ch.hashes[len(ch.hashes)-1] // hash of the height the finder is asking about
		remote := append([]byte(nil), local...)
		if !shared || q.BlockNo > f {
			remote[0] ^= 0xff // a different block at that height
		}
		finder.fScanCh <- &message.GetHashByNoRsp{Seq: q.Seq, BlockHash: remote}
	}
	return finder, hub
}

// C17.a: binarySearch(0, R) returns the highest shared block within [0,R], nil iff nothing is shared, and never a
// block the remote chain lacks.
func VF_C17_a() {
	const ob = "C17.a"
	maxR := uint64(vf.Param("maxR", 16))
	R := vf.U64("R")
	vf.Assume(R <= maxR)
	best := vf.U64("best")
	vf.Assume(best >= R)
	vf.Assume(best < 1<<40)
	shared := vf.Bool("shared")
	f := vf.U64("f")
	ch := &vfChain{best: best}
	finder, hub := vfFinder(ch, shared, f)
	res, err := finder.binarySearch(0, R)
	vf.Reach(ob)
	vf.Assert(err == nil, ob)
	if !shared {
		vf.Assert(res == nil, ob)
	} else {
		vf.Assert(res != nil, ob)
		if res != nil {
			// the highest shared block of the range: min(f, R)
			vf.Assert(vf.Or(vf.And(f <= R, res.No == f), vf.And(f > R, res.No == R)), ob)
			vf.Assert(res.No <= f, ob) // never a block the remote chain lacks
			// and it carries the local hash of that height
			ok := false
			for i, no := range ch.asked {
				ok = vf.Or(ok, vf.And(no == res.No, bytes.Equal(ch.hashes[i], res.Hash)))
			}
			vf.Assert(ok, ob)
		}
	}
	// every probe is inside the range and no height is probed twice
	for i, no := range ch.asked {
		vf.Assert(no <= R, ob)
		for j := 0; j < i; j++ {
			vf.Assert(ch.asked[j] != no, ob)
		}
	}
	vf.Assert(hub.Count("tell", message.P2PSvc) == len(ch.asked), ob)
	vf.Observe("found", res != nil)
	vf.Observe("probes", len(ch.asked))
	if res != nil {
		vf.Observe("no", res.No)
	}
}

// C17.a (fullscan): fullscan searches [0, LastAnchor-1]; with LastAnchor = 0 the bound underflows to 2^64-1. It must
// still not return a wrong ancestor: error, nil, or a block the remote really shares.
func VF_C17_a_fullscan() {
	const ob = "C17.a.fullscan"
	last := vf.U64("lastAnchor")
	vf.Assume(last <= uint64(vf.Param("maxR", 16)))
	best := vf.U64("best")
	vf.Assume(best < 1<<40)
	vf.Assume(vf.Or(last == 0, best >= last-1))
	shared := vf.Bool("shared")
	f := vf.U64("f")
	ch := &vfChain{best: best}
	finder, _ := vfFinder(ch, shared, f)
	finder.ctx.LastAnchor = last
	res, err := finder.fullscan()
	vf.Reach(ob)
	if err == nil && res != nil {
		vf.Assert(shared, ob)
		vf.Assert(res.No <= f, ob)
		vf.Assert(res.No <= best, ob)
	}
	if last > 0 {
		vf.Assert(err == nil, ob)
		vf.Assert((res != nil) == shared, ob)
		if res != nil {
			vf.Assert(vf.Or(vf.And(f <= last-1, res.No == f), vf.And(f > last-1, res.No == last-1)), ob)
		}
	}
	vf.Observe("found", res != nil)
	vf.Observe("err", err != nil)
}

// C17.b (response filter): getAncestor hands back a light-scan answer only if it is not below the last anchor sent
// (result.No >= LastAnchor) or is the explicit "no common anchor" answer (nil); anything else is dropped.
func VF_C17_b_ancestor() {
	const ob = "C17.b.ancestor"
	ch := &vfChain{best: 0}
	finder, hub := vfFinder(ch, true, 0)
	finder.ctx.LastAnchor = vf.U64("lastAnchor")
	first := &types.BlockInfo{Hash: vf.Bytes("ancHash", 32), No: vf.U64("ancNo")}
	hub.OnTell = func(to string, msg interface{}) {
		if _, ok := msg.(*message.GetSyncAncestor); ok {
			finder.lScanCh <- first // the peer's answer
			finder.lScanCh <- nil   // then: "no common anchor"
		}
	}
	res, err := finder.getAncestor([][]byte{vf.Bytes("anchor", 32)})
	vf.Reach(ob)
	vf.Assert(err == nil, ob)
	vf.Assert((res == first) == (first.No >= finder.ctx.LastAnchor), ob)
	if res != first {
		vf.Assert(res == nil, ob)
	}
	if res != nil {
		vf.Assert(res.No >= finder.ctx.LastAnchor, ob)
	}
	vf.Observe("accepted", res == first)
}

// C17.d: Syncer.verifySeq drops exactly the session-stamped messages whose Seq differs from the current session.
func VF_C17_d() {
	const ob = "C17.d"
	cur, seq := vf.U64("cur"), vf.U64("seq")
	s := &Syncer{Seq: cur}
	var msg interface{}
	stamped := true
	switch vf.Choice("kind", 10) {
	case 0:
		msg = &message.GetAnchorsRsp{Seq: seq}
	case 1:
		msg = &message.GetSyncAncestorRsp{Seq: seq}
	case 2:
		msg = &message.FinderResult{Seq: seq}
	case 3:
		msg = &message.GetHashesRsp{Seq: seq}
	case 4:
		msg = &message.GetHashByNoRsp{Seq: seq}
	case 5:
		msg = &message.GetBlockChunksRsp{Seq: seq}
	case 6:
		msg = &message.SyncStop{Seq: seq}
	case 7:
		msg = &message.CloseFetcher{Seq: seq}
	case 8:
		msg, stamped = &message.SyncStart{}, false
	case 9:
		msg, stamped = &message.AddBlockRsp{}, false // carries no session number: never filtered here
	}
	ok := s.verifySeq(msg)
	vf.Reach(ob)
	if stamped {
		vf.Assert(ok == (seq == cur), ob)
	} else {
		vf.Assert(ok, ob)
	}
	vf.Observe("ok", ok)
}
