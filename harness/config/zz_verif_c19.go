package config

import (
	"github.com/aergoio/aergo/v2/types"
	vf "github.com/aergoio/aergo/v2/zzvf"
)

func vfHardfork(tag string) *HardforkConfig {
	return &HardforkConfig{
		V2: types.BlockNo(vf.U64(tag + ".V2")),
		V3: types.BlockNo(vf.U64(tag + ".V3")),
		V4: types.BlockNo(vf.U64(tag + ".V4")),
		V5: types.BlockNo(vf.U64(tag + ".V5")),
	}
}

// vfSpecVersion is the specification of Version: the highest i in 2..5 with Vi <= h, else 0.
func vfSpecVersion(c *HardforkConfig, h types.BlockNo) int32 {
	v := int32(0)
	hs := [4]types.BlockNo{c.V2, c.V3, c.V4, c.V5}
	for i := 0; i < 4; i++ {
		if hs[i] <= h {
			v = int32(i + 2)
		}
	}
	return v
}

// C19.g (version): the real HardforkConfig.Version (reflection over the struct fields) equals max{i : Vi <= h} (or 0) for
// every configuration and height, is monotone in the height, validate() accepts exactly the non-decreasing
// configurations, and for those IsVkFork(h) <=> Version(h) >= k.
func VF_C19_g_version() {
	c := vfHardfork("c")
	h1 := types.BlockNo(vf.U64("h1"))
	h2 := types.BlockNo(vf.U64("h2"))
	vf.Assume(h1 <= h2)
	v1 := c.Version(h1)
	v2 := c.Version(h2)
	vf.Reach("C19.g.version")
	vf.Assert(v1 == vfSpecVersion(c, h1), "C19.g.version")
	vf.Assert(v2 == vfSpecVersion(c, h2), "C19.g.version")
	vf.Assert(v1 <= v2, "C19.g.version")
	vf.Assert(vf.Or(v1 == 0, vf.And(v1 >= 2, v1 <= 5)), "C19.g.version")
	valid := c.validate() == nil
	nonDecreasing := vf.And(c.V2 <= c.V3, vf.And(c.V3 <= c.V4, c.V4 <= c.V5))
	vf.Assert(valid == nonDecreasing, "C19.g.validate")
	if valid {
		vf.Assert(c.IsV2Fork(h1) == (v1 >= 2), "C19.g.version")
		vf.Assert(c.IsV3Fork(h1) == (v1 >= 3), "C19.g.version")
		vf.Assert(c.IsV4Fork(h1) == (v1 >= 4), "C19.g.version")
		vf.Assert(c.IsV5Fork(h1) == (v1 >= 5), "C19.g.version")
	}
	vf.Observe("v1", v1)
	vf.Observe("v2", v2)
	vf.Observe("valid", valid)
}

// C19.g (compatibility, "stable across restarts"): CheckCompatibility(dbCfg, h) == nil for the configuration stored
// in the chain db (the four keys V2..V5, optionally a key of a newer version V6) and the latest block h implies that
// the node's configuration is valid and assigns the SAME version as the stored one to every height up to h, and that
// a fork the node does not know (V6) is not yet active at h. Conversely equal configurations are compatible.
func VF_C19_g_compat() {
	c := vfHardfork("c")
	d := vfHardfork("db")
	h := types.BlockNo(vf.U64("h"))
	db := HardforkDbConfig{"V2": d.V2, "V3": d.V3, "V4": d.V4, "V5": d.V5}
	withV6 := vf.Choice("withV6", 2) == 1
	var v6 types.BlockNo
	if withV6 {
		v6 = types.BlockNo(vf.U64("db.V6"))
		db["V6"] = v6
	}
	err := c.CheckCompatibility(db, h)
	vf.Reach("C19.g.compat")
	hh := types.BlockNo(vf.U64("hh"))
	vf.Assume(hh <= h)
	if err == nil {
		vf.Assert(c.validate() == nil, "C19.g.compat")
		vf.Assert(c.Version(hh) == d.Version(hh), "C19.g.compat")
		if withV6 {
			vf.Assert(v6 > h, "C19.g.compat")
		}
	}
	same := vf.And(vf.And(c.V2 == d.V2, c.V3 == d.V3), vf.And(c.V4 == d.V4, c.V5 == d.V5))
	if c.validate() == nil {
		if !withV6 {
			if err != nil {
				vf.Assert(!same, "C19.g.compat") // identical valid configurations are never refused
			}
		}
	}
	vf.Observe("ok", err == nil)
}
