package statedb

import (
	"bytes"

	"github.com/aergoio/aergo/v2/internal/common"
	"github.com/aergoio/aergo/v2/types"
	vf "github.com/aergoio/aergo/v2/zzvf"
)

// ---------------------------------------------------------------------------------------------
// C12 — state snapshots. Harness-side model: the buffer is the ordered list of surviving puts.
// ---------------------------------------------------------------------------------------------

// vfEnt is one logical put: key, value bytes, or a delete marker (value nil).
type vfEnt struct {
	k   types.HashID
	v   []byte
	del bool
}

func vfKey(tag string) types.HashID { return types.ToHashID(vf.Bytes(tag, 32)) }

// vfNondetEnts returns n puts with symbolic 32-byte keys (the solver decides which coincide) and symbolic values.
// If dels is set each put may also be a delete entry (shape decided by a symbolic bool => fork).
func vfNondetEnts(n int, dels bool) []vfEnt {
	es := make([]vfEnt, n)
	for i := range es {
		es[i].k = vfKey("key")
		es[i].v = vf.Bytes("val", 1)
		if dels {
			es[i].del = vf.Bool("del")
		}
	}
	return es
}

func vfMkEntry(e vfEnt) entry {
	if e.del {
		return newValueEntryDelete(e.k)
	}
	return newValueEntry(e.k, e.v)
}

// vfBuild constructs, WITHOUT the operations under test, the unique representation the invariant allows for the
// logical content es: entries[i] = es[i]; indexes[k] = increasing list of all i with es[i].k == k; nextIdx = len.
func vfBuild(es []vfEnt) *stateBuffer {
	b := &stateBuffer{entries: []entry{}, indexes: bufferIndex{}, nextIdx: len(es)}
	for i, e := range es {
		b.entries = append(b.entries, vfMkEntry(e))
		st := b.indexes[e.k]
		if st == nil {
			st = &stack{}
			b.indexes[e.k] = st
		}
		*st = append(*st, i)
	}
	return b
}

// vfSame decides once (forking) whether two keys coincide; harness code then works with the concrete answers.
type vfEq struct {
	keys []types.HashID
	m    [][]bool
}

func vfDecideEq(keys []types.HashID) *vfEq {
	q := &vfEq{keys: keys, m: make([][]bool, len(keys))}
	for i := range keys {
		q.m[i] = make([]bool, len(keys))
		q.m[i][i] = true
		for j := 0; j < i; j++ {
			// transitivity: if j is a duplicate of an earlier key d the answer is that of d
			done := false
			for d := 0; d < j; d++ {
				if q.m[j][d] {
					q.m[i][j], q.m[j][i] = q.m[i][d], q.m[d][i]
					done = true
					break
				}
			}
			if done {
				continue
			}
			if keys[i] == keys[j] {
				q.m[i][j], q.m[j][i] = true, true
			}
		}
	}
	return q
}

// vfInv asserts that b is exactly the representation of the logical content es[idx[0]], es[idx[1]], ...
// (representation invariant, complete: every field of stateBuffer is determined). eq is the decided key-equality
// matrix over es.
func vfInv(b *stateBuffer, es []vfEnt, idx []int, eq *vfEq, ob string) {
	n := len(idx)
	vf.Assert(b.nextIdx == n, ob)
	vf.Assert(len(b.entries) == n, ob)
	if len(b.entries) != n {
		return
	}
	for i, x := range idx {
		e := es[x]
		et := b.entries[i]
		vf.Assert(et != nil, ob)
		if et == nil {
			return
		}
		vf.Assert(et.KeyID() == e.k, ob)
		val := et.Value()
		if e.del {
			vf.Assert(val == nil, ob)
		} else {
			bs, ok := val.([]byte)
			vf.Assert(ok, ob)
			vf.Assert(bytes.Equal(bs, e.v), ob)
		}
	}
	distinct := 0
	for i, x := range idx {
		var exp []int
		first := true
		for j, y := range idx {
			if eq.m[x][y] {
				if j < i {
					first = false
				}
				exp = append(exp, j)
			}
		}
		if !first {
			continue
		}
		distinct++
		st, ok := b.indexes[es[x].k]
		vf.Assert(ok, ob)
		if !ok || st == nil {
			vf.Assert(st != nil, ob)
			return
		}
		vf.Assert(len(*st) == len(exp), ob)
		if len(*st) != len(exp) {
			return
		}
		for k := range exp {
			vf.Assert((*st)[k] == exp[k], ob)
		}
	}
	vf.Assert(len(b.indexes) == distinct, ob)
}

// vfModelGet: position in idx of the last put of key number q, or -1.
func vfModelGet(idx []int, eq *vfEq, q int) int {
	r := -1
	for i, x := range idx {
		if eq.m[x][q] {
			r = i
		}
	}
	return r
}

// vfCheckGet compares the real get/has for key number q with the model.
func vfCheckGet(b *stateBuffer, es []vfEnt, idx []int, eq *vfEq, q int, ob string) {
	m := vfModelGet(idx, eq, q)
	qk := eq.keys[q]
	et := b.get(qk)
	has := b.has(qk)
	if m < 0 {
		vf.Assert(et == nil, ob)
		vf.Assert(!has, ob)
		return
	}
	vf.Assert(has, ob)
	vf.Assert(et != nil, ob)
	if et == nil {
		return
	}
	vf.Assert(et.KeyID() == qk, ob)
	e := es[idx[m]]
	if e.del {
		vf.Assert(et.Value() == nil, ob)
	} else {
		bs, ok := et.Value().([]byte)
		vf.Assert(ok, ob)
		vf.Assert(bytes.Equal(bs, e.v), ob)
	}
}

// vfCheckExport: export() yields exactly the latest surviving entry per key, strictly ascending by key,
// value = hash of the value bytes ([]byte{0} for a delete entry).
func vfCheckExport(b *stateBuffer, es []vfEnt, idx []int, eq *vfEq, ob string) {
	keys, vals := b.export()
	vf.Assert(len(keys) == len(vals), ob)
	var reps []int // position of the last put of every distinct key
	for i, x := range idx {
		last := true
		for j := i + 1; j < len(idx); j++ {
			if eq.m[x][idx[j]] {
				last = false
			}
		}
		if last {
			reps = append(reps, i)
		}
	}
	vf.Assert(len(keys) == len(reps), ob)
	if len(keys) != len(reps) || len(keys) != len(vals) {
		return
	}
	for x := range keys {
		if x > 0 {
			vf.Assert(bytes.Compare(keys[x-1], keys[x]) < 0, ob)
		}
		// the exported key is one of the distinct keys (strictly ascending + same count => each exactly once)
		// and carries the hash of that key's latest value
		okAny := false
		for _, r := range reps {
			e := es[idx[r]]
			var h []byte
			if e.del {
				h = []byte{0}
			} else {
				h = common.Hasher(e.v)
			}
			okAny = vf.Or(okAny, vf.And(bytes.Equal(keys[x], e.k[:]), bytes.Equal(vals[x], h)))
		}
		vf.Assert(okAny, ob)
	}
}

func vfRange(n int) []int {
	r := make([]int, n)
	for i := range r {
		r[i] = i
	}
	return r
}

// vfC12a: inductive step of stateBuffer. Arbitrary pre-state satisfying the representation invariant with
// n <= maxN entries (symbolic keys/values), ONE operation, assert invariant + post-condition.
// Key numbering: 0..n-1 the pre-state entries, n the entry put by the operation (if any), last the queried key.
func vfC12a(op int) {
	maxN := vf.Param("maxN", 3)
	dels := vf.Param("dels", 0) != 0
	n := vf.Choice("n", maxN+1)
	es := vfNondetEnts(n, dels)
	withPut := op == 0 || op == 5
	if withPut {
		es = append(es, vfNondetEnts(1, dels)...)
	}
	keys := make([]types.HashID, 0, len(es)+1)
	for _, e := range es {
		keys = append(keys, e.k)
	}
	keys = append(keys, vfKey("q"))
	q := len(keys) - 1
	eq := vfDecideEq(keys)
	b := vfBuild(es[:n])
	pre := vfRange(n)
	switch op {
	case 0: // put
		snap := b.snapshot()
		b.put(vfMkEntry(es[n]))
		vf.Reach("C12.a.put")
		vf.Assert(snap == n, "C12.a.put")
		vfInv(b, es, vfRange(n+1), eq, "C12.a.put")
		vfCheckGet(b, es, vfRange(n+1), eq, q, "C12.a.put")
	case 1: // rollback to any revision 0..n (a revision returned by snapshot() and not invalidated since)
		r := vf.Choice("rev", n+1)
		err := b.rollback(r)
		vf.Reach("C12.a.rollback")
		vf.Assert(err == nil, "C12.a.rollback")
		vfInv(b, es, pre[:r], eq, "C12.a.rollback")
		vfCheckGet(b, es, pre[:r], eq, q, "C12.a.rollback")
	case 2: // get / has / snapshot / isEmpty leave the state unchanged and agree with the model
		vf.Reach("C12.a.get")
		vfCheckGet(b, es, pre, eq, q, "C12.a.get")
		vf.Assert(b.snapshot() == n, "C12.a.get")
		vf.Assert(b.isEmpty() == (n == 0), "C12.a.get")
		vfInv(b, es, pre, eq, "C12.a.get")
	case 3: // reset
		err := b.reset()
		vf.Reach("C12.a.reset")
		vf.Assert(err == nil, "C12.a.reset")
		vfInv(b, es, nil, eq, "C12.a.reset")
		vfCheckGet(b, es, nil, eq, q, "C12.a.reset")
	case 4: // export: exactly the latest surviving entry per key, sorted; state unchanged
		for _, e := range es {
			// HashID.Bytes() of the all-zero id is nil: PutState refuses the empty account id, storage keys are hash outputs
			vf.Assume(e.k != types.HashID{})
		}
		vf.Reach("C12.a.export")
		vfCheckExport(b, es, pre, eq, "C12.a.export")
		vfInv(b, es, pre, eq, "C12.a.export")
	case 5: // rollback then put (the re-used tail of the entries array must not leak old entries)
		r := vf.Choice("rev", n+1)
		b.rollback(r)
		b.put(vfMkEntry(es[n]))
		post := append(append([]int{}, pre[:r]...), n)
		vf.Reach("C12.a.rbput")
		vfInv(b, es, post, eq, "C12.a.rbput")
		vfCheckGet(b, es, post, eq, q, "C12.a.rbput")
	}
	vf.Observe("nextIdx", b.nextIdx)
	vf.Observe("nkeys", len(b.indexes))
}

func VF_C12_a_put()      { vfC12a(0) }
func VF_C12_a_rollback() { vfC12a(1) }
func VF_C12_a_get()      { vfC12a(2) }
func VF_C12_a_reset()    { vfC12a(3) }
func VF_C12_a_export()   { vfC12a(4) }
func VF_C12_a_rbput()    { vfC12a(5) }
