package statedb

import (
	"bytes"
	"encoding/binary"

	"github.com/aergoio/aergo/v2/internal/common"
	"github.com/aergoio/aergo/v2/internal/enc/proto"
	"github.com/aergoio/aergo/v2/pkg/trie"
	"github.com/aergoio/aergo/v2/types"
	vf "github.com/aergoio/aergo/v2/zzvf"
)

// ---------------------------------------------------------------------------------------------
// C11 through the state API: StateDB.GetAccountAndProof / GetVarAndProof (completeness + root binding).
// History: block 1 writes account A (and, by choice, account B) and commits => root1; block 2 rewrites A (and, by
// choice, writes B) and commits => root2. A fresh StateDB over the same store at the head root (what the chain service
// uses to answer rpc queries) is asked for the proof of A under root1 and under root2, plain or compressed.
//   .value     the proof produced FOR root r carries the state stored under r
//   .complete  it is accepted by the real verifier against r (the light client's procedure: hash the returned state,
//              VerifyInclusion / VerifyInclusionC of (id, hash) against r)
//   .bind      it is not accepted against the other root unless the two states are equal
//   .absent    a further account that was never written gets a non-inclusion proof that the real verifier accepts
// Account ids are symbolic in key bits 0,1 (every relative position of the leaves down to depth 2), states are
// symbolic (nonce, 4 balance bytes). The store is the vf.KV model.
//
// Stub (engine side only, named in the props): the protobuf codec of *types.State (internal/enc/proto.Encode/Decode)
// is replaced by a fixed-size injective encoding nonce(8) || balance(4); the native replay uses the real protobuf
// codec, which is injective on these states as well. Nothing in the verdict depends on the encoded bytes other than
// through equality.
// ---------------------------------------------------------------------------------------------

func vfC11Encode(m proto.Message) ([]byte, error) {
	st, ok := m.(*types.State)
	if !ok {
		panic("vfC11Encode: only *types.State is modelled")
	}
	out := make([]byte, 12)
	binary.BigEndian.PutUint64(out, st.Nonce)
	if len(st.Balance) != 4 || len(st.CodeHash) != 0 || len(st.StorageRoot) != 0 || len(st.SourceHash) != 0 || st.SqlRecoveryPoint != 0 {
		panic("vfC11Encode: state outside the modelled family")
	}
	copy(out[8:], st.Balance)
	return out, nil
}

func vfC11Decode(b []byte, m proto.Message) error {
	st, ok := m.(*types.State)
	if !ok || len(b) != 12 {
		panic("vfC11Decode: only encoded *types.State is modelled")
	}
	*st = types.State{}
	st.Nonce = binary.BigEndian.Uint64(b[:8])
	st.Balance = append([]byte{}, b[8:12]...)
	return nil
}

func vfC11ID(tag string) types.AccountID {
	var id types.AccountID
	id[0] = vf.U8(tag) & 0xC0
	id[31] = 1 // never the empty account id (PutState refuses it, HashID.Bytes() of it is nil)
	return id
}

func vfC11State(tag string) *types.State {
	return &types.State{Nonce: vf.U64(tag + ".nonce"), Balance: vf.Bytes(tag+".bal", 4)}
}

func vfC11SameState(a, b *types.State) bool {
	return vf.And(a.Nonce == b.Nonce, bytes.Equal(a.Balance, b.Balance))
}

func vfC11Block(sdb *StateDB, ob string) []byte {
	vf.Assert(sdb.Update() == nil, ob+".err")
	vf.Assert(sdb.Commit() == nil, ob+".err")
	return append([]byte{}, sdb.GetRoot()...)
}

// vfC11VerifyAccount: the light client's check of an inclusion proof against root.
func vfC11VerifyAccount(kv *vf.KV, root []byte, id types.AccountID, p *types.AccountProof, compressed bool) bool {
	verifier := trie.NewTrie(root, common.Hasher, kv)
	leafVal := getHashBytes(p.GetState())
	if compressed {
		return verifier.VerifyInclusionC(p.GetBitmap(), id[:], leafVal, p.GetAuditPath(), int(p.GetHeight()))
	}
	return verifier.VerifyInclusion(p.GetAuditPath(), id[:], leafVal)
}

func vfC11Account(compressed bool) {
	ob := "C11.s"
	vf.NoMapPerm(true) // one iteration order of the buffer index (export sorts; order independence is C12.a export / C02)
	kv := vf.NewKV()
	sdb := NewStateDB(kv, nil, false)
	idA := vfC11ID("idA")
	idB := vfC11ID("idB")
	vf.Assume(idA != idB)
	a1 := vfC11State("a1")
	a2 := vfC11State("a2")
	// block 1
	vf.Assert(sdb.PutState(idA, a1) == nil, ob+".err")
	b1 := vf.Choice("B1", 2) == 1
	if b1 {
		vf.Assert(sdb.PutState(idB, vfC11State("b1")) == nil, ob+".err")
	}
	root1 := vfC11Block(sdb, ob)
	// block 2
	vf.Assert(sdb.PutState(idA, a2) == nil, ob+".err")
	if vf.Choice("B2", 2) == 1 {
		vf.Assert(sdb.PutState(idB, vfC11State("b2")) == nil, ob+".err")
	}
	root2 := vfC11Block(sdb, ob)

	q := NewStateDB(kv, root2, false)
	same := vfC11SameState(a1, a2)
	for r, root := range [][]byte{root1, root2} {
		want, other := a1, root2
		if r == 1 {
			want, other = a2, root1
		}
		p, err := q.GetAccountAndProof(idA[:], root, compressed)
		vf.Reach(ob)
		vf.Assert(err == nil, ob+".err")
		if err != nil {
			return
		}
		vf.Assert(p.GetInclusion(), ob+".value")
		vf.Assert(p.GetState() != nil, ob+".value")
		if p.GetState() == nil {
			return
		}
		vf.Assert(vfC11SameState(p.GetState(), want), ob+".value")
		vf.Assert(vfC11VerifyAccount(kv, root, idA, p, compressed), ob+".complete")
		vf.Assert(vf.Implies(vfC11VerifyAccount(kv, other, idA, p, compressed), same), ob+".bind")
	}
	// an account that was never written: non-inclusion proof for root1, accepted by the real verifier
	idC := vfC11ID("idC")
	vf.Assume(idC != idA)
	vf.Assume(idC != idB)
	p, err := q.GetAccountAndProof(idC[:], root1, compressed)
	vf.Assert(err == nil, ob+".err")
	if err != nil {
		return
	}
	vf.Assert(!p.GetInclusion(), ob+".absent")
	vf.Assert(p.GetState() == nil, ob+".absent")
	verifier := trie.NewTrie(root1, common.Hasher, kv)
	var ok bool
	if compressed {
		ok = verifier.VerifyNonInclusionC(p.GetAuditPath(), int(p.GetHeight()), p.GetBitmap(), idC[:], p.GetProofVal(), p.GetProofKey())
	} else {
		ok = verifier.VerifyNonInclusion(p.GetAuditPath(), idC[:], p.GetProofVal(), p.GetProofKey())
	}
	vf.Assert(ok, ob+".absent")
	vf.Observe("same", same)
	vf.Observe("height", p.GetHeight())
}

func VF_C11_s_plain()      { vfC11Account(false) }
func VF_C11_s_compressed() { vfC11Account(true) }

// ---------------------------------------------------------------------------------------------
// C11.v — the same for contract variables: StateDB.GetVarAndProof(key, storageRoot, compressed). The contract storage
// is the real bufferedStorage (state buffer + storage trie over the same store); values are symbolic 8 bytes stored
// under their hash. Block 1 writes variable A (and, by choice, B) => storage root1, block 2 rewrites A (and, by
// choice, B) => root2. The light client hashes the returned value and verifies (key, hash) against the storage root.
// ---------------------------------------------------------------------------------------------

func vfC11StorageBlock(st *bufferedStorage, kv *vf.KV, ob string) []byte {
	vf.Assert(st.update() == nil, ob+".err")
	bulk := kv.NewBulk()
	vf.Assert(st.stage(bulk) == nil, ob+".err")
	bulk.Flush()
	return append([]byte{}, st.Trie.Root...)
}

func vfC11VerifyVar(kv *vf.KV, root []byte, key types.AccountID, p *types.ContractVarProof, compressed bool) bool {
	verifier := trie.NewTrie(root, common.Hasher, kv)
	leafVal := common.Hasher(p.GetValue())
	if compressed {
		return verifier.VerifyInclusionC(p.GetBitmap(), key[:], leafVal, p.GetAuditPath(), int(p.GetHeight()))
	}
	return verifier.VerifyInclusion(p.GetAuditPath(), key[:], leafVal)
}

func vfC11Var(compressed bool) {
	ob := "C11.v"
	if vf.Param("tierskip", 0) != 0 {
		vf.Reach(ob) // job switched off in this tier
		return
	}
	vf.NoMapPerm(true)
	kv := vf.NewKV()
	st := newBufferedStorage(nil, kv)
	kA := vfC11ID("kA")
	kB := vfC11ID("kB")
	vf.Assume(kA != kB)
	a1 := vf.Bytes("a1", 8)
	a2 := vf.Bytes("a2", 8)
	st.put(newValueEntry(types.HashID(kA), a1))
	if vf.Choice("B1", 2) == 1 {
		st.put(newValueEntry(types.HashID(kB), vf.Bytes("b1", 8)))
	}
	root1 := vfC11StorageBlock(st, kv, ob)
	st.put(newValueEntry(types.HashID(kA), a2))
	if vf.Choice("B2", 2) == 1 {
		st.put(newValueEntry(types.HashID(kB), vf.Bytes("b2", 8)))
	}
	root2 := vfC11StorageBlock(st, kv, ob)

	q := NewStateDB(kv, nil, false) // the account state DB the chain service queries; only its store matters here
	same := bytes.Equal(a1, a2)
	for r, root := range [][]byte{root1, root2} {
		want, other := a1, root2
		if r == 1 {
			want, other = a2, root1
		}
		p, err := q.GetVarAndProof(kA[:], root, compressed)
		vf.Reach(ob)
		vf.Assert(err == nil, ob+".err")
		if err != nil {
			return
		}
		vf.Assert(p.GetInclusion(), ob+".value")
		vf.Assert(bytes.Equal(p.GetValue(), want), ob+".value")
		vf.Assert(vfC11VerifyVar(kv, root, kA, p, compressed), ob+".complete")
		vf.Assert(vf.Implies(vfC11VerifyVar(kv, other, kA, p, compressed), same), ob+".bind")
	}
	kC := vfC11ID("kC")
	vf.Assume(kC != kA)
	vf.Assume(kC != kB)
	p, err := q.GetVarAndProof(kC[:], root1, compressed)
	vf.Assert(err == nil, ob+".err")
	if err != nil {
		return
	}
	vf.Assert(!p.GetInclusion(), ob+".absent")
	vf.Assert(len(p.GetValue()) == 0, ob+".absent")
	verifier := trie.NewTrie(root1, common.Hasher, kv)
	var ok bool
	if compressed {
		ok = verifier.VerifyNonInclusionC(p.GetAuditPath(), int(p.GetHeight()), p.GetBitmap(), kC[:], p.GetProofVal(), p.GetProofKey())
	} else {
		ok = verifier.VerifyNonInclusion(p.GetAuditPath(), kC[:], p.GetProofVal(), p.GetProofKey())
	}
	vf.Assert(ok, ob+".absent")
	vf.Observe("same", same)
	vf.Observe("height", p.GetHeight())
}

func VF_C11_v_plain()      { vfC11Var(false) }
func VF_C11_v_compressed() { vfC11Var(true) }
