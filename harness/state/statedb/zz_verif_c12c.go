package statedb

import "github.com/aergoio/aergo/v2/types"

// Read-only views of the block's storage cache for the C12.c harness (package state): whether a contract storage is
// staged, the revision of its buffer, and the number of staged storages. No real function is replaced.

// VFC12Cached reports whether a storage for aid is staged in the cache of sdb, and the revision of its buffer.
func VFC12Cached(sdb *StateDB, aid types.AccountID) (bool, int) {
	st, ok := sdb.Cache.storages[aid]
	if !ok || st == nil {
		return ok, -1
	}
	return true, st.Buffer.snapshot()
}

// VFC12CacheLen is the number of staged storages.
func VFC12CacheLen(sdb *StateDB) int { return len(sdb.Cache.storages) }

// VFC12UpdateStorage runs the storage half of StateDB.updateStorage for one contract: the real
// bufferedStorage.update() (export of the staged buffer + real trie update) of the staged storage of aid.
// Returns the storage root Update() would put into the account state and whether the storage counts as changed.
// (The account half of Update() hashes the protobuf encoding of types.State, which the engine does not interpret.)
func VFC12UpdateStorage(sdb *StateDB, aid types.AccountID) (root []byte, dirty bool, err error) {
	st := sdb.Cache.get(aid)
	if st == nil {
		return nil, false, nil
	}
	err = st.update()
	return st.Trie.Root, st.isDirty(), err
}

// VFC12StageStorages runs the storage half of StateDB.Commit: the real bufferedStorage.stage() of every staged
// storage into one bulk of the store, then flushes it.
func VFC12StageStorages(sdb *StateDB) error {
	bulk := sdb.Store.NewBulk()
	for _, storage := range sdb.Cache.storages {
		if err := storage.stage(bulk); err != nil {
			bulk.DiscardLast()
			return err
		}
	}
	bulk.Flush()
	return nil
}
