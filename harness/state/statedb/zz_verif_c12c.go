package statedb

import "github.com/aergoio/aergo/v2/types"

// Read-only views of the block's storage cache for the C12.c harness (package state): whether a contract storage is
// staged, the revision of its buffer, and the number of staged storages. No real function is replaced.

// VFC12Cached reports whether a storage for aid is staged in the cache of sdb, and the revision of its buffer.
func VFC12Cached(sdb *StateDB, aid types.AccountID) (bool, int) {
	st, ok := sdb.Cache.storages[aid]
	if !ok || st == nil {
		return ok, -1
	}
	return true, st.Buffer.snapshot()
}

// VFC12CacheLen is the number of staged storages.
func VFC12CacheLen(sdb *StateDB) int { return len(sdb.Cache.storages) }
