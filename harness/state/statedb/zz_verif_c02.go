package statedb

import (
	"bytes"

	"github.com/aergoio/aergo/v2/types"
	vf "github.com/aergoio/aergo/v2/zzvf"
)

// ---------------------------------------------------------------------------------------------
// C02.a (export): stateBuffer.export — the (key, value-hash) lists handed to the trie update — must not depend on
// the iteration order of the index map. The engine explores every iteration order of `range buffer.indexes`.
// calls=1: for every order the output is strictly ascending by key and contains exactly the latest entry of every
// live key (such a list is unique, so the output does not depend on the order). calls=2: additionally two calls
// under independently chosen orders give byte-identical outputs.

func vfHashID(name string) types.HashID {
	var h types.HashID
	copy(h[:], vf.Bytes(name, types.HashIDLength))
	return h
}

func vfEqLists(a, b [][]byte) bool {
	if len(a) != len(b) {
		return false
	}
	eq := true
	for i := range a {
		eq = vf.And(eq, bytes.Equal(a[i], b[i]))
	}
	return eq
}

// the four shape combinations (with/without a deletion marker, with/without a rollback) are separate entries so that
// they run in parallel
func VF_C02_a_export_s0()  { vfExport(1, 0, 0) }
func VF_C02_a_export_s1()  { vfExport(1, 1, 0) }
func VF_C02_a_export_s2()  { vfExport(1, 0, 1) }
func VF_C02_a_export_s3()  { vfExport(1, 1, 1) }
func VF_C02_a_export_rel() { vfExport(2, vf.Choice("withDelete", 2), vf.Choice("rollbackLast", 2)) }

func vfExport(calls, withDelete, rollbackLast int) {
	n := vf.Param("maxN", 3)
	vlen := vf.Param("valLen", 2)
	buf := newStateBuffer()
	keys := make([]types.HashID, n)
	vals := make([][]byte, n)
	del := n // entry del (if < n) is a deletion marker
	if withDelete == 1 {
		del = vf.Param("deleteAt", 1)
	}
	for i := 0; i < n; i++ {
		keys[i] = vfHashID("key") // keys may alias: a later put of the same key shadows the earlier one
		vf.Assume(keys[i] != types.HashID{}) // keys are SHA-256 digests; HashID.Bytes() maps the all-zero id to nil
		if i == del {
			buf.put(newValueEntryDelete(keys[i]))
		} else {
			vals[i] = vf.Bytes("val", vlen)
			buf.put(newValueEntry(keys[i], vals[i]))
		}
	}
	// optionally roll the last put back (exercises the index stacks export reads through peek)
	if rollbackLast == 1 {
		buf.rollback(n - 1)
		n--
	}
	k1, v1 := buf.export()
	vf.Reach("C02.a.export")
	if calls == 2 {
		// relational form: a second call under an independently chosen iteration order
		k2, v2 := buf.export()
		vf.Assert(vfEqLists(k1, k2), "C02.a.export")
		vf.Assert(vfEqLists(v1, v2), "C02.a.export")
	}
	// canonical form (for every iteration order): strictly ascending keys + exactly the live content below;
	// a strictly sorted list with given content is unique, hence the output is a function of the content alone
	for i := 1; i < len(k1); i++ {
		vf.Assert(bytes.Compare(k1[i-1], k1[i]) < 0, "C02.a.export.sorted")
	}
	vf.Assert(len(k1) == len(v1), "C02.a.export.content")
	// content: every exported key is the key of a live put and carries the hash of the LAST value put under it
	for i := range k1 {
		found := false
		for j := n - 1; j >= 0; j-- {
			if found {
				break
			}
			if bytes.Equal(k1[i], keys[j][:]) {
				found = true
				if vals[j] == nil {
					vf.Assert(bytes.Equal(v1[i], []byte{0}), "C02.a.export.content")
				} else {
					vf.Assert(bytes.Equal(v1[i], newValueEntry(keys[j], vals[j]).Hash()), "C02.a.export.content")
				}
			}
		}
		vf.Assert(found, "C02.a.export.content")
	}
	// and every live key is exported
	for j := 0; j < n; j++ {
		present := false
		for i := range k1 {
			present = vf.Or(present, bytes.Equal(k1[i], keys[j][:]))
		}
		vf.Assert(present, "C02.a.export.content")
	}
	vf.Observe("n", len(k1))
}

// C02.a (storageCache): Snapshot/Rollback iterate over a map of storages; the resulting revisions / buffers must not
// depend on the iteration order.
func VF_C02_a_cache() {
	n := vf.Param("maxN", 3)
	c1 := newStorageCache()
	c2 := newStorageCache()
	aids := make([]types.AccountID, n)
	nput := make([]int, n)
	for i := 0; i < n; i++ {
		aids[i] = types.AccountID(vfHashID("aid"))
		for j := 0; j < i; j++ {
			vf.Assume(aids[i] != aids[j])
		}
		nput[i] = vf.Choice("nput", 2)
		for _, c := range []*storageCache{c1, c2} {
			bs := &bufferedStorage{Buffer: newStateBuffer()}
			for p := 0; p < nput[i]; p++ {
				bs.Buffer.put(newValueEntry(types.HashID(aids[i]), []byte{byte(p)}))
			}
			c.put(aids[i], bs)
		}
	}
	s1 := c1.Snapshot()
	s2 := c2.Snapshot()
	vf.Reach("C02.a.cache")
	vf.Assert(len(s1) == n, "C02.a.cache")
	vf.Assert(len(s2) == n, "C02.a.cache")
	for i := 0; i < n; i++ {
		vf.Assert(s1[aids[i]] == nput[i], "C02.a.cache")
		vf.Assert(s2[aids[i]] == s1[aids[i]], "C02.a.cache")
	}
	// more writes, one new storage, then rollback to the snapshot on both copies
	extra := types.AccountID(vfHashID("aid"))
	for i := 0; i < n; i++ {
		vf.Assume(extra != aids[i])
	}
	for _, c := range []*storageCache{c1, c2} {
		for i := 0; i < n; i++ {
			c.get(aids[i]).Buffer.put(newValueEntry(types.HashID(extra), []byte{9}))
		}
		c.put(extra, &bufferedStorage{Buffer: newStateBuffer()})
	}
	vf.Assert(c1.Rollback(s1) == nil, "C02.a.cache")
	vf.Assert(c2.Rollback(s2) == nil, "C02.a.cache")
	for _, c := range []*storageCache{c1, c2} {
		vf.Assert(c.get(extra) == nil, "C02.a.cache")
		for i := 0; i < n; i++ {
			bs := c.get(aids[i])
			vf.Assert(bs != nil, "C02.a.cache")
			if bs != nil {
				vf.Assert(bs.Buffer.snapshot() == nput[i], "C02.a.cache")
				vf.Assert(!bs.Buffer.has(types.HashID(extra)), "C02.a.cache")
			}
		}
	}
}
