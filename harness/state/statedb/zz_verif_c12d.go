package statedb

import (
	"bytes"

	"github.com/aergoio/aergo/v2/internal/common"
	"github.com/aergoio/aergo/v2/types"
	vf "github.com/aergoio/aergo/v2/zzvf"
)

// ---------------------------------------------------------------------------------------------
// C12.d — reverted writes never reach the trie / the store.
// The pre-state is, as in C12.a, an arbitrary stateBuffer satisfying the representation invariant (vfBuild) with
// symbolic keys (aliasing decided by the solver) and symbolic values; it is rolled back to an arbitrary revision r.
//   C12.d.export: export() — what updateTrie hands to the trie — is exactly the latest entry per key among the
//                 r surviving puts, strictly ascending (nothing of the reverted tail).
//   C12.d.stage:  stage(txn) — what Commit writes to the store — is exactly one (hash(value), value) pair per key
//                 among the surviving puts, for every iteration order of the index map.
// ---------------------------------------------------------------------------------------------

func vfC12dPre() (b *stateBuffer, es []vfEnt, surv []int, eq *vfEq) {
	maxN := vf.Param("maxN", 3)
	dels := vf.Param("dels", 0) != 0
	n := vf.Choice("n", maxN+1)
	es = vfNondetEnts(n, dels)
	keys := make([]types.HashID, 0, n)
	for _, e := range es {
		// HashID.Bytes() of the all-zero id is nil: PutState refuses the empty account id, storage keys are digests
		vf.Assume(e.k != types.HashID{})
		keys = append(keys, e.k)
	}
	eq = vfDecideEq(keys)
	b = vfBuild(es)
	r := vf.Choice("rev", n+1)
	if b.rollback(r) != nil {
		vf.Fail("C12.d.rollback")
	}
	return b, es, vfRange(n)[:r], eq
}

func VF_C12_d_export() {
	b, es, surv, eq := vfC12dPre()
	vf.Reach("C12.d.export")
	vfCheckExport(b, es, surv, eq, "C12.d.export")
}

func VF_C12_d_stage() {
	b, es, surv, eq := vfC12dPre()
	kv := vf.NewKV()
	tx := kv.NewTx()
	err := b.stage(tx)
	tx.Commit()
	vf.Reach("C12.d.stage")
	vf.Assert(err == nil, "C12.d.stage")
	// the latest surviving put of every distinct key
	var reps []int
	for i, x := range surv {
		last := true
		for j := i + 1; j < len(surv); j++ {
			if eq.m[x][surv[j]] {
				last = false
			}
		}
		if last {
			reps = append(reps, x)
		}
	}
	vf.Assert(len(kv.Writes) == len(reps), "C12.d.stage")
	match := func(w vf.KVWrite, e vfEnt) bool {
		if e.del {
			// a delete marker is staged as ({0}, empty)
			return vf.And(!w.Del, vf.And(bytes.Equal(w.Key, []byte{0}), len(w.Value) == 0))
		}
		return vf.And(!w.Del, vf.And(bytes.Equal(w.Key, common.Hasher(e.v)), bytes.Equal(w.Value, e.v)))
	}
	for _, x := range reps {
		found := false
		for _, w := range kv.Writes {
			found = vf.Or(found, match(w, es[x]))
		}
		vf.Assert(found, "C12.d.stage")
	}
	for _, w := range kv.Writes {
		found := false
		for _, x := range reps {
			found = vf.Or(found, match(w, es[x]))
		}
		vf.Assert(found, "C12.d.stage")
	}
	vf.Observe("writes", len(kv.Writes))
}
