package statedb

import (
	"github.com/aergoio/aergo/v2/types"
	vf "github.com/aergoio/aergo/v2/zzvf"
)

// ---------------------------------------------------------------------------------------------
// C12.b — nested snapshot sequences on StateDB. From an empty StateDB (vf.KV, empty trie root) a sequence of `ops`
// operations, each one of PutState(id, state) / Snapshot() / Rollback(one of the live snapshots), is executed on the
// real StateDB. Harness-side model: the list of surviving puts and an explicit stack of (revision returned by the real
// Snapshot(), number of puts at that time). Rollback to stack entry k cuts the put list to the recorded length and
// drops the snapshots taken after k (entry k itself stays usable). After EVERY operation GetState(q) for an arbitrary
// (symbolic) account id q must return the state of the last surviving put of q, or nil if there is none.
// Account ids are symbolic 32-byte values, the solver decides which coincide; states carry a symbolic nonce.
// ---------------------------------------------------------------------------------------------

type vfC12bPut struct {
	id types.AccountID
	st *types.State
}

type vfC12bSnap struct {
	rev Snapshot
	n   int
}

// The sequences are split over four entries by their first two operations (jobs run in parallel):
// put put | put snapshot | snapshot put | snapshot (snapshot or rollback); a sequence cannot start with a rollback.
func VF_C12_b_pp() { vfC12b(0, 0) }
func VF_C12_b_ps() { vfC12b(0, 1) }
func VF_C12_b_sp() { vfC12b(1, 0) }
func VF_C12_b_sx() { vfC12b(1, 3) }

func vfC12b(first, second int) {
	nOps := vf.Param("ops", 5)
	sdb := NewStateDB(vf.NewKV(), nil, false)
	q := types.AccountID(vfHashID("q"))
	vf.Assume(q != EmptyAccountID)
	var puts []vfC12bPut
	var stack []vfC12bSnap
	rollbacks, nested := 0, false
	for i := 0; i < nOps; i++ {
		var op int
		switch {
		case i == 0:
			op = first
		case i == 1 && second < 3:
			op = second
		case i == 1:
			op = 1 + vf.Choice("op", 2)
		default:
			op = vf.Choice("op", 3)
		}
		switch op {
		case 0:
			id := types.AccountID(vfHashID("id"))
			vf.Assume(id != EmptyAccountID) // PutState refuses the empty id
			st := &types.State{Nonce: vf.U64("nonce")}
			vf.Assert(sdb.PutState(id, st) == nil, "C12.b")
			puts = append(puts, vfC12bPut{id, st})
		case 1:
			stack = append(stack, vfC12bSnap{sdb.Snapshot(), len(puts)})
			if len(stack) > 1 {
				nested = true
			}
		case 2:
			if len(stack) == 0 {
				vf.Assume(false) // nothing to roll back to: not a sequence of the property
			}
			k := vf.Choice("to", len(stack))
			vf.Assert(sdb.Rollback(stack[k].rev) == nil, "C12.b")
			puts = puts[:stack[k].n]
			stack = stack[:k+1]
			rollbacks++
		}
		// the real GetState against the model
		var want *types.State
		for j := len(puts) - 1; j >= 0; j-- {
			if puts[j].id == q {
				want = puts[j].st
				break
			}
		}
		got, err := sdb.GetState(q)
		vf.Assert(err == nil, "C12.b")
		vf.Assert((got == nil) == (want == nil), "C12.b")
		if got != nil && want != nil {
			vf.Assert(got.Nonce == want.Nonce, "C12.b")
		}
	}
	vf.Reach("C12.b")
	if rollbacks > 0 && nested {
		vf.Reach("C12.b.nested")
	}
	vf.Observe("puts", len(puts))
	vf.Observe("snaps", len(stack))
}
