package statedb

// VFCommitStorage gives ONE contract storage the block-boundary treatment that StateDB.Update / StateDB.Commit give to
// every cached storage: bufferedStorage.update (buffer -> storage trie) and bufferedStorage.stage + Flush (trie nodes and
// values -> store, buffer reset). The account trie is not touched. Used by the C15.f name harness (package name cannot
// reach the unexported storage) to separate "committed at block start" (GetInitialData) from "staged in this block".
func VFCommitStorage(cs *ContractState) error {
	if err := cs.storage.update(); err != nil {
		return err
	}
	bulk := cs.store.NewBulk()
	if err := cs.storage.stage(bulk); err != nil {
		bulk.DiscardLast()
		return err
	}
	bulk.Flush()
	return nil
}
