package statedb

// VFCommitStorage (harness support, ledger family) makes the buffered writes of ONE contract storage durable: the
// storage part of StateDB.Update (bufferedStorage.update: buffer -> storage trie) followed by the storage part of
// StateDB.Commit (bufferedStorage.stage into a bulk, Flush), then records the new root in the contract's State.
// Used to build a pre-state "the name registry was written in an EARLIER block" (name.Resolve and UpdateName read the
// committed storage through GetInitialData) without running the account trie update, whose protobuf encoding of
// symbolic account states is outside the engine.
func VFCommitStorage(cs *ContractState) error {
	if err := cs.storage.update(); err != nil {
		return err
	}
	bulk := cs.store.NewBulk()
	if err := cs.storage.stage(bulk); err != nil {
		bulk.DiscardLast()
		return err
	}
	bulk.Flush()
	cs.State.StorageRoot = cs.storage.Trie.Root
	return nil
}
