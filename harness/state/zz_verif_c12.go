package state

import (
	"bytes"

	"github.com/aergoio/aergo/v2/state/statedb"
	"github.com/aergoio/aergo/v2/types"
	vf "github.com/aergoio/aergo/v2/zzvf"
)

// ---------------------------------------------------------------------------------------------
// C12.c — block snapshot: BlockState.Snapshot / BlockState.Rollback together with contract storage.
//
// World: a real BlockState over a real StateDB over vf.KV with an empty trie root; two contracts (addresses are
// concrete and distinct, so their account ids are real digests) and one plain account. Storage keys and values,
// account nonces and balances are symbolic; which of the keys coincide is decided by the solver.
// Only SHAPES are enumerated: which operation is executed on which contract/account, how many.
//
// The check is observational (no model of aergo code): at Snapshot() time the harness reads, through the real read
// APIs (GetState, GetAccountState + OpenContractState + GetData / HasKey), every account state and the value of an
// ARBITRARY (symbolic) storage key q in both contracts, plus the set of staged storages; after Rollback(snapshot) the
// same reads must give the same answers. As q is universally quantified this covers every storage key.
// ---------------------------------------------------------------------------------------------

const (
	vfC12Contracts = 2
	vfC12Accounts  = 3 // account 0,1 = the two contracts, account 2 = a plain account
)

var vfC12Ids = [vfC12Accounts][]byte{[]byte("vf-c12-contract-0"), []byte("vf-c12-contract-1"), []byte("vf-c12-plain-account")}

// vfC12Op is one state-changing operation of a transaction on the block state.
type vfC12Op struct {
	kind  int // 0 SetData, 1 DeleteData, 2 PutState, 3 open + stage without a write
	who   int // contract (kind 0,1) or account (kind 2)
	key   []byte
	val   []byte
	nonce uint64
	bal   []byte
	stage bool // kind 0,1: StageContractState after the write (false: the opened contract state is dropped)
}

type vfC12World struct {
	bs  *BlockState
	kv  *vf.KV
	aid [vfC12Accounts]types.AccountID
	q   []byte // the observed storage key
	n   int    // operations applied so far (alternates the two ways of opening a contract state)
}

func vfC12NewWorld(q []byte) *vfC12World {
	w := &vfC12World{kv: vf.NewKV(), q: q}
	w.bs = NewBlockState(statedb.NewStateDB(w.kv, nil, false))
	for i := range vfC12Ids {
		w.aid[i] = types.ToAccountID(vfC12Ids[i])
	}
	return w
}

// vfC12Key: a storage key. symbolic: one arbitrary byte (aliasing decided by the solver); otherwise one of two
// concrete keys (used where the storage trie is really updated: trie paths are taken from the key digests).
func vfC12Key(concrete bool) []byte {
	if concrete {
		return []byte{byte('a' + vf.Choice("key", 2))}
	}
	return vf.Bytes("key", 1)
}

// vfC12GenOp chooses the shape of one operation (Choice) with symbolic data.
func vfC12GenOp(concreteKeys bool) vfC12Op {
	op := vfC12Op{stage: true}
	k := vf.Choice("op", 2*vfC12Contracts+1)
	switch {
	case k < vfC12Contracts:
		op.kind, op.who = 0, k
	case k < 2*vfC12Contracts:
		op.kind, op.who = 1, k-vfC12Contracts
	default:
		op.kind = 2
	}
	if op.kind == 2 {
		// accounts: the plain account, the account of contract 0, (accN = 3:) the account of contract 1
		op.who = vfC12Acc("acc")
		op.nonce = vf.U64("nonce")
		op.bal = vf.Bytes("bal", 2)
		return op
	}
	op.key = vfC12Key(concreteKeys)
	if op.kind == 0 {
		op.val = vf.Bytes("val", 1)
	}
	if vf.Param("unstaged", 0) != 0 {
		op.stage = vf.Choice("stage", 2) == 1
	}
	return op
}

// vfC12Acc chooses the account of a PutState: the plain account, (accN >= 2:) the account of contract 0,
// (accN = 3:) the account of contract 1.
func vfC12Acc(name string) int {
	n := vf.Param("accN", 1)
	if n <= 1 {
		return 2
	}
	return []int{2, 0, 1}[vf.Choice(name, n)]
}

// snapshot is the real BlockState.Snapshot(). snapPerm = 0: storageCache.Snapshot iterates over the staged storages
// in one order only (that its result does not depend on the order is decided by C12.c.cache for every order); the
// iteration of Rollback is always explored in every order.
func (w *vfC12World) snapshot() BlockSnapshot {
	if vf.Param("snapPerm", 1) == 0 {
		vf.NoMapPerm(true)
		s := w.bs.Snapshot()
		vf.NoMapPerm(false)
		return s
	}
	return w.bs.Snapshot()
}

func (w *vfC12World) open(c int) *statedb.ContractState {
	var cs *statedb.ContractState
	var err error
	if w.n%2 == 0 {
		cs, err = statedb.OpenContractStateAccount(vfC12Ids[c], w.bs.StateDB)
	} else {
		var st *types.State
		st, err = w.bs.GetAccountState(w.aid[c])
		if err == nil {
			cs, err = statedb.OpenContractState(vfC12Ids[c], st, w.bs.StateDB)
		}
	}
	if err != nil || cs == nil {
		vf.Fail("C12.c.open")
	}
	return cs
}

func (w *vfC12World) apply(op vfC12Op) {
	switch op.kind {
	case 0, 1:
		cs := w.open(op.who)
		var err error
		if op.kind == 0 {
			err = cs.SetData(op.key, op.val)
		} else {
			err = cs.DeleteData(op.key)
		}
		if err == nil && op.stage {
			err = statedb.StageContractState(cs, w.bs.StateDB)
		}
		if err != nil {
			vf.Fail("C12.c.write")
		}
	case 3:
		if statedb.StageContractState(w.open(op.who), w.bs.StateDB) != nil {
			vf.Fail("C12.c.write")
		}
	case 2:
		if w.bs.PutState(w.aid[op.who], &types.State{Nonce: op.nonce, Balance: op.bal}) != nil {
			vf.Fail("C12.c.write")
		}
	}
	w.n++
}

// vfC12Obs is what the real read APIs answer at one moment.
type vfC12Obs struct {
	present [vfC12Accounts]bool
	nonce   [vfC12Accounts]uint64
	bal     [vfC12Accounts][]byte
	sroot   [vfC12Accounts][]byte
	code    [vfC12Accounts][]byte
	val     [vfC12Contracts][]byte // GetData(q); nil = no value
	has     [vfC12Contracts]bool   // HasKey(q)
	cached  [vfC12Contracts]bool   // a storage of the contract is staged in the block's cache
	rev     [vfC12Contracts]int    // revision of the staged storage buffer
	ncached int
	keys    [][]byte                 // further keys observed (the keys written so far)
	kval    [vfC12Contracts][][]byte // GetData of those
}

func (w *vfC12World) observe(keys [][]byte) *vfC12Obs {
	o := &vfC12Obs{keys: keys}
	for i := 0; i < vfC12Accounts; i++ {
		st, err := w.bs.GetState(w.aid[i])
		if err != nil {
			vf.Fail("C12.c.read")
		}
		if st != nil {
			o.present[i] = true
			o.nonce[i] = st.Nonce
			o.bal[i] = st.Balance
			o.sroot[i] = st.StorageRoot
			o.code[i] = st.CodeHash
		}
	}
	for c := 0; c < vfC12Contracts; c++ {
		st, err := w.bs.GetAccountState(w.aid[c])
		if err != nil || st == nil {
			vf.Fail("C12.c.read")
		}
		cs, err := statedb.OpenContractState(vfC12Ids[c], st, w.bs.StateDB)
		if err != nil || cs == nil {
			vf.Fail("C12.c.read")
		}
		v, err := cs.GetData(w.q)
		if err != nil {
			vf.Fail("C12.c.read")
		}
		o.val[c] = v
		o.has[c] = cs.HasKey(w.q)
		for _, k := range keys {
			kv, err := cs.GetData(k)
			if err != nil {
				vf.Fail("C12.c.read")
			}
			o.kval[c] = append(o.kval[c], kv)
		}
		o.cached[c], o.rev[c] = statedb.VFC12Cached(w.bs.StateDB, w.aid[c])
	}
	o.ncached = statedb.VFC12CacheLen(w.bs.StateDB)
	return o
}

func vfC12SameBytes(a, b []byte) bool {
	if (a == nil) != (b == nil) {
		return false
	}
	return bytes.Equal(a, b)
}

// check compares the current answers of the read APIs with the observation o taken at snapshot time.
func (w *vfC12World) check(o *vfC12Obs, tag string) {
	p := w.observe(o.keys)
	acc := true
	for i := 0; i < vfC12Accounts; i++ {
		acc = vf.And(acc, o.present[i] == p.present[i])
		acc = vf.And(acc, o.nonce[i] == p.nonce[i])
		acc = vf.And(acc, vfC12SameBytes(o.bal[i], p.bal[i]))
		acc = vf.And(acc, vfC12SameBytes(o.sroot[i], p.sroot[i]))
		acc = vf.And(acc, vfC12SameBytes(o.code[i], p.code[i]))
	}
	vf.Assert(acc, "C12.c.account"+tag)
	for c := 0; c < vfC12Contracts; c++ {
		// every storage key reads as at snapshot time
		vf.Assert(vfC12SameBytes(o.val[c], p.val[c]), "C12.c.storage"+tag)
		vf.Assert(o.has[c] == p.has[c], "C12.c.storage"+tag)
		for i := range o.keys {
			vf.Assert(vfC12SameBytes(o.kval[c][i], p.kval[c][i]), "C12.c.storage"+tag)
		}
		// a contract staged after the snapshot is dropped again, one staged before is still staged
		vf.Assert(o.cached[c] == p.cached[c], "C12.c.dropped"+tag)
		// and its staged buffer has no entry beyond the snapshot (nothing more would be written by Commit)
		vf.Assert(o.rev[c] == p.rev[c], "C12.c.staged"+tag)
	}
	vf.Assert(o.ncached == p.ncached, "C12.c.dropped"+tag)
}

// pre-state shapes before the (outer) snapshot. shape 0: nothing staged; 1: contract 0 staged with one write;
// 2: both contracts staged with one write each; 3: contract 0 staged with a write and a delete marker;
// 4: contract 0 opened and staged without any write (its staged buffer is empty, revision 0).
// Optionally (Choice) one account state has been put.
func (w *vfC12World) pre(shape int, concreteKeys bool) []vfC12Op {
	var ops []vfC12Op
	set := func(c int) vfC12Op {
		return vfC12Op{kind: 0, who: c, key: vfC12Key(concreteKeys), val: vf.Bytes("val", 1), stage: true}
	}
	switch shape {
	case 1:
		ops = append(ops, set(0))
	case 2:
		ops = append(ops, set(0), set(1))
	case 3:
		ops = append(ops, set(0), vfC12Op{kind: 1, who: 0, key: vfC12Key(concreteKeys), stage: true})
	case 4:
		ops = append(ops, vfC12Op{kind: 3, who: 0})
	}
	if vf.Param("preAcc", 1) != 0 && vf.Choice("preAcc", 2) == 1 {
		ops = append(ops, vfC12Op{kind: 2, who: vfC12Acc("preAccWho"), nonce: vf.U64("nonce"), bal: vf.Bytes("bal", 2)})
	}
	for _, op := range ops {
		w.apply(op)
	}
	return ops
}

// vfC12Run applies between 1 and max generated operations; returns them and whether an account state was put.
func (w *vfC12World) run(name string, min, max int, concreteKeys bool) ([]vfC12Op, bool) {
	n := min
	if max > min {
		n += vf.Choice(name, max-min+1)
	}
	var ops []vfC12Op
	put := false
	for i := 0; i < n; i++ {
		op := vfC12GenOp(concreteKeys)
		w.apply(op)
		ops = append(ops, op)
		if op.kind == 2 {
			put = true
		}
	}
	return ops, put
}

func vfC12Keys(opss ...[]vfC12Op) [][]byte {
	var ks [][]byte
	for _, ops := range opss {
		for _, op := range ops {
			if op.kind < 2 {
				ks = append(ks, op.key)
			}
		}
	}
	return ks
}

// C12.c flat: pre-state, Snapshot, 1..maxOps operations (storage writes on either contract, account puts), Rollback.
func vfC12cFlat(shape int) {
	w := vfC12NewWorld(vf.Bytes("q", 1))
	w.pre(shape, false)
	o := w.observe(nil)
	snap := w.snapshot()
	_, put := w.run("n1", 1, vf.Param("maxOps", 2), false)
	err := w.bs.Rollback(snap)
	vf.Reach("C12.c")
	if !put {
		// the shape "storage-only writes between Snapshot and Rollback, no account put"
		vf.Reach("C12.c.storageonly")
	}
	vf.Assert(err == nil, "C12.c")
	w.check(o, "")
	vf.Observe("ncached", o.ncached)
}

func VF_C12_c_flat0() { vfC12cFlat(0) }
func VF_C12_c_flat1() { vfC12cFlat(1) }
func VF_C12_c_flat2() { vfC12cFlat(2) }
func VF_C12_c_flat3() { vfC12cFlat(3) }
func VF_C12_c_flat4() { vfC12cFlat(4) }

// C12.c nested: pre-state, outer Snapshot, operations, inner Snapshot, operations, Rollback(inner) — everything reads
// as at the inner snapshot —, optionally more operations, Rollback(outer) — everything reads as at the outer snapshot.
func vfC12cNested(shape int) {
	w := vfC12NewWorld(vf.Bytes("q", 1))
	w.pre(shape, false)
	oOuter := w.observe(nil)
	sOuter := w.snapshot()
	_, put1 := w.run("n1", 1, vf.Param("maxOuter", 1), false)
	oInner := w.observe(nil)
	sInner := w.snapshot()
	_, put2 := w.run("n2", 1, vf.Param("maxInner", 1), false)
	err := w.bs.Rollback(sInner)
	vf.Reach("C12.c.nested")
	if !put2 {
		vf.Reach("C12.c.nested.storageonly")
	}
	vf.Assert(err == nil, "C12.c")
	w.check(oInner, ".inner")
	put3 := false
	if m := vf.Param("maxAfter", 0); m > 0 {
		_, put3 = w.run("n3", 0, m, false)
	}
	err = w.bs.Rollback(sOuter)
	if !put1 && !put3 {
		vf.Reach("C12.c.nested.storageonly.outer")
	}
	vf.Assert(err == nil, "C12.c")
	w.check(oOuter, ".outer")
}

func VF_C12_c_nested0() { vfC12cNested(0) }
func VF_C12_c_nested1() { vfC12cNested(1) }
func VF_C12_c_nested2() { vfC12cNested(2) }

// C12.c commit: what Update()/Commit() would persist after a revert does not contain reverted writes. Two worlds: the
// subject (pre-state, Snapshot, operations, Rollback, optionally one more operation) and a reference in which the
// reverted operations never happened (same pre-state, same later operation, same data). In both the storage half of
// the real Update() runs (bufferedStorage.update: export of the staged buffer + real trie update) and the storage
// half of the real Commit() (bufferedStorage.stage into a bulk of the store): storage roots, dirty flags and the
// data written to the store must be the same. Storage keys are taken from two concrete keys here (trie paths come
// from the key digests); values, nonces, balances stay symbolic.
func vfC12cCommit(shape int) {
	w := vfC12NewWorld([]byte{'a'})
	ref := vfC12NewWorld([]byte{'a'})
	for _, op := range w.pre(shape, true) {
		ref.apply(op)
	}
	snap := w.snapshot()
	_, put := w.run("n1", 1, vf.Param("maxOps", 1), true)
	err := w.bs.Rollback(snap)
	vf.Assert(err == nil, "C12.c")
	if vf.Param("post", 0) != 0 && vf.Choice("post", 2) == 1 {
		op := vfC12GenOp(true)
		w.apply(op)
		ref.apply(op)
	}
	// the iteration orders inside Update/Commit (storages, buffer indexes) are the subject of C02.a
	vf.NoMapPerm(true)
	vf.Reach("C12.c.commit")
	if !put {
		vf.Reach("C12.c.commit.storageonly")
	}
	for c := 0; c < vfC12Contracts; c++ {
		r1, d1, e1 := statedb.VFC12UpdateStorage(w.bs.StateDB, w.aid[c])
		r2, d2, e2 := statedb.VFC12UpdateStorage(ref.bs.StateDB, ref.aid[c])
		vf.Assert(e1 == nil, "C12.c.commit")
		vf.Assert(e2 == nil, "C12.c.commit")
		vf.Assert(vfC12SameBytes(r1, r2), "C12.c.commit.storageroot")
		vf.Assert(d1 == d2, "C12.c.commit.storageroot")
	}
	vf.Assert(statedb.VFC12StageStorages(w.bs.StateDB) == nil, "C12.c.commit")
	vf.Assert(statedb.VFC12StageStorages(ref.bs.StateDB) == nil, "C12.c.commit")
	// the same set of (key, value) pairs reaches the store
	sub := func(a, b *vf.KV) {
		for _, x := range a.Writes {
			found := false
			for _, y := range b.Writes {
				found = vf.Or(found, vf.And(x.Del == y.Del, vf.And(bytes.Equal(x.Key, y.Key), bytes.Equal(x.Value, y.Value))))
			}
			vf.Assert(found, "C12.c.commit.store")
		}
	}
	sub(w.kv, ref.kv)
	sub(ref.kv, w.kv)
	vf.Observe("writes", len(w.kv.Writes))
}

func VF_C12_c_commit0() { vfC12cCommit(0) }
func VF_C12_c_commit1() { vfC12cCommit(1) }
func VF_C12_c_commit2() { vfC12cCommit(2) }

// pre-states with a write plus a delete marker (3) and with a storage that is staged but was never written (4): in the
// latter a reverted write is the ONLY thing that could make the storage "dirty" at commit, so a dirty flag (or a
// re-put account state) that survives the revert shows up against the reference world
func VF_C12_c_commit3() { vfC12cCommit(3) }
func VF_C12_c_commit4() { vfC12cCommit(4) }
