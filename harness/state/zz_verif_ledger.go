package state

import (
	"github.com/aergoio/aergo-lib/db"
	"github.com/aergoio/aergo/v2/state/statedb"
)

// VFLedgerChainStateDB builds a ChainStateDB over an arbitrary db.DB (the harnesses use vf.KV) without going
// through Init (which opens a real database directory).
func VFLedgerChainStateDB(store db.DB, root []byte) *ChainStateDB {
	return &ChainStateDB{store: store, states: statedb.NewStateDB(store, root, false)}
}
