package state

import (
	"github.com/aergoio/aergo-lib/db"
	"github.com/aergoio/aergo/v2/state/statedb"
)

// VFChainStateDB builds a ChainStateDB over the given store (what Init does, minus opening a database file).
// Used by the chain-package harnesses (C05-C07).
func VFChainStateDB(store db.DB, root []byte) *ChainStateDB {
	return &ChainStateDB{store: store, states: statedb.NewStateDB(store, root, false)}
}
