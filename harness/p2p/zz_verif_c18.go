package p2p

import (
	"bytes"
	"time"

	"github.com/aergoio/aergo-lib/log"
	"github.com/aergoio/aergo/v2/chain"
	"github.com/aergoio/aergo/v2/p2p/p2pcommon"
	"github.com/aergoio/aergo/v2/types"
	"github.com/aergoio/aergo/v2/types/message"
	vf "github.com/aergoio/aergo/v2/zzvf"
	lru "github.com/hashicorp/golang-lru"
)

// ---- environment: actor hub that records what is forwarded, a remote peer that records consumed requests

type vfActor struct {
	p2pcommon.ActorService
	told []interface{}
	sent []interface{}
}

func (a *vfActor) TellRequest(actorName string, msg interface{}) { a.told = append(a.told, msg) }
func (a *vfActor) SendRequest(actorName string, msg interface{}) { a.sent = append(a.sent, msg) }

type vfPeer struct {
	p2pcommon.RemotePeer
	consumed int
}

func (p *vfPeer) ID() types.PeerID                                        { return types.PeerID("peer") }
func (p *vfPeer) Name() string                                            { return "peer" }
func (p *vfPeer) ConsumeRequest(msgID p2pcommon.MsgID) p2pcommon.MsgOrder { p.consumed++; return nil }

// vfBlockSize replaces (*types.Block).Size (protobuf size computation) by an arbitrary non-negative number per call.
func vfBlockSize(b *types.Block) int {
	n := vf.Int("blockSize")
	vf.Assume(n >= 0)
	return n
}

// vfCancelReceiving replaces (*BlocksChunkReceiver).cancelReceiving: same state change and same report to the syncer,
// without the timer goroutine that drains the remaining chunks (timers/blocking select are outside the technique).
func vfCancelReceiving(br *BlocksChunkReceiver, err error, hasNext bool) {
	br.status = receiverStatusCanceled
	br.actor.TellRequest(message.SyncerSvc, &message.GetBlockChunksRsp{Seq: br.syncerSeq, ToWhom: br.peer.ID(), Err: err})
	interval := br.timeout.Sub(time.Now())
	if !hasNext || interval <= 0 {
		br.finishReceiver()
	}
}

// vfC18Init is the node's start-up initialisation of the block size limits (chain.Init with the default 1 MiB body
// limit); without it chain.MaxBlockSize() is 0 and every block is "too big".
func vfC18Init() {
	if err := chain.Init(1<<20, "", false, 0, 0); err != nil {
		panic(err)
	}
}

func vfC18Block(tag string, l int) *types.Block {
	return &types.Block{
		Hash: vf.Bytes(tag+".Hash", 32),
		Header: &types.BlockHeader{
			PrevBlockHash: vf.Bytes(tag+".PrevBlockHash", l),
			BlockNo:       vf.U64(tag + ".BlockNo"),
			Timestamp:     vf.I64(tag + ".Timestamp"),
			TxsRootHash:   vf.Bytes(tag+".TxsRootHash", l),
			PubKey:        vf.Bytes(tag+".PubKey", l),
			Sign:          vf.Bytes(tag+".Sign", l),
		},
	}
}

func vfC18Digest(b *types.Block) []byte { return (&types.Block{Header: b.Header}).BlockHash() }

// C18.d: BlocksChunkReceiver.handleInWaiting on an arbitrary GetBlockResponse (status, hasNext, m blocks with arbitrary
// Hash fields and headers) for a request of n ids:
//   - a block is stored at offset i only if block.Hash == requested[i] (and only in order);
//   - the syncer is told "success" only with all n blocks, each matching its requested id;
//   - too many / unexpected / oversized / too few blocks, a non-OK status or an empty list cancel with the matching error.
//
// C18.e (receiver side): stored => H(header) == requested[i]; fails because only the Hash FIELD is compared (F8).
func VF_C18_d() {
	vfC18Init()
	maxN := vf.Param("maxN", 2)
	l := vf.Param("fieldLen", 1)
	n := 1 + vf.Choice("n", maxN)
	m := vf.Choice("m", n+2)
	req := make([]message.BlockHash, n)
	for i := range req {
		req[i] = vf.Bytes("req", 32)
	}
	actor := &vfActor{}
	peer := &vfPeer{}
	br := NewBlockReceiver(actor, peer, vf.U64("seq"), req, time.Hour)
	body := &types.GetBlockResponse{Status: types.ResultStatus(vf.I32("status")), HasNext: vf.Bool("hasNext")}
	anyForged := false
	for i := 0; i < m; i++ {
		b := vfC18Block("b", l)
		body.Blocks = append(body.Blocks, b)
		anyForged = vf.Or(anyForged, !bytes.Equal(b.Hash, vfC18Digest(b)))
	}
	maxSize := int(chain.MaxBlockSize())
	vf.Reach("C18.d")
	br.handleInWaiting(nil, body)

	if br.status == receiverStatusFinished && len(actor.told) == 0 {
		vf.Reach("C18.d.timeout")
		// the receiver's deadline passed before this chunk arrived (clock is arbitrary): nothing is stored, the request
		// is consumed, the syncer is not told (it has given up already)
		for i := 0; i < n; i++ {
			vf.Assert(br.got[i] == nil, "C18.d")
		}
		vf.Assert(peer.consumed == 1, "C18.d")
		return
	}
	// what was stored
	stored := 0
	for i := 0; i < n; i++ {
		if br.got[i] != nil {
			vf.Assert(i == stored, "C18.d") // filled in order, no holes
			stored++
			vf.Assert(i < m, "C18.d")
			if i < m {
				vf.Assert(br.got[i] == body.Blocks[i], "C18.d")
			}
			vf.Assert(bytes.Equal(br.got[i].Hash, req[i]), "C18.d")
			vf.AssertKnown(bytes.Equal(vfC18Digest(br.got[i]), req[i]), "C18.e.receiver", "F8-block-id-not-recomputed", anyForged)
		}
	}
	vf.Assert(stored == br.offset, "C18.d")
	vf.Reach("C18.e.receiver")
	// what the syncer was told
	vf.Assert(len(actor.told) <= 1, "C18.d")
	if len(actor.told) == 1 {
		rsp := actor.told[0].(*message.GetBlockChunksRsp)
		vf.Assert(rsp.Seq == br.syncerSeq, "C18.d")
		if rsp.Err == nil {
			vf.Assert(body.Status == types.ResultStatus_OK, "C18.d")
			vf.Assert(!body.HasNext, "C18.d")
			vf.Assert(stored == n, "C18.d")
			vf.Assert(m == n, "C18.d")
			vf.Assert(len(rsp.Blocks) == n, "C18.d")
			vf.Assert(br.status == receiverStatusFinished, "C18.d")
			vf.Assert(peer.consumed == 1, "C18.d")
		} else {
			vf.Assert(rsp.Blocks == nil, "C18.d")
			vf.Assert(br.status != receiverStatusWaiting, "C18.d") // no further block is accepted for this request
			if !body.HasNext {
				vf.Assert(br.status == receiverStatusFinished, "C18.d")
				vf.Assert(peer.consumed == 1, "C18.d")
			}
			switch rsp.Err {
			case message.RemotePeerFailError:
				vf.Assert(body.Status != types.ResultStatus_OK, "C18.d")
			case message.MissingHashError:
				vf.Assert(m == 0, "C18.d")
			case message.TooManyBlocksError:
				vf.Assert(m > n, "C18.d")
				vf.Assert(stored == n, "C18.d")
			case message.UnexpectedBlockError:
				vf.Assert(stored < m, "C18.d")
				if stored < m && stored < n {
					vf.Assert(!bytes.Equal(body.Blocks[stored].Hash, req[stored]), "C18.d")
				}
			case message.TooBigBlockError:
				vf.Assert(stored < m, "C18.d")
			case message.TooFewBlocksError:
				vf.Assert(!body.HasNext, "C18.d")
				vf.Assert(stored < n, "C18.d")
				vf.Assert(stored == m, "C18.d")
			default:
				vf.Fail("C18.d")
			}
		}
	} else {
		// nothing told: more chunks are expected, everything so far matched
		vf.Assert(body.Status == types.ResultStatus_OK, "C18.d")
		vf.Assert(body.HasNext, "C18.d")
		vf.Assert(stored == m, "C18.d")
		vf.Assert(br.status == receiverStatusWaiting, "C18.d")
	}
	_ = maxSize
	vf.Observe("stored", stored)
	vf.Observe("told", len(actor.told))
}

// C18.e (sync manager): HandleBlockProducedNotice and HandleGetBlockResponse forward a received block to the chain
// service (message.AddBlock) without recomputing its id: forwarded => Hash == H(header) fails for a forged Hash (F8).
func VF_C18_e_forward() {
	vfC18Init()
	l := vf.Param("fieldLen", 1)
	actor := &vfActor{}
	peer := &vfPeer{}
	cache, _ := lru.New(4)
	sm := &syncManager{actor: actor, blkCache: cache, logger: log.NewLogger("vf")}
	b := vfC18Block("b", l)
	forged := !bytes.Equal(b.Hash, vfC18Digest(b))
	which := vf.Choice("entry", 2)
	if which == 0 {
		sm.HandleBlockProducedNotice(peer, b)
	} else {
		sm.HandleGetBlockResponse(peer, nil, &types.GetBlockResponse{Blocks: []*types.Block{b}})
	}
	vf.Reach("C18.e.forward")
	vf.Assert(len(actor.sent) <= 1, "C18.e.forward")
	if len(actor.sent) == 1 {
		ab := actor.sent[0].(*message.AddBlock)
		vf.Assert(ab.Block == b, "C18.e.forward")
		vf.AssertKnown(bytes.Equal(ab.Block.BlockHash(), vfC18Digest(b)), "C18.e.forward", "F8-block-id-not-recomputed", forged)
	}
	vf.Observe("forwarded", len(actor.sent))
}
