package v200

import (
	"context"

	"github.com/aergoio/aergo-lib/log"
	"github.com/aergoio/aergo/v2/internal/network"
	"github.com/aergoio/aergo/v2/p2p/p2pcommon"
	"github.com/aergoio/aergo/v2/p2p/p2putil"
	"github.com/aergoio/aergo/v2/types"
	vf "github.com/aergoio/aergo/v2/zzvf"
)

// C18.c — handshake strictness of the v2.0.0 handshaker.
//
// Every job starts from a status that MATCHES the local view (vfMatching) and lets exactly one field differ in an
// arbitrary (symbolic) way; the obligation of each job is
//
//	checkRemoteStatus(status) == nil  <=>  the differing field satisfies its admission rule
//
// plus the effects of acceptance (remote meta / best block recorded, nothing written) and of refusal (exactly one
// go-away on the connection). The product of all fields in ONE job does not finish (ChainID.Read forks per byte, the
// role map per key), the per-field jobs do.

// ---- environment of the handshaker

type vfVM struct {
	p2pcommon.VersionedManager
	local   *types.ChainID
	askedNo []types.BlockNo
}

func (m *vfVM) GetChainID(no types.BlockNo) *types.ChainID {
	m.askedNo = append(m.askedNo, no)
	return m.local
}

// vfRW is the connection. Written messages are counted. ReadMsg is only executed by the native replay of the
// direction jobs (the engine replaces receiveRemoteStatus, whose body is protobuf decoding, by vfReceive): it hands the
// real receiveRemoteStatus the protobuf encoding of the same status.
type vfRW struct {
	p2pcommon.MsgReadWriter
	written  int
	incoming *types.Status
}

func (w *vfRW) WriteMsg(msg p2pcommon.Message) error { w.written++; return nil }

func (w *vfRW) ReadMsg() (p2pcommon.Message, error) {
	b, err := p2putil.MarshalMessageBody(w.incoming)
	if err != nil {
		return nil, err
	}
	return p2pcommon.NewMessageValue(p2pcommon.StatusRequest, p2pcommon.NewMsgID(), p2pcommon.EmptyID, 1, b), nil
}

// vfSendGoAway replaces (*V200Handshaker).sendGoAway: the notice is protobuf-marshalled (outside the technique); what
// matters here is that exactly one message goes out on the connection.
func vfSendGoAway(h *V200Handshaker, msg string) { h.msgRW.WriteMsg(nil) }

// vfSendLocal replaces (*V200Handshaker).sendLocalStatus (protobuf marshalling + one WriteMsg; the context is never
// cancelled in these jobs).
func vfSendLocal(h *V200Handshaker, ctx context.Context, st *types.Status) error {
	return h.msgRW.WriteMsg(nil)
}

// vfReceive replaces (*V200Handshaker).receiveRemoteStatus (ReadMsg + protobuf decoding): the decoded status is the
// harness's status object.
func vfReceive(h *V200Handshaker, ctx context.Context) (*types.Status, error) {
	return h.msgRW.(*vfRW).incoming, nil
}

// vfNodeVersion replaces p2pkey.NodeVersion (reads process-global node info that only exists in a running node; the
// native test binary initialises it from its sample key file).
func vfNodeVersion() string { return "v2.0.0-vf" }

// address strings offered to the handshake and their classification by network.CheckAddressType (net.ParseIP and a
// regular expression, outside the technique): vfAddrType replaces it on exactly this pool, natively the real function
// classifies the same strings.
var vfAddrPool = [4]string{"192.168.0.7", "node-1.example.org", "not an address!", ""}

func vfAddrType(s string) network.AddressType {
	switch s {
	case vfAddrPool[0]:
		return network.AddressTypeIP
	case vfAddrPool[1]:
		return network.AddressTypeFQDN
	}
	return network.AddressTypeError
}

// vfCidText replaces ChainID.ToJSON / p2putil.PrintChainID (json and strings.Builder internals), which only feed the
// text of the refusal error.
func vfCidText(id types.ChainID) string   { return "chainid" }
func vfCidTextP(id *types.ChainID) string { return "chainid" }

func vfChainID(tag string, l int) *types.ChainID {
	c := &types.ChainID{
		Version:   vf.I32(tag + ".Version"),
		PublicNet: vf.Bool(tag + ".PublicNet"),
		MainNet:   vf.Bool(tag + ".MainNet"),
		Magic:     vf.Str(tag+".Magic", l),
		Consensus: vf.Str(tag+".Consensus", l),
	}
	for i := 0; i < l; i++ {
		vf.Assume(c.Magic[i] != '/') // a '/' inside the strings is refused by ChainID.Bytes (C19.f)
		vf.Assume(c.Consensus[i] != '/')
	}
	return c
}

var vfGenLens = [4]int{32, 31, 33, 64}

type vfEnv struct {
	h       *V200Handshaker
	vm      *vfVM
	rw      *vfRW
	local   *types.ChainID
	peerID  types.PeerID
	genesis []byte
	st      *types.Status
}

// vfMatching builds a handshaker with an arbitrary local view (chain id, genesis hash of genLen bytes, id of the
// connection's peer) and a remote status that agrees with it in every checked field.
func vfMatching(genLen int) *vfEnv {
	l := vf.Param("strLen", 1)
	e := &vfEnv{}
	e.local = vfChainID("local", l)
	e.vm = &vfVM{local: e.local}
	e.rw = &vfRW{}
	e.peerID = types.PeerID(vf.Str("conn.peerID", 2))
	e.genesis = vf.Bytes("local.genesis", genLen)
	e.h = &V200Handshaker{vm: e.vm, logger: log.NewLogger("vf"), peerID: e.peerID, msgRW: e.rw, localGenesisHash: e.genesis}
	cid, err := e.local.Bytes()
	vf.Assume(err == nil)
	e.st = &types.Status{
		ChainID:       cid,
		BestHeight:    vf.U64("remote.bestHeight"),
		BestBlockHash: vf.Bytes("remote.bestHash", 32),
		Genesis:       append([]byte{}, e.genesis...),
		NoExpose:      vf.Bool("remote.noExpose"),
		Sender: &types.PeerAddress{
			Address: vfAddrPool[0],
			PeerID:  []byte(e.peerID),
			Role:    types.PeerRole_Watcher,
		},
	}
	e.rw.incoming = e.st
	return e
}

// vfBytesEqual: a and b have the same length and the same content (term built without forking; the harness's own
// definition of BYTE-EQUAL, independent of the comparison used by the code under test).
func vfBytesEqual(a, b []byte) bool {
	if len(a) != len(b) {
		return false
	}
	eq := true
	for i := range a {
		eq = vf.And(eq, a[i] == b[i])
	}
	return eq
}

func vfAccepted(e *vfEnv, ob string) {
	vf.Assert(e.rw.written == 0, ob)
	vf.Assert(e.h.remoteMeta.ID == e.peerID, ob)
	vf.Assert(e.h.remoteNo == e.st.BestHeight, ob)
	vf.Assert(vfBytesEqual(e.h.remoteHash[:], e.st.BestBlockHash), ob)
	vf.Assert(e.h.remoteMeta.Hidden == e.st.NoExpose, ob)
	vf.Assert(len(e.vm.askedNo) == 1, ob)
	vf.Assert(e.vm.askedNo[0] == e.st.BestHeight, ob) // the local chain id is the one for the REMOTE best height
}

func vfVerdict(e *vfEnv, err error, want bool, ob string) {
	vf.Reach(ob)
	vf.Assert((err == nil) == want, ob)
	if err == nil {
		vfAccepted(e, ob)
	} else {
		vf.Assert(e.rw.written == 1, ob)
	}
	vf.Observe("ok", err == nil)
}

// C18.c.accept: the matching status is accepted, whatever the (common) genesis length and sender address form.
func VF_C18_c_accept() {
	e := vfMatching(vfGenLens[vf.Choice("genLen", 4)])
	e.st.Sender.Address = vfAddrPool[vf.Choice("addr", 2)]
	e.st.Sender.Role = [3]types.PeerRole{types.PeerRole_Watcher, types.PeerRole_Producer, types.PeerRole_LegacyVersion}[vf.Choice("role", 3)]
	err := e.h.checkRemoteStatus(e.st)
	vfVerdict(e, err, true, "C18.c.accept")
}

// C18.c.genesis: only the genesis field is arbitrary: local and remote genesis are byte strings of 31/32/33/64 bytes
// (remote also empty) with arbitrary content. Accepted iff BYTE-EQUAL (same length, same bytes): a 33- or 64-byte value
// whose first 32 bytes are the local hash is refused, and so is a 31-byte value that is a prefix of it.
func VF_C18_c_genesis() {
	e := vfMatching(vfGenLens[vf.Choice("genLen", 4)])
	rl := [5]int{32, 31, 33, 64, 0}[vf.Choice("remoteGenLen", 5)]
	e.st.Genesis = vf.Bytes("remote.genesis", rl)
	err := e.h.checkRemoteStatus(e.st)
	vfVerdict(e, err, vfBytesEqual(e.genesis, e.st.Genesis), "C18.c.genesis")
}

// C18.c.chainid: only the chain id differs: another well-formed id (arbitrary fields), or arbitrary raw bytes.
// Accepted iff it decodes and every field equals the local id's.
func VF_C18_c_chainid() {
	e := vfMatching(32)
	l := vf.Param("strLen", 1)
	if vf.Choice("chainIDKind", 2) == 0 {
		r := vfChainID("remote", l)
		b, err := r.Bytes()
		vf.Assume(err == nil)
		e.st.ChainID = b
		want := vf.And(vf.And(r.Version == e.local.Version, r.PublicNet == e.local.PublicNet),
			vf.And(r.MainNet == e.local.MainNet, vf.And(r.Magic == e.local.Magic, r.Consensus == e.local.Consensus)))
		err = e.h.checkRemoteStatus(e.st)
		vfVerdict(e, err, want, "C18.c.chainid")
		return
	}
	// raw bytes: empty, cut inside the fixed part, fixed part only, and the full length of the local encoding
	full := 4 + 1 + 1 + 2*l + 1
	e.st.ChainID = vf.Bytes("remote.chainIDraw", [4]int{0, 5, 6, full}[vf.Choice("rawLen", 4)])
	err := e.h.checkRemoteStatus(e.st)
	rc := types.NewChainID()
	want := false
	if rc.Read(e.st.ChainID) == nil {
		want = vf.And(vf.And(rc.Version == e.local.Version, rc.PublicNet == e.local.PublicNet),
			vf.And(rc.MainNet == e.local.MainNet, vf.And(rc.Magic == e.local.Magic, rc.Consensus == e.local.Consensus)))
	}
	vfVerdict(e, err, want, "C18.c.chainid")
}

// C18.c.peerid: only the announced peer id is arbitrary (0..3 bytes against the 2-byte id of the connection).
func VF_C18_c_peerid() {
	e := vfMatching(32)
	e.st.Sender.PeerID = vf.Bytes("remote.peerID", vf.Choice("peerIDLen", 4))
	err := e.h.checkRemoteStatus(e.st)
	vfVerdict(e, err, vfBytesEqual(e.st.Sender.PeerID, []byte(e.peerID)), "C18.c.peerid")
}

// C18.c.addr: only the sender block differs: absent, or an address of each class.
func VF_C18_c_addr() {
	e := vfMatching(32)
	k := vf.Choice("addr", 5)
	want := false
	if k == 4 {
		e.st.Sender = nil
	} else {
		e.st.Sender.Address = vfAddrPool[k]
		want = k < 2
	}
	err := e.h.checkRemoteStatus(e.st)
	vfVerdict(e, err, want, "C18.c.addr")
}

// C18.c.besthash: only the best block hash is malformed: v2.0.0 refuses anything but 32 bytes.
func VF_C18_c_besthash() {
	e := vfMatching(32)
	n := [5]int{32, 0, 31, 33, 64}[vf.Choice("hashLen", 5)]
	e.st.BestBlockHash = vf.Bytes("remote.bestHash2", n)
	err := e.h.checkRemoteStatus(e.st)
	vfVerdict(e, err, n == 32, "C18.c.besthash")
}

// C18.c.agent: only the role block differs: arbitrary role number, 0..2 producers, no certificates. A peer claiming
// the agent role is accepted only if it names at least one producer; an unknown role number is treated as a legacy peer.
func VF_C18_c_agent() {
	e := vfMatching(32)
	role := vf.I32("remote.role")
	e.st.Sender.Role = types.PeerRole(role)
	np := vf.Choice("producers", 3)
	for i := 0; i < np; i++ {
		e.st.Sender.ProducerIDs = append(e.st.Sender.ProducerIDs, vf.Bytes("remote.producer", 2))
	}
	err := e.h.checkRemoteStatus(e.st)
	want := vf.Or(role != int32(types.PeerRole_Agent), np > 0)
	vfVerdict(e, err, want, "C18.c.agent")
	if err == nil {
		vf.Assert(len(e.h.remoteMeta.ProducerIDs) == np, "C18.c.agent")
		known := vf.Or(vf.Or(role == int32(types.PeerRole_LegacyVersion), role == int32(types.PeerRole_Producer)),
			vf.Or(role == int32(types.PeerRole_Watcher), role == int32(types.PeerRole_Agent)))
		vf.Assert(vf.Implies(known, int32(e.h.remoteMeta.Role) == role), "C18.c.agent")
		vf.Assert(vf.Implies(!known, e.h.remoteMeta.Role == types.PeerRole_LegacyVersion), "C18.c.agent")
	}
}

// ---- both directions: the complete DoForInbound / DoForOutbound with the wire codec replaced (receiveRemoteStatus
// yields the harness's status, sendLocalStatus/sendGoAway count one written message). A handshake result is produced
// only for a status that passes every check, it carries what the status announced, and a refused inbound peer is sent
// nothing but the go-away.

type vfCA struct {
	types.ChainAccessor
	best *types.Block
}

func (c *vfCA) GetBestBlock() (*types.Block, error) { return c.best, nil }

type vfIS struct {
	p2pcommon.InternalService
	ca *vfCA
}

func (s *vfIS) GetChainAccessor() types.ChainAccessor { return s.ca }

// vfOneOff makes one field of the matching status arbitrary; returns the admission rule for that field.
func vfOneOff(e *vfEnv) bool {
	switch vf.Choice("field", 6) {
	case 1: // genesis: same length with arbitrary content, or one byte longer / shorter with arbitrary content
		n := len(e.genesis) + vf.Choice("genDelta", 3) - 1
		e.st.Genesis = vf.Bytes("remote.genesis", n)
		return vfBytesEqual(e.genesis, e.st.Genesis)
	case 2:
		e.st.Sender.PeerID = vf.Bytes("remote.peerID", 2)
		return vfBytesEqual(e.st.Sender.PeerID, []byte(e.peerID))
	case 3: // chain id: one field of the local id changed
		r := *e.local
		r.Version = vf.I32("remote.Version")
		b, err := r.Bytes()
		vf.Assume(err == nil)
		e.st.ChainID = b
		return r.Version == e.local.Version
	case 4:
		e.st.Sender.Address = vfAddrPool[2]
		return false
	case 5:
		e.st.BestBlockHash = vf.Bytes("remote.bestHash2", 31)
		return false
	}
	return true
}

func vfDirection(inbound bool, ob string) {
	e := vfMatching(vfGenLens[vf.Choice("genLen", 2)])
	want := vfOneOff(e)
	best := &types.Block{Header: &types.BlockHeader{BlockNo: vf.U64("local.bestNo")}, Hash: vf.Bytes("local.bestHash", 32)}
	e.h.is = &vfIS{ca: &vfCA{best: best}}
	var res *p2pcommon.HandshakeResult
	var err error
	if inbound {
		res, err = e.h.DoForInbound(context.Background())
	} else {
		res, err = e.h.DoForOutbound(context.Background())
	}
	vf.Reach(ob)
	vf.Assert((res != nil) == (err == nil), ob)
	vf.Assert((err == nil) == want, ob)
	if err == nil {
		vf.Assert(res.Meta.ID == e.peerID, ob)
		vf.Assert(res.BestBlockNo == e.st.BestHeight, ob)
		vf.Assert(vfBytesEqual(res.BestBlockHash[:], e.st.BestBlockHash), ob)
		vf.Assert(res.Hidden == e.st.NoExpose, ob)
		vf.Assert(e.rw.written == 1, ob) // exactly the local status
	} else if inbound {
		vf.Assert(e.rw.written == 1, ob) // the go-away and nothing else: no local status for a refused peer
	} else {
		vf.Assert(e.rw.written == 2, ob) // local status (sent first), then the go-away
	}
	vf.Observe("ok", err == nil)
}

func VF_C18_c_inbound()  { vfDirection(true, "C18.c.inbound") }
func VF_C18_c_outbound() { vfDirection(false, "C18.c.outbound") }
