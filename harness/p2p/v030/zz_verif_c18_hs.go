package v030

import (
	"context"

	"github.com/aergoio/aergo-lib/log"
	"github.com/aergoio/aergo/v2/internal/network"
	"github.com/aergoio/aergo/v2/p2p/p2pcommon"
	"github.com/aergoio/aergo/v2/p2p/p2putil"
	"github.com/aergoio/aergo/v2/types"
	vf "github.com/aergoio/aergo/v2/zzvf"
)

// C18.c — handshake strictness of the legacy handshakers (wire versions 0.3.1 -> V030Handshaker, 0.3.2 ->
// V032Handshaker, 0.3.3 -> V033Handshaker; all three are still in p2pcommon.AcceptedInboundVersions).
//
// As in p2p/v200: every job starts from a status that MATCHES the local view and lets exactly one field differ in an
// arbitrary (symbolic) way; obligation: checkRemoteStatus(status) == nil <=> the differing field satisfies its
// admission rule, plus the effects of acceptance / refusal. One job per field and per handshaker version.

// ---- environment of the handshaker

type vfVM struct {
	p2pcommon.VersionedManager
	local   *types.ChainID
	askedNo []types.BlockNo
}

func (m *vfVM) GetChainID(no types.BlockNo) *types.ChainID {
	m.askedNo = append(m.askedNo, no)
	return m.local
}

// vfRW is the connection. Written messages are counted. ReadMsg is only executed by the native replay of the
// direction jobs (the engine replaces receiveRemoteStatus, whose body is protobuf decoding, by vfReceive): it hands the
// real receiveRemoteStatus the protobuf encoding of the same status.
type vfRW struct {
	p2pcommon.MsgReadWriter
	written  int
	incoming *types.Status
}

func (w *vfRW) WriteMsg(msg p2pcommon.Message) error { w.written++; return nil }

func (w *vfRW) ReadMsg() (p2pcommon.Message, error) {
	b, err := p2putil.MarshalMessageBody(w.incoming)
	if err != nil {
		return nil, err
	}
	return p2pcommon.NewMessageValue(p2pcommon.StatusRequest, p2pcommon.NewMsgID(), p2pcommon.EmptyID, 1, b), nil
}

// vfSendGoAway replaces (*V030Handshaker).sendGoAway: the notice is protobuf-marshalled (outside the technique); what
// matters here is that exactly one message goes out on the connection.
func vfSendGoAway(h *V030Handshaker, msg string) { h.msgRW.WriteMsg(nil) }

// vfSendLocal replaces (*V030Handshaker).sendLocalStatus (protobuf marshalling + one WriteMsg; the context is never
// cancelled in these jobs).
func vfSendLocal(h *V030Handshaker, ctx context.Context, st *types.Status) error {
	return h.msgRW.WriteMsg(nil)
}

// vfReceive replaces (*V030Handshaker).receiveRemoteStatus (ReadMsg + protobuf decoding): the decoded status is the
// harness's status object.
func vfReceive(h *V030Handshaker, ctx context.Context) (*types.Status, error) {
	return h.msgRW.(*vfRW).incoming, nil
}

// address strings offered to the handshake and their classification by network.CheckAddressType (net.ParseIP and a
// regular expression, outside the technique): vfAddrType replaces it on exactly this pool, natively the real function
// classifies the same strings.
var vfAddrPool = [4]string{"192.168.0.7", "node-1.example.org", "not an address!", ""}

func vfAddrType(s string) network.AddressType {
	switch s {
	case vfAddrPool[0]:
		return network.AddressTypeIP
	case vfAddrPool[1]:
		return network.AddressTypeFQDN
	}
	return network.AddressTypeError
}

// vfCidText replaces ChainID.ToJSON / p2putil.PrintChainID (json and strings.Builder internals), which only feed the
// text of the refusal error.
func vfCidText(id types.ChainID) string   { return "chainid" }
func vfCidTextP(id *types.ChainID) string { return "chainid" }

func vfChainID(tag string, l int) *types.ChainID {
	c := &types.ChainID{
		Version:   vf.I32(tag + ".Version"),
		PublicNet: vf.Bool(tag + ".PublicNet"),
		MainNet:   vf.Bool(tag + ".MainNet"),
		Magic:     vf.Str(tag+".Magic", l),
		Consensus: vf.Str(tag+".Consensus", l),
	}
	for i := 0; i < l; i++ {
		vf.Assume(c.Magic[i] != '/') // a '/' inside the strings is refused by ChainID.Bytes (C19.f)
		vf.Assume(c.Consensus[i] != '/')
	}
	return c
}

type vfCA struct {
	types.ChainAccessor
	best *types.Block
}

func (c *vfCA) GetBestBlock() (*types.Block, error) { return c.best, nil }

type vfActor struct {
	p2pcommon.ActorService
	ca *vfCA
}

func (s *vfActor) GetChainAccessor() types.ChainAccessor { return s.ca }

type vfPM struct {
	p2pcommon.PeerManager
}

func (p *vfPM) SelfMeta() p2pcommon.PeerMeta { return p2pcommon.PeerMeta{} }

// what the three handshakers have in common
type vfHS interface {
	checkRemoteStatus(remotePeerStatus *types.Status) error
	DoForInbound(ctx context.Context) (*p2pcommon.HandshakeResult, error)
	DoForOutbound(ctx context.Context) (*p2pcommon.HandshakeResult, error)
}

var vfGenLens = [4]int{32, 31, 33, 64}

type vfEnv struct {
	ver     int // 30, 32, 33
	hs      vfHS
	base    *V030Handshaker
	vm      *vfVM
	rw      *vfRW
	local   *types.ChainID
	peerID  types.PeerID
	genesis []byte
	st      *types.Status
}

// vfMatching builds a handshaker of the given version with an arbitrary local view (chain id, genesis hash of genLen
// bytes, id of the connection's peer) and a remote status that agrees with it in every checked field.
func vfMatching(ver int, genLen int) *vfEnv {
	l := vf.Param("strLen", 1)
	e := &vfEnv{ver: ver}
	e.local = vfChainID("local", l)
	e.vm = &vfVM{local: e.local}
	e.rw = &vfRW{}
	e.peerID = types.PeerID(vf.Str("conn.peerID", 2))
	e.genesis = vf.Bytes("local.genesis", genLen)
	best := &types.Block{Header: &types.BlockHeader{BlockNo: vf.U64("local.bestNo")}, Hash: vf.Bytes("local.bestHash", 32)}
	b30 := V030Handshaker{pm: &vfPM{}, actor: &vfActor{ca: &vfCA{best: best}}, logger: log.NewLogger("vf"), peerID: e.peerID, chainID: e.local, msgRW: e.rw}
	switch ver {
	case 30:
		h := &b30
		e.hs, e.base = h, h
	case 32:
		h := &V032Handshaker{V030Handshaker: b30, localGenesisHash: e.genesis}
		e.hs, e.base = h, &h.V030Handshaker
	default:
		// production builds it with chainID = vm.GetChainID(0) and asks vm again for the remote best height
		h := &V033Handshaker{V032Handshaker: V032Handshaker{V030Handshaker: b30, localGenesisHash: e.genesis}, vm: e.vm}
		e.hs, e.base = h, &h.V030Handshaker
	}
	cid, err := e.local.Bytes()
	vf.Assume(err == nil)
	e.st = &types.Status{
		ChainID:       cid,
		BestHeight:    vf.U64("remote.bestHeight"),
		BestBlockHash: vf.Bytes("remote.bestHash", 32),
		Genesis:       append([]byte{}, e.genesis...),
		NoExpose:      vf.Bool("remote.noExpose"),
		Sender: &types.PeerAddress{
			Address: vfAddrPool[0],
			PeerID:  []byte(e.peerID),
			Role:    types.PeerRole_Watcher,
		},
	}
	e.rw.incoming = e.st
	return e
}

// vfBytesEqual: a and b have the same length and the same content (term built without forking; the harness's own
// definition of BYTE-EQUAL, independent of the comparison used by the code under test).
func vfBytesEqual(a, b []byte) bool {
	if len(a) != len(b) {
		return false
	}
	eq := true
	for i := range a {
		eq = vf.And(eq, a[i] == b[i])
	}
	return eq
}

// vfHashID: what "the announced best block" becomes: the 32 bytes if well-formed, the zero id otherwise (0.3.x does
// not refuse a malformed best block hash).
func vfHashOK(got types.BlockID, announced []byte) bool {
	if len(announced) != 32 {
		return got == types.BlockID{}
	}
	return vfBytesEqual(got[:], announced)
}

func vfAccepted(e *vfEnv, ob string) {
	vf.Assert(e.rw.written == 0, ob)
	vf.Assert(e.base.remoteMeta.ID == e.peerID, ob)
	vf.Assert(e.base.remoteNo == e.st.BestHeight, ob)
	vf.Assert(vfHashOK(e.base.remoteHash, e.st.BestBlockHash), ob)
	vf.Assert(e.base.remoteMeta.Hidden == e.st.NoExpose, ob)
	if e.ver == 33 {
		vf.Assert(len(e.vm.askedNo) == 1, ob)
		vf.Assert(e.vm.askedNo[0] == e.st.BestHeight, ob) // the local chain id is the one for the REMOTE best height
	}
}

func vfVerdict(e *vfEnv, err error, want bool, ob string) {
	vf.Reach(ob)
	vf.Assert((err == nil) == want, ob)
	if err == nil {
		vfAccepted(e, ob)
	} else {
		vf.Assert(e.rw.written == 1, ob)
	}
	vf.Observe("ok", err == nil)
}

func vfOb(ver int, what string) string {
	switch ver {
	case 30:
		return "C18.c.v030." + what
	case 32:
		return "C18.c.v032." + what
	}
	return "C18.c.v033." + what
}

// accept: the matching status is accepted, whatever the (common) genesis length, the sender address form and the
// length of the best block hash (0.3.x does not check its format).
func vfJobAccept(ver int) {
	e := vfMatching(ver, vfGenLens[vf.Choice("genLen", 4)])
	e.st.Sender.Address = vfAddrPool[vf.Choice("addr", 2)]
	e.st.BestBlockHash = vf.Bytes("remote.bestHash2", [3]int{32, 31, 0}[vf.Choice("hashLen", 3)])
	err := e.hs.checkRemoteStatus(e.st)
	vfVerdict(e, err, true, vfOb(ver, "accept"))
}

// genesis: only the genesis field is arbitrary: local and remote genesis are byte strings of 31/32/33/64 bytes (remote
// also empty) with arbitrary content. Accepted iff BYTE-EQUAL (same length, same bytes).
//
// Wire version 0.3.1 (V030Handshaker) has no genesis field and compares nothing: a peer that offers only 0.3.1 is
// admitted with ANY genesis block (finding F-C18-1, recorded; the obligation is still decided outside that class).
func vfJobGenesis(ver int) {
	e := vfMatching(ver, vfGenLens[vf.Choice("genLen", 4)])
	rl := [5]int{32, 31, 33, 64, 0}[vf.Choice("remoteGenLen", 5)]
	e.st.Genesis = vf.Bytes("remote.genesis", rl)
	err := e.hs.checkRemoteStatus(e.st)
	same := vfBytesEqual(e.genesis, e.st.Genesis)
	ob := vfOb(ver, "genesis")
	if ver == 30 {
		vf.Reach(ob)
		vf.AssertKnown((err == nil) == same, ob, "F-C18-1-legacy-031-no-genesis-check", !same)
		vf.Observe("ok", err == nil)
		return
	}
	vfVerdict(e, err, same, ob)
}

// chainid: only the chain id differs: another well-formed id (arbitrary fields), or arbitrary raw bytes.
// Accepted iff it decodes and every field equals the local id's.
func vfJobChainID(ver int) {
	e := vfMatching(ver, 32)
	l := vf.Param("strLen", 1)
	ob := vfOb(ver, "chainid")
	if vf.Choice("chainIDKind", 2) == 0 {
		r := vfChainID("remote", l)
		b, err := r.Bytes()
		vf.Assume(err == nil)
		e.st.ChainID = b
		want := vf.And(vf.And(r.Version == e.local.Version, r.PublicNet == e.local.PublicNet),
			vf.And(r.MainNet == e.local.MainNet, vf.And(r.Magic == e.local.Magic, r.Consensus == e.local.Consensus)))
		err = e.hs.checkRemoteStatus(e.st)
		vfVerdict(e, err, want, ob)
		return
	}
	full := 4 + 1 + 1 + 2*l + 1
	e.st.ChainID = vf.Bytes("remote.chainIDraw", [4]int{0, 5, 6, full}[vf.Choice("rawLen", 4)])
	err := e.hs.checkRemoteStatus(e.st)
	rc := types.NewChainID()
	want := false
	if rc.Read(e.st.ChainID) == nil {
		want = vf.And(vf.And(rc.Version == e.local.Version, rc.PublicNet == e.local.PublicNet),
			vf.And(rc.MainNet == e.local.MainNet, vf.And(rc.Magic == e.local.Magic, rc.Consensus == e.local.Consensus)))
	}
	vfVerdict(e, err, want, ob)
}

// peerid: only the announced peer id is arbitrary (0..3 bytes against the 2-byte id of the connection).
func vfJobPeerID(ver int) {
	e := vfMatching(ver, 32)
	e.st.Sender.PeerID = vf.Bytes("remote.peerID", vf.Choice("peerIDLen", 4))
	err := e.hs.checkRemoteStatus(e.st)
	vfVerdict(e, err, vfBytesEqual(e.st.Sender.PeerID, []byte(e.peerID)), vfOb(ver, "peerid"))
}

// addr: only the sender block differs: absent, or an address of each class.
func vfJobAddr(ver int) {
	e := vfMatching(ver, 32)
	k := vf.Choice("addr", 5)
	want := false
	if k == 4 {
		e.st.Sender = nil
	} else {
		e.st.Sender.Address = vfAddrPool[k]
		want = k < 2
	}
	err := e.hs.checkRemoteStatus(e.st)
	vfVerdict(e, err, want, vfOb(ver, "addr"))
}

// ---- both directions: the complete DoForInbound / DoForOutbound with the wire codec replaced.

// vfOneOff makes one field of the matching status arbitrary; returns the admission rule for that field.
func vfOneOff(e *vfEnv) bool {
	nf := 5
	if e.ver == 30 {
		nf = 4 // the genesis field does not exist in 0.3.1 (see vfJobGenesis)
	}
	switch vf.Choice("field", nf) {
	case 1:
		e.st.Sender.PeerID = vf.Bytes("remote.peerID", 2)
		return vfBytesEqual(e.st.Sender.PeerID, []byte(e.peerID))
	case 2: // chain id: one field of the local id changed
		r := *e.local
		r.Version = vf.I32("remote.Version")
		b, err := r.Bytes()
		vf.Assume(err == nil)
		e.st.ChainID = b
		return r.Version == e.local.Version
	case 3:
		e.st.Sender.Address = vfAddrPool[2]
		return false
	case 4: // genesis: same length with arbitrary content, or one byte longer / shorter with arbitrary content
		n := len(e.genesis) + vf.Choice("genDelta", 3) - 1
		e.st.Genesis = vf.Bytes("remote.genesis", n)
		return vfBytesEqual(e.genesis, e.st.Genesis)
	}
	return true
}

func vfDirection(ver int, inbound bool) {
	e := vfMatching(ver, vfGenLens[vf.Choice("genLen", 2)])
	want := vfOneOff(e)
	ob := vfOb(ver, "outbound")
	if inbound {
		ob = vfOb(ver, "inbound")
	}
	var res *p2pcommon.HandshakeResult
	var err error
	if inbound {
		res, err = e.hs.DoForInbound(context.Background())
	} else {
		res, err = e.hs.DoForOutbound(context.Background())
	}
	vf.Reach(ob)
	vf.Assert((res != nil) == (err == nil), ob)
	vf.Assert((err == nil) == want, ob)
	if err == nil {
		vf.Assert(res.Meta.ID == e.peerID, ob)
		vf.Assert(res.BestBlockNo == e.st.BestHeight, ob)
		vf.Assert(vfHashOK(res.BestBlockHash, e.st.BestBlockHash), ob)
		vf.Assert(res.Hidden == e.st.NoExpose, ob)
		vf.Assert(e.rw.written == 1, ob) // exactly the local status
	} else if inbound {
		vf.Assert(e.rw.written == 1, ob) // the go-away and nothing else: no local status for a refused peer
	} else {
		vf.Assert(e.rw.written == 2, ob) // local status (sent first), then the go-away
	}
	vf.Observe("ok", err == nil)
}

func VF_C18_c30_accept()   { vfJobAccept(30) }
func VF_C18_c30_genesis()  { vfJobGenesis(30) }
func VF_C18_c30_chainid()  { vfJobChainID(30) }
func VF_C18_c30_peerid()   { vfJobPeerID(30) }
func VF_C18_c30_addr()     { vfJobAddr(30) }
func VF_C18_c30_inbound()  { vfDirection(30, true) }
func VF_C18_c30_outbound() { vfDirection(30, false) }

func VF_C18_c32_accept()   { vfJobAccept(32) }
func VF_C18_c32_genesis()  { vfJobGenesis(32) }
func VF_C18_c32_chainid()  { vfJobChainID(32) }
func VF_C18_c32_peerid()   { vfJobPeerID(32) }
func VF_C18_c32_addr()     { vfJobAddr(32) }
func VF_C18_c32_inbound()  { vfDirection(32, true) }
func VF_C18_c32_outbound() { vfDirection(32, false) }

func VF_C18_c33_accept()   { vfJobAccept(33) }
func VF_C18_c33_genesis()  { vfJobGenesis(33) }
func VF_C18_c33_chainid()  { vfJobChainID(33) }
func VF_C18_c33_peerid()   { vfJobPeerID(33) }
func VF_C18_c33_addr()     { vfJobAddr(33) }
func VF_C18_c33_inbound()  { vfDirection(33, true) }
func VF_C18_c33_outbound() { vfDirection(33, false) }
