package v030

import (
	"bytes"

	"github.com/aergoio/aergo-lib/log"
	"github.com/aergoio/aergo/v2/internal/network"
	"github.com/aergoio/aergo/v2/p2p/p2pcommon"
	"github.com/aergoio/aergo/v2/types"
	vf "github.com/aergoio/aergo/v2/zzvf"
)

// ---- environment of the handshaker

type vfVM struct {
	p2pcommon.VersionedManager
	local   *types.ChainID
	askedNo []types.BlockNo
}

func (m *vfVM) GetChainID(no types.BlockNo) *types.ChainID {
	m.askedNo = append(m.askedNo, no)
	return m.local
}

type vfRW struct {
	p2pcommon.MsgReadWriter
	written int
}

func (w *vfRW) WriteMsg(msg p2pcommon.Message) error { w.written++; return nil }

// vfSendGoAway replaces (*V030Handshaker).sendGoAway: the notice is protobuf-marshalled (outside the technique); what
// matters here is that exactly one message goes out on the connection.
func vfSendGoAway(h *V030Handshaker, msg string) { h.msgRW.WriteMsg(nil) }

// address strings offered to the handshake and their classification by network.CheckAddressType (net.ParseIP and a
// regular expression, outside the technique): vfAddrType replaces it on exactly this pool, natively the real function
// classifies the same strings.
var vfAddrPool = [4]string{"192.168.0.7", "node-1.example.org", "not an address!", ""}

func vfAddrType(s string) network.AddressType {
	switch s {
	case vfAddrPool[0]:
		return network.AddressTypeIP
	case vfAddrPool[1]:
		return network.AddressTypeFQDN
	}
	return network.AddressTypeError
}

// vfCidText replaces ChainID.ToJSON / p2putil.PrintChainID (json and strings.Builder internals), which only feed the
// text of the refusal error.
func vfCidText(id types.ChainID) string   { return "chainid" }
func vfCidTextP(id *types.ChainID) string { return "chainid" }

func vfChainID(tag string, l int) *types.ChainID {
	c := &types.ChainID{
		Version:   vf.I32(tag + ".Version"),
		PublicNet: vf.Bool(tag + ".PublicNet"),
		MainNet:   vf.Bool(tag + ".MainNet"),
		Magic:     vf.Str(tag+".Magic", l),
		Consensus: vf.Str(tag+".Consensus", l),
	}
	for i := 0; i < l; i++ {
		vf.Assume(c.Magic[i] != '/') // F2 (C19.f) is a separate, recorded finding
		vf.Assume(c.Consensus[i] != '/')
	}
	return c
}

// C18.c (legacy wire versions): V033Handshaker.checkRemoteStatus accepts a remote status only if
//
//	the remote chain id decodes and Equals the local chain id for the remote best height,
//	the sender address is an IP or a domain name, the announced peer id is the id of the connection and the genesis
//	hash equals the local one;
//
// a status that agrees in all of these is accepted. Every refusal sends exactly one go-away.
func VF_C18_c_v033() {
	l := vf.Param("strLen", 1)
	local := vfChainID("local", l)
	vm := &vfVM{local: local}
	rw := &vfRW{}
	peerID := types.PeerID(vf.Str("conn.peerID", 2))
	genesis := vf.Bytes("local.genesis", 2)
	h := &V033Handshaker{V032Handshaker: V032Handshaker{V030Handshaker: V030Handshaker{logger: log.NewLogger("vf"), peerID: peerID, msgRW: rw}, localGenesisHash: genesis}, vm: vm}

	st := &types.Status{
		BestHeight: vf.U64("remote.bestHeight"),
		Genesis:    vf.Bytes("remote.genesis", 2),
		NoExpose:   vf.Bool("remote.noExpose"),
	}
	switch vf.Choice("chainIDKind", 3) {
	case 0: // the local id, re-encoded
		b, err := local.Bytes()
		vf.Assume(err == nil)
		st.ChainID = b
	case 1: // another well-formed chain id (may or may not coincide)
		b, err := vfChainID("remote", l).Bytes()
		vf.Assume(err == nil)
		st.ChainID = b
	case 2: // arbitrary short bytes
		st.ChainID = vf.Bytes("remote.chainIDraw", [3]int{0, 6, 8}[vf.Choice("rawLen", 3)])
	}
	st.BestBlockHash = vf.Bytes("remote.bestHash", 32-vf.Choice("hashShort", 2))
	if vf.Choice("hasSender", 2) == 1 {
		st.Sender = &types.PeerAddress{
			Address: vfAddrPool[vf.Choice("addr", 4)],
			PeerID:  []byte(vf.Str("remote.peerID", 2)),
			Role:    types.PeerRole(vf.I32("remote.role")),
		}
		if vf.Choice("producers", 2) == 1 {
			st.Sender.ProducerIDs = [][]byte{vf.Bytes("remote.producer", 2)}
		}
	}

	err := h.checkRemoteStatus(st)

	// specification, from the same primitives (built without forking)
	rc := types.NewChainID()
	decodeErr := rc.Read(st.ChainID)
	chainOK := false
	if decodeErr == nil {
		chainOK = vf.And(vf.And(rc.Version == local.Version, rc.PublicNet == local.PublicNet),
			vf.And(rc.MainNet == local.MainNet, vf.And(rc.Magic == local.Magic, rc.Consensus == local.Consensus)))
	}
	hashOK := len(st.BestBlockHash) == 32
	addrOK := st.Sender != nil && vfAddrType(st.Sender.Address) != network.AddressTypeError
	idOK := false
	agentOK := true
	if st.Sender != nil {
		idOK = string(st.Sender.PeerID) == string(peerID)
		agentOK = vf.Or(st.Sender.Role != types.PeerRole_Agent, len(st.Sender.ProducerIDs) > 0)
	}
	genesisOK := bytes.Equal(genesis, st.Genesis)
	_, _ = hashOK, agentOK // 0.3.x does not check the format of the best block hash and has no roles
	want := vf.And(vf.And(chainOK, addrOK), vf.And(idOK, genesisOK))
	vf.Reach("C18.c.v033")
	vf.Assert((err == nil) == want, "C18.c.v033")
	if err == nil {
		vf.Assert(rw.written == 0, "C18.c.v033")
		vf.Assert(h.remoteMeta.ID == peerID, "C18.c.v033")
		vf.Assert(h.remoteNo == st.BestHeight, "C18.c.v033")
		vf.Assert(h.remoteMeta.Hidden == st.NoExpose, "C18.c.v033")
		vf.Assert(len(vm.askedNo) == 1, "C18.c.v033")
		vf.Assert(vm.askedNo[0] == st.BestHeight, "C18.c.v033")
	} else {
		vf.Assert(rw.written == 1, "C18.c.v033")
	}
	vf.Observe("ok", err == nil)
}
