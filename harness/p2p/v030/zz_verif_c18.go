package v030

import (
	"bytes"

	"github.com/aergoio/aergo/v2/p2p/p2pcommon"
	vf "github.com/aergoio/aergo/v2/zzvf"
)

// vfMsg is a p2pcommon.Message whose every accessor is an independent symbolic value (Length is NOT tied to the payload,
// so WriteMsg's own consistency checks are exercised too).
type vfMsg struct {
	sub     p2pcommon.SubProtocol
	length  uint32
	ts      int64
	id, oid p2pcommon.MsgID
	payload []byte
}

func (m *vfMsg) Subprotocol() p2pcommon.SubProtocol { return m.sub }
func (m *vfMsg) Length() uint32                     { return m.length }
func (m *vfMsg) Timestamp() int64                   { return m.ts }
func (m *vfMsg) ID() p2pcommon.MsgID                { return m.id }
func (m *vfMsg) OriginalID() p2pcommon.MsgID        { return m.oid }
func (m *vfMsg) Payload() []byte                    { return m.payload }

func vfMsgID(name string) p2pcommon.MsgID {
	var id p2pcommon.MsgID
	copy(id[:], vf.Bytes(name, p2pcommon.IDLength))
	return id
}

func vfSymMsg(tag string, payloadLen int) *vfMsg {
	return &vfMsg{
		sub:     p2pcommon.SubProtocol(vf.U32(tag + ".sub")),
		length:  uint32(payloadLen),
		ts:      vf.I64(tag + ".ts"),
		id:      vfMsgID(tag + ".id"),
		oid:     vfMsgID(tag + ".oid"),
		payload: vf.Bytes(tag+".payload", payloadLen),
	}
}

func vfSameMsg(got p2pcommon.Message, want *vfMsg, ob string) {
	vf.Assert(got.Subprotocol() == want.sub, ob)
	vf.Assert(got.Length() == want.length, ob)
	vf.Assert(got.Timestamp() == want.ts, ob)
	vf.Assert(got.ID() == want.id, ob)
	vf.Assert(got.OriginalID() == want.oid, ob)
	vf.Assert(bytes.Equal(got.Payload(), want.payload), ob)
	vf.Assert(len(got.Payload()) == len(want.payload), ob)
}

// ---------------------------------------------------------------------------------------------
// C18.a (stream): nMsg messages written with the real WriteMsg into a byte pipe and read back with the real ReadMsg
// (both through bufio, as in production) come back identical, in order, for every delivery schedule of the pipe family
// and every payload content; nothing is left in the stream.
func VF_C18_a_stream() {
	maxP := vf.Param("maxPayload", 4)
	nMsg := vf.Param("nMsg", 1)
	nCuts := vf.Param("nCuts", 1)
	p := vf.NewPipe()
	w := NewV030ReadWriter(nil, p, p)
	var sent []*vfMsg
	total := 0
	for i := 0; i < nMsg; i++ {
		n := vf.Choice("payloadLen", maxP+1)
		m := vfSymMsg("m", n)
		err := w.WriteMsg(m)
		vf.Assert(err == nil, "C18.a.stream")
		sent = append(sent, m)
		total += msgHeaderLength + n
	}
	vf.Assert(len(p.Buf) == total, "C18.a.stream")
	if vf.Param("cutsOnlyAtMax", 0) != 0 && total != nMsg*(msgHeaderLength+maxP) {
		// quick tier: single-cut schedules are explored for the longest stream only (they cover a cut inside the
		// header, at the header/payload boundary and inside the payload); shorter streams get the two uniform schedules
		nCuts = 0
	}
	p.ChooseSchedule(total, nCuts)
	r := NewV030ReadWriter(p, nil, p)
	vf.Reach("C18.a.stream")
	for i := 0; i < nMsg; i++ {
		got, err := r.ReadMsg()
		vf.Assert(err == nil, "C18.a.stream")
		if err != nil {
			return
		}
		vfSameMsg(got, sent[i], "C18.a.stream")
	}
	vf.Assert(p.R == total, "C18.a.stream")
	vf.Assert(r.r.Buffered() == 0, "C18.a.stream")
	// and the next read reports the end of the stream as an error, not as a message
	got, err := r.ReadMsg()
	vf.Assert(err != nil, "C18.a.stream")
	vf.Assert(got == nil, "C18.a.stream")
	vf.Observe("wire", p.Buf)
}

// C18.a (sequence on one connection): the same obligation for nMsg >= 2 messages written through ONE writer (the writer's
// scratch header buffer is reused between messages, so every header field of message i+1 must be rewritten whatever
// message i held) — all fields of all messages symbolic and independent.
func VF_C18_a_stream_seq() { VF_C18_a_stream() }

// C18.a (writer checks): WriteMsg refuses a message whose Length() disagrees with its payload or exceeds
// MaxPayloadLength and then writes nothing; otherwise it emits exactly header+payload.
func VF_C18_a_write() {
	maxP := vf.Param("maxPayload", 4)
	n := vf.Choice("payloadLen", maxP+1)
	m := vfSymMsg("m", n)
	m.length = vf.U32("m.len")
	p := vf.NewPipe()
	w := NewV030ReadWriter(nil, p, p)
	err := w.WriteMsg(m)
	vf.Reach("C18.a.write")
	ok := vf.And(m.length == uint32(n), m.length <= p2pcommon.MaxPayloadLength)
	vf.Assert((err == nil) == ok, "C18.a.write")
	if err != nil {
		vf.Assert(len(p.Buf) == 0, "C18.a.write")
	} else {
		vf.Assert(len(p.Buf) == msgHeaderLength+n, "C18.a.write")
		vf.Assert(bytes.Equal(p.Buf[msgHeaderLength:], m.payload), "C18.a.write")
	}
	vf.Observe("err", err != nil)
}

// ---------------------------------------------------------------------------------------------
// C18.b: ReadMsg on an ARBITRARY byte stream (48 arbitrary header bytes, so the announced length is any uint32, followed
// by up to maxBody arbitrary bytes, the whole cut off at any offset):
//   - the payload buffer is allocated only with a length <= p2pcommon.MaxPayloadLength (real value), decided at the
//     MakeSlice site for every announced length;
//   - a message is returned iff the stream holds the complete frame, and then it is exactly that frame;
//   - otherwise an error, never a panic, and no message object.
func VF_C18_b() {
	maxBody := vf.Param("maxBody", 4)
	nCuts := vf.Param("nCuts", 1)
	p := vf.NewPipe()
	hdr := vf.Bytes("hdr", msgHeaderLength)
	body := vf.Bytes("body", maxBody)
	p.Buf = append(append(p.Buf, hdr...), body...)
	total := msgHeaderLength + maxBody
	p.Limit = vf.Choice("truncateAt", total+1)
	if p.Limit > 1 {
		p.ChooseSchedule(p.Limit, nCuts)
	}
	announced := uint32(hdr[4])<<24 | uint32(hdr[5])<<16 | uint32(hdr[6])<<8 | uint32(hdr[7])
	r := NewV030ReadWriter(p, nil, p)
	vf.AllocLimit(int(p2pcommon.MaxPayloadLength), "C18.b.alloc")
	vf.Reach("C18.b.alloc")
	got, err := r.ReadMsg()
	vf.Reach("C18.b")
	if err == nil {
		vf.Assert(got != nil, "C18.b")
		vf.Assert(announced <= p2pcommon.MaxPayloadLength, "C18.b")
		vf.Assert(uint64(msgHeaderLength)+uint64(announced) <= uint64(p.Limit), "C18.b")
		vf.Assert(got.Length() == announced, "C18.b")
		vf.Assert(uint32(len(got.Payload())) == announced, "C18.b")
		vf.Assert(bytes.Equal(got.Payload(), body[:len(got.Payload())]), "C18.b")
		vf.Assert(p.R <= p.Limit, "C18.b")
	} else {
		vf.Assert(got == nil, "C18.b")
		// an error is justified: oversized announcement or incomplete frame
		vf.Assert(vf.Or(announced > p2pcommon.MaxPayloadLength, uint64(msgHeaderLength)+uint64(announced) > uint64(p.Limit)), "C18.b")
	}
	vf.Observe("err", err != nil)
	vf.Observe("consumed", p.R)
}

// C18.b (limit boundary): a frame that announces MORE than MaxPayloadLength is refused on its header alone: the stream
// holds exactly the 48 header bytes (arbitrary but for the announced length: MaxPayloadLength+1, or the largest uint32)
// and ReadMsg answers with an error after the single read that delivered the header: it does not go back to the stream
// for a body (which it could only do after allocating a buffer of the announced size).
func VF_C18_b_limit() {
	p := vf.NewPipe()
	hdr := vf.Bytes("hdr", msgHeaderLength)
	l := [2]uint32{p2pcommon.MaxPayloadLength + 1, 0xFFFFFFFF}[vf.Choice("announced", 2)]
	hdr[4], hdr[5], hdr[6], hdr[7] = byte(l>>24), byte(l>>16), byte(l>>8), byte(l)
	p.Buf = append(p.Buf, hdr...)
	r := NewV030ReadWriter(p, nil, p)
	got, err := r.ReadMsg()
	vf.Reach("C18.b.limit")
	vf.Assert(err != nil, "C18.b.limit")
	vf.Assert(got == nil, "C18.b.limit")
	vf.Assert(p.Reads == 1, "C18.b.limit")
	vf.Observe("reads", p.Reads)
}

// vfSubString replaces (SubProtocol).String inside C18.b (it only feeds the error text; its own totality is C18.b.str).
func vfSubString(i p2pcommon.SubProtocol) string { return "sub" }

// C18.b.str: the generated Stringer of SubProtocol, which ReadMsg calls on the attacker-chosen sub-protocol number while
// building its error text, returns for every uint32 (no index out of range).
func VF_C18_b_str() {
	i := p2pcommon.SubProtocol(vf.U32("sub"))
	s := i.String()
	vf.Reach("C18.b.str")
	vf.Assert(len(s) >= 0, "C18.b.str") // the obligation is the absence of a panic on every path (ranges and default)
}
