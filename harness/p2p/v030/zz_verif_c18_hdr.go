package v030

import (
	vf "github.com/aergoio/aergo/v2/zzvf"
)

// This job calls the unexported helpers marshalHeader/parseHeader directly; it lives in its own file so that a refactoring
// of their signatures only makes THIS job inconclusive (the driver drops a harness file that no longer compiles) while
// the stream, allocation and truncation jobs, which use the exported reader/writer, still run.

// ---------------------------------------------------------------------------------------------
// C18.a (header): parseHeader(marshalHeader(m)) == m for every sub-protocol, length, timestamp and ids, and
// marshalHeader(parseHeader(b)) == b for every 48-byte string (the header codec is a bijection).
func VF_C18_a_header() {
	m := vfSymMsg("m", 0)
	m.length = vf.U32("m.len")
	rw := &V030ReadWriter{}
	rw.marshalHeader(m)
	got, l := parseHeader(rw.writeBuf)
	vf.Reach("C18.a.header")
	vf.Assert(l == m.length, "C18.a.header")
	vf.Assert(got.Subprotocol() == m.sub, "C18.a.header")
	vf.Assert(got.Timestamp() == m.ts, "C18.a.header")
	vf.Assert(got.ID() == m.id, "C18.a.header")
	vf.Assert(got.OriginalID() == m.oid, "C18.a.header")
	vf.Assert(got.Length() == 0, "C18.a.header") // lite message: payload not yet attached
	vf.Assert(len(got.Payload()) == 0, "C18.a.header")

	// other direction
	var raw [msgHeaderLength]byte
	copy(raw[:], vf.Bytes("raw", msgHeaderLength))
	pm, pl := parseHeader(raw)
	rw2 := &V030ReadWriter{}
	rw2.marshalHeader(&vfMsg{sub: pm.Subprotocol(), length: pl, ts: pm.Timestamp(), id: pm.ID(), oid: pm.OriginalID()})
	vf.Assert(rw2.writeBuf == raw, "C18.a.header")
	vf.Observe("hdr", rw.writeBuf[:])
	vf.Observe("len", l)
}
