#!/bin/bash
# runs the quick (or given) tier of every registered property check, one after the other; prints rc and summary per property
cd "$(dirname "$0")/.."
TIER=${1:-quick}
shift
PROPS=${@:-$(ls harness/props/ | grep '^C' | sed 's/.json//')}
for p in $PROPS; do
  t0=$(date +%s)
  ./check $p --tier $TIER > /tmp/runall_$p.out 2> /tmp/runall_$p.err
  rc=$?
  t1=$(date +%s)
  echo "== $p rc=$rc wall=$((t1-t0))s $(grep '^gosym' /tmp/runall_$p.out | tail -1)"
  grep -E '^(VIOLATION|INCONCLUSIVE|ENGINE-FAULT)' /tmp/runall_$p.out | cut -c1-300 | head -6
done
