#!/usr/bin/env python3
"""Regenerates /verif/MANIFEST.json from harness/props.json (claimed checks) + lib/manifest_meta.json (texts)."""
import json, os, glob
V = os.path.dirname(os.path.dirname(os.path.abspath(__file__)))
props = {os.path.basename(f)[:-5]: json.load(open(f)) for f in glob.glob(os.path.join(V, "harness", "props", "C*.json"))}
meta = json.load(open(os.path.join(V, "lib", "manifest_meta.json")))
for f in glob.glob(os.path.join(V, "lib", "meta", "C*.json")):
    meta[os.path.basename(f)[:-5]] = json.load(open(f))
ids = [json.loads(l)["id"] for l in open(os.path.join(V, "properties.jsonl")) if l.strip()]
checks, na = [], []
for pid in ids:
    m = meta.get(pid, {})
    if pid in props and not props[pid].get("disabled"):
        checks.append({
            "property_id": pid,
            "quick_cmd": "./check %s --tier quick" % pid,
            "thorough_cmd": "./check %s --tier thorough" % pid,
            "evidence_file": "evidence/%s.json" % pid,
            "replay_cmd_template": "./check %s --replay {path}" % pid,
            "engine": "gosym",
            "level_claimed": {"category": "model_checking", "text": m.get("text", ""), "design_ref": "DESIGN.md §4 " + pid},
            "level_note": m.get("note", ""),
            "technique": m.get("technique", "bounded symbolic execution of the real go/ssa code, each assertion decided by an SMT solver (z3) over all symbolic inputs; counterexamples replayed natively"),
        })
    else:
        na.append({"property_id": pid, "reason": m.get("na_reason", "no solver-based check has been built for this property in this revision (planned obligations: DESIGN.md §4 %s)" % pid)})
man = {
    "version": 1,
    "setup_cmd": "cd /verif/engine && export GOFLAGS=-mod=mod GOPROXY=off GOSUMDB=off GOTOOLCHAIN=local && go build -o ../bin/gosym ./cmd/gosym && go build -o ../bin/cgoxf ./cmd/cgoxf",
    "hooks": {"guard": "verif_harness", "enable": "no source hooks: harnesses, support package zzvf and cgo translations are injected with go/packages Overlay and `go test -overlay`; /repo is never written",
              "baseline_off_cmd": json.load(open("/root/.vp/BASELINE.json"))["cmd"] if os.path.exists("/root/.vp/BASELINE.json") else meta.get("_baseline", ""),
              "source_commits": meta.get("_source_commits", []), "add_only": True},
    "engines": [{"name": "gosym", "path": "engine", "serves_properties": [c["property_id"] for c in checks],
                 "kind_free_text": "own symbolic executor for go/ssa (KLEE-style, stateless DFS) emitting SMT-LIB2 to z3/cvc5; native replay of models through go test -overlay"}],
    "checks": checks,
    "not_applicable": na,
    "notes": meta.get("_notes", ""),
}
json.dump(man, open(os.path.join(V, "MANIFEST.json"), "w"), indent=1)
print("claimed:", [c["property_id"] for c in checks], "n/a:", len(na))
