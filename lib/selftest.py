#!/usr/bin/env python3
"""selftest.py CNN [--tier quick|thorough] [--only NAME]
Mutation self-test: every harness/mutants/CNN/*.diff (unified diff, -p1 relative to the repo root) is applied to a
scratch copy of the touched files only and handed to ./check as extra overlay entries (/repo is never modified).
Expected result per mutant: exit 1 with a VIOLATION line. Prints killed/total and writes harness/mutants/CNN/RESULT.json."""
import os, sys, re, json, glob, shutil, subprocess, tempfile

V = os.path.dirname(os.path.dirname(os.path.abspath(__file__)))
REPO = os.environ.get("VERIF_REPO", "/repo")


def main():
    pid = sys.argv[1]
    tier = "quick"
    only = None
    a = sys.argv[2:]
    while a:
        if a[0] == "--tier":
            tier = a[1]; a = a[2:]
        elif a[0] == "--only":
            only = a[1]; a = a[2:]
        else:
            a = a[1:]
    res = {}
    for d in sorted(glob.glob(os.path.join(V, "harness", "mutants", pid, "*.diff"))):
        name = os.path.basename(d)[:-5]
        if only and only != name:
            continue
        tmp = tempfile.mkdtemp(prefix="vfmut_")
        try:
            files = re.findall(r"^\+\+\+ b/(\S+)", open(d).read(), re.M)
            args = []
            for f in files:
                os.makedirs(os.path.dirname(os.path.join(tmp, f)), exist_ok=True)
                shutil.copy(os.path.join(REPO, f), os.path.join(tmp, f))
            r = subprocess.run(["patch", "-p1", "-s", "-d", tmp, "-i", d], stdout=subprocess.PIPE, stderr=subprocess.STDOUT, text=True)
            if r.returncode != 0:
                res[name] = {"result": "PATCH-FAILED", "detail": r.stdout[-500:]}
                print(name, "PATCH-FAILED", r.stdout[-300:])
                continue
            for f in files:
                args += ["--patch-overlay", "%s=%s" % (os.path.join(REPO, f), os.path.join(tmp, f))]
            env = dict(os.environ, VERIF_NODIFF="1", VERIF_EVIDENCE_DIR=os.path.join(tmp, "ev"), VERIF_REPLAY_DIR=os.path.join(tmp, "rp"))
            r = subprocess.run([os.path.join(V, "check"), pid, "--tier", tier] + args, stdout=subprocess.PIPE, stderr=subprocess.PIPE, text=True, env=env)
            viol = [l for l in r.stdout.splitlines() if l.startswith("VIOLATION")]
            killed = r.returncode == 1 and bool(viol)
            res[name] = {"result": "KILLED" if killed else "SURVIVED(rc=%d)" % r.returncode, "violations": viol[:3], "tail": r.stdout.splitlines()[-3:]}
            print(name, res[name]["result"], (viol[:1] or r.stdout.splitlines()[-2:]))
        finally:
            shutil.rmtree(tmp, ignore_errors=True)
    k = sum(1 for v in res.values() if v["result"] == "KILLED")
    print("mutants killed %d/%d" % (k, len(res)))
    if not only:
        json.dump({"tier": tier, "killed": k, "total": len(res), "mutants": res}, open(os.path.join(V, "harness", "mutants", pid, "RESULT.json"), "w"), indent=1)


if __name__ == "__main__":
    main()
