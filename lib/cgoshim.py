"""Builds, from /repo's current tree, the overlay that turns the cgo package `contract` (and cmd/aergoluac/luac)
into ordinary Go packages: every cgo source file -> its `go tool cgo` translation (.cgo1.go, real function bodies),
_cgo_gotypes.go -> pure-Go shim (C functions are environment calls), C sources deleted (native overlay only)."""
import os, subprocess, glob, json


def build(scratch, repo, verif, goenv, patched=None):
    """patched: optional dict virtual path -> patched file (mutants). Entries for files of /repo/contract are consumed
    here (removed from the dict): `go tool cgo` then runs on a scratch copy of the directory with the patched text."""
    d = os.path.join(scratch, "cgo")
    os.makedirs(d, exist_ok=True)
    cdir = os.path.join(repo, "contract")
    srcdir = cdir
    mine = {k: v for k, v in (patched or {}).items() if os.path.dirname(k) == cdir}
    if mine:
        import shutil
        srcdir = os.path.join(scratch, "contract_src")
        os.makedirs(srcdir, exist_ok=True)
        for fn in os.listdir(cdir):
            if os.path.isfile(os.path.join(cdir, fn)) and fn.endswith((".go", ".h", ".c")) and not fn.endswith("_test.go"):
                shutil.copy(os.path.join(cdir, fn), os.path.join(srcdir, fn))
        for k, v in mine.items():
            shutil.copy(v, os.path.join(srcdir, os.path.basename(k)))
            del patched[k]
    env = dict(goenv, CGO_ENABLED="1")
    files = subprocess.run(["go", "list", "-f", '{{join .CgoFiles " "}}', "."], cwd=cdir, env=env, stdout=subprocess.PIPE, stderr=subprocess.PIPE, text=True)
    cgofiles = files.stdout.split()
    if not cgofiles:
        raise RuntimeError("cgoshim: go list found no cgo files: " + files.stderr[-2000:])
    shim = os.path.join(verif, "shim", "include")
    cmd = ["go", "tool", "cgo", "-objdir", d, "-importpath", "github.com/aergoio/aergo/v2/contract", "--",
           "-I/usr/include/lua5.1", "-I" + shim, "-I/usr/include/x86_64-linux-gnu", "-I.", "-DLJ_TARGET_POSIX",
           "-include", os.path.join(shim, "luajit.h")] + cgofiles
    r = subprocess.run(cmd, cwd=srcdir, env=env, stdout=subprocess.PIPE, stderr=subprocess.STDOUT, text=True)
    if r.returncode != 0:
        raise RuntimeError("cgoshim: go tool cgo failed: " + r.stdout[-3000:])
    for k in mine:
        if os.path.basename(k) not in cgofiles:  # patched plain Go file of the package: ordinary overlay entry
            patched[k] = mine[k]
    xf = os.path.join(verif, "bin", "cgoxf")
    pure = os.path.join(d, "zz_pure_gotypes.go")
    with open(pure, "w") as f:
        r = subprocess.run([xf, os.path.join(d, "_cgo_gotypes.go")], stdout=f, stderr=subprocess.PIPE, text=True)
    if r.returncode != 0:
        raise RuntimeError("cgoshim: transformer failed: " + r.stderr[-3000:])
    ana, nat = {}, {}
    for fn in cgofiles:
        base = fn[:-3]
        t = os.path.join(d, base + ".cgo1.go")
        ana[os.path.join(cdir, fn)] = t
        nat[os.path.join(cdir, fn)] = t
    ana[os.path.join(cdir, "zz_pure_gotypes.go")] = pure
    nat[os.path.join(cdir, "zz_pure_gotypes.go")] = pure
    stub = os.path.join(verif, "shim", "luac_stub.go")
    luacdir = os.path.join(repo, "cmd", "aergoluac", "luac")
    ana[os.path.join(luacdir, "luac.go")] = stub
    nat[os.path.join(luacdir, "luac.go")] = stub
    for c in glob.glob(os.path.join(cdir, "*.c")) + glob.glob(os.path.join(cdir, "*.h")) + glob.glob(os.path.join(luacdir, "*.c")) + glob.glob(os.path.join(luacdir, "*.h")):
        nat[c] = ""
    return ana, nat
