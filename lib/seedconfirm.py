#!/usr/bin/env python3
"""seedconfirm.py <ID-n> [--checks C13,C04] [--skip-confirm]
Confirms a seeded change delivered under /tmp/seedout/<ID-n>/ in a scratch worktree of /repo (never /repo itself):
  1. patch applies and the touched packages build;
  2. the demonstration FAILS with the change and PASSES without it;
  3. the repository's baseline test packages still pass with the change;
then runs the named checks of /verif against the patched worktree (VERIF_REPO) and records everything in
/verif/seeded/<ID-n>/meta.json (patch.diff and the demonstration are copied there). The worktree is removed afterwards."""
import json, os, re, shutil, subprocess, sys, time

V = os.path.dirname(os.path.dirname(os.path.abspath(__file__)))
GOENV = dict(os.environ, GOFLAGS="-mod=mod", GOPROXY="off", GOSUMDB="off", GOTOOLCHAIN="local")


def sh(cmd, cwd, timeout=3600, env=None):
    r = subprocess.run(cmd, cwd=cwd, shell=True, stdout=subprocess.PIPE, stderr=subprocess.STDOUT, text=True, env=env or GOENV, timeout=timeout)
    return r.returncode, r.stdout


def baseline_pkgs():
    b = json.load(open("/root/.vp/BASELINE.json"))
    pk = sorted(set(x.split("::")[0] for x in b["stable_pass"]))
    return ["./" + p[len("github.com/aergoio/aergo/v2/"):] for p in pk], set(b["stable_pass"])


def main():
    sid = sys.argv[1]
    checks = []
    skip_confirm = False
    a = sys.argv[2:]
    while a:
        if a[0] == "--checks":
            checks = [c for c in a[1].split(",") if c]; a = a[2:]
        elif a[0] == "--skip-confirm":
            skip_confirm = True; a = a[1:]
        else:
            a = a[1:]
    src = os.path.join("/tmp/seedout", sid)
    dst = os.path.join(V, "seeded", sid)
    meta = json.load(open(os.path.join(src, "meta.json")))
    os.makedirs(dst, exist_ok=True)
    old = {}
    if os.path.exists(os.path.join(dst, "meta.json")):
        try:
            old = json.load(open(os.path.join(dst, "meta.json"))).get("confirmation", {})
        except Exception:
            old = {}
    for f in os.listdir(src):
        if os.path.isfile(os.path.join(src, f)):
            shutil.copy(os.path.join(src, f), os.path.join(dst, f))
    wt = os.path.join("/tmp/sc", sid)
    os.makedirs("/tmp/sc", exist_ok=True)
    subprocess.run(["git", "-C", "/repo", "worktree", "remove", "--force", wt], stdout=subprocess.DEVNULL, stderr=subprocess.DEVNULL)
    rc, out = sh("git -C /repo worktree add -q %s HEAD" % wt, "/")
    conf = dict(old)
    conf["at"] = time.strftime("%Y-%m-%d %H:%M:%S")
    try:
        patch = os.path.join(dst, "patch.diff")
        rc, out = sh("git apply %s" % patch, wt)
        conf["patch_applies"] = rc == 0
        if rc != 0:
            conf["error"] = out[-2000:]
            raise SystemExit
        demo = meta.get("demo", {})
        files = demo.get("files", {})
        cmd = demo.get("cmd", "")
        cmd = cmd.replace("/tmp/seed/wt-%s" % sid.split("-")[0], wt)
        if not skip_confirm:
            for name, rel in files.items():
                d = os.path.join(wt, rel)
                if os.path.isdir(d) or rel.endswith("/"):
                    d = os.path.join(d, name)
                os.makedirs(os.path.dirname(d), exist_ok=True)
                shutil.copy(os.path.join(dst, name), d)
                files[name] = os.path.relpath(d, wt)
            rc1, out1 = sh(cmd, wt, timeout=2400)
            conf["demo_with_change"] = {"rc": rc1, "tail": out1[-800:]}
            sh("git apply -R %s" % patch, wt)
            rc2, out2 = sh(cmd, wt, timeout=2400)
            conf["demo_without_change"] = {"rc": rc2, "tail": out2[-800:]}
            sh("git apply %s" % patch, wt)
            for name, rel in files.items():
                os.remove(os.path.join(wt, rel))
            pkgs, stable = baseline_pkgs()
            rcb, outb = sh("go build ./... 2>&1 | grep -v 'contract\\|luac\\|^#' | head -5; go test -vet=off -count=1 -json %s 2>/dev/null | grep -E '\"Action\":\"(fail|pass)\"' | grep '\"Test\"' " % " ".join(pkgs), wt, timeout=3000)
            failed, passed = set(), set()
            for l in outb.splitlines():
                try:
                    r = json.loads(l)
                except Exception:
                    continue
                k = "%s::%s" % (r["Package"], r["Test"])
                (failed if r["Action"] == "fail" else passed).add(k)
            # timing-sensitive tests can fail on a loaded machine: re-run the packages of failed/missing tests (up to twice)
            for attempt in range(2):
                bad = (stable & failed) | (stable - passed - failed)
                if not bad:
                    break
                bpk = sorted(set("./" + k.split("::")[0][len("github.com/aergoio/aergo/v2/"):] for k in bad))
                rcb, outb = sh("go test -vet=off -count=1 -json %s 2>/dev/null | grep -E '\"Action\":\"(fail|pass)\"' | grep '\"Test\"' " % " ".join(bpk), wt, timeout=3000)
                f2, p2 = set(), set()
                for l in outb.splitlines():
                    try:
                        r = json.loads(l)
                    except Exception:
                        continue
                    k = "%s::%s" % (r["Package"], r["Test"])
                    (f2 if r["Action"] == "fail" else p2).add(k)
                passed |= p2
                failed = (failed - p2) | (f2 - passed)
            conf["baseline_with_change"] = {"stable_tests": len(stable), "passed": len(stable & passed), "failed": sorted(stable & failed)[:20], "missing": len(stable - passed - failed)}
            conf["confirmed"] = bool(rc1 != 0 and rc2 == 0 and not (stable & failed) and len(stable - passed - failed) == 0)
        res = conf.get("checks", {})
        for c in checks:
            env = dict(os.environ, VERIF_REPO=wt, VERIF_NODIFF="1", VERIF_EVIDENCE_DIR=os.path.join("/tmp/sc", sid + "_ev"), VERIF_REPLAY_DIR=os.path.join(dst, "replays"))
            t0 = time.time()
            r = subprocess.run([os.path.join(V, "check"), c], stdout=subprocess.PIPE, stderr=subprocess.PIPE, text=True, env=env, cwd=V)
            lines = [l for l in r.stdout.splitlines() if l.startswith(("VIOLATION", "INCONCLUSIVE", "ENGINE-FAULT", "gosym"))]
            res[c] = {"rc": r.returncode, "detected": r.returncode == 1 and any(l.startswith("VIOLATION") for l in lines), "lines": [l[:400] for l in lines[:6]], "wall_s": round(time.time() - t0, 1)}
            print(sid, c, "rc=%d" % r.returncode, res[c]["lines"][:2])
        conf["checks"] = res
    except SystemExit:
        pass
    finally:
        subprocess.run(["git", "-C", "/repo", "worktree", "remove", "--force", wt], stdout=subprocess.DEVNULL, stderr=subprocess.DEVNULL)
        shutil.rmtree(os.path.join("/tmp/sc", sid + "_ev"), ignore_errors=True)
    meta["confirmation"] = conf
    json.dump(meta, open(os.path.join(dst, "meta.json"), "w"), indent=1)
    print(sid, "confirmed=%s" % conf.get("confirmed"), "demo_with=%s demo_without=%s" % (conf.get("demo_with_change", {}).get("rc"), conf.get("demo_without_change", {}).get("rc")), "baseline=%s" % conf.get("baseline_with_change"))


if __name__ == "__main__":
    main()
