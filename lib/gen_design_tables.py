#!/usr/bin/env python3
"""Regenerates the machine-written tables of DESIGN.md (between <!-- BEGIN:name --> / <!-- END:name --> markers) from
evidence/*.json, harness/props/*.json, harness/mutants/*/RESULT.json, KNOWN_FINDINGS.jsonl and seeded/*/meta.json."""
import json, os, re, glob

V = os.path.dirname(os.path.dirname(os.path.abspath(__file__)))


def load(p, d=None):
    try:
        return json.load(open(p))
    except Exception:
        return d


def status_table():
    rows = ["| id | jobs | obligations (quick) | paths | SMT queries | solver s | wall s | native traces | mutants killed | open findings |",
            "|---|---|---|---|---|---|---|---|---|---|"]
    known = known_list()
    for f in sorted(glob.glob(os.path.join(V, "harness", "props", "C*.json"))):
        pid = os.path.basename(f)[:-5]
        p = load(f, {})
        e = load(os.path.join(V, "evidence", pid + ".json"), {}) or {}
        c = e.get("coverage", {})
        m = load(os.path.join(V, "harness", "mutants", pid, "RESULT.json"), {}) or {}
        mk = "%s/%s" % (m.get("killed", "?"), m.get("total", "?")) if m else "-"
        nd = len(glob.glob(os.path.join(V, "harness", "mutants", pid, "*.diff")))
        if m and m.get("total") != nd:
            mk += " (of %d written)" % nd
        fl = [k["finding"] for k in known if k.get("property") == pid and k.get("status") == "open"]
        rows.append("| %s | %d | %s/%s | %s | %s | %s | %s | %s | %s | %s |" % (
            pid, len(p.get("jobs", [])), c.get("discharged", "?"), c.get("obligations", "?"), c.get("paths", "?"), c.get("evaluations", "?"),
            c.get("solver_time_s", "?"), e.get("wall_s", "?"), c.get("traces_validated_against_impl", "?"), mk, ", ".join(fl) or "-"))
    return "\n".join(rows)


def known_list():
    out = []
    p = os.path.join(V, "KNOWN_FINDINGS.jsonl")
    for line in open(p):
        line = line.strip()
        if line.startswith("{"):
            out.append(json.loads(line))
        elif line.startswith("fixed:"):
            m = re.match(r"fixed: property=(\S+) (\S+) (.*)", line)
            if m:
                out.append({"property": m.group(1), "status": "fixed", "commit": m.group(2), "what": m.group(3), "finding": ""})
    return out


def findings_table():
    rows = ["| property | finding | status | what fails |", "|---|---|---|---|"]
    for k in sorted(known_list(), key=lambda k: (k.get("property", ""), k.get("finding", ""))):
        st = k.get("status", "")
        if st == "fixed":
            st = "fixed in %s" % k.get("commit", "")[:10]
        rows.append("| %s | %s | %s | %s |" % (k.get("property"), k.get("finding") or k.get("id", ""), st, k.get("what", "").replace("|", "\\|")[:420]))
    return "\n".join(rows)


def seeds_table():
    fr = load(os.path.join(V, "seeded", "FIRST_RUN.json"), {}) or {}
    rows = ["| seed | what the change does (needs) | confirmed | first run of the own-property check | now (own-property check) | other checks now | strengthening done after the first run |", "|---|---|---|---|---|---|---|"]
    for d in sorted(glob.glob(os.path.join(V, "seeded", "C*-*"))):
        sid = os.path.basename(d)
        m = load(os.path.join(d, "meta.json"), {}) or {}
        conf = m.get("confirmation", {})
        own = sid.split("-")[0]
        chk = conf.get("checks", {})

        def fmt(c):
            r = chk.get(c)
            if not r:
                return "not run"
            if r.get("detected"):
                obs = sorted(set(re.findall(r"obligation=(\S+)", " ".join(r.get("lines", [])))))
                return "**DETECTED** (%s)" % ", ".join(obs[:3])
            return "missed (rc=%s)" % r.get("rc")
        others = "; ".join("%s: %s" % (c, fmt(c)) for c in sorted(chk) if c != own) or "-"
        what = (m.get("summary", "") or "").replace("|", "\\|").replace("\n", " ")
        needs = (m.get("needs_to_manifest", "") or "").replace("|", "\\|").replace("\n", " ")
        rows.append("| %s | %s — *needs:* %s | %s | %s | %s | %s | %s |" % (sid, what[:230], needs[:200], "yes" if conf.get("confirmed") else "NO", fr.get("first_run", {}).get(sid, "?"), fmt(own), others, fr.get("strengthening", {}).get(sid, "-")))
    return "\n".join(rows)


def main():
    p = os.path.join(V, "DESIGN.md")
    s = open(p).read()
    for name, fn in (("status-table", status_table), ("findings-table", findings_table), ("seeds-table", seeds_table)):
        pat = re.compile(r"(<!-- BEGIN:%s -->\n).*?(<!-- END:%s -->)" % (name, name), re.S)
        if pat.search(s):
            s = pat.sub(lambda m: m.group(1) + fn() + "\n" + m.group(2), s)
    open(p, "w").write(s)


if __name__ == "__main__":
    main()
