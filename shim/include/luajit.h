/* minimal stand-in for aergo's patched LuaJIT header: stock Lua 5.1 declarations plus the
   nine prototypes that aergo's fork adds. Only declarations are needed by `go tool cgo`. */
#ifndef VERIF_LUAJIT_SHIM_H
#define VERIF_LUAJIT_SHIM_H
#include <lua.h>
#include <lauxlib.h>
#include <lualib.h>
int luaL_hardforkversion(lua_State *L);
void luaL_set_hardforkversion(lua_State *L, int version);
int luaL_hassyserror(lua_State *L);
int luaL_hasuncatchablerror(lua_State *L);
void luaL_setsyserror(lua_State *L);
void luaL_setuncatchablerror(lua_State *L);
void luaL_set_service(lua_State *L, int service);
unsigned long long lua_gasget(lua_State *L);
void lua_gasset(lua_State *L, unsigned long long gas);
#endif
