// Package luac: pure-Go stand-in (overlay only) for cmd/aergoluac/luac, which needs LuaJIT to compile.
package luac

import (
	"errors"

	"github.com/aergoio/aergo/v2/cmd/aergoluac/util"
)

type LState struct{}

func NewLState() *LState    { return &LState{} }
func CloseLState(L *LState) {}
func Compile(L *LState, code string) (util.LuaCode, error) {
	return nil, errors.New("luac: not available in the verification overlay")
}
