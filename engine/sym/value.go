package sym

import (
	"fmt"
	"go/types"
	"math/big"
	"strings"

	"gosym/smt"

	"golang.org/x/tools/go/ssa"
)

// value representation
//
//	*smt.Term            bool and every integer kind (Bool / BV w / Int by mode)
//	float64, complex128  concrete only
//	string               concrete string
//	*symStr              string with symbolic bytes (concrete length)
//	*opaqueStr           uninterpreted string token
//	*value               pointer (nil pointer == (*value)(nil))
//	structure, array     aggregates ([]value)
//	sliceV               slice (shares Go backing array; nil slice == sliceV(nil))
//	*bigBytes            []byte that is the big-endian image of a non-negative Int term
//	*mapV                map (association list)
//	*chanV               channel
//	iface                interface value
//	tuple                multi-value
//	*ssa.Function, *closure, *ssa.Builtin   function values
//	bigV                 value of struct type math/big.Int (an Int term)
//	*hashState etc.      engine objects behind interfaces
type value interface{}

type structure []value
type array []value
type sliceV []value
type tuple []value

type iface struct {
	t types.Type
	v value
}

type closure struct {
	fn  *ssa.Function
	env []value
}

type symStr struct{ b []*smt.Term }

type opaqueStr struct {
	id      int
	tag     string
	kind    string      // codec kind for tokens produced by a text codec ("" otherwise)
	payload []*smt.Term // the encoded bytes (codec tokens only)
}

type bigV struct{ t *smt.Term } // Int-sorted

type bigBytes struct{ t *smt.Term } // []byte == big-endian bytes of Int term t >= 0 (minimal length)

type mapEntry struct {
	k, v value
}

type mapV struct {
	kt      types.Type
	entries []*mapEntry
}

type chanV struct {
	buf    []value
	cap    int
	closed bool
}

// opaque engine object with identity (used for stubbed library objects)
type opaqueObj struct {
	kind string
	id   int
	data interface{}
}

type rangeIter interface {
	next(in *Interp) tuple
}

func (in *Interp) zero(t types.Type) value {
	switch t := t.(type) {
	case *types.Basic:
		if t.Kind() == types.UntypedNil {
			panic("untyped nil has no zero value")
		}
		switch {
		case t.Info()&types.IsBoolean != 0:
			return in.ctx.False()
		case t.Info()&types.IsInteger != 0:
			return in.intConst(t, big.NewInt(0))
		case t.Info()&types.IsFloat != 0:
			return float64(0)
		case t.Info()&types.IsComplex != 0:
			return complex128(0)
		case t.Info()&types.IsString != 0:
			return ""
		case t.Kind() == types.UnsafePointer:
			return (*value)(nil)
		}
		panic(fmt.Sprintf("zero: basic %v", t))
	case *types.Pointer:
		return (*value)(nil)
	case *types.Array:
		a := make(array, t.Len())
		if _, basic := t.Elem().Underlying().(*types.Basic); basic && len(a) > 0 {
			z := in.zero(t.Elem()) // immutable scalar: one zero serves every element
			for i := range a {
				a[i] = z
			}
			return a
		}
		for i := range a {
			a[i] = in.zero(t.Elem())
		}
		return a
	case *types.Named:
		if isBigInt(t) {
			return bigV{in.ctx.Inti(0)}
		}
		return in.zero(t.Underlying())
	case *types.Alias:
		return in.zero(types.Unalias(t))
	case *types.Interface:
		return iface{}
	case *types.Slice:
		return sliceV(nil)
	case *types.Struct:
		s := make(structure, t.NumFields())
		for i := range s {
			s[i] = in.zero(t.Field(i).Type())
		}
		return s
	case *types.Tuple:
		if t.Len() == 1 {
			return in.zero(t.At(0).Type())
		}
		s := make(tuple, t.Len())
		for i := range s {
			s[i] = in.zero(t.At(i).Type())
		}
		return s
	case *types.Chan:
		return (*chanV)(nil)
	case *types.Map:
		return (*mapV)(nil)
	case *types.Signature:
		return (*ssa.Function)(nil)
	}
	panic(fmt.Sprintf("zero: unexpected type %T %v", t, t))
}

func isBigInt(t types.Type) bool {
	n, ok := t.(*types.Named)
	if !ok {
		return false
	}
	o := n.Obj()
	return o.Pkg() != nil && o.Pkg().Path() == "math/big" && o.Name() == "Int"
}

// copyVal makes a copy of aggregates (value semantics on load/store).
func copyVal(v value) value {
	switch v := v.(type) {
	case structure:
		c := make(structure, len(v))
		for i, x := range v {
			c[i] = copyVal(x)
		}
		return c
	case array:
		c := make(array, len(v))
		for i, x := range v {
			c[i] = copyVal(x)
		}
		return c
	case tuple:
		c := make(tuple, len(v))
		for i, x := range v {
			c[i] = copyVal(x)
		}
		return c
	}
	return v
}

func isNilValue(v value) bool {
	switch v := v.(type) {
	case nil:
		return true
	case *value:
		return v == nil
	case sliceV:
		return v == nil
	case *mapV:
		return v == nil
	case *chanV:
		return v == nil
	case iface:
		return v.t == nil
	case *ssa.Function:
		return v == nil
	case *closure:
		return v == nil
	case *ssa.Builtin:
		return v == nil
	}
	return false
}

// strBytes returns the byte terms of a string value.
func (in *Interp) strBytes(v value) []*smt.Term {
	switch s := v.(type) {
	case string:
		out := make([]*smt.Term, len(s))
		for i := 0; i < len(s); i++ {
			out[i] = in.ctx.BVu(uint64(s[i]), 8)
		}
		return out
	case *symStr:
		return s.b
	case *opaqueStr:
		in.unsupported("byte access to opaque string " + s.tag)
	}
	panic(fmt.Sprintf("strBytes: %T", v))
}

func (in *Interp) mkStr(b []*smt.Term) value {
	all := true
	for _, t := range b {
		if !t.IsConst() {
			all = false
			break
		}
	}
	if all {
		bs := make([]byte, len(b))
		for i, t := range b {
			bs[i] = byte(t.V.Uint64())
		}
		return string(bs)
	}
	cp := make([]*smt.Term, len(b))
	copy(cp, b)
	return &symStr{cp}
}

func strLen(v value) (int, bool) {
	switch s := v.(type) {
	case string:
		return len(s), true
	case *symStr:
		return len(s.b), true
	}
	return 0, false
}

// eq builds the Bool term x == y for values of static type t.
func (in *Interp) eq(x, y value) *smt.Term {
	c := in.ctx
	switch x := x.(type) {
	case *smt.Term:
		yt, ok := y.(*smt.Term)
		if !ok {
			panic(fmt.Sprintf("eq: term vs %T", y))
		}
		return c.Eq(x, yt)
	case float64:
		return c.Bool(x == y.(float64))
	case complex128:
		return c.Bool(x == y.(complex128))
	case string, *symStr, *opaqueStr:
		return in.strEq(x, y)
	case *value:
		return c.Bool(x == y.(*value))
	case structure:
		ys := y.(structure)
		var cs []*smt.Term
		for i := range x {
			cs = append(cs, in.eq(x[i], ys[i]))
		}
		return c.And(cs...)
	case array:
		ys := y.(array)
		if xb, ok := termBytes(x); ok && len(x) == len(ys) {
			if yb, ok := termBytes(ys); ok {
				return in.eqByteTerms(xb, yb)
			}
		}
		var cs []*smt.Term
		for i := range x {
			cs = append(cs, in.eq(x[i], ys[i]))
		}
		return c.And(cs...)
	case bigV:
		return c.Eq(x.t, y.(bigV).t)
	case iface:
		yi := y.(iface)
		if x.t == nil || yi.t == nil {
			return c.Bool(x.t == nil && yi.t == nil)
		}
		if !types.Identical(x.t, yi.t) {
			return c.False()
		}
		return in.eq(x.v, yi.v)
	case *mapV:
		return c.Bool(x == y.(*mapV))
	case *chanV:
		return c.Bool(x == y.(*chanV))
	case sliceV:
		// only comparison with nil is legal
		if yv, ok := y.(sliceV); ok {
			return c.Bool(x == nil && yv == nil)
		}
		return c.False()
	case *bigBytes:
		return c.False()
	case *ssa.Function:
		yf, _ := y.(*ssa.Function)
		return c.Bool(x == yf && (y == nil || yf != nil || x == nil))
	case *closure:
		yc, _ := y.(*closure)
		return c.Bool(x == yc)
	case *opaqueObj:
		yo, _ := y.(*opaqueObj)
		return c.Bool(x == yo)
	case *hashState:
		yo, _ := y.(*hashState)
		return c.Bool(x == yo)
	case nil:
		return c.Bool(isNilValue(y))
	}
	panic(fmt.Sprintf("eq: unsupported %T", x))
}

func (in *Interp) strEq(x, y value) *smt.Term {
	c := in.ctx
	if xs, ok := x.(string); ok {
		if ys, ok := y.(string); ok {
			return c.Bool(xs == ys)
		}
	}
	xo, xok := x.(*opaqueStr)
	yo, yok := y.(*opaqueStr)
	if xok || yok {
		if xok && yok {
			if xo == yo {
				return c.True()
			}
			if xo.kind != "" && xo.kind == yo.kind && xo.payload != nil && yo.payload != nil {
				// injective codec: tokens are equal iff their payloads are
				if len(xo.payload) != len(yo.payload) {
					return c.False()
				}
				var cs []*smt.Term
				for i := range xo.payload {
					cs = append(cs, c.Eq(xo.payload[i], yo.payload[i]))
				}
				return c.And(cs...)
			}
			return in.opaqueEq(xo, yo)
		}
		// opaque vs concrete/symbolic: unknown relation -> fresh boolean (sound over-approximation)
		return in.freshBool("opaque_str_eq")
	}
	xb, yb := in.strBytes(x), in.strBytes(y)
	return in.eqByteTerms(xb, yb)
}

// strLess builds x < y lexicographically.
func (in *Interp) strLess(x, y value) *smt.Term {
	c := in.ctx
	xb, yb := in.strBytes(x), in.strBytes(y)
	n := len(xb)
	if len(yb) < n {
		n = len(yb)
	}
	// result for the tail: all equal on prefix -> shorter is less
	res := c.Bool(len(xb) < len(yb))
	for i := n - 1; i >= 0; i-- {
		res = c.Ite(c.BVUlt(xb[i], yb[i]), c.True(), c.Ite(c.Eq(xb[i], yb[i]), res, c.False()))
	}
	return res
}

func typeKey(t types.Type) string { return types.TypeString(t, nil) }

func (in *Interp) describe(v value) string {
	switch v := v.(type) {
	case nil:
		return "nil"
	case *smt.Term:
		s := v.String()
		if len(s) > 80 {
			s = s[:80] + "..."
		}
		return s
	case string:
		return fmt.Sprintf("%q", v)
	case *symStr:
		return fmt.Sprintf("symstr[%d]", len(v.b))
	case *opaqueStr:
		return "opaque:" + v.tag
	case structure:
		var p []string
		for _, x := range v {
			p = append(p, in.describe(x))
		}
		return "{" + strings.Join(p, ", ") + "}"
	case array:
		return fmt.Sprintf("array[%d]", len(v))
	case sliceV:
		return fmt.Sprintf("slice[%d]", len(v))
	case iface:
		if v.t == nil {
			return "iface(nil)"
		}
		return "iface(" + v.t.String() + ":" + in.describe(v.v) + ")"
	case *value:
		if v == nil {
			return "nilptr"
		}
		return "&" + in.describe(*v)
	case bigV:
		return "big(" + v.t.String() + ")"
	}
	return fmt.Sprintf("%T", v)
}

// unsafeData: result of unsafe.SliceData / unsafe.StringData
type unsafeData struct {
	sl    sliceV
	str   value
	isStr bool
}
