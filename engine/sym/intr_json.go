package sym

import (
	"encoding/json"
	"fmt"
	"go/types"
	"math/big"
	"reflect"
	"sort"

	"gosym/smt"

	"golang.org/x/tools/go/ssa"
)

// encoding/json summaries.
//
// json.Unmarshal(data, &x) is decided in one of three exact ways, never approximated:
//  1. data is a document the harness has *bound* to a value with vf.JSONBind(text, &v) (the native body of JSONBind
//     checks with the real decoder that text decodes to v, so the binding is validated on every native run):
//     x receives a deep copy of v (same-named fields when x and v are different struct types), error nil.
//  2. every byte of data is concrete: the real decoder is run on a reflect mirror of x's type and the result is
//     converted to engine values (exact, including type-mismatch errors, tags and case-insensitive keys).
//  3. data has <= jsonRawMax symbolic bytes and x is a struct: the only documents of that size which decode into a
//     struct without error are  ws* ("null" | "{" ws* "}") ws*  and they leave x unchanged; everything else is an error.
//
// Anything else is unsupported (inconclusive).

const jsonRawMax = 6

type jsonBound struct {
	terms []*smt.Term // the bytes of the document at bind time
	val   value       // deep snapshot of the bound value
	t     types.Type  // its type
}

var emptyIfaceT = types.NewInterfaceType(nil, nil).Complete()

func init() {
	reg(vfPkg+".JSONBind", func(in *Interp, c *frame, fn *ssa.Function, a []value) value {
		text := in.materialize(a[0])
		if len(text) == 0 {
			in.unsupported("vf.JSONBind of an empty document")
		}
		itf := a[1].(iface)
		pt, ok := itf.t.Underlying().(*types.Pointer)
		if !ok {
			in.unsupported("vf.JSONBind: value must be a pointer")
		}
		p := itf.v.(*value)
		if p == nil {
			in.unsupported("vf.JSONBind: nil pointer")
		}
		b := &jsonBound{val: in.jsonDeepCopy(*p), t: pt.Elem()}
		for _, e := range text {
			b.terms = append(b.terms, e.(*smt.Term))
		}
		in.sideTab[&text[0]] = b
		return nil
	})
	reg("encoding/json.Unmarshal", func(in *Interp, c *frame, fn *ssa.Function, a []value) value {
		return in.jsonUnmarshal(a[0], a[1].(iface))
	})
	reg("encoding/json.Valid", func(in *Interp, c *frame, fn *ssa.Function, a []value) value {
		if bs, ok := allConst(in.byteTerms(a[0])); ok {
			return in.ctx.Bool(json.Valid(bs))
		}
		in.unsupported("json.Valid on symbolic bytes")
		return nil
	})
}

func (in *Interp) jsonErr() value { return in.newOpaqueErr("json.Unmarshal") }

func (in *Interp) jsonUnmarshal(dataV value, target iface) value {
	data := in.materialize(dataV)
	if target.t == nil {
		return in.jsonErr() // InvalidUnmarshalError
	}
	pt, ok := target.t.Underlying().(*types.Pointer)
	if !ok {
		return in.jsonErr()
	}
	p, _ := target.v.(*value)
	if p == nil {
		return in.jsonErr()
	}
	tt := pt.Elem()
	// 1. bound document
	if len(data) > 0 {
		if b, ok := in.sideTab[&data[0]].(*jsonBound); ok {
			if len(b.terms) != len(data) {
				in.unsupported("json.Unmarshal of a re-sliced bound document")
			}
			for i, e := range data {
				if e.(*smt.Term) != b.terms[i] {
					in.unsupported("json.Unmarshal of a bound document that was modified")
				}
			}
			in.res.StubsHit["encoding/json.Unmarshal(bound document)"]++
			in.jsonStore(p, tt, b)
			return iface{}
		}
	}
	terms := make([]*smt.Term, len(data))
	for i, e := range data {
		terms[i] = e.(*smt.Term)
	}
	// 2. concrete document: the real decoder
	if bs, ok := allConst(terms); ok {
		rt, ok := in.reflectType(tt, 0)
		if !ok {
			in.unsupported("json.Unmarshal into " + tt.String() + " (type not mirrored)")
		}
		rv := reflect.New(rt)
		cur, ok := in.toReflect(*p, tt, rt)
		if !ok {
			in.unsupported("json.Unmarshal into a target that already holds symbolic or composite data")
		}
		rv.Elem().Set(cur)
		err := json.Unmarshal(bs, rv.Interface())
		in.res.StubsHit["encoding/json.Unmarshal(concrete document, real decoder)"]++
		// the real decoder stores what it decoded before a type error, too
		in.assignInto(p, in.fromReflect(rv.Elem(), tt))
		if err != nil {
			return in.jsonErr()
		}
		return iface{}
	}
	// 3. short symbolic document into a struct
	if _, isStruct := tt.Underlying().(*types.Struct); isStruct && len(terms) <= jsonRawMax && !in.hasUnmarshaler(tt) {
		in.res.StubsHit["encoding/json.Unmarshal(short symbolic document)"]++
		if in.branch(in.jsonEmptyDoc(terms), "json-short-doc") {
			return iface{}
		}
		return in.jsonErr()
	}
	in.unsupported(fmt.Sprintf("json.Unmarshal of %d symbolic bytes that are not a bound document into %s", len(terms), tt))
	return nil
}

// jsonEmptyDoc: bs == ws* ("null" | "{" ws* "}") ws*
func (in *Interp) jsonEmptyDoc(bs []*smt.Term) *smt.Term {
	c := in.ctx
	n := len(bs)
	is := func(i int, ch byte) *smt.Term { return c.Eq(bs[i], c.BVu(uint64(ch), 8)) }
	ws := func(i int) *smt.Term { return c.Or(is(i, ' '), is(i, '\t'), is(i, '\n'), is(i, '\r')) }
	allWs := func(lo, hi int) *smt.Term { // [lo,hi)
		var cs []*smt.Term
		for i := lo; i < hi; i++ {
			cs = append(cs, ws(i))
		}
		return c.And(cs...)
	}
	var alts []*smt.Term
	for i := 0; i+4 <= n; i++ {
		alts = append(alts, c.And(allWs(0, i), is(i, 'n'), is(i+1, 'u'), is(i+2, 'l'), is(i+3, 'l'), allWs(i+4, n)))
	}
	for i := 0; i < n; i++ {
		for j := i + 1; j < n; j++ {
			alts = append(alts, c.And(allWs(0, i), is(i, '{'), allWs(i+1, j), is(j, '}'), allWs(j+1, n)))
		}
	}
	if len(alts) == 0 {
		return c.False()
	}
	return c.Or(alts...)
}

func (in *Interp) hasUnmarshaler(t types.Type) bool {
	for _, x := range []types.Type{t, types.NewPointer(t)} {
		ms := in.prog.MethodSets.MethodSet(x)
		for i := 0; i < ms.Len(); i++ {
			switch ms.At(i).Obj().Name() {
			case "UnmarshalJSON", "UnmarshalText":
				return true
			}
		}
	}
	return false
}

// jsonStore copies the bound snapshot into *p (of type tt).
func (in *Interp) jsonStore(p *value, tt types.Type, b *jsonBound) {
	if types.Identical(tt, b.t) {
		in.assignInto(p, in.jsonDeepCopy(b.val))
		return
	}
	ts, ok1 := tt.Underlying().(*types.Struct)
	bs, ok2 := b.t.Underlying().(*types.Struct)
	if !ok1 || !ok2 || in.hasUnmarshaler(tt) {
		in.unsupported("json.Unmarshal of a document bound to " + b.t.String() + " into " + tt.String())
	}
	dst, ok := (*p).(structure)
	if !ok {
		in.unsupported("json.Unmarshal: target is not a structure")
	}
	src := b.val.(structure)
	used := 0
	for i := 0; i < ts.NumFields(); i++ {
		f := ts.Field(i)
		if !f.Exported() || f.Embedded() || ts.Tag(i) != "" {
			in.unsupported("json.Unmarshal(bound): target struct " + tt.String() + " has tags / embedded / unexported fields")
		}
		for j := 0; j < bs.NumFields(); j++ {
			g := bs.Field(j)
			if g.Name() != f.Name() {
				continue
			}
			if !types.Identical(f.Type(), g.Type()) {
				in.unsupported("json.Unmarshal(bound): field " + f.Name() + " has different types")
			}
			in.assignInto(&dst[i], in.jsonDeepCopy(src[j]))
			used++
		}
	}
	if used != bs.NumFields() {
		in.unsupported("json.Unmarshal(bound): the bound struct has fields the target lacks")
	}
}

// jsonDeepCopy copies a decoded-document value (no sharing with the original).
func (in *Interp) jsonDeepCopy(v value) value {
	switch x := v.(type) {
	case structure:
		o := make(structure, len(x))
		for i := range x {
			o[i] = in.jsonDeepCopy(x[i])
		}
		return o
	case array:
		o := make(array, len(x))
		for i := range x {
			o[i] = in.jsonDeepCopy(x[i])
		}
		return o
	case sliceV:
		if x == nil {
			return x
		}
		o := make(sliceV, len(x))
		for i := range x {
			o[i] = in.jsonDeepCopy(x[i])
		}
		return o
	case iface:
		return iface{t: x.t, v: in.jsonDeepCopy(x.v)}
	case *mapV:
		if x == nil {
			return x
		}
		o := &mapV{kt: x.kt}
		for _, e := range x.entries {
			o.entries = append(o.entries, &mapEntry{k: e.k, v: in.jsonDeepCopy(e.v)})
		}
		return o
	case *value:
		if x == nil {
			return x
		}
		n := new(value)
		*n = in.jsonDeepCopy(*x)
		return n
	case nil, *smt.Term, string, *symStr, *opaqueStr, float64, bigV:
		return v
	}
	in.unsupported(fmt.Sprintf("json: value of kind %T in a document", v))
	return nil
}

// ---------------------------------------------------------------- reflect mirror (concrete documents)

func (in *Interp) reflectType(t types.Type, depth int) (reflect.Type, bool) {
	if depth > 8 {
		return nil, false
	}
	if _, named := t.(*types.Named); named && in.hasUnmarshaler(t) {
		return nil, false
	}
	switch u := t.Underlying().(type) {
	case *types.Basic:
		switch u.Kind() {
		case types.Bool:
			return reflect.TypeOf(false), true
		case types.String:
			return reflect.TypeOf(""), true
		case types.Int:
			return reflect.TypeOf(int(0)), true
		case types.Int8:
			return reflect.TypeOf(int8(0)), true
		case types.Int16:
			return reflect.TypeOf(int16(0)), true
		case types.Int32:
			return reflect.TypeOf(int32(0)), true
		case types.Int64:
			return reflect.TypeOf(int64(0)), true
		case types.Uint:
			return reflect.TypeOf(uint(0)), true
		case types.Uint8:
			return reflect.TypeOf(uint8(0)), true
		case types.Uint16:
			return reflect.TypeOf(uint16(0)), true
		case types.Uint32:
			return reflect.TypeOf(uint32(0)), true
		case types.Uint64:
			return reflect.TypeOf(uint64(0)), true
		case types.Float64:
			return reflect.TypeOf(float64(0)), true
		}
	case *types.Interface:
		if u.NumMethods() == 0 {
			return reflect.TypeOf((*interface{})(nil)).Elem(), true
		}
	case *types.Slice:
		if e, ok := in.reflectType(u.Elem(), depth+1); ok {
			return reflect.SliceOf(e), true
		}
	case *types.Array:
		if e, ok := in.reflectType(u.Elem(), depth+1); ok {
			return reflect.ArrayOf(int(u.Len()), e), true
		}
	case *types.Map:
		if b, ok := u.Key().Underlying().(*types.Basic); ok && b.Kind() == types.String {
			if e, ok := in.reflectType(u.Elem(), depth+1); ok {
				return reflect.MapOf(reflect.TypeOf(""), e), true
			}
		}
	case *types.Pointer:
		if e, ok := in.reflectType(u.Elem(), depth+1); ok {
			return reflect.PointerTo(e), true
		}
	case *types.Struct:
		var fs []reflect.StructField
		for i := 0; i < u.NumFields(); i++ {
			f := u.Field(i)
			if f.Embedded() {
				return nil, false
			}
			ft, ok := in.reflectType(f.Type(), depth+1)
			if !ok {
				return nil, false
			}
			sf := reflect.StructField{Name: f.Name(), Type: ft, Tag: reflect.StructTag(u.Tag(i))}
			if !f.Exported() {
				// invisible to encoding/json; keep the slot so that field indices agree
				sf.Name = fmt.Sprintf("XUnexported%d", i)
				sf.Tag = `json:"-"`
			}
			fs = append(fs, sf)
		}
		return reflect.StructOf(fs), true
	}
	return nil, false
}

// fromReflect converts a decoded Go value to an engine value of type t.
func (in *Interp) fromReflect(rv reflect.Value, t types.Type) value {
	c := in.ctx
	switch u := t.Underlying().(type) {
	case *types.Basic:
		switch {
		case u.Info()&types.IsBoolean != 0:
			return c.Bool(rv.Bool())
		case u.Info()&types.IsString != 0:
			return rv.String()
		case u.Info()&types.IsFloat != 0:
			return rv.Float()
		case u.Info()&types.IsUnsigned != 0:
			return in.intConst(u, new(big.Int).SetUint64(rv.Uint()))
		case u.Info()&types.IsInteger != 0:
			return in.intConst(u, big.NewInt(rv.Int()))
		}
	case *types.Interface:
		if rv.IsNil() {
			return iface{}
		}
		return in.fromGeneric(rv.Elem().Interface())
	case *types.Slice:
		if rv.IsNil() {
			return sliceV(nil)
		}
		o := make(sliceV, rv.Len())
		for i := range o {
			o[i] = in.fromReflect(rv.Index(i), u.Elem())
		}
		return o
	case *types.Array:
		o := make(array, rv.Len())
		for i := range o {
			o[i] = in.fromReflect(rv.Index(i), u.Elem())
		}
		return o
	case *types.Map:
		if rv.IsNil() {
			return (*mapV)(nil)
		}
		m := &mapV{kt: u.Key()}
		keys := rv.MapKeys()
		sort.Slice(keys, func(i, j int) bool { return keys[i].String() < keys[j].String() })
		for _, k := range keys {
			m.entries = append(m.entries, &mapEntry{k: k.String(), v: in.fromReflect(rv.MapIndex(k), u.Elem())})
		}
		return m
	case *types.Pointer:
		if rv.IsNil() {
			return (*value)(nil)
		}
		p := new(value)
		*p = in.fromReflect(rv.Elem(), u.Elem())
		return p
	case *types.Struct:
		o := make(structure, u.NumFields())
		for i := range o {
			f := u.Field(i)
			if !f.Exported() {
				o[i] = in.zero(f.Type())
				continue
			}
			o[i] = in.fromReflect(rv.Field(i), f.Type())
		}
		return o
	}
	in.unsupported("json: cannot convert decoded value of type " + t.String())
	return nil
}

var (
	jsonSliceT = types.NewSlice(emptyIfaceT)
	jsonMapT   = types.NewMap(types.Typ[types.String], emptyIfaceT)
)

// fromGeneric converts what encoding/json stores into an interface{}.
func (in *Interp) fromGeneric(g interface{}) value {
	switch x := g.(type) {
	case nil:
		return iface{}
	case string:
		return iface{t: types.Typ[types.String], v: x}
	case float64:
		return iface{t: types.Typ[types.Float64], v: x}
	case bool:
		return iface{t: types.Typ[types.Bool], v: in.ctx.Bool(x)}
	case []interface{}:
		o := make(sliceV, len(x))
		for i := range x {
			o[i] = in.fromGeneric(x[i])
		}
		return iface{t: jsonSliceT, v: o}
	case map[string]interface{}:
		m := &mapV{kt: types.Typ[types.String]}
		keys := make([]string, 0, len(x))
		for k := range x {
			keys = append(keys, k)
		}
		sort.Strings(keys)
		for _, k := range keys {
			m.entries = append(m.entries, &mapEntry{k: k, v: in.fromGeneric(x[k])})
		}
		return iface{t: jsonMapT, v: m}
	}
	in.unsupported(fmt.Sprintf("json: decoded %T", g))
	return nil
}

// toReflect converts the current (concrete) content of a decode target so that fields the document does not mention
// keep their values. ok=false when the content is not concrete / not convertible.
func (in *Interp) toReflect(v value, t types.Type, rt reflect.Type) (res reflect.Value, ok bool) {
	defer func() {
		if r := recover(); r != nil {
			if _, isEnd := r.(pathEnd); isEnd {
				panic(r)
			}
			ok = false
		}
	}()
	out := reflect.New(rt).Elem()
	switch u := t.Underlying().(type) {
	case *types.Basic:
		switch x := v.(type) {
		case string:
			out.SetString(x)
			return out, true
		case float64:
			out.SetFloat(x)
			return out, true
		case *smt.Term:
			if !x.IsConst() {
				return out, false
			}
			switch {
			case u.Info()&types.IsBoolean != 0:
				out.SetBool(x.IsTrue())
			case u.Info()&types.IsUnsigned != 0:
				out.SetUint(in.termInt(x, t).Uint64())
			default:
				out.SetInt(in.termInt(x, t).Int64())
			}
			return out, true
		}
		return out, false
	case *types.Struct:
		s, isS := v.(structure)
		if !isS {
			return out, false
		}
		for i := 0; i < u.NumFields(); i++ {
			if !u.Field(i).Exported() {
				continue
			}
			fv, fok := in.toReflect(s[i], u.Field(i).Type(), rt.Field(i).Type)
			if !fok {
				return out, false
			}
			out.Field(i).Set(fv)
		}
		return out, true
	case *types.Slice:
		if s, isS := v.(sliceV); isS && len(s) == 0 {
			if s != nil {
				out.Set(reflect.MakeSlice(rt, 0, 0))
			}
			return out, true
		}
		return out, false
	case *types.Map:
		if m, isM := v.(*mapV); isM && m == nil {
			return out, true
		}
		return out, false
	case *types.Interface:
		if i, isI := v.(iface); isI && i.t == nil {
			return out, true
		}
		return out, false
	case *types.Pointer:
		if p, isP := v.(*value); isP && p == nil {
			return out, true
		}
		return out, false
	}
	return out, false
}
