package sym

import (
	"encoding/json"
	"fmt"
	"go/types"
	"strings"

	"gosym/smt"

	"golang.org/x/tools/go/ssa"
)

// encoding/json.Unmarshal for CONCRETE documents (ledger harnesses: governance payloads are fixed JSON texts):
// the real decoder is run on the concrete bytes and the generic result is stored into the target following the
// library's rules for the supported subset (target = pointer to struct with string / bool / float64 / interface{} /
// []interface{} / map[string]interface{} fields, matched by name or `json` tag, case-insensitively). Anything outside
// that subset ends the path as inconclusive; symbolic documents are passed to a previously registered summary if any.

var lgEmptyIface = types.NewInterfaceType(nil, nil).Complete()

func (in *Interp) lgJSONValue(x interface{}) value {
	switch v := x.(type) {
	case nil:
		return iface{}
	case string:
		return iface{t: types.Typ[types.String], v: v}
	case float64:
		return iface{t: types.Typ[types.Float64], v: v}
	case bool:
		return iface{t: types.Typ[types.Bool], v: in.ctx.Bool(v)}
	case []interface{}:
		s := make(sliceV, len(v))
		for i, e := range v {
			s[i] = in.lgJSONValue(e)
		}
		return iface{t: types.NewSlice(lgEmptyIface), v: s}
	case map[string]interface{}:
		m := &mapV{kt: types.Typ[types.String]}
		keys := make([]string, 0, len(v))
		for k := range v {
			keys = append(keys, k)
		}
		// deterministic order
		for i := 0; i < len(keys); i++ {
			for j := i + 1; j < len(keys); j++ {
				if keys[j] < keys[i] {
					keys[i], keys[j] = keys[j], keys[i]
				}
			}
		}
		for _, k := range keys {
			m.entries = append(m.entries, &mapEntry{k: k, v: in.lgJSONValue(v[k])})
		}
		return iface{t: types.NewMap(types.Typ[types.String], lgEmptyIface), v: m}
	}
	in.unsupported(fmt.Sprintf("json value %T", x))
	return nil
}

// lgJSONStore stores the decoded generic value x into the cell p of static type t; ok=false => type mismatch error.
func (in *Interp) lgJSONStore(p *value, t types.Type, x interface{}) bool {
	if x == nil {
		return true // null leaves non-pointer targets unchanged
	}
	switch ut := t.Underlying().(type) {
	case *types.Basic:
		switch {
		case ut.Info()&types.IsString != 0:
			s, ok := x.(string)
			if !ok {
				return false
			}
			*p = s
			return true
		case ut.Info()&types.IsBoolean != 0:
			b, ok := x.(bool)
			if !ok {
				return false
			}
			*p = in.ctx.Bool(b)
			return true
		case ut.Info()&types.IsFloat != 0:
			f, ok := x.(float64)
			if !ok {
				return false
			}
			*p = f
			return true
		}
	case *types.Interface:
		if ut.NumMethods() == 0 {
			*p = in.lgJSONValue(x)
			return true
		}
	case *types.Slice:
		if it, ok := ut.Elem().Underlying().(*types.Interface); ok && it.NumMethods() == 0 {
			arr, ok := x.([]interface{})
			if !ok {
				return false
			}
			s := make(sliceV, len(arr))
			for i, e := range arr {
				s[i] = in.lgJSONValue(e)
			}
			*p = s
			return true
		}
	case *types.Struct:
		obj, ok := x.(map[string]interface{})
		if !ok {
			return false
		}
		st := (*p).(structure)
		good := true
		for k, v := range obj {
			idx := -1
			for i := 0; i < ut.NumFields(); i++ {
				f := ut.Field(i)
				if !f.Exported() {
					continue
				}
				name := f.Name()
				if tag, ok := lookupTag(ut.Tag(i), "json"); ok {
					tn := strings.Split(tag, ",")[0]
					if tn == "-" {
						continue
					}
					if tn != "" {
						name = tn
					}
				}
				if name == k {
					idx = i
					break
				}
				if idx < 0 && strings.EqualFold(name, k) {
					idx = i
				}
			}
			if idx < 0 {
				continue // unknown keys are ignored
			}
			if !in.lgJSONStore(&st[idx], ut.Field(idx).Type(), v) {
				good = false
			}
		}
		return good
	}
	in.unsupported("json.Unmarshal (concrete document) into " + t.String())
	return false
}

func lookupTag(tag, key string) (string, bool) {
	for tag != "" {
		i := 0
		for i < len(tag) && tag[i] == ' ' {
			i++
		}
		tag = tag[i:]
		if tag == "" {
			break
		}
		i = strings.Index(tag, ":\"")
		if i < 0 {
			break
		}
		name := tag[:i]
		rest := tag[i+2:]
		j := strings.Index(rest, "\"")
		if j < 0 {
			break
		}
		if name == key {
			return rest[:j], true
		}
		tag = rest[j+1:]
	}
	return "", false
}

func init() {
	prev := intrinsics["encoding/json.Unmarshal"]
	reg("encoding/json.Unmarshal", func(in *Interp, c *frame, fn *ssa.Function, a []value) value {
		var data []byte
		concrete := true
		switch d := a[0].(type) {
		case sliceV:
			bs := make([]byte, len(d))
			for i, e := range d {
				tm, ok := e.(*smt.Term)
				if !ok || !tm.IsConst() {
					concrete = false
					break
				}
				bs[i] = byte(tm.V.Uint64())
			}
			data = bs
		case nil:
			data = nil
		default:
			concrete = false
		}
		if !concrete {
			if prev != nil {
				return prev(in, c, fn, a)
			}
			in.unsupported("json.Unmarshal of a symbolic document")
		}
		target, ok := a[1].(iface)
		if !ok || target.t == nil {
			return in.newOpaqueErr("json: Unmarshal(nil)")
		}
		pt, isPtr := target.t.Underlying().(*types.Pointer)
		p, _ := target.v.(*value)
		if !isPtr || p == nil {
			return in.newOpaqueErr("json: Unmarshal(non-pointer)")
		}
		var doc interface{}
		if err := json.Unmarshal(data, &doc); err != nil {
			return in.newOpaqueErr("json: " + err.Error())
		}
		if !in.lgJSONStore(p, pt.Elem(), doc) {
			return in.newOpaqueErr("json: cannot unmarshal value into Go value of that type")
		}
		return iface{}
	})
}
