package sym

import (
	"go/token"
	"math/big"

	"gosym/smt"
)

// intBitwiseConst folds a bitwise operator over two CONSTANT int-mode operands (math/big implements two's-complement
// semantics for negative operands, so the result stays inside the operand type's range).
func (in *Interp) intBitwiseConst(op token.Token, x, y *smt.Term) (*smt.Term, bool) {
	if !x.IsConst() || !y.IsConst() || x.S.K != smt.KInt || y.S.K != smt.KInt {
		return nil, false
	}
	r := new(big.Int)
	switch op {
	case token.AND:
		r.And(x.V, y.V)
	case token.OR:
		r.Or(x.V, y.V)
	case token.XOR:
		r.Xor(x.V, y.V)
	case token.AND_NOT:
		r.AndNot(x.V, y.V)
	default:
		return nil, false
	}
	return in.ctx.Int(r), true
}
