package sym

import (
	"fmt"
	"os"
	"sort"
	"strings"
)

// GOSYM_PROFILE=1 also prints, per fork site (decision label + the innermost interpreted functions), how many additional
// paths were spawned there. Debugging aid for sizing harnesses; no effect on results.
var profForks map[string]int64

func init() {
	if os.Getenv("GOSYM_PROFILE") != "" {
		profForks = map[string]int64{}
	}
}

func (in *Interp) noteFork(label string, extra int) {
	if profForks == nil || extra <= 0 {
		return
	}
	lo := len(in.stack) - 3
	if lo < 0 {
		lo = 0
	}
	k := label + " @ " + strings.Join(in.stack[lo:], " > ")
	profMu.Lock()
	profForks[k] += int64(extra)
	profMu.Unlock()
}

func forkProfileDump() {
	if profForks == nil {
		return
	}
	type kv struct {
		k string
		v int64
	}
	var l []kv
	for k, v := range profForks {
		l = append(l, kv{k, v})
	}
	sort.Slice(l, func(i, j int) bool { return l[i].v > l[j].v })
	for i, e := range l {
		if i >= 40 {
			break
		}
		fmt.Fprintf(os.Stderr, "forks %8d %s\n", e.v, e.k)
	}
}
