package sym

import (
	"go/types"
	"sync"

	"golang.org/x/tools/go/ssa"
)

// Bulk initialisation of constant array literals.
//
// A composite literal such as `var rawDesc = []byte{0x0a, 0x10, ...}` compiles to
//	t0 = new [N]byte (slicelit); t1 = &t0[0]; *t1 = 10; t2 = &t0[1]; *t2 = 16; ...; t = slice t0[:]
// i.e. two instructions per element; the generated protobuf descriptors of package types alone are ~18 k elements
// that would be re-interpreted on every path (package initialisers run per path). When every use of the array
// inside the Alloc's block before the first other use is `IndexAddr const` + `Store const`, the stores are applied
// in one go when the Alloc executes and the individual instructions are skipped. Semantics are unchanged.

type litStore struct {
	idx int
	val *ssa.Const
}

type fnLits struct {
	allocs map[*ssa.Alloc][]litStore
	skip   map[ssa.Instruction]bool
}

var litCache sync.Map // *ssa.Function -> *fnLits

func literalInfo(fn *ssa.Function) *fnLits {
	if v, ok := litCache.Load(fn); ok {
		return v.(*fnLits)
	}
	fl := &fnLits{allocs: map[*ssa.Alloc][]litStore{}, skip: map[ssa.Instruction]bool{}}
	for _, b := range fn.Blocks {
		for _, instr := range b.Instrs {
			al, ok := instr.(*ssa.Alloc)
			if !ok || !al.Heap {
				continue
			}
			at, ok := deref(al.Type()).Underlying().(*types.Array)
			if !ok || at.Len() < 16 {
				continue
			}
			if eb, ok := at.Elem().Underlying().(*types.Basic); !ok || eb.Info()&types.IsInteger == 0 {
				continue
			}
			refs := al.Referrers()
			if refs == nil {
				continue
			}
			var stores []litStore
			var skips []ssa.Instruction
			good := true
			for _, r := range *refs {
				ia, ok := r.(*ssa.IndexAddr)
				if !ok {
					continue // Slice etc.: takes the address only
				}
				ic, isConst := ia.Index.(*ssa.Const)
				irefs := ia.Referrers()
				if !isConst || ia.Block() != b || irefs == nil || len(*irefs) != 1 {
					good = false
					break
				}
				st, ok := (*irefs)[0].(*ssa.Store)
				if !ok || st.Addr != ia || st.Block() != b {
					good = false
					break
				}
				vc, ok := st.Val.(*ssa.Const)
				if !ok {
					good = false
					break
				}
				stores = append(stores, litStore{idx: int(ic.Int64()), val: vc})
				skips = append(skips, ia, st)
			}
			if !good || len(stores) == 0 {
				continue
			}
			// every non-IndexAddr referrer must come after the last store in the block (it may read the array)
			last := -1
			pos := map[ssa.Instruction]int{}
			for i, x := range b.Instrs {
				pos[x] = i
			}
			for _, s := range skips {
				if pos[s] > last {
					last = pos[s]
				}
			}
			for _, r := range *refs {
				if _, isIA := r.(*ssa.IndexAddr); isIA {
					continue
				}
				if r.Block() == b && pos[r] < last {
					good = false
				}
			}
			if !good {
				continue
			}
			fl.allocs[al] = stores
			for _, s := range skips {
				fl.skip[s] = true
			}
		}
	}
	litCache.Store(fn, fl)
	return fl
}

// bulkInit applies the constant stores of a literal array right after its allocation.
func (in *Interp) bulkInit(fl *fnLits, al *ssa.Alloc, addr *value) {
	stores, ok := fl.allocs[al]
	if !ok {
		return
	}
	arr := (*addr).(array)
	for _, s := range stores {
		arr[s.idx] = in.constValue(s.val)
	}
}
