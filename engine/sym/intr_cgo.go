package sym

import (
	"go/types"
	"strings"

	"gosym/smt"

	"golang.org/x/tools/go/ssa"
)

// C functions of the cgo package `contract` (LuaJIT, SQLite, libc). The package is loaded through the pure-Go overlay
// in which every C function is a Go function `_Cfunc_<name>`; for the engine they are environment calls:
//   - _Cfunc_CString / GoString / GoStringN / GoBytes / CBytes / free / _CMalloc: exact (a C buffer is a fresh cell that
//     remembers its content in the side table);
//   - every other _Cfunc_x: a fresh arbitrary result (integers: nondet "$C.x"; pointers: nil or a fresh opaque object,
//     decided by nondet "$C.x.nonnil"), no effect on Go state.
// Natively the overlay gives CString/GoString/GoBytes real pure-Go bodies and every other C function returns zero,
// which is the valuation 0 of the nondets above (so concrete runs and native runs agree).

type cbuf struct {
	str   value  // content as a string value (CString), or nil
	bytes sliceV // content as bytes (CBytes), or nil
}

const contractPkg = aergoPrefix + "/contract"

// dynIntrinsic finds summaries that are selected by name pattern rather than by exact name.
func dynIntrinsic(fn *ssa.Function) intrinsic {
	if fn.Pkg == nil || !strings.HasPrefix(fn.Name(), "_Cfunc_") || fn.Signature.Recv() != nil {
		return nil
	}
	if p := fn.Pkg.Pkg.Path(); p != contractPkg && !strings.HasPrefix(p, contractPkg+"/") && !strings.HasSuffix(p, "/luac") {
		return nil
	}
	switch name := strings.TrimPrefix(fn.Name(), "_Cfunc_"); name {
	case "CString":
		return func(in *Interp, c *frame, fn *ssa.Function, a []value) value {
			cell := new(value)
			*cell = in.ctx.BVu(0, 8)
			in.sideTab[cell] = &cbuf{str: a[0]}
			return cell
		}
	case "CBytes":
		return func(in *Interp, c *frame, fn *ssa.Function, a []value) value {
			cell := new(value)
			*cell = in.ctx.BVu(0, 8)
			in.sideTab[cell] = &cbuf{bytes: append(sliceV{}, in.materialize(a[0])...)}
			return cell
		}
	case "_CMalloc":
		return func(in *Interp, c *frame, fn *ssa.Function, a []value) value {
			cell := new(value)
			*cell = in.ctx.BVu(0, 8)
			return cell
		}
	case "free":
		return func(in *Interp, c *frame, fn *ssa.Function, a []value) value { return in.zero(fn.Signature.Results()) }
	case "GoString":
		return func(in *Interp, c *frame, fn *ssa.Function, a []value) value {
			p := a[0].(*value)
			if p == nil {
				return ""
			}
			if b, ok := in.sideTab[p].(*cbuf); ok {
				if b.str != nil {
					return b.str
				}
				return in.mkStrVals(b.bytes)
			}
			return in.newOpaqueStr("C.GoString")
		}
	case "GoBytes", "GoStringN":
		isStr := name == "GoStringN"
		return func(in *Interp, c *frame, fn *ssa.Function, a []value) value {
			p := a[0].(*value)
			n := in.concretize(a[1].(*smt.Term), -1<<31, 1<<31-1, "C.GoBytes length")
			if p == nil || n <= 0 {
				if isStr {
					return ""
				}
				return sliceV(nil)
			}
			b, ok := in.sideTab[p].(*cbuf)
			if !ok {
				in.unsupported("C.GoBytes of a C buffer the engine did not create")
			}
			var content sliceV
			if b.bytes != nil {
				content = b.bytes
			} else {
				for _, t := range in.strBytes(b.str) {
					content = append(content, t)
				}
			}
			if n > len(content)+1 {
				in.unsupported("C.GoBytes beyond the buffer")
			}
			out := make(sliceV, n)
			for i := range out {
				if i < len(content) {
					out[i] = content[i]
				} else {
					out[i] = in.ctx.BVu(0, 8)
				}
			}
			if isStr {
				return in.mkStrVals(out)
			}
			return out
		}
	default:
		return func(in *Interp, c *frame, fn *ssa.Function, a []value) value {
			return in.cEnvResult(name, fn.Signature.Results())
		}
	}
}

func (in *Interp) mkStrVals(bs sliceV) value {
	ts := make([]*smt.Term, len(bs))
	for i, b := range bs {
		ts[i] = b.(*smt.Term)
	}
	return in.mkStr(ts)
}

// cEnvResult builds an arbitrary result of a C call.
func (in *Interp) cEnvResult(name string, res *types.Tuple) value {
	mk := func(t types.Type) value {
		switch ut := t.Underlying().(type) {
		case *types.Basic:
			switch {
			case ut.Kind() == types.UnsafePointer:
				return in.cEnvPointer(name)
			case ut.Info()&types.IsBoolean != 0:
				return in.nondetTerm("$C."+name, smt.BoolSort)
			case ut.Info()&types.IsInteger != 0:
				return in.nondetInt("$C."+name, ut)
			}
		case *types.Pointer:
			return in.cEnvPointer(name)
		case *types.Array:
			if ut.Len() == 0 { // _Ctype_void
				return in.zero(t)
			}
		case *types.Struct:
			if ut.NumFields() == 0 {
				return in.zero(t)
			}
		}
		in.unsupported("C function " + name + " returning " + t.String())
		return nil
	}
	switch res.Len() {
	case 0:
		return nil
	case 1:
		return mk(res.At(0).Type())
	}
	out := make(tuple, res.Len())
	for i := range out {
		out[i] = mk(res.At(i).Type())
	}
	return out
}

func (in *Interp) cEnvPointer(name string) value {
	nn := in.nondetTerm("$C."+name+".nonnil", smt.BoolSort)
	if nn.IsConst() {
		if nn.IsFalse() {
			return (*value)(nil)
		}
	} else if !in.branch(nn, "C."+name+" result non-nil") {
		return (*value)(nil)
	}
	cell := new(value)
	*cell = in.ctx.BVu(0, 8)
	in.sideTab[cell] = &cbuf{str: in.newOpaqueStr("C." + name)}
	return cell
}
