package sym

import (
	"go/types"
	"math/big"

	"gosym/smt"

	"golang.org/x/tools/go/ssa"
)

// reflect: the read-only subset used by aergo on plain structs of unsigned fields
// (config.HardforkConfig.Version/Height/validate): ValueOf, Indirect, NumField, Field(i), Uint, Type().Field(i).Name is
// not included. A reflect.Value is an engine object carrying (static type, value); exact semantics.

type reflVal struct {
	t types.Type
	v value
}

func (in *Interp) reflArg(v value) *reflVal {
	if o, ok := v.(*opaqueObj); ok && o.kind == "reflect.Value" {
		return o.data.(*reflVal)
	}
	in.unsupported("reflect.Value that was not produced by reflect.ValueOf")
	return nil
}

func (in *Interp) reflMk(t types.Type, v value) value {
	in.objSeq++
	return &opaqueObj{kind: "reflect.Value", id: in.objSeq, data: &reflVal{t: t, v: v}}
}

func init() {
	reg("reflect.ValueOf", func(in *Interp, c *frame, fn *ssa.Function, a []value) value {
		i, ok := a[0].(iface)
		if !ok || i.t == nil {
			in.unsupported("reflect.ValueOf(nil)")
		}
		return in.reflMk(i.t, i.v)
	})
	reg("reflect.Indirect", func(in *Interp, c *frame, fn *ssa.Function, a []value) value {
		r := in.reflArg(a[0])
		if p, ok := r.t.Underlying().(*types.Pointer); ok {
			pv, _ := r.v.(*value)
			if pv == nil {
				in.unsupported("reflect.Indirect of nil pointer")
			}
			return in.reflMk(p.Elem(), *pv)
		}
		return a[0]
	})
	reg("(reflect.Value).NumField", func(in *Interp, c *frame, fn *ssa.Function, a []value) value {
		r := in.reflArg(a[0])
		st, ok := r.t.Underlying().(*types.Struct)
		if !ok {
			panic(goPanic{msg: "reflect: call of reflect.Value.NumField on non-struct Value"})
		}
		return in.intConst(basicOf(types.Typ[types.Int]), big.NewInt(int64(st.NumFields())))
	})
	reg("(reflect.Value).Field", func(in *Interp, c *frame, fn *ssa.Function, a []value) value {
		r := in.reflArg(a[0])
		st, ok := r.t.Underlying().(*types.Struct)
		if !ok {
			panic(goPanic{msg: "reflect: call of reflect.Value.Field on non-struct Value"})
		}
		sv, ok := r.v.(structure)
		if !ok {
			in.unsupported("reflect.Value.Field on an engine-internal struct representation")
		}
		i := in.concretize(a[1].(*smt.Term), 0, st.NumFields()-1, "reflect.Field")
		if i < 0 || i >= st.NumFields() {
			panic(goPanic{msg: "reflect: Field index out of range"})
		}
		return in.reflMk(st.Field(i).Type(), sv[i])
	})
	reg("(reflect.Value).Uint", func(in *Interp, c *frame, fn *ssa.Function, a []value) value {
		r := in.reflArg(a[0])
		b, ok := r.t.Underlying().(*types.Basic)
		if !ok || b.Info()&types.IsUnsigned == 0 {
			panic(goPanic{msg: "reflect: call of reflect.Value.Uint on non-uint Value"})
		}
		return in.conv(types.Typ[types.Uint64], r.t, r.v)
	})
}
