package sym

import (
	"fmt"
	"go/types"
	"math/big"

	"gosym/smt"

	"golang.org/x/tools/go/ssa"
)

// A deliberately narrow summary of package reflect: read-only iteration over the fields of a struct VALUE
// (reflect.ValueOf(struct) / Indirect(ValueOf(&struct)), NumField, Field(i), Uint/Int/Bool on basic fields,
// Type().Field(i).Name, Type().NumField(), FieldByName with a concrete name, Kind of these). This is what
// config.HardforkConfig.Version/validate/Height/FixDbConfig use. Everything else in reflect stays unsupported.
//
// A reflect.Value is represented by *reflVal (it only ever flows between these summaries), a reflect.Type by *reflTyp
// behind an iface (reflect.Type is an interface; its methods are dispatched in engineMethod through opaqueObj is not
// possible, so (reflect.Value).Type returns *reflTyp directly and the methods used on it are registered on *rtype).

type reflVal struct {
	t types.Type
	v value
}

type reflTyp struct{ t types.Type }

func (in *Interp) reflStruct(a value, what string) (*reflVal, *types.Struct) {
	rv, ok := a.(*reflVal)
	if !ok || rv == nil {
		in.unsupported("reflect: " + what + " on a reflect.Value the engine did not create")
	}
	st, ok := rv.t.Underlying().(*types.Struct)
	if !ok {
		panic(goPanic{msg: "reflect: call of " + what + " on non-struct Value"})
	}
	if _, ok := rv.v.(structure); !ok {
		in.unsupported(fmt.Sprintf("reflect: struct value represented as %T", rv.v))
	}
	return rv, st
}

func init() {
	reg("reflect.ValueOf", func(in *Interp, c *frame, fn *ssa.Function, a []value) value {
		i, ok := a[0].(iface)
		if !ok || i.t == nil {
			in.unsupported("reflect.ValueOf(nil)")
		}
		return &reflVal{t: i.t, v: i.v}
	})
	reg("reflect.Indirect", func(in *Interp, c *frame, fn *ssa.Function, a []value) value {
		rv, ok := a[0].(*reflVal)
		if !ok {
			in.unsupported("reflect.Indirect on a foreign Value")
		}
		if pt, ok := rv.t.Underlying().(*types.Pointer); ok {
			p := rv.v.(*value)
			if p == nil {
				in.unsupported("reflect.Indirect(nil pointer)")
			}
			return &reflVal{t: pt.Elem(), v: *p}
		}
		return rv
	})
	reg("(reflect.Value).NumField", func(in *Interp, c *frame, fn *ssa.Function, a []value) value {
		_, st := in.reflStruct(a[0], "NumField")
		return in.intConst(basicOf(types.Typ[types.Int]), big.NewInt(int64(st.NumFields())))
	})
	reg("(reflect.Value).Field", func(in *Interp, c *frame, fn *ssa.Function, a []value) value {
		rv, st := in.reflStruct(a[0], "Field")
		i := in.asInt(a[1], types.Typ[types.Int], "reflect.Value.Field")
		if i < 0 || i >= st.NumFields() {
			panic(goPanic{msg: "reflect: Field index out of range"})
		}
		return &reflVal{t: st.Field(i).Type(), v: rv.v.(structure)[i]}
	})
	reg("(reflect.Value).FieldByName", func(in *Interp, c *frame, fn *ssa.Function, a []value) value {
		rv, st := in.reflStruct(a[0], "FieldByName")
		name, ok := a[1].(string)
		if !ok {
			in.unsupported("reflect.Value.FieldByName with a symbolic name")
		}
		for i := 0; i < st.NumFields(); i++ {
			if st.Field(i).Name() == name {
				return &reflVal{t: st.Field(i).Type(), v: rv.v.(structure)[i]}
			}
		}
		in.unsupported("reflect.Value.FieldByName: no such field (zero Value)")
		return nil
	})
	basicField := func(in *Interp, a value, what string, want types.BasicInfo) (*smt.Term, *types.Basic) {
		rv, ok := a.(*reflVal)
		if !ok {
			in.unsupported("reflect: " + what + " on a foreign Value")
		}
		b, ok := rv.t.Underlying().(*types.Basic)
		if !ok || b.Info()&want == 0 {
			panic(goPanic{msg: "reflect: call of reflect.Value." + what + " on " + rv.t.String() + " Value"})
		}
		t, ok := rv.v.(*smt.Term)
		if !ok {
			in.unsupported(fmt.Sprintf("reflect: basic value represented as %T", rv.v))
		}
		return t, b
	}
	reg("(reflect.Value).Uint", func(in *Interp, c *frame, fn *ssa.Function, a []value) value {
		t, b := basicField(in, a[0], "Uint", types.IsUnsigned)
		if !in.useInt(b) && t.S.K == smt.KBV && t.S.W != 64 {
			return in.ctx.ZExt(t, 64-t.S.W)
		}
		return t
	})
	reg("(reflect.Value).Int", func(in *Interp, c *frame, fn *ssa.Function, a []value) value {
		t, b := basicField(in, a[0], "Int", types.IsInteger)
		if b.Info()&types.IsUnsigned != 0 {
			panic(goPanic{msg: "reflect: call of reflect.Value.Int on unsigned Value"})
		}
		if !in.useInt(b) && t.S.K == smt.KBV && t.S.W != 64 {
			return in.ctx.SExt(t, 64-t.S.W)
		}
		return t
	})
	reg("(reflect.Value).Bool", func(in *Interp, c *frame, fn *ssa.Function, a []value) value {
		t, _ := basicField(in, a[0], "Bool", types.IsBoolean)
		return t
	})
	// v.Type() -> engine type object; only Field(i).Name / NumField / Name are available on it
	reg("(reflect.Value).Type", func(in *Interp, c *frame, fn *ssa.Function, a []value) value {
		rv, ok := a[0].(*reflVal)
		if !ok {
			in.unsupported("reflect: Type on a foreign Value")
		}
		return iface{t: reflTypNamed, v: &reflTyp{rv.t}}
	})
}

var reflTypNamed = types.NewNamed(types.NewTypeName(0, nil, "gosymReflectType", nil), types.NewStruct(nil, nil), nil)

// reflTypeMethod implements the reflect.Type methods the summaries support (called from engineMethod).
func (in *Interp) reflTypeMethod(rt *reflTyp, m *types.Func) value {
	switch m.Name() {
	case "NumField":
		return &nativeFn{name: "reflect.Type.NumField", f: func(in *Interp, caller *frame, args []value) value {
			st, ok := rt.t.Underlying().(*types.Struct)
			if !ok {
				panic(goPanic{msg: "reflect: NumField of non-struct type"})
			}
			return in.intConst(basicOf(types.Typ[types.Int]), big.NewInt(int64(st.NumFields())))
		}}
	case "Field":
		return &nativeFn{name: "reflect.Type.Field", f: func(in *Interp, caller *frame, args []value) value {
			st, ok := rt.t.Underlying().(*types.Struct)
			if !ok {
				panic(goPanic{msg: "reflect: Field of non-struct type"})
			}
			i := in.asInt(args[1], types.Typ[types.Int], "reflect.Type.Field")
			if i < 0 || i >= st.NumFields() {
				panic(goPanic{msg: "reflect: Field index out of bounds"})
			}
			// reflect.StructField: only .Name is meaningful; build the zero struct of the result type and set field 0
			res := in.zero(m.Type().(*types.Signature).Results().At(0).Type())
			if s, ok := res.(structure); ok && len(s) > 0 {
				s[0] = st.Field(i).Name()
				return s
			}
			in.unsupported("reflect.StructField layout")
			return nil
		}}
	case "Name":
		return &nativeFn{name: "reflect.Type.Name", f: func(in *Interp, caller *frame, args []value) value {
			if n, ok := rt.t.(*types.Named); ok {
				return n.Obj().Name()
			}
			return ""
		}}
	}
	in.unsupported("reflect.Type." + m.Name())
	return nil
}
