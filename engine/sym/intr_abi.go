package sym

import "golang.org/x/tools/go/ssa"

// internal/abi.NoEscape(p) hides a pointer from escape analysis through a uintptr round trip (used by
// strings.Builder.copyCheck); semantically the identity.
func init() {
	id := func(in *Interp, c *frame, fn *ssa.Function, a []value) value { return a[0] }
	reg("internal/abi.NoEscape", id)
	reg("strings.noescape", id)
}
