package sym

import "golang.org/x/tools/go/ssa"

func init() {
	// (*strings.Builder).copyCheck only detects copies of a non-zero Builder (via an unsafe self pointer): no effect.
	reg("(*strings.Builder).copyCheck", func(in *Interp, c *frame, fn *ssa.Function, a []value) value { return nil })
}
