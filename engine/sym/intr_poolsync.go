package sym

import (
	"golang.org/x/tools/go/ssa"
)

// Small library summaries needed by the mempool/syncer harnesses (C13, C17).

func init() {
	// internal/abi.NoEscape(p) hides p from escape analysis; semantically the identity.
	reg("internal/abi.NoEscape", func(in *Interp, c *frame, fn *ssa.Function, a []value) value { return a[0] })
}
