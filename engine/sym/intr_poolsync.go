package sym

import (
	"go/types"

	"gosym/smt"

	"golang.org/x/tools/go/ssa"
)

// Library summaries needed by the mempool/syncer harnesses (C13, C17).
//
//   - internal/abi.NoEscape: identity.
//   - sync.Map: an engine map (association list, key equality is a term) kept inside the sync.Map structure itself,
//     so that assigning a fresh sync.Map{} empties it. Range visits in insertion order (the library leaves the order
//     unspecified). Lock-freedom/concurrency is not modelled (like the other sync primitives).
//   - time.NewTimer/NewTicker/After: timers NEVER fire: the channel stays empty, so a `select` takes another ready case
//     or its default; a select where only the timer could fire ends the path as unsupported (blocking). Timeouts are
//     therefore outside every claim that runs through these summaries.

func (in *Interp) syncMapOf(recv value) *mapV {
	p, _ := recv.(*value)
	if p == nil {
		panic(goPanic{msg: "nil *sync.Map"})
	}
	st, ok := (*p).(structure)
	if !ok || len(st) == 0 {
		in.unsupported("sync.Map with unexpected representation")
	}
	if m, ok := st[0].(*mapV); ok && m != nil {
		return m
	}
	m := &mapV{}
	st[0] = m
	return m
}

func (in *Interp) neverChan() *chanV { return &chanV{cap: 1} }

func (in *Interp) timerObject(fn *ssa.Function) value {
	pt := fn.Signature.Results().At(0).Type().(*types.Pointer)
	stT := pt.Elem().Underlying().(*types.Struct)
	st := in.zero(pt.Elem()).(structure)
	for i := 0; i < stT.NumFields(); i++ {
		if stT.Field(i).Name() == "C" {
			st[i] = in.neverChan()
		}
	}
	p := new(value)
	*p = st
	return p
}

func init() {
	reg("internal/abi.NoEscape", func(in *Interp, c *frame, fn *ssa.Function, a []value) value { return a[0] })

	reg("(*sync.Map).Load", func(in *Interp, c *frame, fn *ssa.Function, a []value) value {
		if e := in.mapFind(in.syncMapOf(a[0]), a[1], "sync.Map.Load"); e != nil {
			return tuple{e.v, in.ctx.True()}
		}
		return tuple{iface{}, in.ctx.False()}
	})
	reg("(*sync.Map).Store", func(in *Interp, c *frame, fn *ssa.Function, a []value) value {
		in.mapSet(in.syncMapOf(a[0]), a[1], a[2])
		return nil
	})
	reg("(*sync.Map).Delete", func(in *Interp, c *frame, fn *ssa.Function, a []value) value {
		in.mapDelete(in.syncMapOf(a[0]), a[1])
		return nil
	})
	reg("(*sync.Map).LoadAndDelete", func(in *Interp, c *frame, fn *ssa.Function, a []value) value {
		m := in.syncMapOf(a[0])
		if e := in.mapFind(m, a[1], "sync.Map.LoadAndDelete"); e != nil {
			v := e.v
			for i, x := range m.entries {
				if x == e {
					m.entries = append(m.entries[:i:i], m.entries[i+1:]...)
					break
				}
			}
			return tuple{v, in.ctx.True()}
		}
		return tuple{iface{}, in.ctx.False()}
	})
	reg("(*sync.Map).LoadOrStore", func(in *Interp, c *frame, fn *ssa.Function, a []value) value {
		m := in.syncMapOf(a[0])
		if e := in.mapFind(m, a[1], "sync.Map.LoadOrStore"); e != nil {
			return tuple{e.v, in.ctx.True()}
		}
		m.entries = append(m.entries, &mapEntry{k: copyVal(a[1]), v: a[2]})
		return tuple{a[2], in.ctx.False()}
	})
	reg("(*sync.Map).Range", func(in *Interp, c *frame, fn *ssa.Function, a []value) value {
		m := in.syncMapOf(a[0])
		entries := append([]*mapEntry{}, m.entries...)
		for _, e := range entries {
			live := false
			for _, x := range m.entries {
				if x == e {
					live = true
					break
				}
			}
			if !live {
				continue
			}
			r := in.call(c, a[1], []value{copyVal(e.k), e.v}, 0)
			if !in.branch(r.(*smt.Term), "sync.Map.Range") {
				break
			}
		}
		return nil
	})

	reg("time.NewTimer", func(in *Interp, c *frame, fn *ssa.Function, a []value) value { return in.timerObject(fn) })
	reg("time.NewTicker", func(in *Interp, c *frame, fn *ssa.Function, a []value) value { return in.timerObject(fn) })
	reg("time.After", func(in *Interp, c *frame, fn *ssa.Function, a []value) value { return in.neverChan() })
	reg("(*time.Timer).Stop", func(in *Interp, c *frame, fn *ssa.Function, a []value) value { return in.ctx.True() })
	reg("(*time.Timer).Reset", func(in *Interp, c *frame, fn *ssa.Function, a []value) value { return in.ctx.True() })
	reg("(*time.Ticker).Stop", func(in *Interp, c *frame, fn *ssa.Function, a []value) value { return nil })
}
