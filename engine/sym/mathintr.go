package sym

import (
	"math"
	"math/big"

	"go/types"

	"gosym/smt"

	"golang.org/x/tools/go/ssa"
)

func init() {
	f1 := func(f func(float64) float64) intrinsic {
		return func(in *Interp, c *frame, fn *ssa.Function, a []value) value { return f(a[0].(float64)) }
	}
	f2 := func(f func(float64, float64) float64) intrinsic {
		return func(in *Interp, c *frame, fn *ssa.Function, a []value) value {
			return f(a[0].(float64), a[1].(float64))
		}
	}
	reg("math.Max", f2(math.Max))
	reg("math.Min", f2(math.Min))
	reg("math.Pow", f2(math.Pow))
	reg("math.Mod", f2(math.Mod))
	reg("math.Floor", f1(math.Floor))
	reg("math.Ceil", f1(math.Ceil))
	reg("math.Trunc", f1(math.Trunc))
	reg("math.Sqrt", f1(math.Sqrt))
	reg("math.Log", f1(math.Log))
	reg("math.Log2", f1(math.Log2))
	reg("math.Log10", f1(math.Log10))
	reg("math.Exp", f1(math.Exp))
	reg("math.Abs", f1(math.Abs))
	reg("math.Round", f1(math.Round))
	reg("math.Inf", func(in *Interp, c *frame, fn *ssa.Function, a []value) value {
		return math.Inf(int(in.termInt(a[0].(*smt.Term), types.Typ[types.Int]).Int64()))
	})
	reg("math.NaN", func(in *Interp, c *frame, fn *ssa.Function, a []value) value { return math.NaN() })
	reg("math.IsNaN", func(in *Interp, c *frame, fn *ssa.Function, a []value) value {
		return in.ctx.Bool(math.IsNaN(a[0].(float64)))
	})
	reg("math.IsInf", func(in *Interp, c *frame, fn *ssa.Function, a []value) value {
		return in.ctx.Bool(math.IsInf(a[0].(float64), int(in.termInt(a[1].(*smt.Term), types.Typ[types.Int]).Int64())))
	})
	reg("math.Float64bits", func(in *Interp, c *frame, fn *ssa.Function, a []value) value {
		return in.intConst(basicOf(types.Typ[types.Uint64]), new(big.Int).SetUint64(math.Float64bits(a[0].(float64))))
	})
	reg("math.Float64frombits", func(in *Interp, c *frame, fn *ssa.Function, a []value) value {
		t := a[0].(*smt.Term)
		if !t.IsConst() {
			in.unsupported("Float64frombits of symbolic value")
		}
		return math.Float64frombits(in.termInt(t, types.Typ[types.Uint64]).Uint64())
	})
	reg("math.Float32bits", func(in *Interp, c *frame, fn *ssa.Function, a []value) value {
		return in.intConst(basicOf(types.Typ[types.Uint32]), new(big.Int).SetUint64(uint64(math.Float32bits(float32(a[0].(float64))))))
	})
}
