package sym

import (
	"fmt"
	"go/token"
	"go/types"
	"math/big"
	"strings"

	"gosym/smt"

	"golang.org/x/tools/go/ssa"
)

// opaqueSlice: a []byte whose LENGTH is a symbolic term and whose content is never inspected (DESIGN §2.2 "opaque
// slice"): allowed are len/cap, nil test (never nil), pass-through, proto.Size and hashing (see hashSum). Any access
// to the content ends the path as inconclusive.
//
// Harness side: zzvf.OpaqueBytes(name, max) is ordinary Go (n := Int(name); Assume(0 <= n <= max); make([]byte, n));
// this intrinsic replaces its body in the engine. In concrete (differential) mode the real zero-filled slice is built.
type opaqueSlice struct {
	id int
	n  *smt.Term // term of Go type int
}

const opaqueConcreteMax = 1 << 22

func init() {
	reg(vfPkg+".OpaqueBytes", func(in *Interp, c *frame, fn *ssa.Function, a []value) value {
		intB := basicOf(types.Typ[types.Int])
		n := in.nondetInt(a[0].(string), intB)
		max := a[1].(*smt.Term)
		in.assume(in.intBinop(token.GEQ, intB, intB, n, in.intConst(intB, big.NewInt(0))).(*smt.Term))
		in.assume(in.intBinop(token.LEQ, intB, intB, n, max).(*smt.Term))
		if n.IsConst() {
			k := int(in.termInt(n, types.Typ[types.Int]).Int64())
			if k > opaqueConcreteMax {
				in.unsupported(fmt.Sprintf("opaque slice of concrete length %d", k))
			}
			s := make(sliceV, k)
			for i := range s {
				s[i] = in.ctx.BVu(0, 8)
			}
			return s
		}
		in.objSeq++
		return &opaqueSlice{id: in.objSeq, n: n}
	})
}

// ---------------------------------------------------------------- hashing of inputs with opaque parts

// hashMark records an opaque part (opaque slice, big-integer byte image of symbolic length) written into a hash
// state after parts[at-1].
type hashMark struct {
	at  int
	key string
}

var opaqueDigestTab = new(value) // key into Interp.sideTab (per path)

// hashWriteOpaque handles opaque inputs of a hash; reports whether v was one.
func (in *Interp) hashWriteOpaque(h *hashState, v value) bool {
	switch x := v.(type) {
	case *opaqueSlice:
		h.marks = append(h.marks, hashMark{at: len(h.parts), key: fmt.Sprintf("o%d", x.id)})
		return true
	case *bigBytes:
		if x.t.IsConst() {
			return false
		}
		h.marks = append(h.marks, hashMark{at: len(h.parts), key: fmt.Sprintf("b%d", x.t.ID)})
		return true
	}
	return false
}

// hashSumOpaque: digest of an input that contains opaque parts = a 256-bit value that is a FUNCTION of the written
// sequence (same sequence of terms and opaque parts => same digest) and otherwise unconstrained. This over-approximates
// SHA-256 (no collision freedom is assumed for such inputs).
func (in *Interp) hashSumOpaque(h *hashState) sliceV {
	var sb strings.Builder
	mi := 0
	for i := 0; i <= len(h.parts); i++ {
		for mi < len(h.marks) && h.marks[mi].at == i {
			sb.WriteString("[" + h.marks[mi].key + "]")
			mi++
		}
		if i < len(h.parts) {
			fmt.Fprintf(&sb, "%d,", h.parts[i].ID)
		}
	}
	tab, _ := in.sideTab[opaqueDigestTab].(map[string]*smt.Term)
	if tab == nil {
		tab = map[string]*smt.Term{}
		in.sideTab[opaqueDigestTab] = tab
	}
	key := sb.String()
	d, ok := tab[key]
	if !ok {
		d = in.nondetTerm("$hash.opaque", smt.BVSort(256))
		tab[key] = d
		in.res.StubsHit["sha256 of an input with opaque parts (unconstrained functional digest)"]++
	}
	out := make(sliceV, 32)
	for i := range out {
		out[i] = in.ctx.Extract(d, 255-8*i, 248-8*i)
	}
	return out
}
