package sym

import (
	"fmt"
	"go/types"
	"math/big"

	"gosym/smt"

	"golang.org/x/tools/go/ssa"
)

// Exact summaries of encoding/binary's ByteOrder methods (LittleEndian/BigEndian .UintN / .PutUintN / .AppendUintN).
// The library code builds the value with shifts and ors; the summary uses extract/concat instead, so that a value
// written with PutUintN and read back with UintN is structurally the same term (and int-mode needs no bitwise ors).

func init() {
	for _, ord := range []struct {
		name string
		be   bool
	}{{"littleEndian", false}, {"bigEndian", true}} {
		for _, w := range []int{16, 32, 64} {
			be, n := ord.be, w/8
			kind := map[int]types.BasicKind{16: types.Uint16, 32: types.Uint32, 64: types.Uint64}[w]
			bt := types.Typ[kind]
			prefix := "(encoding/binary." + ord.name + ")."
			reg(prefix+fmt.Sprintf("Uint%d", w), func(in *Interp, c *frame, fn *ssa.Function, a []value) value {
				bs := in.byteTerms(a[1])
				if len(bs) < n {
					panic(goPanic{msg: fmt.Sprintf("index out of range [%d] with length %d (binary.Uint%d)", n-1, len(bs), 8*n)})
				}
				return in.bytesToUint(bs[:n], bt, be)
			})
			reg(prefix+fmt.Sprintf("PutUint%d", w), func(in *Interp, c *frame, fn *ssa.Function, a []value) value {
				dst := in.materialize(a[1])
				if len(dst) < n {
					panic(goPanic{msg: fmt.Sprintf("index out of range [%d] with length %d (binary.PutUint%d)", n-1, len(dst), 8*n)})
				}
				for i, b := range in.uintToBytes(a[2].(*smt.Term), n, be) {
					dst[i] = b
				}
				return nil
			})
			reg(prefix+fmt.Sprintf("AppendUint%d", w), func(in *Interp, c *frame, fn *ssa.Function, a []value) value {
				out := append(sliceV{}, in.materialize(a[1])...)
				for _, b := range in.uintToBytes(a[2].(*smt.Term), n, be) {
					out = append(out, b)
				}
				return out
			})
		}
	}
}

func (in *Interp) uintToBytes(v *smt.Term, n int, be bool) []*smt.Term {
	c := in.ctx
	if v.S.K == smt.KInt {
		v = c.Int2BV(v, 8*n)
	}
	out := make([]*smt.Term, n)
	for i := 0; i < n; i++ {
		k := i
		if be {
			k = n - 1 - i
		}
		out[i] = c.Extract(v, 8*k+7, 8*k)
	}
	return out
}

func (in *Interp) bytesToUint(bs []*smt.Term, bt *types.Basic, be bool) *smt.Term {
	c := in.ctx
	n := len(bs)
	var tm *smt.Term
	for i := 0; i < n; i++ {
		b := bs[n-1-i]
		if be {
			b = bs[i]
		}
		if tm == nil {
			tm = b
		} else {
			tm = c.Concat(tm, b)
		}
	}
	if !in.useInt(bt) {
		return tm
	}
	// int mode: bytes written from an in-range Int u read back as u itself
	if tm.Op == "int2bv" {
		u := tm.A[0]
		lo, hi := in.bounds(u)
		if lo != nil && hi != nil && lo.Sign() >= 0 && hi.Cmp(new(big.Int).Lsh(big.NewInt(1), uint(8*n))) < 0 {
			return u
		}
	}
	return in.toInt(tm, bt)
}
