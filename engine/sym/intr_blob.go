package sym

import (
	"fmt"
	"go/types"

	"gosym/smt"

	"golang.org/x/tools/go/ssa"
)

// Binary codecs that are not under test (aergo's internal/enc/gob and internal/enc/proto wrappers around encoding/gob
// and golang/protobuf): Encode(x) yields an opaque blob — a 12-byte []byte with concrete content (magic + serial number)
// that stands for a DEEP SNAPSHOT of x taken at the time of the call; Decode(blob, &y) writes a fresh deep copy of that
// snapshot into y. Hence Decode(Encode(x)) == x (up to the normalisations both codecs perform) and later mutations of x
// do not leak into what was "written". The native counterpart is the real codec.
//
// Normalisations (shared by gob and proto3): only exported struct fields travel (unexported ones are left untouched in
// the destination); pointers are flattened at the top level; empty slices and empty maps come back as nil.
// gob only: a field whose value is the zero value is not transmitted, the destination keeps what it had. This is
// applied to the top-level struct fields (all decode sites in scope decode into zero-valued or freshly constructed
// destinations, for which "keep" and "overwrite" coincide); if zero-ness of a transmitted field cannot be decided and the
// destination field is not zero the path is inconclusive, never silently wrong.
// The blob's LENGTH is not that of the real encoding: harnesses must not depend on it (len(blob) > 0 holds on both sides).

type blobRec struct {
	codec string
	t     types.Type // type of the snapshot (pointers flattened)
	v     value
}

var blobKey = new(value) // key of the per-path blob table inside Interp.sideTab

var blobMagic = []byte{0xC0, 0xDE, 0xB1, 0x0B, 'v', 'f', 0x00, 0x00}

func (in *Interp) blobTable() map[int]*blobRec {
	if t, ok := in.sideTab[blobKey]; ok {
		return t.(map[int]*blobRec)
	}
	t := map[int]*blobRec{}
	in.sideTab[blobKey] = t
	return t
}

func blobExportedField(f *types.Var) bool { return f.Exported() }

// snapshot returns a deep copy of v (static type t) with the codec normalisations applied.
func (in *Interp) snapshot(v value, t types.Type, depth int) value {
	if depth > 64 {
		in.unsupported("codec: value nesting too deep (cyclic?)")
	}
	switch tt := t.(type) {
	case *types.Named:
		if isBigInt(tt) {
			return v
		}
		return in.snapshot(v, tt.Underlying(), depth)
	case *types.Alias:
		return in.snapshot(v, types.Unalias(tt), depth)
	case *types.Basic:
		return v
	case *types.Pointer:
		p, _ := v.(*value)
		if p == nil {
			return (*value)(nil)
		}
		n := new(value)
		*n = in.snapshot(*p, tt.Elem(), depth+1)
		return n
	case *types.Struct:
		s, ok := v.(structure)
		if !ok {
			if _, isBig := v.(bigV); isBig {
				return v
			}
			in.unsupported(fmt.Sprintf("codec: struct represented as %T", v))
		}
		out := make(structure, len(s))
		for i := range s {
			f := tt.Field(i)
			if blobExportedField(f) {
				out[i] = in.snapshot(s[i], f.Type(), depth+1)
			} else {
				out[i] = in.zero(f.Type())
			}
		}
		return out
	case *types.Array:
		a := v.(array)
		out := make(array, len(a))
		for i := range a {
			out[i] = in.snapshot(a[i], tt.Elem(), depth+1)
		}
		return out
	case *types.Slice:
		if bb, ok := v.(*bigBytes); ok {
			return bb
		}
		s, _ := v.(sliceV)
		if len(s) == 0 {
			return sliceV(nil)
		}
		out := make(sliceV, len(s))
		for i := range s {
			out[i] = in.snapshot(s[i], tt.Elem(), depth+1)
		}
		return out
	case *types.Map:
		m, _ := v.(*mapV)
		if m == nil || len(m.entries) == 0 {
			return (*mapV)(nil)
		}
		out := &mapV{kt: m.kt}
		for _, e := range m.entries {
			out.entries = append(out.entries, &mapEntry{k: in.snapshot(e.k, tt.Key(), depth+1), v: in.snapshot(e.v, tt.Elem(), depth+1)})
		}
		return out
	case *types.Interface:
		i := v.(iface)
		if i.t == nil {
			return iface{}
		}
		return iface{t: i.t, v: in.snapshot(i.v, i.t, depth+1)}
	}
	in.unsupported("codec: cannot encode a value of type " + t.String())
	return nil
}

// zeroKnown reports whether v (of type t) is the zero value: (isZero, decided).
func (in *Interp) zeroKnown(v value, t types.Type) (bool, bool) {
	switch x := v.(type) {
	case *smt.Term:
		if x.IsConst() {
			return x.V.Sign() == 0, true
		}
		return false, false
	case string:
		return x == "", true
	case *symStr:
		return len(x.b) == 0, true
	case *opaqueStr:
		return false, false
	case float64:
		return x == 0, true
	case *value:
		return x == nil, true
	case sliceV:
		return len(x) == 0, true
	case *mapV:
		return x == nil || len(x.entries) == 0, true
	case iface:
		return x.t == nil, true
	case bigV:
		if x.t.IsConst() {
			return x.t.V.Sign() == 0, true
		}
		return false, false
	case *bigBytes:
		return false, false
	case structure:
		st, ok := t.Underlying().(*types.Struct)
		if !ok {
			return false, false
		}
		all, known := true, true
		for i := range x {
			z, k := in.zeroKnown(x[i], st.Field(i).Type())
			if !k {
				known = false
			} else if !z {
				return false, true
			}
			all = all && z
		}
		return all && known, known
	case array:
		at, ok := t.Underlying().(*types.Array)
		if !ok {
			return false, false
		}
		known := true
		for i := range x {
			z, k := in.zeroKnown(x[i], at.Elem())
			if !k {
				known = false
			} else if !z {
				return false, true
			}
		}
		return known, known
	}
	return false, false
}

func flattenPtr(v value, t types.Type) (value, types.Type, bool) {
	for {
		pt, ok := types.Unalias(t).Underlying().(*types.Pointer)
		if !ok {
			return v, t, true
		}
		p, _ := v.(*value)
		if p == nil {
			return nil, t, false
		}
		v, t = *p, pt.Elem()
	}
}

func (in *Interp) blobEncode(codec string, x value) value {
	i, ok := x.(iface)
	if !ok || i.t == nil {
		return tuple{sliceV(nil), in.newOpaqueErr(codec + ".Encode(nil)")}
	}
	v, t, ok := flattenPtr(i.v, i.t)
	if !ok {
		// gob: "cannot encode nil pointer"; proto: Marshal of a typed nil message yields an error or empty bytes
		in.unsupported(codec + ".Encode of a nil pointer")
	}
	tab := in.blobTable()
	id := len(tab) + 1
	tab[id] = &blobRec{codec: codec, t: t, v: in.snapshot(v, t, 0)}
	b := append(append([]byte{}, blobMagic...), byte(id>>24), byte(id>>16), byte(id>>8), byte(id))
	return tuple{in.bytesValue(b), iface{}}
}

func (in *Interp) blobLookup(codec string, b value) *blobRec {
	var bs []*smt.Term
	switch b.(type) {
	case sliceV, nil:
		bs = in.byteTerms(b)
	default:
		in.unsupported(codec + ".Decode of non-blob bytes")
	}
	cb, ok := allConst(bs)
	if !ok || len(cb) != len(blobMagic)+4 || string(cb[:len(blobMagic)]) != string(blobMagic) {
		in.unsupported(codec + ".Decode of bytes that were not produced by " + codec + ".Encode on this path")
	}
	id := int(cb[8])<<24 | int(cb[9])<<16 | int(cb[10])<<8 | int(cb[11])
	rec := in.blobTable()[id]
	if rec == nil || rec.codec != codec {
		in.unsupported(codec + ".Decode of a blob of another codec")
	}
	return rec
}

func (in *Interp) blobDecode(codec string, b value, dst value) value {
	rec := in.blobLookup(codec, b)
	di, ok := dst.(iface)
	if !ok || di.t == nil {
		return in.newOpaqueErr(codec + ".Decode into nil")
	}
	pt, ok := types.Unalias(di.t).Underlying().(*types.Pointer)
	p, _ := di.v.(*value)
	if !ok || p == nil {
		return in.newOpaqueErr(codec + ".Decode into non-pointer")
	}
	// pointer-to-pointer destinations: allocate through
	et := pt.Elem()
	for {
		ept, ok := types.Unalias(et).Underlying().(*types.Pointer)
		if !ok {
			break
		}
		q, _ := (*p).(*value)
		if q == nil {
			q = new(value)
			*q = in.zero(ept.Elem())
			*p = q
		}
		p, et = q, ept.Elem()
	}
	if !types.Identical(et, rec.t) {
		in.unsupported(fmt.Sprintf("%s.Decode: destination type %s differs from encoded type %s", codec, et, rec.t))
	}
	fresh := in.snapshot(rec.v, rec.t, 0) // every decode gets its own copy
	st, isStruct := rec.t.Underlying().(*types.Struct)
	src, sok := fresh.(structure)
	cur, cok := (*p).(structure)
	if !isStruct || !sok || !cok {
		if codec != "proto" {
			if z, k := in.zeroKnown(fresh, rec.t); k && z {
				return iface{}
			}
		}
		assignInPlace(p, fresh)
		return iface{}
	}
	for i := range src {
		f := st.Field(i)
		if !blobExportedField(f) {
			continue
		}
		if codec != "proto" {
			z, k := in.zeroKnown(src[i], f.Type())
			if k && z {
				continue // not transmitted
			}
			if !k {
				if dz, dk := in.zeroKnown(cur[i], f.Type()); !(dk && dz) {
					in.unsupported(codec + ".Decode: field " + f.Name() + " may or may not be transmitted and the destination field is not zero")
				}
			}
		}
		assignInPlace(&cur[i], src[i])
	}
	return iface{}
}

// assignInPlace stores src into *dst keeping the identity of aggregate cells (pointers obtained earlier through
// FieldAddr/IndexAddr into the destination stay valid, as with a real field-by-field store).
func assignInPlace(dst *value, src value) {
	switch s := src.(type) {
	case structure:
		if d, ok := (*dst).(structure); ok && len(d) == len(s) {
			for i := range s {
				assignInPlace(&d[i], s[i])
			}
			return
		}
	case array:
		if d, ok := (*dst).(array); ok && len(d) == len(s) {
			for i := range s {
				assignInPlace(&d[i], s[i])
			}
			return
		}
	}
	*dst = src
}

func init() {
	enc := aergoPrefix + "/internal/enc/"
	for _, codec := range []string{"gob", "proto"} {
		codec := codec
		reg(enc+codec+".Encode", func(in *Interp, c *frame, fn *ssa.Function, a []value) value {
			return in.blobEncode(codec, a[0])
		})
		reg(enc+codec+".Decode", func(in *Interp, c *frame, fn *ssa.Function, a []value) value {
			return in.blobDecode(codec, a[0], a[1])
		})
	}
	// encoding/json.Marshal: opaque blob as well (consumers in scope: log lines, raft snapshot data and ConfChange
	// contexts that are passed through). json.Unmarshal is provided only for such a blob and only into the SAME Go type
	// (anything else is unsupported => inconclusive): for plain data types (integers, strings, []byte, nested structs,
	// pointers, slices) JSON round-trips the exported fields; absent (omitempty) fields keep the destination's value,
	// which is treated like gob's zero-field rule above.
	reg("encoding/json.Marshal", func(in *Interp, c *frame, fn *ssa.Function, a []value) value {
		return in.blobEncode("json", a[0])
	})
	reg("encoding/json.Unmarshal", func(in *Interp, c *frame, fn *ssa.Function, a []value) value {
		return in.blobDecode("json", a[0], a[1])
	})
	reg(enc+"proto.Size", func(in *Interp, c *frame, fn *ssa.Function, a []value) value {
		t := in.nondetInt("$proto.Size", basicOf(types.Typ[types.Int]))
		in.addLemma(in.cmpGE0(t))
		return t
	})
}
