package sym

import (
	"go/token"
	"go/types"
	"math/big"
	"reflect"
	"strconv"
	"strings"

	"gosym/smt"

	"golang.org/x/tools/go/ssa"
)

// proto.Size (aergo's internal/enc/proto wrapper of golang/protobuf): exact proto3 wire size of a generated message,
// computed from the `protobuf:"…"` struct tags: bytes/string fields, nested and repeated messages, repeated bytes,
// varint scalars (uint64/uint32/int64/int32/enum/bool), fixed32/64. Slice lengths are concrete in the engine; varint
// VALUES may be symbolic (the length of the varint becomes an ite chain). Anything else (oneof, maps, packed
// repeated scalars, zigzag, unknown fields, symbolic-length big-int images) is unsupported => inconclusive.
// The native side runs the real library; the differential validation compares both.

func (in *Interp) protoVarintLenConst(v uint64) int64 {
	n := int64(1)
	for v >= 0x80 {
		v >>= 7
		n++
	}
	return n
}

// protoVarintLen: number of bytes of the varint encoding of the unsigned 64-bit value v (term of basic type b).
func (in *Interp) protoVarintLen(v *smt.Term, b *types.Basic) *smt.Term {
	intB := basicOf(types.Typ[types.Int])
	u64 := basicOf(types.Typ[types.Uint64])
	if b != u64 {
		if b.Info()&types.IsUnsigned == 0 {
			// sign-extend to 64 bits, then reinterpret: negative values take 10 bytes
			v = in.conv(types.Typ[types.Int64], b, v).(*smt.Term)
			v = in.conv(types.Typ[types.Uint64], types.Typ[types.Int64], v).(*smt.Term)
		} else {
			v = in.conv(types.Typ[types.Uint64], b, v).(*smt.Term)
		}
	}
	res := in.intConst(intB, big.NewInt(10))
	for k := 9; k >= 1; k-- {
		lim := new(big.Int).Lsh(big.NewInt(1), uint(7*k))
		c := in.intBinop(token.LSS, u64, u64, v, in.intConst(u64, lim)).(*smt.Term)
		res = in.ctx.Ite(c, in.intConst(intB, big.NewInt(int64(k))), res)
	}
	return res
}

func (in *Interp) protoAdd(x, y *smt.Term) *smt.Term {
	intB := basicOf(types.Typ[types.Int])
	return in.intBinop(token.ADD, intB, intB, x, y).(*smt.Term)
}

func (in *Interp) protoConst(n int64) *smt.Term {
	return in.intConst(basicOf(types.Typ[types.Int]), big.NewInt(n))
}

// protoLenDelimited: tag + varint(len) + len for a concrete payload length n.
func (in *Interp) protoLenDelimited(tagLen int64, n int64) int64 {
	return tagLen + in.protoVarintLenConst(uint64(n)) + n
}

func (in *Interp) protoMsgSize(t types.Type, v value) *smt.Term {
	pt, ok := t.Underlying().(*types.Pointer)
	if !ok {
		in.unsupported("proto.Size of non-pointer message " + t.String())
	}
	p, _ := v.(*value)
	if p == nil {
		return in.protoConst(0)
	}
	stT, ok := pt.Elem().Underlying().(*types.Struct)
	if !ok {
		in.unsupported("proto.Size of non-struct message " + t.String())
	}
	st, ok := (*p).(structure)
	if !ok {
		in.unsupported("proto.Size: unexpected message representation")
	}
	total := in.protoConst(0)
	for i := 0; i < stT.NumFields(); i++ {
		f := stT.Field(i)
		tag := reflect.StructTag(stT.Tag(i)).Get("protobuf")
		if tag == "" {
			if stT.Tag(i) != "" && strings.Contains(stT.Tag(i), "protobuf_oneof") {
				in.unsupported("proto.Size: oneof field " + f.Name())
			}
			if f.Name() == "unknownFields" || f.Name() == "XXX_unrecognized" {
				if s, ok := st[i].(sliceV); ok && len(s) > 0 {
					in.unsupported("proto.Size: unknown fields present")
				}
			}
			continue
		}
		parts := strings.Split(tag, ",")
		if len(parts) < 3 {
			in.unsupported("proto.Size: tag " + tag)
		}
		num, err := strconv.Atoi(parts[1])
		if err != nil {
			in.unsupported("proto.Size: tag " + tag)
		}
		wire, rep := parts[0], parts[2] == "rep"
		for _, o := range parts[3:] {
			if o == "packed" || strings.HasPrefix(o, "protobuf_key") {
				in.unsupported("proto.Size: " + o + " field " + f.Name())
			}
		}
		if parts[2] == "req" || (parts[2] == "opt" && !strings.Contains(tag, "proto3")) {
			in.unsupported("proto.Size: proto2 field " + f.Name())
		}
		tagLen := in.protoVarintLenConst(uint64(num) << 3)
		ft := f.Type()
		switch wire {
		case "bytes":
			switch u := ft.Underlying().(type) {
			case *types.Slice:
				if eb, ok := u.Elem().Underlying().(*types.Basic); ok && eb.Kind() == types.Uint8 && !rep {
					switch bv := st[i].(type) {
					case sliceV:
						if len(bv) > 0 {
							total = in.protoAdd(total, in.protoConst(in.protoLenDelimited(tagLen, int64(len(bv)))))
						}
					case *bigBytes:
						in.unsupported("proto.Size: bytes field " + f.Name() + " holds a big-int image of symbolic length")
					default:
						in.unsupported("proto.Size: bytes field " + f.Name())
					}
					continue
				}
				if !rep {
					in.unsupported("proto.Size: field " + f.Name())
				}
				elems, _ := st[i].(sliceV)
				for _, e := range elems {
					switch eu := u.Elem().Underlying().(type) {
					case *types.Pointer:
						s := in.protoMsgSize(u.Elem(), e)
						if !s.IsConst() {
							in.unsupported("proto.Size: nested message of symbolic size in " + f.Name())
						}
						total = in.protoAdd(total, in.protoConst(in.protoLenDelimited(tagLen, s.V.Int64())))
					case *types.Slice:
						b, ok := e.(sliceV)
						if !ok && e != nil {
							in.unsupported("proto.Size: repeated bytes " + f.Name())
						}
						total = in.protoAdd(total, in.protoConst(in.protoLenDelimited(tagLen, int64(len(b)))))
					case *types.Basic:
						if n, ok := strLen(e); ok && eu.Kind() == types.String {
							total = in.protoAdd(total, in.protoConst(in.protoLenDelimited(tagLen, int64(n))))
						} else {
							in.unsupported("proto.Size: repeated field " + f.Name())
						}
					default:
						in.unsupported("proto.Size: repeated field " + f.Name())
					}
				}
			case *types.Basic: // string
				n, ok := strLen(st[i])
				if !ok {
					in.unsupported("proto.Size: string field " + f.Name())
				}
				if n > 0 {
					total = in.protoAdd(total, in.protoConst(in.protoLenDelimited(tagLen, int64(n))))
				}
			case *types.Pointer: // nested message
				if sp, _ := st[i].(*value); sp != nil {
					s := in.protoMsgSize(ft, st[i])
					// tag + varint(len(s)) + s with s possibly symbolic
					ln := in.protoVarintLen(in.conv(types.Typ[types.Uint64], types.Typ[types.Int], s).(*smt.Term), basicOf(types.Typ[types.Uint64]))
					total = in.protoAdd(total, in.protoAdd(in.protoConst(tagLen), in.protoAdd(ln, s)))
				}
			default:
				in.unsupported("proto.Size: field " + f.Name())
			}
		case "varint":
			if rep {
				in.unsupported("proto.Size: repeated scalar " + f.Name())
			}
			b, ok := ft.Underlying().(*types.Basic)
			if !ok {
				in.unsupported("proto.Size: varint field " + f.Name())
			}
			if b.Info()&types.IsBoolean != 0 {
				c := st[i].(*smt.Term)
				total = in.protoAdd(total, in.ctx.Ite(c, in.protoConst(tagLen+1), in.protoConst(0)))
				continue
			}
			x := st[i].(*smt.Term)
			isZero := in.eq(x, in.intConst(b, big.NewInt(0)))
			sz := in.protoAdd(in.protoConst(tagLen), in.protoVarintLen(x, b))
			total = in.protoAdd(total, in.ctx.Ite(isZero, in.protoConst(0), sz))
		case "fixed64", "fixed32":
			if rep {
				in.unsupported("proto.Size: repeated scalar " + f.Name())
			}
			b, ok := ft.Underlying().(*types.Basic)
			x, ok2 := st[i].(*smt.Term)
			if !ok || !ok2 || b.Info()&types.IsInteger == 0 {
				in.unsupported("proto.Size: fixed field " + f.Name())
			}
			w := int64(8)
			if wire == "fixed32" {
				w = 4
			}
			total = in.protoAdd(total, in.ctx.Ite(in.eq(x, in.intConst(b, big.NewInt(0))), in.protoConst(0), in.protoConst(tagLen+w)))
		default:
			in.unsupported("proto.Size: wire type " + wire + " of field " + f.Name())
		}
	}
	return total
}

func init() {
	reg(aergoPrefix+"/internal/enc/proto.Size", func(in *Interp, c *frame, fn *ssa.Function, a []value) value {
		m, ok := a[0].(iface)
		if !ok || m.t == nil {
			return in.protoConst(0)
		}
		return in.protoMsgSize(m.t, m.v)
	})
}
