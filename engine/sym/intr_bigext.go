package sym

import (
	"go/types"
	"math/big"

	"gosym/smt"

	"golang.org/x/tools/go/ssa"
)

// more math/big summaries (exact): shifts by a constant amount.
func init() {
	bi := "(*math/big.Int)."
	shift := func(left bool) intrinsic {
		return func(in *Interp, c *frame, fn *ssa.Function, a []value) value {
			z := a[0].(*value)
			xp := a[1].(*value)
			if z == nil || xp == nil {
				panic(goPanic{msg: "nil *big.Int dereference"})
			}
			x := (*xp).(bigV).t
			nt := a[2].(*smt.Term)
			if !nt.IsConst() {
				in.unsupported("big.Int shift by a symbolic amount")
			}
			n := in.termInt(nt, types.Typ[types.Uint]).Uint64()
			if n > 1<<20 {
				in.unsupported("big.Int shift by a huge amount")
			}
			p := in.ctx.Int(new(big.Int).Lsh(big.NewInt(1), uint(n)))
			if left {
				*z = bigV{in.ctx.IMul(x, p)}
			} else {
				*z = bigV{in.ctx.IDiv(x, p)} // Rsh rounds toward -inf == floor division by 2^n
			}
			return z
		}
	}
	// internal/abi.NoEscape(p) hides p from escape analysis (p ^ 0): identity
	reg("internal/abi.NoEscape", func(in *Interp, c *frame, fn *ssa.Function, a []value) value { return a[0] })
	reg(bi+"Lsh", shift(true))
	reg(bi+"Rsh", shift(false))
}
