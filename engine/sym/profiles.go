package sym

import (
	"path/filepath"
	"runtime"
)

// Summary profiles. Several harness families were developed against different summaries of the same library
// functions (protobuf/gob/json codecs, proto.Size): the summaries registered from the files listed here are only
// visible to jobs that name the profile ("profile" in the props file); all other registrations are global.
// Lookup order: the job's profile, then the global table.
var fileProfile = map[string]string{
	"intr_msgcodec.go":     "chain",
	"intr_json_intrec.go":  "chain",
	"intr_blob.go":         "consensus",
	"intr_protosize.go":    "poolsync",
	"intr_proto_adm.go":    "admission",
	"intr_json.go":         "admission",
	"intr_json_enc.go":     "admission",
	"intr_ledger_proto.go": "ledger",
	"intr_ledger_json.go":  "ledger",
	"intr_opaque.go":       "ledger",
}

var profiled = map[string]map[string]intrinsic{}

func reg(name string, f intrinsic) {
	_, file, _, ok := runtime.Caller(1)
	if ok {
		if p, ok := fileProfile[filepath.Base(file)]; ok {
			if profiled[p] == nil {
				profiled[p] = map[string]intrinsic{}
			}
			if f == nil {
				delete(profiled[p], name)
				return
			}
			profiled[p][name] = f
			return
		}
	}
	intrinsics[name] = f
}

func (in *Interp) lookupIntrinsic(name string) (intrinsic, bool) {
	if in.cfg.Profile != "" {
		if f, ok := profiled[in.cfg.Profile][name]; ok && f != nil {
			return f, true
		}
	}
	f, ok := intrinsics[name]
	return f, ok && f != nil
}
