package sym

// github.com/bluele/gcache (the code / ABI caches of state.BlockState) is pure Go (container/list, a map, sync, time):
// it is interpreted like the aergo packages, including its package initialiser (KeyNotFoundError is a package
// variable; without initialisation a cache miss would look like a hit of a nil value).
func init() {
	interpretedPkgs["github.com/bluele/gcache"] = true
}
