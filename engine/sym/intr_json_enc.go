package sym

import (
	"bytes"
	"encoding/json"
	"fmt"
	"go/types"
	"reflect"
	"sort"
	"strings"

	"gosym/smt"

	"golang.org/x/tools/go/ssa"
)

// json.Marshal: exact serialisation of the value kinds aergo passes (strings, numbers, booleans, nil, slices, string-keyed
// maps, plain structs, pointers, interface{} holding those). Concrete leaves are printed by the real encoder; a string
// with symbolic bytes is emitted verbatim between quotes, which is exact iff every byte is one that encoding/json
// neither escapes nor repairs (0x20..0x7f except '"', '\\', '<', '>', '&') — that condition must hold on the path
// (decided by the solver), otherwise the call is unsupported.
func init() {
	reg("encoding/json.Marshal", func(in *Interp, c *frame, fn *ssa.Function, a []value) value {
		v := a[0].(iface)
		var out []*smt.Term
		if v.t == nil {
			out = in.litTerms("null")
		} else {
			out = in.jsonEncode(v.v, v.t, 0)
		}
		in.res.StubsHit["encoding/json.Marshal(exact serialiser)"]++
		res := termsValue(out)
		if _, conc := allConst(out); !conc && v.t != nil && len(res) > 0 {
			// decoding this very document later yields the value it was made from
			in.sideTab[&res[0]] = &jsonBound{terms: out, val: in.jsonDeepCopy(v.v), t: v.t}
		}
		return tuple{res, iface{}}
	})
	// reflect.TypeOf is used by aergo only to print a type in error messages
	reg("reflect.TypeOf", func(in *Interp, c *frame, fn *ssa.Function, a []value) value {
		in.objSeq++
		return iface{t: reflectTypeNamed, v: &opaqueObj{kind: "reflect.Type", id: in.objSeq, data: a[0].(iface).t}}
	})
}

var reflectTypeNamed = types.NewNamed(types.NewTypeName(0, nil, "gosymReflectType", nil), types.NewStruct(nil, nil), nil)

func (in *Interp) litTerms(s string) []*smt.Term {
	out := make([]*smt.Term, len(s))
	for i := 0; i < len(s); i++ {
		out[i] = in.ctx.BVu(uint64(s[i]), 8)
	}
	return out
}

// marshalerOf returns the MarshalJSON method callable on a value of type t (nil if none).
func (in *Interp) marshalerOf(t types.Type) *ssa.Function {
	if _, isIface := t.Underlying().(*types.Interface); isIface {
		return nil
	}
	ms := in.prog.MethodSets.MethodSet(t)
	for i := 0; i < ms.Len(); i++ {
		if ms.At(i).Obj().Name() == "MarshalJSON" {
			return in.prog.MethodValue(ms.At(i))
		}
	}
	return nil
}

func (in *Interp) hasMarshaler(t types.Type) bool {
	for _, x := range []types.Type{t, types.NewPointer(t)} {
		ms := in.prog.MethodSets.MethodSet(x)
		for i := 0; i < ms.Len(); i++ {
			switch ms.At(i).Obj().Name() {
			case "MarshalJSON", "MarshalText":
				return true
			}
		}
	}
	return false
}

func (in *Interp) jsonEncode(v value, t types.Type, depth int) []*smt.Term {
	c := in.ctx
	if depth > 16 {
		in.unsupported("json.Marshal: nesting too deep")
	}
	if p, isPtr := v.(*value); isPtr && p == nil {
		if _, ok := t.Underlying().(*types.Pointer); ok {
			return in.litTerms("null")
		}
	}
	if m := in.marshalerOf(t); m != nil {
		// a type with its own MarshalJSON: the real method is executed; encoding/json then validates and compacts its
		// output, which is the identity on the compact documents aergo's marshalers produce (checked when concrete)
		r := in.call(nil, m, []value{v}, 0)
		tup, ok := r.(tuple)
		if !ok || len(tup) != 2 {
			in.unsupported("json.Marshal: unexpected MarshalJSON result")
		}
		if e, _ := tup[1].(iface); e.t != nil {
			in.unsupported("json.Marshal: MarshalJSON of " + t.String() + " returned an error")
		}
		bs := in.byteTerms(tup[0])
		if cb, ok := allConst(bs); ok {
			var buf bytes.Buffer
			if err := json.Compact(&buf, cb); err != nil {
				in.unsupported("json.Marshal: MarshalJSON of " + t.String() + " produced invalid JSON")
			}
			return in.litTerms(buf.String())
		}
		return bs
	}
	if in.hasMarshaler(t) {
		in.unsupported("json.Marshal of " + t.String() + " (custom marshaler not callable on this value)")
	}
	real := func(x interface{}) []*smt.Term {
		b, err := json.Marshal(x)
		if err != nil {
			in.unsupported("json.Marshal: " + err.Error())
		}
		return in.litTerms(string(b))
	}
	switch u := t.Underlying().(type) {
	case *types.Interface:
		i := v.(iface)
		if i.t == nil {
			return in.litTerms("null")
		}
		return in.jsonEncode(i.v, i.t, depth+1)
	case *types.Basic:
		switch x := v.(type) {
		case string:
			return real(x)
		case *symStr:
			var safe []*smt.Term
			k := func(b byte) *smt.Term { return c.BVu(uint64(b), 8) }
			for _, b := range x.b {
				if b.IsConst() {
					ch := byte(b.V.Uint64())
					if ch < 0x20 || ch >= 0x80 || strings.IndexByte("\"\\<>&", ch) >= 0 {
						in.unsupported("json.Marshal of a partly symbolic string with an escaped constant byte")
					}
					continue
				}
				safe = append(safe, c.BVUle(k(0x20), b), c.BVUlt(b, k(0x80)), c.Not(c.Eq(b, k('"'))), c.Not(c.Eq(b, k('\\'))),
					c.Not(c.Eq(b, k('<'))), c.Not(c.Eq(b, k('>'))), c.Not(c.Eq(b, k('&'))))
			}
			if !in.branch(c.And(safe...), "json-marshal-verbatim") {
				in.unsupported("json.Marshal of a symbolic string that may need escaping")
			}
			out := in.litTerms(`"`)
			out = append(out, x.b...)
			return append(out, in.litTerms(`"`)...)
		case float64:
			return real(x)
		case *smt.Term:
			if u.Info()&types.IsBoolean != 0 {
				if in.branch(x, "json-marshal-bool") {
					return in.litTerms("true")
				}
				return in.litTerms("false")
			}
			if x.IsConst() {
				return in.litTerms(in.termInt(x, t).String())
			}
			in.unsupported("json.Marshal of a symbolic integer")
		}
	case *types.Pointer:
		p := v.(*value)
		if p == nil {
			return in.litTerms("null")
		}
		return in.jsonEncode(*p, u.Elem(), depth+1)
	case *types.Slice:
		if eb, ok := u.Elem().Underlying().(*types.Basic); ok && eb.Kind() == types.Uint8 {
			s := in.materialize(v)
			if s == nil {
				return in.litTerms("null")
			}
			bs, ok := allConst(in.byteTerms(s))
			if !ok {
				in.unsupported("json.Marshal of symbolic []byte (base64)")
			}
			return real(bs)
		}
		s := in.materialize(v)
		if s == nil {
			return in.litTerms("null")
		}
		out := in.litTerms("[")
		for i, e := range s {
			if i > 0 {
				out = append(out, in.litTerms(",")...)
			}
			out = append(out, in.jsonEncode(e, u.Elem(), depth+1)...)
		}
		return append(out, in.litTerms("]")...)
	case *types.Array:
		out := in.litTerms("[")
		for i, e := range v.(array) {
			if i > 0 {
				out = append(out, in.litTerms(",")...)
			}
			out = append(out, in.jsonEncode(e, u.Elem(), depth+1)...)
		}
		return append(out, in.litTerms("]")...)
	case *types.Map:
		m := v.(*mapV)
		if m == nil {
			return in.litTerms("null")
		}
		if kb, ok := u.Key().Underlying().(*types.Basic); !ok || kb.Kind() != types.String {
			in.unsupported("json.Marshal of a map with non-string keys")
		}
		type kv struct {
			k string
			v value
		}
		var kvs []kv
		for _, e := range m.entries {
			ks, ok := e.k.(string)
			if !ok {
				in.unsupported("json.Marshal of a map with symbolic keys")
			}
			kvs = append(kvs, kv{ks, e.v})
		}
		sort.Slice(kvs, func(i, j int) bool { return kvs[i].k < kvs[j].k })
		out := in.litTerms("{")
		for i, e := range kvs {
			if i > 0 {
				out = append(out, in.litTerms(",")...)
			}
			out = append(out, real(e.k)...)
			out = append(out, in.litTerms(":")...)
			out = append(out, in.jsonEncode(e.v, u.Elem(), depth+1)...)
		}
		return append(out, in.litTerms("}")...)
	case *types.Struct:
		s := v.(structure)
		out := in.litTerms("{")
		first := true
		for i := 0; i < u.NumFields(); i++ {
			f := u.Field(i)
			if f.Embedded() {
				in.unsupported("json.Marshal of a struct with embedded fields")
			}
			if !f.Exported() {
				continue
			}
			name := f.Name()
			omitempty := false
			if tag, ok := reflect.StructTag(u.Tag(i)).Lookup("json"); ok {
				parts := strings.Split(tag, ",")
				if parts[0] == "-" && len(parts) == 1 {
					continue
				}
				if parts[0] != "" {
					name = parts[0]
				}
				for _, o := range parts[1:] {
					switch o {
					case "omitempty":
						omitempty = true
					default:
						in.unsupported("json.Marshal: struct tag option " + o)
					}
				}
			}
			if omitempty && in.jsonIsEmpty(s[i]) {
				continue
			}
			if !first {
				out = append(out, in.litTerms(",")...)
			}
			first = false
			out = append(out, real(name)...)
			out = append(out, in.litTerms(":")...)
			out = append(out, in.jsonEncode(s[i], f.Type(), depth+1)...)
		}
		return append(out, in.litTerms("}")...)
	}
	in.unsupported(fmt.Sprintf("json.Marshal of %s (%T)", t, v))
	return nil
}

// jsonIsEmpty: the "omitempty" notion of emptiness; symbolic scalars are unsupported.
func (in *Interp) jsonIsEmpty(v value) bool {
	switch x := v.(type) {
	case nil:
		return true
	case string:
		return x == ""
	case *symStr:
		return len(x.b) == 0
	case float64:
		return x == 0
	case *smt.Term:
		if !x.IsConst() {
			in.unsupported("json.Marshal: omitempty on a symbolic scalar")
		}
		return x.V.Sign() == 0
	case sliceV:
		return len(x) == 0
	case *mapV:
		return x == nil || len(x.entries) == 0
	case *value:
		return x == nil
	case iface:
		return x.t == nil
	}
	return false
}
