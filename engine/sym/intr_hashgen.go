package sym

import "gosym/smt"

// Genericity of digests (assumption beyond collision freedom, listed in the evidence whenever a hash is modelled):
// for any two SHA-256 digests d1, d2 computed on a path (d1 == d2 included) the last 31 bytes of d1 differ from the
// first 31 bytes of d2. A 248-bit coincidence between digests; without it the uninterpreted-function model admits
// "collisions" between inputs that embed digests at offsets shifted by one byte, e.g. aergo's trie hashes
// H(0x00 || right) and H(left || 0x00) (33-byte inputs, DefaultLeaf = one zero byte), which are equal as strings
// iff left = 0x00 || right[0:31] and right[31] == 0.
func (in *Interp) noOverlapLemmas(a, b *hashApp) []*smt.Term {
	if a.output.IsConst() && b.output.IsConst() {
		return nil
	}
	c := in.ctx
	in.res.Assumptions = appendUniq(in.res.Assumptions, "digest genericity: no SHA-256 digest computed on a path has its last 31 bytes equal to the first 31 bytes of a digest computed on that path")
	ls := []*smt.Term{c.Not(c.Eq(c.Extract(a.output, 247, 0), c.Extract(b.output, 255, 8)))}
	if a != b {
		ls = append(ls, c.Not(c.Eq(c.Extract(b.output, 247, 0), c.Extract(a.output, 255, 8))))
	}
	return ls
}
