package sym

import (
	"fmt"
	"go/token"
	"go/types"
	"math/big"
	"strings"

	"gosym/smt"

	"golang.org/x/tools/go/ssa"
)

// exact summaries of encoding/binary.Write / Read for fixed-size integers, bools and slices of them
// (the reflect-driven general path of the library is not interpreted).

func (in *Interp) isBigEndian(order value) bool {
	o := order.(iface)
	if o.t == nil {
		panic(goPanic{msg: "nil ByteOrder"})
	}
	return strings.Contains(o.t.String(), "bigEndian")
}

// encodeFixed appends the byte terms of v (static type t) to out; ok=false if the type is not fixed-size data.
func (in *Interp) encodeFixed(out []*smt.Term, v value, t types.Type, be bool) ([]*smt.Term, bool) {
	c := in.ctx
	switch ut := t.Underlying().(type) {
	case *types.Basic:
		switch {
		case ut.Info()&types.IsBoolean != 0:
			return append(out, c.Ite(v.(*smt.Term), c.BVu(1, 8), c.BVu(0, 8))), true
		case ut.Info()&types.IsInteger != 0:
			if ut.Kind() == types.Int || ut.Kind() == types.Uint || ut.Kind() == types.Uintptr {
				return out, false
			}
			w := intWidth(ut)
			tm := v.(*smt.Term)
			if tm.S.K == smt.KInt {
				tm = c.Int2BV(tm, w)
			}
			n := w / 8
			for i := 0; i < n; i++ {
				k := i
				if be {
					k = n - 1 - i
				}
				out = append(out, c.Extract(tm, 8*k+7, 8*k))
			}
			return out, true
		}
	case *types.Slice:
		var s sliceV
		if bb, ok := v.(*bigBytes); ok {
			s = in.materialize(bb)
		} else {
			s, _ = v.(sliceV)
		}
		okAll := true
		for _, e := range s {
			out, okAll = in.encodeFixed(out, e, ut.Elem(), be)
			if !okAll {
				return out, false
			}
		}
		if len(s) == 0 {
			// element type must still be fixed-size
			if _, ok := in.fixedSize(ut.Elem()); !ok {
				return out, false
			}
		}
		return out, true
	case *types.Array:
		a := v.(array)
		ok := true
		for _, e := range a {
			out, ok = in.encodeFixed(out, e, ut.Elem(), be)
			if !ok {
				return out, false
			}
		}
		return out, true
	case *types.Pointer:
		p := v.(*value)
		if p == nil {
			return out, false
		}
		return in.encodeFixed(out, *p, ut.Elem(), be)
	case *types.Struct:
		s := v.(structure)
		ok := true
		for i := range s {
			out, ok = in.encodeFixed(out, s[i], ut.Field(i).Type(), be)
			if !ok {
				return out, false
			}
		}
		return out, true
	}
	return out, false
}

func (in *Interp) fixedSize(t types.Type) (int, bool) {
	switch ut := t.Underlying().(type) {
	case *types.Basic:
		if ut.Info()&types.IsBoolean != 0 {
			return 1, true
		}
		if ut.Info()&types.IsInteger != 0 && ut.Kind() != types.Int && ut.Kind() != types.Uint && ut.Kind() != types.Uintptr {
			return intWidth(ut) / 8, true
		}
	case *types.Array:
		n, ok := in.fixedSize(ut.Elem())
		return n * int(ut.Len()), ok
	case *types.Struct:
		tot := 0
		for i := 0; i < ut.NumFields(); i++ {
			n, ok := in.fixedSize(ut.Field(i).Type())
			if !ok {
				return 0, false
			}
			tot += n
		}
		return tot, true
	}
	return 0, false
}

// decodeFixed reads a value of type t from bs.
func (in *Interp) decodeFixed(bs []*smt.Term, t types.Type, be bool) (value, []*smt.Term) {
	c := in.ctx
	switch ut := t.Underlying().(type) {
	case *types.Basic:
		if ut.Info()&types.IsBoolean != 0 {
			return c.Not(c.Eq(bs[0], c.BVu(0, 8))), bs[1:]
		}
		n := intWidth(ut) / 8
		var tm *smt.Term
		for i := 0; i < n; i++ {
			var b *smt.Term
			if be {
				b = bs[i]
			} else {
				b = bs[n-1-i]
			}
			if tm == nil {
				tm = b
			} else {
				tm = c.Concat(tm, b)
			}
		}
		if in.useInt(ut) {
			return in.toInt(tm, ut), bs[n:]
		}
		return tm, bs[n:]
	case *types.Array:
		a := make(array, ut.Len())
		for i := range a {
			a[i], bs = in.decodeFixed(bs, ut.Elem(), be)
		}
		return a, bs
	case *types.Struct:
		s := make(structure, ut.NumFields())
		for i := range s {
			s[i], bs = in.decodeFixed(bs, ut.Field(i).Type(), be)
		}
		return s, bs
	}
	panic("decodeFixed: " + t.String())
}

// callIfaceMethod invokes method name on an interface value.
func (in *Interp) callIfaceMethod(caller *frame, recv iface, name string, args ...value) value {
	if recv.t == nil {
		panic(goPanic{msg: "nil interface method call: " + name})
	}
	if hs, ok := recv.v.(*hashState); ok {
		return in.hashMethod(hs, name, args)
	}
	f := in.prog.LookupMethod(recv.t, nil, name)
	if f == nil {
		// unexported or package-qualified: search method set
		ms := in.prog.MethodSets.MethodSet(recv.t)
		for i := 0; i < ms.Len(); i++ {
			if ms.At(i).Obj().Name() == name {
				f = in.prog.MethodValue(ms.At(i))
				break
			}
		}
	}
	if f == nil {
		in.unsupported(fmt.Sprintf("method %s not found on %v", name, recv.t))
	}
	return in.call(caller, f, append([]value{recv.v}, args...), token.NoPos)
}

func init() {
	reg("encoding/binary.Write", func(in *Interp, c *frame, fn *ssa.Function, a []value) value {
		data := a[2].(iface)
		if data.t == nil {
			return in.newOpaqueErr("binary.Write: nil data")
		}
		bs, ok := in.encodeFixed(nil, data.v, data.t, in.isBigEndian(a[1]))
		if !ok {
			return in.newOpaqueErr("binary.Write: some values are not fixed-sized")
		}
		out := make(sliceV, len(bs))
		for i, b := range bs {
			out[i] = b
		}
		r := in.callIfaceMethod(c, a[0].(iface), "Write", out)
		return r.(tuple)[1]
	})
	reg("encoding/binary.Read", func(in *Interp, c *frame, fn *ssa.Function, a []value) value {
		data := a[2].(iface)
		if data.t == nil {
			return in.newOpaqueErr("binary.Read: nil data")
		}
		be := in.isBigEndian(a[1])
		readFull := in.lookupFunc("io.ReadFull")
		if readFull == nil {
			in.unsupported("io.ReadFull not in program")
		}
		read := func(n int) (sliceV, value) {
			buf := make(sliceV, n)
			for i := range buf {
				buf[i] = in.ctx.BVu(0, 8)
			}
			r := in.call(c, readFull, []value{a[0], buf}, token.NoPos).(tuple)
			return buf, r[1]
		}
		terms := func(s sliceV) []*smt.Term {
			o := make([]*smt.Term, len(s))
			for i, e := range s {
				o[i] = e.(*smt.Term)
			}
			return o
		}
		switch ut := data.t.Underlying().(type) {
		case *types.Pointer:
			n, ok := in.fixedSize(ut.Elem())
			if !ok {
				return in.newOpaqueErr("binary.Read: invalid type")
			}
			buf, err := read(n)
			if !isNilValue(err) {
				return err
			}
			p := data.v.(*value)
			if p == nil {
				panic(goPanic{msg: "binary.Read into nil pointer"})
			}
			v, _ := in.decodeFixed(terms(buf), ut.Elem(), be)
			in.assignInto(p, v)
			return iface{}
		case *types.Slice:
			es, ok := in.fixedSize(ut.Elem())
			if !ok {
				return in.newOpaqueErr("binary.Read: invalid type")
			}
			dst := in.materialize(data.v)
			buf, err := read(es * len(dst))
			if !isNilValue(err) {
				return err
			}
			bs := terms(buf)
			for i := range dst {
				dst[i], bs = in.decodeFixed(bs, ut.Elem(), be)
			}
			return iface{}
		}
		return in.newOpaqueErr("binary.Read: invalid type")
	})
	reg("encoding/binary.Size", func(in *Interp, c *frame, fn *ssa.Function, a []value) value {
		data := a[0].(iface)
		intB := basicOf(types.Typ[types.Int])
		if data.t == nil {
			return in.intConst(intB, big.NewInt(-1))
		}
		bs, ok := in.encodeFixed(nil, data.v, data.t, false)
		if !ok {
			return in.intConst(intB, big.NewInt(-1))
		}
		return in.intConst(intB, big.NewInt(int64(len(bs))))
	})
}

// assignInto stores v into *p keeping the identity of an existing aggregate (so that field addresses stay valid).
func (in *Interp) assignInto(p *value, v value) {
	switch nv := v.(type) {
	case structure:
		if old, ok := (*p).(structure); ok && len(old) == len(nv) {
			for i := range nv {
				in.assignInto(&old[i], nv[i])
			}
			return
		}
	case array:
		if old, ok := (*p).(array); ok && len(old) == len(nv) {
			for i := range nv {
				in.assignInto(&old[i], nv[i])
			}
			return
		}
	}
	*p = copyVal(v)
}
