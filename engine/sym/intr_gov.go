package sym

import "golang.org/x/tools/go/ssa"

// Small library summaries needed by the governance harnesses (C02, C15, C20).

func init() {
	// internal/abi.NoEscape(p) hides p from escape analysis (strings.Builder.copyCheck); semantically the identity.
	reg("internal/abi.NoEscape", func(in *Interp, c *frame, fn *ssa.Function, a []value) value { return a[0] })
}
