package sym

import (
	"go/types"
	"reflect"
	"strings"

	"gosym/smt"

	"golang.org/x/tools/go/ssa"
)

// encoding/json for FLAT INTEGER RECORDS (profile "chain"): the chain DB keeps the hardfork heights as the JSON object
// that json.Marshal makes of config.HardforkConfig (a struct of uint64 fields without json tags) and reads it back
// with json.Unmarshal into config.HardforkDbConfig (map[string]uint64).
//
// Exact semantics for exactly this class, anything else is unsupported (inconclusive):
//
//	Marshal(x), x a (pointer to a) struct whose fields are all exported, untagged and of one integer kind, or a
//	  map[string]<integer kind> with concrete keys: the document {"name":value,...}. It is represented by an opaque
//	  12-byte blob (magic + serial number) that stands for the list of (name, value) pairs at the time of the call
//	  (the real text has a value-dependent length; harnesses must not depend on it).
//	Unmarshal(blob, &m), m a map[string]K: m (allocated if nil) receives every pair, existing other keys stay.
//	Unmarshal(blob, &s), s a struct as above: every field whose name matches a pair's name (exactly, else
//	  case-insensitively, as encoding/json does) receives the value; other fields stay, unknown names are ignored.
//
// K must be the integer kind of the encoded values (no range conversion is modelled).

type jsonIntRec struct {
	names []string
	vals  []*smt.Term
	kind  types.BasicKind
}

var jsonIntRecKey = new(value)

var jsonIntRecMagic = []byte{0xC0, 0xDE, 0x15, 0x0A, 'v', 'f', 0x00, 0x01}

func (in *Interp) jsonIntRecTable() map[int]*jsonIntRec {
	if t, ok := in.sideTab[jsonIntRecKey]; ok {
		return t.(map[int]*jsonIntRec)
	}
	t := map[int]*jsonIntRec{}
	in.sideTab[jsonIntRecKey] = t
	return t
}

func intKindOf(t types.Type) (types.BasicKind, bool) {
	b, ok := types.Unalias(t).Underlying().(*types.Basic)
	if !ok || b.Info()&types.IsInteger == 0 {
		return 0, false
	}
	return b.Kind(), true
}

// intRecordStruct reports whether st is a flat integer record and returns its integer kind.
func intRecordStruct(st *types.Struct) (types.BasicKind, bool) {
	if st.NumFields() == 0 {
		return 0, false
	}
	var kind types.BasicKind
	for i := 0; i < st.NumFields(); i++ {
		f := st.Field(i)
		if !f.Exported() || f.Embedded() {
			return 0, false
		}
		if _, tagged := reflect.StructTag(st.Tag(i)).Lookup("json"); tagged {
			return 0, false
		}
		k, ok := intKindOf(f.Type())
		if !ok || (i > 0 && k != kind) {
			return 0, false
		}
		kind = k
	}
	return kind, true
}

func init() {
	reg("encoding/json.Marshal", func(in *Interp, c *frame, fn *ssa.Function, a []value) value {
		i, ok := a[0].(iface)
		if !ok || i.t == nil {
			in.unsupported("json.Marshal(nil) (chain profile encodes flat integer records only)")
		}
		v, t, ok := flattenPtr(i.v, i.t)
		if !ok {
			in.unsupported("json.Marshal of a nil pointer")
		}
		rec := &jsonIntRec{}
		switch tt := types.Unalias(t).Underlying().(type) {
		case *types.Struct:
			kind, ok := intRecordStruct(tt)
			s, sok := v.(structure)
			if !ok || !sok {
				in.unsupported("json.Marshal: not a flat integer record: " + t.String())
			}
			rec.kind = kind
			for k := 0; k < tt.NumFields(); k++ {
				tm, ok := s[k].(*smt.Term)
				if !ok {
					in.unsupported("json.Marshal: integer field not represented as a term")
				}
				rec.names = append(rec.names, tt.Field(k).Name())
				rec.vals = append(rec.vals, tm)
			}
		case *types.Map:
			kb, kok := types.Unalias(tt.Key()).Underlying().(*types.Basic)
			kind, eok := intKindOf(tt.Elem())
			if !kok || kb.Kind() != types.String || !eok {
				in.unsupported("json.Marshal: not a map[string]integer: " + t.String())
			}
			rec.kind = kind
			if m, _ := v.(*mapV); m != nil {
				for _, e := range m.entries {
					ks, ok := e.k.(string)
					tm, tok := e.v.(*smt.Term)
					if !ok || !tok {
						in.unsupported("json.Marshal: map key is not a concrete string")
					}
					rec.names = append(rec.names, ks)
					rec.vals = append(rec.vals, tm)
				}
			}
		default:
			in.unsupported("json.Marshal: not a flat integer record: " + t.String())
		}
		tab := in.jsonIntRecTable()
		id := len(tab) + 1
		tab[id] = rec
		in.res.StubsHit["encoding/json.Marshal(flat integer record)"]++
		b := append(append([]byte{}, jsonIntRecMagic...), byte(id>>24), byte(id>>16), byte(id>>8), byte(id))
		return tuple{in.bytesValue(b), iface{}}
	})
	reg("encoding/json.Unmarshal", func(in *Interp, c *frame, fn *ssa.Function, a []value) value {
		var bs []*smt.Term
		switch a[0].(type) {
		case sliceV, nil:
			bs = in.byteTerms(a[0])
		default:
			in.unsupported("json.Unmarshal of non-blob bytes")
		}
		cb, ok := allConst(bs)
		if !ok || len(cb) != len(jsonIntRecMagic)+4 || string(cb[:len(jsonIntRecMagic)]) != string(jsonIntRecMagic) {
			in.unsupported("json.Unmarshal of a document that was not produced by json.Marshal of a flat integer record on this path")
		}
		rec := in.jsonIntRecTable()[int(cb[8])<<24|int(cb[9])<<16|int(cb[10])<<8|int(cb[11])]
		if rec == nil {
			in.unsupported("json.Unmarshal: unknown record blob")
		}
		di, ok := a[1].(iface)
		if !ok || di.t == nil {
			return in.newOpaqueErr("json: Unmarshal(nil)")
		}
		pt, ok := types.Unalias(di.t).Underlying().(*types.Pointer)
		p, _ := di.v.(*value)
		if !ok || p == nil {
			return in.newOpaqueErr("json: Unmarshal(non-pointer)")
		}
		in.res.StubsHit["encoding/json.Unmarshal(flat integer record)"]++
		switch tt := types.Unalias(pt.Elem()).Underlying().(type) {
		case *types.Map:
			kb, kok := types.Unalias(tt.Key()).Underlying().(*types.Basic)
			kind, eok := intKindOf(tt.Elem())
			if !kok || kb.Kind() != types.String || !eok || kind != rec.kind {
				in.unsupported("json.Unmarshal: destination is not a map[string]K of the encoded integer kind: " + pt.Elem().String())
			}
			m, _ := (*p).(*mapV)
			if m == nil {
				m = &mapV{kt: tt.Key()}
				*p = m
			}
			for _, e := range m.entries {
				if _, ok := e.k.(string); !ok {
					in.unsupported("json.Unmarshal: destination map has a non-concrete key")
				}
			}
			for k, name := range rec.names {
				in.mapSet(m, name, rec.vals[k])
			}
			return iface{}
		case *types.Struct:
			kind, ok := intRecordStruct(tt)
			s, sok := (*p).(structure)
			if !ok || !sok || kind != rec.kind {
				in.unsupported("json.Unmarshal: destination is not a flat integer record of the encoded kind: " + pt.Elem().String())
			}
			for k, name := range rec.names {
				idx := -1
				for f := 0; f < tt.NumFields(); f++ {
					if tt.Field(f).Name() == name {
						idx = f
						break
					}
				}
				if idx < 0 {
					for f := 0; f < tt.NumFields(); f++ {
						if strings.EqualFold(tt.Field(f).Name(), name) {
							idx = f
							break
						}
					}
				}
				if idx >= 0 {
					s[idx] = rec.vals[k]
				}
			}
			return iface{}
		}
		in.unsupported("json.Unmarshal: unsupported destination " + pt.Elem().String())
		return nil
	})
}
