package sym

import (
	"encoding/hex"
	"go/types"

	"gosym/smt"

	"github.com/anaskhan96/base58check"
	"github.com/mr-tron/base58/base58"
	"golang.org/x/tools/go/ssa"
)

// Text codecs (base58, base58check addresses, hex): exact on concrete data; on symbolic data the result is an
// opaque token that remembers its payload, so that decode(encode(x)) == x and encode is injective.

func (in *Interp) codecToken(kind string, payload []*smt.Term) *opaqueStr {
	o := in.newOpaqueStr(kind)
	o.kind = kind
	o.payload = payload
	return o
}

func allConst(bs []*smt.Term) ([]byte, bool) {
	out := make([]byte, len(bs))
	for i, b := range bs {
		if !b.IsConst() {
			return nil, false
		}
		out[i] = byte(b.V.Uint64())
	}
	return out, true
}

func (in *Interp) bytesValue(bs []byte) sliceV {
	out := make(sliceV, len(bs))
	for i, b := range bs {
		out[i] = in.ctx.BVu(uint64(b), 8)
	}
	return out
}

func termsValue(bs []*smt.Term) sliceV {
	out := make(sliceV, len(bs))
	for i, b := range bs {
		out[i] = b
	}
	return out
}

// decodeToken: result of decoding string s with codec kind. ok=false when s is not a token of that codec.
func (in *Interp) decodeToken(s value, kind string) ([]*smt.Term, bool) {
	if o, ok := s.(*opaqueStr); ok && o.kind == kind && o.payload != nil {
		return o.payload, true
	}
	return nil, false
}

func (in *Interp) decodeUnknown(what string, resT types.Type) value {
	// a foreign string: decoding fails or yields data the engine cannot represent (unknown length)
	if in.branch(in.freshBool(what+".fails"), what) {
		return tuple{in.zero(resT), in.newOpaqueErr(what)}
	}
	in.unsupported(what + " of a string that is not a token of this codec succeeding")
	return nil
}

func init() {
	enc := aergoPrefix + "/internal/enc/"
	reg(enc+"base58.Encode", func(in *Interp, c *frame, fn *ssa.Function, a []value) value {
		bs := in.byteTerms(a[0])
		if cb, ok := allConst(bs); ok {
			return base58.Encode(cb)
		}
		return in.codecToken("b58", bs)
	})
	b58dec := func(in *Interp, c *frame, fn *ssa.Function, a []value) value {
		if s, ok := a[0].(string); ok {
			b, err := base58.Decode(s)
			if err != nil {
				return tuple{sliceV(nil), in.newOpaqueErr("base58.Decode")}
			}
			return tuple{in.bytesValue(b), iface{}}
		}
		if p, ok := in.decodeToken(a[0], "b58"); ok {
			return tuple{termsValue(p), iface{}}
		}
		if ss, ok := a[0].(*symStr); ok && len(ss.b) <= b58SymMax {
			out, ok := in.b58DecodeSym(ss.b)
			if !ok {
				return tuple{sliceV(nil), in.newOpaqueErr("base58.Decode")}
			}
			return tuple{out, iface{}}
		}
		return in.decodeUnknown("base58.Decode", fn.Signature.Results().At(0).Type())
	}
	reg(enc+"base58.Decode", b58dec)
	reg(enc+"base58.DecodeOrNil", func(in *Interp, c *frame, fn *ssa.Function, a []value) value {
		if s, ok := a[0].(string); ok {
			b, err := base58.Decode(s)
			if err != nil {
				return sliceV(nil)
			}
			return in.bytesValue(b)
		}
		if p, ok := in.decodeToken(a[0], "b58"); ok {
			return termsValue(p)
		}
		if ss, ok := a[0].(*symStr); ok && len(ss.b) <= b58SymMax {
			out, ok := in.b58DecodeSym(ss.b)
			if !ok {
				return sliceV(nil)
			}
			return out
		}
		in.unsupported("base58.DecodeOrNil of a foreign symbolic string")
		return nil
	})
	reg(enc+"hex.Encode", func(in *Interp, c *frame, fn *ssa.Function, a []value) value {
		bs := in.byteTerms(a[0])
		if cb, ok := allConst(bs); ok {
			return hex.EncodeToString(cb)
		}
		return in.codecToken("hex", bs)
	})
	reg(enc+"hex.Decode", func(in *Interp, c *frame, fn *ssa.Function, a []value) value {
		if s, ok := a[0].(string); ok {
			b, err := hex.DecodeString(s)
			if err != nil {
				return tuple{sliceV(nil), in.newOpaqueErr("hex.Decode")}
			}
			return tuple{in.bytesValue(b), iface{}}
		}
		if p, ok := in.decodeToken(a[0], "hex"); ok {
			return tuple{termsValue(p), iface{}}
		}
		return in.decodeUnknown("hex.Decode", fn.Signature.Results().At(0).Type())
	})
	// base58check over (version hex string, data hex string)
	reg(enc+"base58check.Encode", func(in *Interp, c *frame, fn *ssa.Function, a []value) value {
		vs, vok := a[0].(string)
		if ds, ok := a[1].(string); ok && vok {
			r, err := base58check.Encode(vs, ds)
			if err != nil {
				return tuple{"", in.newOpaqueErr("base58check.Encode")}
			}
			return tuple{r, iface{}}
		}
		if p, ok := in.decodeToken(a[1], "hex"); ok && vok {
			vb, err := hex.DecodeString(vs)
			if err != nil {
				return tuple{"", in.newOpaqueErr("base58check.Encode")}
			}
			all := append(in.byteTerms(in.bytesValue(vb)), p...)
			return tuple{in.codecToken("b58check", all), iface{}}
		}
		in.unsupported("base58check.Encode of non-hex-token data")
		return nil
	})
	reg(enc+"base58check.Decode", func(in *Interp, c *frame, fn *ssa.Function, a []value) value {
		if s, ok := a[0].(string); ok {
			r, err := base58check.Decode(s)
			if err != nil {
				return tuple{"", in.newOpaqueErr("base58check.Decode")}
			}
			return tuple{r, iface{}}
		}
		if p, ok := in.decodeToken(a[0], "b58check"); ok {
			if cb, ok := allConst(p); ok {
				return tuple{hex.EncodeToString(cb), iface{}}
			}
			return tuple{in.codecToken("hex", p), iface{}}
		}
		return in.decodeUnknown("base58check.Decode", fn.Signature.Results().At(0).Type())
	})
}

// ---------------------------------------------------------------- base58 of short symbolic strings (exact)

const b58SymMax = 4

// b58 alphabet "123456789ABCDEFGHJKLMNPQRSTUVWXYZabcdefghijkmnopqrstuvwxyz" as (first char, last char, value of first)
var b58Ranges = [][3]int{{'1', '9', 0}, {'A', 'H', 9}, {'J', 'N', 17}, {'P', 'Z', 22}, {'a', 'k', 33}, {'m', 'z', 44}}

// b58DecodeSym decodes a string of symbolic bytes exactly as mr-tron/base58 does: ok=false when some byte is outside
// the alphabet (forks); otherwise one zero byte per leading '1' followed by the minimal big-endian image of the number.
func (in *Interp) b58DecodeSym(bs []*smt.Term) (sliceV, bool) {
	c := in.ctx
	n := len(bs)
	if n == 0 {
		return sliceV{}, true
	}
	k8 := func(v int) *smt.Term { return c.BVu(uint64(v), 8) }
	var valid []*smt.Term
	digits := make([]*smt.Term, n) // Int
	for i, b := range bs {
		var inAlpha []*smt.Term
		d := c.Inti(0)
		for j := len(b58Ranges) - 1; j >= 0; j-- {
			r := b58Ranges[j]
			inR := c.And(c.BVUle(k8(r[0]), b), c.BVUle(b, k8(r[1])))
			inAlpha = append(inAlpha, inR)
			d = c.Ite(inR, c.IAdd(c.BV2Nat(b), c.Inti(int64(r[2]-r[0]))), d)
		}
		valid = append(valid, c.Or(inAlpha...))
		digits[i] = d
	}
	if !in.branch(c.And(valid...), "base58-alphabet") {
		return nil, false
	}
	// leading '1's
	var alts []*smt.Term
	for z := 0; z <= n; z++ {
		var cs []*smt.Term
		for i := 0; i < z; i++ {
			cs = append(cs, c.Eq(bs[i], k8('1')))
		}
		if z < n {
			cs = append(cs, c.Not(c.Eq(bs[z], k8('1'))))
		}
		alts = append(alts, c.And(cs...))
	}
	z := in.fork(alts, "base58-leading-ones")
	num := c.Inti(0)
	for i := z; i < n; i++ {
		num = c.IAdd(c.IMul(num, c.Inti(58)), digits[i])
	}
	out := make(sliceV, 0, n)
	for i := 0; i < z; i++ {
		out = append(out, k8(0))
	}
	if z < n {
		in.addLemma(c.ILe(c.Inti(0), num))
		out = append(out, in.bigToBytes(num, -1)...)
	}
	return out, true
}
