package sym

import (
	"fmt"
	"go/constant"
	"go/token"
	"go/types"
	"math/big"
	"strconv"

	"gosym/smt"

	"golang.org/x/tools/go/ssa"
)

func constBool(c *ssa.Const) bool    { return constant.BoolVal(c.Value) }
func constString(c *ssa.Const) string {
	if c.Value.Kind() == constant.String {
		return constant.StringVal(c.Value)
	}
	// string(rune const)
	return string(rune(c.Int64()))
}

// ---------------------------------------------------------------- integer sorts

func basicOf(t types.Type) *types.Basic {
	b, _ := t.Underlying().(*types.Basic)
	return b
}

func intWidth(b *types.Basic) int {
	switch b.Kind() {
	case types.Int8, types.Uint8:
		return 8
	case types.Int16, types.Uint16:
		return 16
	case types.Int32, types.Uint32:
		return 32
	case types.Int64, types.Uint64, types.Int, types.Uint, types.Uintptr, types.UntypedInt, types.UntypedRune:
		return 64
	}
	panic("intWidth: " + b.String())
}

func isSigned(b *types.Basic) bool { return b.Info()&types.IsUnsigned == 0 }

// useInt reports whether values of basic type b are Int-sorted (int mode, width > 8).
func (in *Interp) useInt(b *types.Basic) bool {
	return in.cfg.Mode == ModeInt && intWidth(b) > 8
}

func (in *Interp) intSort(b *types.Basic) smt.Sort {
	if in.useInt(b) {
		return smt.IntSort
	}
	return smt.BVSort(intWidth(b))
}

// typeRange returns the value range of an integer type. The results are shared: callers must not modify them.
func typeRange(b *types.Basic) (lo, hi *big.Int) {
	w := intWidth(b)
	k := w
	if isSigned(b) {
		k = -w
	}
	if r, ok := typeRanges[k]; ok {
		return r[0], r[1]
	}
	return computeRange(w, isSigned(b))
}

var typeRanges = func() map[int][2]*big.Int {
	m := map[int][2]*big.Int{}
	for _, w := range []int{8, 16, 32, 64} {
		lo, hi := computeRange(w, false)
		m[w] = [2]*big.Int{lo, hi}
		lo, hi = computeRange(w, true)
		m[-w] = [2]*big.Int{lo, hi}
	}
	return m
}()

func computeRange(w int, signed bool) (lo, hi *big.Int) {
	if signed {
		hi = new(big.Int).Lsh(big.NewInt(1), uint(w-1))
		lo = new(big.Int).Neg(hi)
		hi.Sub(hi, big.NewInt(1))
		return
	}
	lo = big.NewInt(0)
	hi = new(big.Int).Lsh(big.NewInt(1), uint(w))
	hi.Sub(hi, big.NewInt(1))
	return
}

func (in *Interp) intConst(b *types.Basic, v *big.Int) *smt.Term {
	if in.useInt(b) {
		// normalise into type range
		lo, hi := typeRange(b)
		if v.Cmp(lo) < 0 || v.Cmp(hi) > 0 {
			w := intWidth(b)
			m := new(big.Int).Lsh(big.NewInt(1), uint(w))
			r := new(big.Int).Mod(v, m)
			if isSigned(b) && r.Cmp(hi) > 0 {
				r.Sub(r, m)
			}
			v = r
		}
		return in.ctx.Int(v)
	}
	return in.ctx.BV(v, intWidth(b))
}

// termInt gives the mathematical value of a constant term of Go type t.
func (in *Interp) termInt(t *smt.Term, gt types.Type) *big.Int {
	if t.S.K == smt.KInt {
		return t.V
	}
	b := basicOf(gt)
	if b != nil && isSigned(b) {
		return smt.Signed(t.V, t.S.W)
	}
	return t.V
}

// toInt converts an integer term of Go type gt to an Int-sorted term (mathematical value).
func (in *Interp) toInt(t *smt.Term, gt types.Type) *smt.Term {
	if t.S.K == smt.KInt {
		return t
	}
	b := basicOf(gt)
	c := in.ctx
	if b != nil && isSigned(b) {
		w := t.S.W
		if t.IsConst() {
			return c.Int(smt.Signed(t.V, w))
		}
		u := c.BV2Nat(t)
		return c.Ite(c.BVSlt(t, c.BVi(0, w)), c.ISub(u, c.Int(new(big.Int).Lsh(big.NewInt(1), uint(w)))), u)
	}
	return c.BV2Nat(t)
}

// fromInt converts a mathematical Int term to the representation of Go type b (wrapping).
func (in *Interp) fromInt(t *smt.Term, b *types.Basic) *smt.Term {
	if in.useInt(b) {
		return in.wrap(t, b)
	}
	return in.ctx.Int2BV(t, intWidth(b))
}

// ---------------------------------------------------------------- interval tracking for Int mode

func (in *Interp) bounds(t *smt.Term) (lo, hi *big.Int) {
	if t.IsConst() {
		return t.V, t.V
	}
	if b, ok := in.intBounds[t.ID]; ok {
		return b[0], b[1]
	}
	var l, h *big.Int
	switch t.Op {
	case "+":
		al, ah := in.bounds(t.A[0])
		bl, bh := in.bounds(t.A[1])
		if al != nil && bl != nil {
			l = new(big.Int).Add(al, bl)
		}
		if ah != nil && bh != nil {
			h = new(big.Int).Add(ah, bh)
		}
	case "-":
		al, ah := in.bounds(t.A[0])
		bl, bh := in.bounds(t.A[1])
		if al != nil && bh != nil {
			l = new(big.Int).Sub(al, bh)
		}
		if ah != nil && bl != nil {
			h = new(big.Int).Sub(ah, bl)
		}
	case "*":
		al, ah := in.bounds(t.A[0])
		bl, bh := in.bounds(t.A[1])
		if al != nil && ah != nil && bl != nil && bh != nil {
			ps := []*big.Int{new(big.Int).Mul(al, bl), new(big.Int).Mul(al, bh), new(big.Int).Mul(ah, bl), new(big.Int).Mul(ah, bh)}
			l, h = ps[0], ps[0]
			for _, p := range ps[1:] {
				if p.Cmp(l) < 0 {
					l = p
				}
				if p.Cmp(h) > 0 {
					h = p
				}
			}
		}
	case "div":
		al, ah := in.bounds(t.A[0])
		if t.A[1].IsConst() && t.A[1].V.Sign() > 0 && al != nil && ah != nil {
			m := new(big.Int)
			l, _ = new(big.Int).DivMod(al, t.A[1].V, m)
			m2 := new(big.Int)
			h, _ = new(big.Int).DivMod(ah, t.A[1].V, m2)
		}
	case "mod":
		if t.A[1].IsConst() && t.A[1].V.Sign() > 0 {
			l = big.NewInt(0)
			h = new(big.Int).Sub(t.A[1].V, big.NewInt(1))
		}
	case "ite":
		al, ah := in.bounds(t.A[1])
		bl, bh := in.bounds(t.A[2])
		if al != nil && bl != nil {
			l = al
			if bl.Cmp(l) < 0 {
				l = bl
			}
		}
		if ah != nil && bh != nil {
			h = ah
			if bh.Cmp(h) > 0 {
				h = bh
			}
		}
	case "bv2nat":
		l = big.NewInt(0)
		h = new(big.Int).Lsh(big.NewInt(1), uint(t.A[0].S.W))
		h.Sub(h, big.NewInt(1))
	}
	in.intBounds[t.ID] = [2]*big.Int{l, h}
	return l, h
}

// noteBound tightens variable bounds from simple assumed comparisons (Int mode only).
func (in *Interp) noteBound(c *smt.Term) {
	if in.cfg.Mode != ModeInt {
		return
	}
	switch c.Op {
	case "and":
		for _, a := range c.A {
			in.noteBound(a)
		}
	case "<=", "<":
		a, b := c.A[0], c.A[1]
		adj := int64(0)
		if c.Op == "<" {
			adj = 1
		}
		if a.Op == "var" {
			if _, bh := in.bounds(b); bh != nil {
				in.tighten(a, nil, new(big.Int).Sub(bh, big.NewInt(adj)))
			}
		}
		if b.Op == "var" {
			if al, _ := in.bounds(a); al != nil {
				in.tighten(b, new(big.Int).Add(al, big.NewInt(adj)), nil)
			}
		}
	case "not":
		x := c.A[0]
		if x.Op == "<=" || x.Op == "<" {
			// not(a <= b) == b < a ; not(a < b) == b <= a
			op := "<"
			if x.Op == "<" {
				op = "<="
			}
			in.noteBound(&smt.Term{Op: op, A: []*smt.Term{x.A[1], x.A[0]}})
		}
	case "=":
		a, b := c.A[0], c.A[1]
		if a.S.K == smt.KInt {
			if a.Op == "var" && b.IsConst() {
				in.tighten(a, b.V, b.V)
			} else if b.Op == "var" && a.IsConst() {
				in.tighten(b, a.V, a.V)
			}
		}
	}
}

func (in *Interp) tighten(v *smt.Term, lo, hi *big.Int) {
	cur := in.intBounds[v.ID]
	if lo != nil && (cur[0] == nil || lo.Cmp(cur[0]) > 0) {
		cur[0] = lo
	}
	if hi != nil && (cur[1] == nil || hi.Cmp(cur[1]) < 0) {
		cur[1] = hi
	}
	in.intBounds[v.ID] = cur
	// invalidate derived bounds (cheap: drop all non-var entries)
	for id := range in.intBounds {
		if id != v.ID {
			if _, isVar := in.varNames[id]; !isVar {
				delete(in.intBounds, id)
			}
		}
	}
}

// wrap reduces the mathematical Int t into the range of Go type b (two's complement wrap-around).
func (in *Interp) wrap(t *smt.Term, b *types.Basic) *smt.Term {
	lo, hi := typeRange(b)
	l, h := in.bounds(t)
	if l != nil && h != nil && l.Cmp(lo) >= 0 && h.Cmp(hi) <= 0 {
		return t
	}
	c := in.ctx
	w := intWidth(b)
	m := c.Int(new(big.Int).Lsh(big.NewInt(1), uint(w)))
	var r *smt.Term
	if isSigned(b) {
		half := c.Int(new(big.Int).Lsh(big.NewInt(1), uint(w-1)))
		r = c.ISub(c.IMod(c.IAdd(t, half), m), half)
	} else {
		r = c.IMod(t, m)
	}
	in.intBounds[r.ID] = [2]*big.Int{lo, hi}
	return r
}

// ---------------------------------------------------------------- helpers on integer terms

func (in *Interp) inRange(idx *smt.Term, it types.Type, n int) *smt.Term {
	c := in.ctx
	b := basicOf(it)
	if idx.S.K == smt.KInt {
		return c.And(c.ILe(c.Inti(0), idx), c.ILt(idx, c.Inti(int64(n))))
	}
	w := idx.S.W
	if b != nil && isSigned(b) {
		return c.And(c.BVSle(c.BVi(0, w), idx), c.BVSlt(idx, c.BVi(int64(n), w)))
	}
	if w < 63 && int64(n) >= int64(1)<<uint(w) {
		return c.True()
	}
	return c.BVUlt(idx, c.BVi(int64(n), w))
}

func (in *Interp) concretizeIdx(idx *smt.Term, it types.Type, n int, label string) int {
	if n > in.cfg.AllocBound*4 {
		in.unsupported(fmt.Sprintf("%s: symbolic index into %d elements", label, n))
	}
	alts := make([]*smt.Term, n)
	for k := 0; k < n; k++ {
		alts[k] = in.cmpConst(idx, "==", int64(k))
	}
	return in.fork(alts, label)
}

func (in *Interp) asInt(v value, t types.Type, label string) int {
	tm := v.(*smt.Term)
	if tm.IsConst() {
		return int(in.termInt(tm, t).Int64())
	}
	// symbolic: must be non-negative and small
	neg := in.cmpConst(tm, "<", 0)
	if b := basicOf(t); b != nil && !isSigned(b) && tm.S.K != smt.KInt {
		neg = in.ctx.False()
	}
	if in.branch(neg, label+":neg") {
		return -1
	}
	return in.concretize(tm, 0, 1<<40, label)
}

var freshCtr int

func (in *Interp) freshBool(tag string) *smt.Term {
	return in.nondetTerm("$"+tag, smt.BoolSort)
}

// nondetTerm creates the next nondet variable named name#k on this path.
func (in *Interp) nondetTerm(name string, s smt.Sort) *smt.Term {
	k := in.nondetSeq[name]
	in.nondetSeq[name] = k + 1
	full := name + "#" + strconv.Itoa(k)
	if in.cfg.Concrete != nil {
		v, ok := in.cfg.Concrete[full]
		if !ok {
			v = big.NewInt(0)
		}
		switch s.K {
		case smt.KBool:
			return in.ctx.Bool(v.Sign() != 0)
		case smt.KInt:
			return in.ctx.Int(v)
		}
		return in.ctx.BV(v, s.W)
	}
	t := in.ctx.Var(full, s)
	in.pathVars = append(in.pathVars, t)
	in.varNames[t.ID] = full
	return t
}

func (in *Interp) nondetInt(name string, b *types.Basic) *smt.Term {
	t := in.nondetTerm(name, in.intSort(b))
	if in.cfg.Concrete != nil && t.IsConst() && t.S.K == smt.KInt {
		// a replay value outside the type's range (perturbed models) wraps exactly as the native side's conversion does
		return in.intConst(b, t.V)
	}
	if in.useInt(b) && !t.IsConst() {
		lo, hi := typeRange(b)
		in.intBounds[t.ID] = [2]*big.Int{lo, hi}
		in.addLemma(in.ctx.And(in.ctx.ILe(in.ctx.Int(lo), t), in.ctx.ILe(t, in.ctx.Int(hi))))
	}
	return t
}

func (in *Interp) opaqueEq(a, b *opaqueStr) *smt.Term {
	k := [2]int{a.id, b.id}
	if a.id > b.id {
		k = [2]int{b.id, a.id}
	}
	if t, ok := in.opaqueEqs[k]; ok {
		return t
	}
	t := in.freshBool("opaque_eq")
	in.opaqueEqs[k] = t
	return t
}

// ---------------------------------------------------------------- unop / binop

func (in *Interp) unop(fr *frame, instr *ssa.UnOp, x value) value {
	c := in.ctx
	switch instr.Op {
	case token.ARROW:
		ch := x.(*chanV)
		if ch == nil {
			in.unsupported("receive from nil channel")
		}
		var v value
		ok := true
		if len(ch.buf) > 0 {
			v = ch.buf[0]
			ch.buf = ch.buf[1:]
		} else if ch.closed {
			v = in.zero(instr.X.Type().Underlying().(*types.Chan).Elem())
			ok = false
		} else {
			in.unsupported("blocking receive on empty channel in " + fr.fn.String())
		}
		if instr.CommaOk {
			return tuple{v, c.Bool(ok)}
		}
		return v
	case token.MUL:
		p := x.(*value)
		if p == nil {
			panic(goPanic{msg: "nil pointer dereference (load " + in.posStr(instr.Pos(), fr) + ")"})
		}
		return copyVal(*p)
	case token.NOT:
		return c.Not(x.(*smt.Term))
	case token.SUB:
		switch x := x.(type) {
		case *smt.Term:
			b := basicOf(instr.X.Type())
			if x.S.K == smt.KInt {
				return in.wrap(c.INeg(x), b)
			}
			return c.BVNeg(x)
		case float64:
			return -x
		}
	case token.XOR:
		t := x.(*smt.Term)
		if t.S.K == smt.KInt {
			b := basicOf(instr.X.Type())
			if isSigned(b) {
				return in.wrap(c.ISub(c.INeg(t), c.Inti(1)), b)
			}
			_, hi := typeRange(b)
			return c.ISub(c.Int(hi), t)
		}
		return c.BVNot(t)
	}
	panic(fmt.Sprintf("unop %v on %T", instr.Op, x))
}

func (in *Interp) binop(op token.Token, xt, yt types.Type, x, y value) value {
	c := in.ctx
	switch op {
	case token.EQL:
		return in.eqNilAware(x, y)
	case token.NEQ:
		return c.Not(in.eqNilAware(x, y))
	}
	switch xv := x.(type) {
	case *smt.Term:
		yv := y.(*smt.Term)
		if xv.S.K == smt.KBool {
			switch op {
			case token.AND, token.LAND:
				return c.And(xv, yv)
			case token.OR, token.LOR:
				return c.Or(xv, yv)
			}
			panic("bool binop " + op.String())
		}
		return in.intBinop(op, basicOf(xt), basicOf(yt), xv, yv)
	case float64:
		yv := y.(float64)
		switch op {
		case token.ADD:
			return xv + yv
		case token.SUB:
			return xv - yv
		case token.MUL:
			return xv * yv
		case token.QUO:
			return xv / yv
		case token.LSS:
			return c.Bool(xv < yv)
		case token.LEQ:
			return c.Bool(xv <= yv)
		case token.GTR:
			return c.Bool(xv > yv)
		case token.GEQ:
			return c.Bool(xv >= yv)
		}
	case string, *symStr, *opaqueStr:
		switch op {
		case token.ADD:
			if xs, ok := x.(string); ok {
				if ys, ok := y.(string); ok {
					return xs + ys
				}
			}
			_, xo := x.(*opaqueStr)
			_, yo := y.(*opaqueStr)
			if xo || yo {
				return in.newOpaqueStr("concat")
			}
			return in.mkStr(append(append([]*smt.Term{}, in.strBytes(x)...), in.strBytes(y)...))
		case token.LSS:
			return in.strLess(x, y)
		case token.GTR:
			return in.strLess(y, x)
		case token.LEQ:
			return c.Not(in.strLess(y, x))
		case token.GEQ:
			return c.Not(in.strLess(x, y))
		}
	}
	panic(fmt.Sprintf("binop %v on %T, %T", op, x, y))
}

func (in *Interp) eqNilAware(x, y value) *smt.Term {
	// comparisons against nil of slices, maps, funcs
	switch xv := x.(type) {
	case sliceV:
		return in.ctx.Bool(xv == nil && isNilValue(y))
	case *bigBytes:
		return in.ctx.False() // compared with nil: Bytes() never returns nil... treat as non-nil
	case *opaqueBytes:
		return in.tokenNilEq(xv, y)
	case *opaqueSlice:
		return in.ctx.False() // made by make([]byte, n): never nil
	case *closure, *ssa.Function, *ssa.Builtin, *nativeFn:
		return in.ctx.Bool(isNilValue(x) && isNilValue(y))
	}
	switch yv := y.(type) {
	case *opaqueBytes:
		return in.tokenNilEq(yv, x)
	case *bigBytes, *opaqueSlice:
		return in.ctx.False()
	case *closure, *ssa.Function, *ssa.Builtin, *nativeFn:
		return in.ctx.Bool(isNilValue(x) && isNilValue(y))
	}
	return in.eq(x, y)
}

func (in *Interp) intBinop(op token.Token, xb, yb *types.Basic, x, y *smt.Term) value {
	c := in.ctx
	signed := isSigned(xb)
	if x.S.K == smt.KInt {
		// shifts: y may be of another type/sort
		switch op {
		case token.SHL, token.SHR:
			ym := in.toInt(y, yb)
			if !ym.IsConst() {
				in.unsupported("int-mode shift by symbolic amount")
			}
			k := ym.V.Int64()
			if k < 0 {
				panic(goPanic{msg: "negative shift amount"})
			}
			w := intWidth(xb)
			if k >= int64(w) {
				if op == token.SHR && signed {
					return c.Ite(c.ILt(x, c.Inti(0)), c.Inti(-1), c.Inti(0))
				}
				return c.Inti(0)
			}
			p := c.Int(new(big.Int).Lsh(big.NewInt(1), uint(k)))
			if op == token.SHL {
				return in.wrap(c.IMul(x, p), xb)
			}
			return c.IDiv(x, p) // floor division == arithmetic shift for positive divisor
		}
		if y.S.K != smt.KInt {
			y = in.toInt(y, yb)
		}
		if x.IsConst() && y.IsConst() {
			// bitwise operators on two constants: two's complement semantics of math/big, then wrap into the type
			var r *big.Int
			switch op {
			case token.AND:
				r = new(big.Int).And(x.V, y.V)
			case token.OR:
				r = new(big.Int).Or(x.V, y.V)
			case token.XOR:
				r = new(big.Int).Xor(x.V, y.V)
			case token.AND_NOT:
				r = new(big.Int).AndNot(x.V, y.V)
			}
			if r != nil {
				return in.wrap(c.Int(r), xb)
			}
		}
		switch op {
		case token.ADD:
			return in.wrap(c.IAdd(x, y), xb)
		case token.SUB:
			return in.wrap(c.ISub(x, y), xb)
		case token.MUL:
			r := c.IMul(x, y)
			if !x.IsConst() && !y.IsConst() {
				in.noteMul(r)
			}
			return in.wrap(r, xb)
		case token.QUO:
			in.divCheck(y)
			return in.wrap(in.truncDiv(x, y), xb)
		case token.REM:
			in.divCheck(y)
			q := in.truncDiv(x, y)
			return c.ISub(x, c.IMul(q, y))
		case token.LSS:
			return c.ILt(x, y)
		case token.LEQ:
			return c.ILe(x, y)
		case token.GTR:
			return c.ILt(y, x)
		case token.GEQ:
			return c.ILe(y, x)
		case token.AND, token.OR, token.XOR, token.AND_NOT:
			if r, ok := in.intBitwiseConst(op, x, y); ok {
				return r
			}
			if op != token.AND {
				in.unsupported("int-mode bitwise " + op.String())
			}
			// mask with 2^k-1 constant
			for _, p := range [][2]*smt.Term{{x, y}, {y, x}} {
				if p[1].IsConst() && p[1].V.Sign() >= 0 {
					m := new(big.Int).Add(p[1].V, big.NewInt(1))
					if m.BitLen() > 0 && new(big.Int).And(m, p[1].V).Sign() == 0 {
						if l, _ := in.bounds(p[0]); l != nil && l.Sign() >= 0 {
							return c.IMod(p[0], c.Int(m))
						}
						if !signed {
							return c.IMod(p[0], c.Int(m))
						}
					}
				}
			}
			in.unsupported("int-mode bitwise AND")
		}
		panic("int binop " + op.String())
	}
	// bit-vector mode
	w := x.S.W
	switch op {
	case token.SHL, token.SHR:
		// bring y to width w (unsigned shift count; negative signed count panics)
		ys := y
		if yb != nil && isSigned(yb) && !y.IsConst() {
			if in.branch(c.BVSlt(y, c.BVi(0, y.S.W)), "negshift") {
				panic(goPanic{msg: "negative shift amount"})
			}
		}
		if y.S.K == smt.KInt {
			ys = c.Int2BV(y, w)
		} else if y.S.W < w {
			ys = c.ZExt(y, w-y.S.W)
		} else if y.S.W > w {
			// saturate
			big_ := c.BVUle(c.BVi(int64(w), y.S.W), y)
			ys = c.Ite(big_, c.BVi(int64(w), w), c.Extract(y, w-1, 0))
		}
		if op == token.SHL {
			return c.BVShl(x, ys)
		}
		if signed {
			return c.BVAshr(x, ys)
		}
		return c.BVLshr(x, ys)
	}
	if y.S != x.S {
		panic(fmt.Sprintf("intBinop sort mismatch %v %v for %v", x.S, y.S, op))
	}
	switch op {
	case token.ADD:
		return c.BVAdd(x, y)
	case token.SUB:
		return c.BVSub(x, y)
	case token.MUL:
		return c.BVMul(x, y)
	case token.QUO:
		in.divCheck(y)
		if signed {
			return c.BVSDiv(x, y)
		}
		return c.BVUDiv(x, y)
	case token.REM:
		in.divCheck(y)
		if signed {
			return c.BVSRem(x, y)
		}
		return c.BVURem(x, y)
	case token.AND:
		return c.BVAnd(x, y)
	case token.OR:
		return c.BVOr(x, y)
	case token.XOR:
		return c.BVXor(x, y)
	case token.AND_NOT:
		return c.BVAnd(x, c.BVNot(y))
	case token.LSS:
		if signed {
			return c.BVSlt(x, y)
		}
		return c.BVUlt(x, y)
	case token.LEQ:
		if signed {
			return c.BVSle(x, y)
		}
		return c.BVUle(x, y)
	case token.GTR:
		if signed {
			return c.BVSlt(y, x)
		}
		return c.BVUlt(y, x)
	case token.GEQ:
		if signed {
			return c.BVSle(y, x)
		}
		return c.BVUle(y, x)
	}
	panic("bv binop " + op.String())
}

func (in *Interp) divCheck(y *smt.Term) {
	var z *smt.Term
	if y.S.K == smt.KInt {
		z = in.ctx.Eq(y, in.ctx.Inti(0))
	} else {
		z = in.ctx.Eq(y, in.ctx.BVi(0, y.S.W))
	}
	if in.branch(z, "divzero") {
		panic(goPanic{msg: "integer divide by zero"})
	}
}

// truncDiv: Go's truncated division on Ints expressed with SMT floor/euclidean div.
func (in *Interp) truncDiv(x, y *smt.Term) *smt.Term {
	c := in.ctx
	xl, _ := in.bounds(x)
	yl, _ := in.bounds(y)
	if xl != nil && xl.Sign() >= 0 && yl != nil && yl.Sign() > 0 {
		return c.IDiv(x, y)
	}
	if y.IsConst() && y.V.Sign() > 0 {
		// x >= 0: x div y ; x < 0: -((-x) div y)
		return c.Ite(c.ILe(c.Inti(0), x), c.IDiv(x, y), c.INeg(c.IDiv(c.INeg(x), y)))
	}
	ax := c.Ite(c.ILe(c.Inti(0), x), x, c.INeg(x))
	ay := c.Ite(c.ILe(c.Inti(0), y), y, c.INeg(y))
	q := c.IDiv(ax, ay)
	same := c.Eq(c.ILe(c.Inti(0), x), c.ILe(c.Inti(0), y))
	return c.Ite(same, q, c.INeg(q))
}

func (in *Interp) noteMul(r *smt.Term) {
	in.mulApps = append(in.mulApps, r)
}

// ---------------------------------------------------------------- conversions

func (in *Interp) conv(dst, src types.Type, x value) value {
	c := in.ctx; _ = c
	ud := dst.Underlying()
	us := src.Underlying()
	switch ud := ud.(type) {
	case *types.Pointer, *types.Signature, *types.Struct, *types.Map, *types.Chan, *types.Array, *types.Interface:
		return x
	case *types.Slice:
		// string -> []byte / []rune
		if sb, ok := us.(*types.Basic); ok && sb.Info()&types.IsString != 0 {
			eb := basicOf(ud.Elem())
			if eb != nil && eb.Kind() == types.Uint8 {
				bs := in.strBytes(x)
				out := make(sliceV, len(bs))
				for i, b := range bs {
					out[i] = b
				}
				return out
			}
			if s, ok := x.(string); ok {
				rs := []rune(s)
				out := make(sliceV, len(rs))
				for i, r := range rs {
					out[i] = in.intConst(eb, big.NewInt(int64(r)))
				}
				return out
			}
			in.unsupported("symbolic string to []rune")
		}
		return x
	case *types.Basic:
		if ud.Kind() == types.UnsafePointer {
			return x
		}
		if ud.Info()&types.IsString != 0 {
			switch xv := x.(type) {
			case string, *symStr, *opaqueStr:
				return x
			case sliceV:
				// []byte or []rune
				eb := basicOf(us.(*types.Slice).Elem())
				if eb.Kind() == types.Uint8 {
					bs := make([]*smt.Term, len(xv))
					for i, e := range xv {
						bs[i] = e.(*smt.Term)
					}
					return in.mkStr(bs)
				}
				var rs []rune
				for _, e := range xv {
					t := e.(*smt.Term)
					if !t.IsConst() {
						in.unsupported("symbolic []rune to string")
					}
					rs = append(rs, rune(in.termInt(t, eb).Int64()))
				}
				return string(rs)
			case *opaqueBytes:
				in.unsupported("string(codec token)")
			case *bigBytes:
				s := in.materialize(xv)
				bs := make([]*smt.Term, len(s))
				for i, e := range s {
					bs[i] = e.(*smt.Term)
				}
				return in.mkStr(bs)
			case *smt.Term:
				if !xv.IsConst() {
					// a symbolic rune: supported when it is ASCII under the path condition (one byte, no encoding)
					sb := basicOf(us)
					ascii := c.And(in.intBinop(token.GEQ, sb, sb, xv, in.intConst(sb, big.NewInt(0))).(*smt.Term),
						in.intBinop(token.LSS, sb, sb, xv, in.intConst(sb, big.NewInt(0x80))).(*smt.Term))
					if !in.branch(ascii, "string(rune)-ascii") {
						in.unsupported("string(symbolic non-ASCII rune)")
					}
					return in.mkStr([]*smt.Term{in.convInt(xv, sb, basicOf(types.Typ[types.Uint8]))})
				}
				return string(rune(in.termInt(xv, src).Int64()))
			}
		}
		if ud.Info()&types.IsInteger != 0 {
			switch xv := x.(type) {
			case *smt.Term:
				return in.convInt(xv, basicOf(us), ud)
			case float64:
				return in.intConst(ud, big.NewInt(int64(xv)))
			}
		}
		if ud.Info()&types.IsFloat != 0 {
			switch xv := x.(type) {
			case float64:
				if ud.Kind() == types.Float32 {
					return float64(float32(xv))
				}
				return xv
			case *smt.Term:
				if !xv.IsConst() {
					in.unsupported("symbolic integer to float")
				}
				f, _ := new(big.Float).SetInt(in.termInt(xv, src)).Float64()
				return f
			}
		}
		if ud.Info()&types.IsBoolean != 0 {
			return x
		}
	}
	in.unsupported(fmt.Sprintf("conv %v -> %v (%T)", src, dst, x))
	return nil
}

func (in *Interp) convInt(x *smt.Term, sb, db *types.Basic) *smt.Term {
	c := in.ctx
	if sb == nil {
		panic("convInt: nil source basic")
	}
	srcInt := x.S.K == smt.KInt
	dstInt := in.useInt(db)
	dw := intWidth(db)
	switch {
	case srcInt && dstInt:
		return in.wrap(x, db)
	case srcInt && !dstInt:
		return c.Int2BV(x, dw)
	case !srcInt && dstInt:
		return in.wrap(in.toInt(x, sb), db)
	}
	sw := x.S.W
	if dw == sw {
		return x
	}
	if dw < sw {
		return c.Extract(x, dw-1, 0)
	}
	if isSigned(sb) {
		return c.SExt(x, dw-sw)
	}
	return c.ZExt(x, dw-sw)
}

// ---------------------------------------------------------------- slices

// materialize turns any slice-typed value into a sliceV.
func (in *Interp) materialize(v value) sliceV {
	switch s := v.(type) {
	case sliceV:
		return s
	case *bigBytes:
		return in.bigToBytes(s.t, -1)
	case *opaqueBytes:
		in.unsupported("byte access to a " + s.kind + " codec token")
	case *opaqueSlice:
		in.unsupported("access to the content of an opaque slice")
	case nil:
		return nil
	}
	panic(fmt.Sprintf("materialize: %T", v))
}

func (in *Interp) sliceOp(fr *frame, instr *ssa.Slice) value {
	x := fr.get(instr.X)
	var lo, hi, max value
	if instr.Low != nil {
		lo = fr.get(instr.Low)
	}
	if instr.High != nil {
		hi = fr.get(instr.High)
	}
	if instr.Max != nil {
		max = fr.get(instr.Max)
	}
	label := "slice@" + in.posStr(instr.Pos(), fr)
	bound := func(v value, vv ssa.Value, def int, limit int) int {
		if v == nil {
			return def
		}
		t := v.(*smt.Term)
		if t.IsConst() {
			n := in.termInt(t, vv.Type())
			if n.Sign() < 0 || n.Cmp(big.NewInt(int64(limit))) > 0 {
				panic(goPanic{msg: fmt.Sprintf("slice bounds out of range [%s] with capacity %d (%s)", n, limit, label)})
			}
			return int(n.Int64())
		}
		ok := in.inRange(t, vv.Type(), limit+1)
		if !in.branch(ok, label+":bounds") {
			panic(goPanic{msg: "slice bounds out of range [symbolic] (" + label + ")"})
		}
		return in.concretizeIdx(t, vv.Type(), limit+1, label)
	}
	switch xv := x.(type) {
	case string, *symStr:
		b := in.strBytes(xv)
		l := bound(lo, instr.Low, 0, len(b))
		h := bound(hi, instr.High, len(b), len(b))
		if l > h {
			panic(goPanic{msg: "slice bounds out of range (string)"})
		}
		return in.mkStr(b[l:h])
	case *opaqueStr:
		in.unsupported("slice of opaque string")
	case *bigBytes:
		x = in.materialize(xv)
	}
	var base []value
	var curLen int
	switch xv := x.(type) {
	case sliceV:
		base = xv[:cap(xv)]
		curLen = len(xv)
	case *value: // *array
		if xv == nil {
			panic(goPanic{msg: "slice of nil array pointer"})
		}
		base = (*xv).(array)
		curLen = len(base)
	default:
		panic(fmt.Sprintf("slice op on %T", x))
	}
	c := cap(base)
	if len(base) < c {
		c = len(base)
	}
	l := bound(lo, instr.Low, 0, c)
	m := bound(max, instr.Max, c, c)
	h := bound(hi, instr.High, curLen, m)
	if l > h {
		panic(goPanic{msg: fmt.Sprintf("slice bounds out of range [%d:%d] (%s)", l, h, label)})
	}
	if sv, ok := x.(sliceV); ok && sv == nil && l == 0 && h == 0 {
		return sliceV(nil)
	}
	return sliceV(base[l:h:m])
}

func (in *Interp) checkAlloc(fr *frame, instr *ssa.MakeSlice, ln *smt.Term) {
	if ln.IsConst() || in.allocLimit == 0 {
		return
	}
	over := in.cmpConst(ln, ">", int64(in.allocLimit))
	if in.cfg.Concrete != nil {
		return
	}
	if in.branch(over, "alloc-limit") {
		v := &Violation{Obligation: in.allocOb, Kind: "alloc", Msg: fmt.Sprintf("allocation at %s may exceed %d elements", in.posStr(instr.Pos(), fr), in.allocLimit)}
		// prefer a counterexample that exceeds the limit by a margin the native replay can measure (the native side
		// compares the bytes allocated during the run with 2*limit + 512 KiB)
		wide := in.cmpConst(ln, ">", 2*int64(in.allocLimit)+(1<<20))
		if in.solver.CheckWith(wide) == smt.Sat {
			in.solver.Assert(wide)
			if in.solver.Check() == smt.Sat {
				v.Model = in.model()
				in.res.Violations = append(in.res.Violations, v)
			}
		} else if in.solver.Check() != smt.Unsat {
			// the bound can only be exceeded by less than the margin: the excess cannot be confirmed by measuring a native
			// run, so this is reported as inconclusive (never a pass), not as a replayed violation
			in.res.Inconclusive = appendUniq(in.res.Inconclusive, v.Msg+" by less than the native measurement margin (not confirmable by replay)")
			in.res.Exhaustive = false
		}
		panic(pathEnd{"violation", v.Msg})
	}
	// The obligation "length <= limit" is now decided at this site for EVERY length. Executions that allocate more
	// than the enumeration bound cannot be followed (slice lengths are concrete); under an AllocLimit they are cut here
	// and the cut is recorded, instead of making the whole run inconclusive.
	if in.branch(in.cmpConst(ln, ">", int64(in.cfg.AllocBound)), "alloc-limit:beyond-enumeration") {
		in.res.Assumptions = appendUniq(in.res.Assumptions, fmt.Sprintf("under vf.AllocLimit: after the allocation-size obligation is decided at a make site, executions allocating more than %d elements there are not followed further", in.cfg.AllocBound))
		panic(pathEnd{"cut", "allocation beyond enumeration bound (limit obligation already decided)"})
	}
}

// ---------------------------------------------------------------- maps

// checkHashable panics like the runtime does when a map key holds an interface whose dynamic type is not comparable.
func (in *Interp) checkHashable(k value) {
	switch kv := k.(type) {
	case iface:
		if kv.t == nil {
			return
		}
		switch kv.t.Underlying().(type) {
		case *types.Slice, *types.Map, *types.Signature:
			panic(goPanic{msg: "runtime error: hash of unhashable type " + kv.t.String()})
		}
		in.checkHashable(kv.v)
	case structure:
		for _, f := range kv {
			in.checkHashable(f)
		}
	case array:
		for _, f := range kv {
			in.checkHashable(f)
		}
	}
}

func (in *Interp) mapFind(m *mapV, k value, label string) *mapEntry {
	in.checkHashable(k)
	if m == nil {
		return nil
	}
	// a syntactically identical key is THE entry: entries have pairwise distinct keys under the path condition
	// (invariant of mapSet), so no other entry can match — no solver query, no fork
	for _, e := range m.entries {
		if in.eq(e.k, k).IsTrue() {
			return e
		}
	}
	// first pass: syntactic certainty
	var maybe []*mapEntry
	var conds []*smt.Term
	for _, e := range m.entries {
		c := in.eq(e.k, k)
		if c.IsTrue() {
			if len(maybe) == 0 {
				return e
			}
			maybe = append(maybe, e)
			conds = append(conds, c)
			break
		}
		if c.IsFalse() {
			continue
		}
		maybe = append(maybe, e)
		conds = append(conds, c)
	}
	if len(maybe) == 0 {
		return nil
	}
	// entries have pairwise distinct keys (invariant), so conditions are mutually exclusive
	alts := append([]*smt.Term{}, conds...)
	last := conds[len(conds)-1]
	if !last.IsTrue() {
		var negs []*smt.Term
		for _, c := range conds {
			negs = append(negs, in.ctx.Not(c))
		}
		alts = append(alts, in.ctx.And(negs...))
	} else {
		// the certain match applies only when no earlier one does
		var negs []*smt.Term
		for _, c := range conds[:len(conds)-1] {
			negs = append(negs, in.ctx.Not(c))
		}
		alts[len(alts)-1] = in.ctx.And(negs...)
	}
	i := in.fork(alts, "mapkey:"+label)
	if i < len(maybe) {
		return maybe[i]
	}
	return nil
}

func (in *Interp) mapSet(m *mapV, k, v value) {
	if e := in.mapFind(m, k, "update"); e != nil {
		e.v = v
		return
	}
	m.entries = append(m.entries, &mapEntry{k: copyVal(k), v: v})
}

func (in *Interp) mapDelete(m *mapV, k value) {
	if m == nil {
		return
	}
	e := in.mapFind(m, k, "delete")
	if e == nil {
		return
	}
	for i, x := range m.entries {
		if x == e {
			m.entries = append(m.entries[:i:i], m.entries[i+1:]...)
			return
		}
	}
}

func (in *Interp) lookup(instr *ssa.Lookup, x, idx value) value {
	switch xv := x.(type) {
	case *mapV:
		var v value
		ok := false
		if e := in.mapFind(xv, idx, in.posStr(instr.Pos(), nil)); e != nil {
			v = copyVal(e.v)
			ok = true
		} else {
			v = in.zero(instr.X.Type().Underlying().(*types.Map).Elem())
		}
		if instr.CommaOk {
			return tuple{v, in.ctx.Bool(ok)}
		}
		return v
	case string, *symStr:
		b := in.strBytes(xv)
		i := in.index(idx.(*smt.Term), len(b), instr.Index.Type(), "strlookup")
		return b[i]
	}
	panic(fmt.Sprintf("lookup on %T", x))
}

// ---------------------------------------------------------------- range

type mapIter struct {
	entries []*mapEntry
	i       int
	m       *mapV
}

func (it *mapIter) next(in *Interp) tuple {
	for it.i < len(it.entries) {
		e := it.entries[it.i]
		it.i++
		// skip entries deleted during iteration
		live := false
		for _, x := range it.m.entries {
			if x == e {
				live = true
				break
			}
		}
		if live {
			return tuple{in.ctx.True(), copyVal(e.k), copyVal(e.v)}
		}
	}
	return tuple{in.ctx.False(), nil, nil}
}

type strIter struct {
	b []*smt.Term
	i int
}

func (it *strIter) next(in *Interp) tuple {
	c := in.ctx
	if it.i >= len(it.b) {
		return tuple{c.False(), in.ctx.BVi(0, 64), in.ctx.BVi(0, 32)}
	}
	b0 := it.b[it.i]
	idx := it.i
	intB := basicOf(types.Typ[types.Int])
	runeB := basicOf(types.Typ[types.Int32])
	if !b0.IsConst() {
		// ASCII must be implied by the path condition
		if !in.branch(c.BVUlt(b0, c.BVu(0x80, 8)), "range-string-ascii") {
			in.unsupported("range over string with non-ASCII symbolic byte")
		}
		it.i++
		return tuple{c.True(), in.intConst(intB, big.NewInt(int64(idx))), in.convInt(b0, basicOf(types.Typ[types.Uint8]), runeB)}
	}
	// concrete prefix: decode rune from concrete bytes as far as they are concrete
	var bs []byte
	for j := it.i; j < len(it.b) && j < it.i+4 && it.b[j].IsConst(); j++ {
		bs = append(bs, byte(it.b[j].V.Uint64()))
	}
	r, size := decodeRune(bs)
	it.i += size
	return tuple{c.True(), in.intConst(intB, big.NewInt(int64(idx))), in.intConst(runeB, big.NewInt(int64(r)))}
}

func decodeRune(bs []byte) (rune, int) {
	s := string(bs)
	for _, r := range s {
		n := len(string(r))
		if r == 0xFFFD && (len(bs) < 3 || !(bs[0] == 0xEF && bs[1] == 0xBF && bs[2] == 0xBD)) {
			return r, 1
		}
		return r, n
	}
	return 0xFFFD, 1
}

func (in *Interp) rangeIter(x value, t types.Type) rangeIter {
	switch xv := x.(type) {
	case *mapV:
		if xv == nil {
			return &mapIter{m: &mapV{}}
		}
		entries := append([]*mapEntry{}, xv.entries...)
		n := len(entries)
		if n >= 2 && n <= in.cfg.PermBound && !in.noPerm && in.initDepth == 0 {
			// choose a permutation: sequence of choices
			perm := make([]*mapEntry, 0, n)
			rest := entries
			tag := ""
			for len(rest) > 1 {
				k := in.choice(len(rest), "maporder")
				tag += strconv.Itoa(k)
				perm = append(perm, rest[k])
				rest = append(append([]*mapEntry{}, rest[:k]...), rest[k+1:]...)
			}
			perm = append(perm, rest[0])
			entries = perm
		} else if n > in.cfg.PermBound {
			in.res.Assumptions = appendUniq(in.res.Assumptions, fmt.Sprintf("map with more than %d entries iterated in insertion order only", in.cfg.PermBound))
		}
		return &mapIter{entries: entries, m: xv}
	case string, *symStr:
		return &strIter{b: in.strBytes(xv)}
	}
	panic(fmt.Sprintf("range over %T", x))
}

// choice forks over n alternatives that need no solver (pure enumeration).
func (in *Interp) choice(n int, label string) int {
	if n <= 1 {
		return 0
	}
	if in.cfg.Concrete != nil {
		k := in.nondetSeq["$"+label]
		in.nondetSeq["$"+label] = k + 1
		if v, ok := in.cfg.Concrete["$"+label+"#"+strconv.Itoa(k)]; ok {
			return int(v.Int64())
		}
		return 0
	}
	var taken int
	if in.pos < len(in.decisions) {
		taken = in.decisions[in.pos].taken
		if in.pos >= in.replayRegions-1 {
			in.solver.Push()
		}
		in.pos++
	} else {
		rem := make([]int, 0, n-1)
		for i := 1; i < n; i++ {
			rem = append(rem, i)
		}
		in.decisions = append(in.decisions, decision{taken: 0, remaining: rem, label: label})
		in.res.Stats.Forks += n - 1
		in.solver.Push()
		in.pos++
	}
	k := in.nondetSeq["$"+label]
	in.nondetSeq["$"+label] = k + 1
	in.choices["$"+label+"#"+strconv.Itoa(k)] = strconv.Itoa(taken)
	return taken
}

// ---------------------------------------------------------------- type assertions

func (in *Interp) typeAssert(instr *ssa.TypeAssert, itf iface) value {
	var v value
	ok := false
	if _, isI := instr.AssertedType.Underlying().(*types.Interface); isI {
		if itf.t != nil {
			ai := instr.AssertedType.Underlying().(*types.Interface)
			if in.implements(itf, ai) {
				v = itf
				ok = true
			}
		}
	} else if itf.t != nil && types.Identical(itf.t, instr.AssertedType) {
		v = copyVal(itf.v)
		ok = true
	}
	if !ok {
		if instr.CommaOk {
			return tuple{in.zero(instr.AssertedType), in.ctx.False()}
		}
		dyn := "nil"
		if itf.t != nil {
			dyn = itf.t.String()
		}
		panic(goPanic{msg: fmt.Sprintf("interface conversion: interface is %s, not %s", dyn, instr.AssertedType)})
	}
	if instr.CommaOk {
		return tuple{v, in.ctx.True()}
	}
	return v
}

func (in *Interp) implements(itf iface, ai *types.Interface) bool {
	if eo, ok := itf.v.(*opaqueObj); ok && eo.kind == "error" {
		return ai.NumMethods() == 0 || (ai.NumMethods() == 1 && ai.Method(0).Name() == "Error")
	}
	if _, ok := itf.v.(*hashState); ok {
		return true
	}
	return types.Implements(itf.t, ai)
}

// ---------------------------------------------------------------- goroutines / select

func (in *Interp) goStmt(fr *frame, fn value, args []value) {
	// run to completion at the spawn point
	defer func() {
		if r := recover(); r != nil {
			if gp, ok := r.(goPanic); ok {
				// panic in goroutine kills the program
				panic(goPanic{msg: "panic in goroutine: " + gp.msg, v: gp.v})
			}
			panic(r)
		}
	}()
	in.call(fr, fn, args, token.NoPos)
}

func (in *Interp) selectOp(fr *frame, instr *ssa.Select) value {
	c := in.ctx
	// find ready cases
	var ready []int
	for i, st := range instr.States {
		ch := fr.get(st.Chan).(*chanV)
		if ch == nil {
			continue
		}
		if st.Dir == types.RecvOnly {
			if len(ch.buf) > 0 || ch.closed {
				ready = append(ready, i)
			}
		} else {
			if ch.cap == 0 || len(ch.buf) < ch.cap || true {
				ready = append(ready, i)
			}
		}
	}
	chosen := -1
	if len(ready) > 0 {
		chosen = ready[in.choice(len(ready), "select")]
	} else if instr.Blocking {
		in.unsupported("blocking select with no ready case in " + fr.fn.String())
	}
	intB := basicOf(types.Typ[types.Int])
	r := tuple{in.intConst(intB, big.NewInt(int64(chosen))), c.False()}
	for i, st := range instr.States {
		if st.Dir == types.RecvOnly {
			et := st.Chan.Type().Underlying().(*types.Chan).Elem()
			var v value = in.zero(et)
			if i == chosen {
				ch := fr.get(st.Chan).(*chanV)
				if len(ch.buf) > 0 {
					v = ch.buf[0]
					ch.buf = ch.buf[1:]
					r[1] = c.True()
				}
			}
			r = append(r, v)
		} else if i == chosen {
			ch := fr.get(st.Chan).(*chanV)
			ch.buf = append(ch.buf, copyVal(fr.get(st.Send)))
		}
	}
	return r
}

// ---------------------------------------------------------------- builtins

func (in *Interp) callBuiltin(caller *frame, fn *ssa.Builtin, args []value) value {
	c := in.ctx
	_ = c
	intB := basicOf(types.Typ[types.Int])
	switch fn.Name() {
	case "append":
		if len(args) == 1 {
			return args[0]
		}
		var add sliceV
		switch a := args[1].(type) {
		case string, *symStr:
			for _, b := range in.strBytes(a) {
				add = append(add, b)
			}
		default:
			add = in.materialize(a)
		}
		base := in.materialize(args[0])
		if len(add) == 0 {
			return args[0]
		}
		cp := make(sliceV, len(add))
		for i, x := range add {
			cp[i] = copyVal(x)
		}
		return append(base, cp...)
	case "copy":
		dst := in.materialize(args[0])
		var src sliceV
		switch a := args[1].(type) {
		case string, *symStr:
			for _, b := range in.strBytes(a) {
				src = append(src, b)
			}
		default:
			src = in.materialize(a)
		}
		tmp := make(sliceV, len(src))
		for i, x := range src {
			tmp[i] = copyVal(x)
		}
		n := copy(dst, tmp)
		return in.intConst(intB, big.NewInt(int64(n)))
	case "close":
		ch := args[0].(*chanV)
		if ch == nil || ch.closed {
			panic(goPanic{msg: "close of nil or closed channel"})
		}
		ch.closed = true
		return nil
	case "delete":
		in.mapDelete(args[0].(*mapV), args[1])
		return nil
	case "print", "println":
		return nil
	case "len":
		switch x := args[0].(type) {
		case string:
			return in.intConst(intB, big.NewInt(int64(len(x))))
		case *symStr:
			return in.intConst(intB, big.NewInt(int64(len(x.b))))
		case *opaqueStr:
			return in.opaqueLen(x)
		case array:
			return in.intConst(intB, big.NewInt(int64(len(x))))
		case *value:
			return in.intConst(intB, big.NewInt(int64(len((*x).(array)))))
		case sliceV:
			return in.intConst(intB, big.NewInt(int64(len(x))))
		case *bigBytes:
			return in.bigBytesLen(x)
		case *opaqueBytes:
			return in.opaqueBytesLen(x)
		case *opaqueSlice:
			return x.n
		case *mapV:
			if x == nil {
				return in.intConst(intB, big.NewInt(0))
			}
			return in.intConst(intB, big.NewInt(int64(len(x.entries))))
		case *chanV:
			if x == nil {
				return in.intConst(intB, big.NewInt(0))
			}
			return in.intConst(intB, big.NewInt(int64(len(x.buf))))
		}
		panic(fmt.Sprintf("len of %T", args[0]))
	case "cap":
		switch x := args[0].(type) {
		case array:
			return in.intConst(intB, big.NewInt(int64(len(x))))
		case *value:
			return in.intConst(intB, big.NewInt(int64(len((*x).(array)))))
		case sliceV:
			return in.intConst(intB, big.NewInt(int64(cap(x))))
		case *bigBytes:
			return in.bigBytesLen(x)
		case *opaqueBytes:
			return in.opaqueBytesLen(x)
		case *opaqueSlice:
			return x.n
		case *chanV:
			if x == nil {
				return in.intConst(intB, big.NewInt(0))
			}
			return in.intConst(intB, big.NewInt(int64(x.cap)))
		}
		panic(fmt.Sprintf("cap of %T", args[0]))
	case "min", "max":
		r := args[0]
		for _, a := range args[1:] {
			x, y := r.(*smt.Term), a.(*smt.Term)
			var lt *smt.Term
			if x.S.K == smt.KInt {
				lt = c.ILt(x, y)
			} else if x.S.K == smt.KBV {
				signed := true
				if sg, ok := fn.Type().(*types.Signature); ok && sg.Params().Len() > 0 {
					if b, ok := sg.Params().At(0).Type().Underlying().(*types.Basic); ok && b.Info()&types.IsUnsigned != 0 {
						signed = false
					}
				}
				if signed {
					lt = c.BVSlt(x, y)
				} else {
					lt = c.BVUlt(x, y)
				}
			} else {
				in.unsupported("min/max on non-integer operands")
			}
			if fn.Name() == "min" {
				r = c.Ite(lt, x, y)
			} else {
				r = c.Ite(lt, y, x)
			}
		}
		return r
	case "panic":
		panic(goPanic{v: args[0], msg: in.panicString(args[0])})
	case "recover":
		return in.doRecover(caller)
	case "SliceData":
		return &unsafeData{sl: in.materialize(args[0])}
	case "StringData":
		return &unsafeData{str: args[0], isStr: true}
	case "String":
		d, ok := args[0].(*unsafeData)
		n := in.asInt(args[1], types.Typ[types.Int], "unsafe.String")
		if !ok {
			if n == 0 {
				return ""
			}
			in.unsupported("unsafe.String on ordinary pointer")
		}
		if d.isStr {
			return in.mkStr(in.strBytes(d.str)[:n])
		}
		bs := make([]*smt.Term, n)
		for i := 0; i < n; i++ {
			bs[i] = d.sl[i].(*smt.Term)
		}
		return in.mkStr(bs)
	case "Slice":
		d, ok := args[0].(*unsafeData)
		n := in.asInt(args[1], types.Typ[types.Int], "unsafe.Slice")
		if !ok {
			if n == 0 {
				return sliceV(nil)
			}
			in.unsupported("unsafe.Slice on ordinary pointer")
		}
		if d.isStr {
			bs := in.strBytes(d.str)
			out := make(sliceV, n)
			for i := range out {
				out[i] = bs[i]
			}
			return out
		}
		return d.sl[:n]
	case "ssa:wrapnilchk":
		recv := args[0]
		if p, ok := recv.(*value); ok && p == nil {
			panic(goPanic{msg: "value method called using nil pointer"})
		}
		return recv
	}
	panic("unknown builtin " + fn.Name())
}

func (in *Interp) doRecover(caller *frame) value {
	if caller != nil && caller.caller != nil && caller.caller.panicking {
		caller.caller.panicking = false
		p := caller.caller.panicVal
		caller.caller.panicVal = nil
		if gp, ok := p.(goPanic); ok {
			if gp.v != nil {
				return gp.v
			}
			return iface{t: types.Typ[types.String], v: gp.msg}
		}
	}
	return iface{}
}

func (in *Interp) newOpaqueStr(tag string) *opaqueStr {
	in.opaqueSeq++
	return &opaqueStr{id: in.opaqueSeq, tag: tag}
}

func (in *Interp) opaqueLen(x *opaqueStr) value {
	intB := basicOf(types.Typ[types.Int])
	t := in.nondetInt("$opaque_len", intB)
	in.addLemma(in.cmpGE0(t))
	return t
}

func (in *Interp) cmpGE0(t *smt.Term) *smt.Term {
	if t.S.K == smt.KInt {
		return in.ctx.ILe(in.ctx.Inti(0), t)
	}
	return in.ctx.BVSle(in.ctx.BVi(0, t.S.W), t)
}
