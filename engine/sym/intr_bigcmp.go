package sym

import (
	"go/types"
	"math/big"

	"gosym/smt"
)

// bigImage: if bs is exactly the minimal big-endian image of an Int term u that was materialised on this path
// (bigToBytes forked on its byte length L, so 2^(8(L-1)) <= u < 2^(8L) is on the path condition), returns u.
func (in *Interp) bigImage(bs []*smt.Term) (*smt.Term, bool) {
	if len(bs) == 0 {
		return nil, false
	}
	t := bs[0]
	for _, b := range bs[1:] {
		t = in.ctx.Concat(t, b)
	}
	if t.Op != "int2bv" {
		return nil, false
	}
	if m, ok := in.bigMat[t.A[0].ID]; ok && 8*len(m) == t.S.W && len(m) == len(bs) {
		return t.A[0], true
	}
	return nil, false
}

// bigImageCompare decides bytes.Compare of two big-endian images of materialised integers in the integer theory
// (exact): for equal lengths the lexicographic order is the numeric order; for different lengths the longer operand is
// cut to the length of the shorter (integer division by a power of 256) and a tie goes to the shorter one. z3 answers
// unknown / times out on the equivalent bit-vector formulation over int2bv terms.
func (in *Interp) bigImageCompare(x, y []*smt.Term) *smt.Term {
	a, ok := in.bigImage(x)
	if !ok {
		return nil
	}
	b, ok := in.bigImage(y)
	if !ok {
		return nil
	}
	c := in.ctx
	intB := basicOf(types.Typ[types.Int])
	m1, z, p1 := in.intConst(intB, big.NewInt(-1)), in.intConst(intB, big.NewInt(0)), in.intConst(intB, big.NewInt(1))
	pow := func(k int) *smt.Term { return c.Int(new(big.Int).Lsh(big.NewInt(1), uint(8*k))) }
	switch {
	case len(x) == len(y):
		return c.Ite(c.ILt(a, b), m1, c.Ite(c.Eq(a, b), z, p1))
	case len(x) > len(y):
		top := c.IDiv(a, pow(len(x)-len(y)))
		return c.Ite(c.ILt(top, b), m1, p1)
	default:
		top := c.IDiv(b, pow(len(y)-len(x)))
		return c.Ite(c.ILe(a, top), m1, p1)
	}
}
