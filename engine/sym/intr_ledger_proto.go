package sym

import (
	"fmt"
	"go/types"
	"math/big"
	"reflect"
	"strconv"
	"strings"

	"gosym/smt"

	"golang.org/x/tools/go/ssa"
)

// protobuf summaries (codecs are not under test; the reflection-driven library code is not interpreted).
//
//	proto.Size(m)  exact wire size of a proto3 message as a term: computed from the `protobuf:"..."` struct tags of
//	               the generated message types (varint / zigzag / fixed / bytes / string / message / repeated).
//	               Exact, so that the native replay (real library) agrees with the engine.
//
// Unsupported shapes (maps, oneof, groups, unknown fields) end the path as inconclusive.

type pbField struct {
	wire string // varint, zigzag32, zigzag64, fixed32, fixed64, bytes, group
	num  int
	rep  bool
	pack bool
}

func parsePbTag(tag string) (pbField, bool) {
	v, ok := reflect.StructTag(tag).Lookup("protobuf")
	if !ok {
		return pbField{}, false
	}
	parts := strings.Split(v, ",")
	if len(parts) < 3 {
		return pbField{}, false
	}
	n, err := strconv.Atoi(parts[1])
	if err != nil {
		return pbField{}, false
	}
	f := pbField{wire: parts[0], num: n, rep: parts[2] == "rep"}
	for _, p := range parts[3:] {
		if p == "packed" {
			f.pack = true
		}
	}
	return f, true
}

func pbVarintLen(v uint64) int {
	n := 1
	for v >= 0x80 {
		v >>= 7
		n++
	}
	return n
}

// pbVarintSize: Int-sorted size (1..10) of the varint encoding of the non-negative Int term u (< 2^64).
func (in *Interp) pbVarintSize(u *smt.Term) *smt.Term {
	c := in.ctx
	if u.IsConst() {
		return c.Inti(int64(pbVarintLen(new(big.Int).And(u.V, new(big.Int).SetUint64(^uint64(0))).Uint64())))
	}
	r := c.Inti(10)
	for k := 9; k >= 1; k-- {
		r = c.Ite(c.ILt(u, c.Int(new(big.Int).Lsh(big.NewInt(1), uint(7*k)))), c.Inti(int64(k)), r)
	}
	return r
}

// pbLenOf: Int-sorted length of a []byte / string value (forks only for engine-internal symbolic-length kinds).
func (in *Interp) pbLenOf(v value) *smt.Term {
	c := in.ctx
	switch x := v.(type) {
	case nil:
		return c.Inti(0)
	case sliceV:
		return c.Inti(int64(len(x)))
	case string:
		return c.Inti(int64(len(x)))
	case *symStr:
		return c.Inti(int64(len(x.b)))
	case *bigBytes:
		return in.bigBytesLenTerm(x.t)
	case *opaqueSlice:
		return in.toInt(x.n, types.Typ[types.Int])
	case *opaqueStr:
		return in.toInt(in.opaqueLen(x).(*smt.Term), types.Typ[types.Int])
	}
	in.unsupported(fmt.Sprintf("proto.Size: length of %T", v))
	return nil
}

// bigBytesLenTerm: minimal big-endian byte length of the non-negative Int term t, as a term (no forking).
// Values needing more than 64 bytes are excluded by one branch (inconclusive if feasible).
func (in *Interp) bigBytesLenTerm(t *smt.Term) *smt.Term {
	c := in.ctx
	if t.IsConst() {
		return c.Inti(int64(len(t.V.Bytes())))
	}
	const maxLen = 64
	pow := func(k int) *smt.Term { return c.Int(new(big.Int).Lsh(big.NewInt(1), uint(8*k))) }
	if _, hi := in.bounds(t); hi == nil || hi.Cmp(new(big.Int).Lsh(big.NewInt(1), 8*maxLen)) >= 0 {
		if in.branch(c.ILe(pow(maxLen), t), "bigbytes-len-beyond-64") {
			in.unsupported("length of a big-integer byte image beyond 64 bytes")
		}
	}
	r := c.Inti(maxLen)
	for k := maxLen - 1; k >= 0; k-- {
		r = c.Ite(c.ILt(t, pow(k)), c.Inti(int64(k)), r)
	}
	return r
}

// pbScalarU: the unsigned 64-bit image (as Int term) that the varint encoder sees for scalar value v of Go type t.
func (in *Interp) pbScalarU(v value, t types.Type, wire string) *smt.Term {
	c := in.ctx
	b := basicOf(t)
	if b == nil {
		in.unsupported("proto.Size: scalar of type " + t.String())
	}
	if b.Info()&types.IsBoolean != 0 {
		return c.Ite(v.(*smt.Term), c.Inti(1), c.Inti(0))
	}
	x := in.toInt(v.(*smt.Term), t)
	two64 := c.Int(new(big.Int).Lsh(big.NewInt(1), 64))
	switch wire {
	case "zigzag32", "zigzag64":
		// (x << 1) ^ (x >> 63): 2x for x >= 0, -2x-1 for x < 0
		return c.Ite(c.ILt(x, c.Inti(0)), c.ISub(c.INeg(c.IMul(c.Inti(2), x)), c.Inti(1)), c.IMul(c.Inti(2), x))
	}
	if isSigned(b) {
		// negative int32/int64/enum values are sign-extended to 64 bits
		return c.Ite(c.ILt(x, c.Inti(0)), c.IAdd(x, two64), x)
	}
	return x
}

// pbSize returns (size, isZeroMessage) for the message struct pointed to by p (type st).
func (in *Interp) pbSize(p *value, named types.Type, depth int) *smt.Term {
	c := in.ctx
	if depth > 8 {
		in.unsupported("proto.Size: nesting too deep")
	}
	st, ok := named.Underlying().(*types.Struct)
	if !ok {
		in.unsupported("proto.Size: not a struct message: " + named.String())
	}
	s, ok := (*p).(structure)
	if !ok {
		in.unsupported(fmt.Sprintf("proto.Size: message value %T", *p))
	}
	total := c.Inti(0)
	add := func(t *smt.Term) { total = c.IAdd(total, t) }
	for i := 0; i < st.NumFields(); i++ {
		fld := st.Field(i)
		if fld.Name() == "unknownFields" {
			if l := in.pbLenOf(s[i]); !l.IsConst() || l.V.Sign() != 0 {
				in.unsupported("proto.Size: message with unknown fields")
			}
			continue
		}
		tag := st.Tag(i)
		if strings.Contains(tag, "protobuf_oneof") {
			if iv, ok := s[i].(iface); ok && iv.t == nil {
				continue
			}
			in.unsupported("proto.Size: oneof field " + fld.Name())
		}
		pf, ok := parsePbTag(tag)
		if !ok {
			continue // state, sizeCache, ...
		}
		if strings.Contains(tag, "protobuf_key") {
			if m, ok := s[i].(*mapV); ok && (m == nil || len(m.entries) == 0) {
				continue
			}
			in.unsupported("proto.Size: map field " + fld.Name())
		}
		wt := 0
		switch pf.wire {
		case "varint", "zigzag32", "zigzag64":
			wt = 0
		case "fixed64":
			wt = 1
		case "bytes":
			wt = 2
		case "fixed32":
			wt = 5
		default:
			in.unsupported("proto.Size: wire type " + pf.wire)
		}
		tagLen := c.Inti(int64(pbVarintLen(uint64(pf.num)<<3 | uint64(wt))))
		ft := fld.Type()
		lenDelimited := func(l *smt.Term) *smt.Term { return c.IAdd(c.IAdd(tagLen, in.pbVarintSize(l)), l) }
		scalarSize := func(v value, t types.Type) *smt.Term {
			switch pf.wire {
			case "fixed64":
				return c.Inti(8)
			case "fixed32":
				return c.Inti(4)
			}
			return in.pbVarintSize(in.pbScalarU(v, t, pf.wire))
		}
		if pf.rep {
			sl, isSl := ft.Underlying().(*types.Slice)
			if !isSl {
				in.unsupported("proto.Size: repeated field that is not a slice: " + fld.Name())
			}
			elems := in.materialize(s[i])
			if len(elems) == 0 {
				continue
			}
			et := sl.Elem()
			switch {
			case pf.wire == "bytes":
				for _, e := range elems {
					if pt, isPtr := et.Underlying().(*types.Pointer); isPtr {
						ep, _ := e.(*value)
						if ep == nil {
							add(lenDelimited(c.Inti(0)))
						} else {
							add(lenDelimited(in.pbSize(ep, pt.Elem(), depth+1)))
						}
					} else {
						add(lenDelimited(in.pbLenOf(e)))
					}
				}
			default:
				// proto3 scalar repeated fields are packed
				body := c.Inti(0)
				for _, e := range elems {
					body = c.IAdd(body, scalarSize(e, et))
				}
				add(lenDelimited(body))
			}
			continue
		}
		switch ut := ft.Underlying().(type) {
		case *types.Pointer:
			ep, _ := s[i].(*value)
			if ep == nil {
				continue
			}
			if _, isStruct := ut.Elem().Underlying().(*types.Struct); !isStruct {
				in.unsupported("proto.Size: optional scalar pointer field " + fld.Name())
			}
			add(lenDelimited(in.pbSize(ep, ut.Elem(), depth+1)))
		case *types.Slice, *types.Basic:
			if pf.wire == "bytes" {
				l := in.pbLenOf(s[i])
				if l.IsConst() {
					if l.V.Sign() != 0 {
						add(lenDelimited(l))
					}
				} else {
					add(c.Ite(c.Eq(l, c.Inti(0)), c.Inti(0), lenDelimited(l)))
				}
				continue
			}
			u := in.pbScalarU(s[i], ft, pf.wire)
			sz := c.IAdd(tagLen, scalarSize(s[i], ft))
			if u.IsConst() {
				if u.V.Sign() != 0 {
					add(sz)
				}
			} else {
				add(c.Ite(c.Eq(u, c.Inti(0)), c.Inti(0), sz))
			}
		default:
			in.unsupported("proto.Size: field " + fld.Name() + " of type " + ft.String())
		}
	}
	return total
}

func (in *Interp) protoSize(msg value) value {
	intB := basicOf(types.Typ[types.Int])
	m, ok := msg.(iface)
	if !ok || m.t == nil {
		return in.intConst(intB, big.NewInt(0))
	}
	pt, ok := m.t.Underlying().(*types.Pointer)
	if !ok {
		in.unsupported("proto.Size of non-pointer message " + m.t.String())
	}
	p, _ := m.v.(*value)
	if p == nil {
		return in.intConst(intB, big.NewInt(0))
	}
	sz := in.pbSize(p, pt.Elem(), 0)
	if sz.IsConst() {
		return in.intConst(intB, sz.V)
	}
	if in.useInt(intB) {
		return sz
	}
	return in.ctx.Int2BV(sz, intWidth(intB))
}

func init() {
	size := func(in *Interp, c *frame, fn *ssa.Function, a []value) value { return in.protoSize(a[0]) }
	reg(aergoPrefix+"/internal/enc/proto.Size", size)
	reg("github.com/golang/protobuf/proto.Size", size)
	reg("google.golang.org/protobuf/proto.Size", size)
}
