package sym

import (
	"math/big"

	"gosym/smt"
)

// Structural decision of equalities between byte strings that embed digests.
//
// Under the assumptions the engine already makes for modelled hashes (collision freedom: H_n(x) = H_n(y) <=> x = y,
// H_n(x) != H_m(y) for n != m; digest genericity, see intr_hashgen.go) an equality between two 32-byte windows that are
// both complete digests is rewritten to the equality of the hashed inputs (recursively), and a 31-byte window in
// which one digest is compared with another digest shifted by one byte is false. Most hash comparisons of
// content-addressed structures (trie nodes, merkle roots, store keys) are then decided by constant folding and never
// reach the solver; whatever is left is compared bytewise as before (the lemmas stay asserted for the solver).

// digestOf returns the hash application whose digest is exactly the 32 byte terms ts (nil if they are not one).
func (in *Interp) digestOf(ts []*smt.Term) *hashApp {
	if len(ts) != 32 || in.hashOut == nil {
		return nil
	}
	t0 := ts[0]
	if t0.IsConst() {
		v := new(big.Int)
		for _, t := range ts {
			if !t.IsConst() {
				return nil
			}
			v.Lsh(v, 8).Or(v, t.V)
		}
		return in.hashOut[in.ctx.BV(v, 256).ID]
	}
	if t0.Op != "extract" || t0.I1 != 255 || t0.I2 != 248 {
		return nil
	}
	o := t0.A[0]
	a := in.hashOut[o.ID]
	if a == nil {
		return nil
	}
	for j, t := range ts {
		if t.Op != "extract" || t.A[0] != o || t.I1 != 255-8*j || t.I2 != 248-8*j {
			return nil
		}
	}
	return a
}

// digestByte: t is byte number j of the (symbolic) digest o.
func (in *Interp) digestByte(t *smt.Term) (o *smt.Term, j int, ok bool) {
	if t.Op != "extract" || t.I1-t.I2 != 7 || (255-t.I1)%8 != 0 {
		return nil, 0, false
	}
	o = t.A[0]
	if o.S.W != 256 || in.hashOut == nil || in.hashOut[o.ID] == nil {
		return nil, 0, false
	}
	return o, (255 - t.I1) / 8, true
}

// shiftedDigests: xs (31 terms) are bytes 0..30 of one digest and ys bytes 1..31 of a digest, or the other way round.
func (in *Interp) shiftedDigests(xs, ys []*smt.Term) bool {
	ox, jx, ok1 := in.digestByte(xs[0])
	oy, jy, ok2 := in.digestByte(ys[0])
	if !ok1 || !ok2 || !((jx == 0 && jy == 1) || (jx == 1 && jy == 0)) {
		return false
	}
	for k := range xs {
		o1, j1, ok1 := in.digestByte(xs[k])
		o2, j2, ok2 := in.digestByte(ys[k])
		if !ok1 || !ok2 || o1 != ox || o2 != oy || j1 != jx+k || j2 != jy+k {
			return false
		}
	}
	return true
}

func (in *Interp) digestEq(a, b *hashApp) *smt.Term {
	c := in.ctx
	if a == b || a.output == b.output {
		return c.True()
	}
	if a.n != b.n {
		return c.False()
	}
	if a.output.IsConst() && b.output.IsConst() {
		return c.False() // two different real digests
	}
	key := [2]int{a.output.ID, b.output.ID}
	if key[0] > key[1] {
		key[0], key[1] = key[1], key[0]
	}
	if r, ok := in.digestEqMemo[key]; ok {
		return r
	}
	if in.digestEqMemo == nil {
		in.digestEqMemo = map[[2]int]*smt.Term{}
	}
	r := in.eqByteTerms(a.parts, b.parts)
	in.digestEqMemo[key] = r
	return r
}

// eqByteTerms builds x == y for two byte strings of equal length.
func (in *Interp) eqByteTerms(x, y []*smt.Term) *smt.Term {
	c := in.ctx
	if len(x) != len(y) {
		return c.False()
	}
	var cs []*smt.Term
	for i := 0; i < len(x); {
		if x[i] == y[i] {
			i++
			continue
		}
		if i+32 <= len(x) {
			// a digest is never 32 zero bytes (aergo's "no hash"; the engine's standing assumption digest != 0)
			if (allZeroBytes(y[i:i+32]) && in.digestOf(x[i:i+32]) != nil) || (allZeroBytes(x[i:i+32]) && in.digestOf(y[i:i+32]) != nil) {
				return c.False()
			}
			if a := in.digestOf(x[i : i+32]); a != nil {
				if b := in.digestOf(y[i : i+32]); b != nil {
					r := in.digestEq(a, b)
					if r.IsFalse() {
						return r
					}
					cs = append(cs, r)
					i += 32
					continue
				}
			}
		}
		if i+31 <= len(x) && in.shiftedDigests(x[i:i+31], y[i:i+31]) {
			return c.False()
		}
		r := c.Eq(x[i], y[i])
		if r.IsFalse() {
			return r
		}
		cs = append(cs, r)
		i++
	}
	return c.And(cs...)
}

// termBytes: all elements are 8-bit terms?
func termBytes(vs []value) ([]*smt.Term, bool) {
	out := make([]*smt.Term, len(vs))
	for i, v := range vs {
		t, ok := v.(*smt.Term)
		if !ok || t.S.K != smt.KBV || t.S.W != 8 {
			return nil, false
		}
		out[i] = t
	}
	return out, true
}

func allZeroBytes(ts []*smt.Term) bool {
	for _, t := range ts {
		if !t.IsConst() || t.V.Sign() != 0 {
			return false
		}
	}
	return true
}
