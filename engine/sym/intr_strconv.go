package sym

import (
	"go/types"
	"strconv"

	"gosym/smt"

	"golang.org/x/tools/go/ssa"
)

// strconv integer formatting: exact on concrete arguments (the real SSA is not needed for that); for a symbolic
// argument the text is an opaque token (formatting is never the subject of a check, it ends up in error texts and
// Stringer results). The functions are total, so replacing the digit loop by a token hides no panic.

func init() {
	fmtInt := func(signed bool, bits int) intrinsic {
		return func(in *Interp, c *frame, fn *ssa.Function, a []value) value {
			t := a[0].(*smt.Term)
			base := 10
			if len(a) > 1 {
				bt := a[1].(*smt.Term)
				if !bt.IsConst() {
					return in.newOpaqueStr("strconv.Format")
				}
				base = int(in.termInt(bt, types.Typ[types.Int]).Int64())
			}
			if t.IsConst() && base >= 2 && base <= 36 {
				var pt types.Type = types.Typ[types.Int64]
				if !signed {
					pt = types.Typ[types.Uint64]
				} else if bits == 0 {
					pt = types.Typ[types.Int]
				}
				v := in.termInt(t, pt)
				if signed {
					return strconv.FormatInt(v.Int64(), base)
				}
				return strconv.FormatUint(v.Uint64(), base)
			}
			if base < 2 || base > 36 {
				panic(goPanic{msg: "strconv: illegal AppendInt/FormatInt base"})
			}
			return in.newOpaqueStr("strconv.Format")
		}
	}
	reg("strconv.FormatInt", fmtInt(true, 64))
	reg("strconv.FormatUint", fmtInt(false, 64))
	reg("strconv.Itoa", fmtInt(true, 0))
}
