package sym

import (
	"go/types"

	"gosym/smt"

	"golang.org/x/tools/go/ssa"
)

// github.com/willf/bloom: the filter's bit content is OPAQUE. Add hashes its argument with murmur3 (unsafe pointer
// casts, not executable here) and sets k bits; nothing the checks decide depends on which bits.
//
//	Add / AddString   no effect on the (unmodelled) bit content, returns the receiver
//	Test / TestString a fresh boolean (sound over-approximation: the real filter has false positives anyway)
//	GobEncode         the exact 24-byte header (m, k, bit length as big-endian uint64) followed by 8*ceil(m/64) fresh
//	                  bytes (the bit content), nil error
//
// New / Merge / Copy / ReadFrom run as real code over the (all-zero) bitset. A harness must not observe filter bytes
// (the native run has the real bits): they are unconstrained here, so no verdict can depend on them.
func init() {
	bf := "(*github.com/willf/bloom.BloomFilter)."
	recvField := func(in *Interp, a []value, i int, what string) int {
		p := a[0].(*value)
		if p == nil {
			panic(goPanic{msg: "nil *bloom.BloomFilter dereference"})
		}
		st, ok := (*p).(structure)
		if !ok || len(st) < 2 {
			in.unsupported("bloom.BloomFilter: unexpected receiver layout")
		}
		return in.asInt(st[i], types.Typ[types.Uint], what)
	}
	add := func(in *Interp, c *frame, fn *ssa.Function, a []value) value {
		if a[0].(*value) == nil {
			panic(goPanic{msg: "nil *bloom.BloomFilter dereference"})
		}
		return a[0]
	}
	test := func(in *Interp, c *frame, fn *ssa.Function, a []value) value {
		if a[0].(*value) == nil {
			panic(goPanic{msg: "nil *bloom.BloomFilter dereference"})
		}
		return in.freshBool("bloom.Test")
	}
	reg(bf+"Add", add)
	reg(bf+"AddString", add)
	reg(bf+"Test", test)
	reg(bf+"TestString", test)
	reg(bf+"GobEncode", func(in *Interp, c *frame, fn *ssa.Function, a []value) value {
		m := recvField(in, a, 0, "bloom.m")
		k := recvField(in, a, 1, "bloom.k")
		if m < 0 || m > 1<<20 {
			in.unsupported("bloom.GobEncode: filter size out of range")
		}
		words := (m + 63) / 64
		out := make(sliceV, 0, 24+8*words)
		be := func(x int) {
			for i := 7; i >= 0; i-- {
				out = append(out, in.ctx.BVu(uint64(x>>(8*uint(i)))&0xff, 8))
			}
		}
		be(m)
		be(k)
		be(m)
		for i := 0; i < 8*words; i++ {
			out = append(out, in.nondetTerm("$bloom.bits", smt.BVSort(8)))
		}
		return tuple{out, iface{}}
	})
}
