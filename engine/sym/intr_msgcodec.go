package sym

import (
	"fmt"
	"go/token"
	"go/types"
	"math/big"
	"strings"

	"gosym/smt"

	"golang.org/x/tools/go/ssa"
)

// Message codecs that are not under test (protobuf, gob): the engine does not interpret the wire format.
// Encode(x) returns an opaque []byte token that carries a deep snapshot of the encoded fields of x,
// Decode(token, &y) restores it, so Decode(Encode(x)) == x field by field (with the codec's own normalisation:
// protobuf/gob do not distinguish nil from empty slices; gob transmits exported non-zero fields only).
// Two tokens are equal iff their snapshots are (the encodings are deterministic and injective on the encoded
// fields). The only other operations on a token are len, comparison with nil and pass-through (storing it in
// the KV model); byte access is unsupported (=> inconclusive). Natively the real codecs run.

type opaqueBytes struct {
	id   int
	kind string     // "proto" | "gob" | "gobbin"
	typ  types.Type // type of the encoded object (struct type, not the pointer)
	snap value
	lenT *smt.Term
}

func exportedField(f *types.Var) bool {
	return f.Exported() && !strings.HasPrefix(f.Name(), "XXX_")
}

// codecCopy deep-copies v (of static type t) keeping only what the codec transmits.
func (in *Interp) codecCopy(v value, t types.Type, kind string, depth int) value {
	if depth > 64 {
		in.unsupported("codec snapshot: object graph too deep (cyclic?)")
	}
	switch u := t.Underlying().(type) {
	case *types.Pointer:
		p, ok := v.(*value)
		if !ok || p == nil {
			return (*value)(nil)
		}
		cell := new(value)
		*cell = in.codecCopy(*p, u.Elem(), kind, depth+1)
		return cell
	case *types.Struct:
		if isBigInt(t) {
			return v
		}
		s, ok := v.(structure)
		if !ok {
			return v
		}
		out := make(structure, len(s))
		for i := range s {
			f := u.Field(i)
			if exportedField(f) {
				out[i] = in.codecCopy(s[i], f.Type(), kind, depth+1)
			} else {
				out[i] = in.zero(f.Type())
			}
		}
		return out
	case *types.Slice:
		switch s := v.(type) {
		case sliceV:
			if len(s) == 0 {
				return sliceV(nil)
			}
			out := make(sliceV, len(s))
			for i := range s {
				out[i] = in.codecCopy(s[i], u.Elem(), kind, depth+1)
			}
			return out
		case *bigBytes, *opaqueBytes:
			return v
		}
		return v
	case *types.Array:
		a, ok := v.(array)
		if !ok {
			return v
		}
		out := make(array, len(a))
		for i := range a {
			out[i] = in.codecCopy(a[i], u.Elem(), kind, depth+1)
		}
		return out
	case *types.Map:
		m, ok := v.(*mapV)
		if !ok || m == nil || len(m.entries) == 0 {
			return (*mapV)(nil)
		}
		out := &mapV{kt: m.kt}
		for _, e := range m.entries {
			out.entries = append(out.entries, &mapEntry{k: in.codecCopy(e.k, u.Key(), kind, depth+1), v: in.codecCopy(e.v, u.Elem(), kind, depth+1)})
		}
		return out
	case *types.Interface:
		i, ok := v.(iface)
		if !ok || i.t == nil {
			return iface{}
		}
		return iface{t: i.t, v: in.codecCopy(i.v, i.t, kind, depth+1)}
	}
	return v
}

// codecDefault: Bool term "v is the zero value the codec does not transmit".
func (in *Interp) codecDefault(v value, t types.Type) *smt.Term {
	c := in.ctx
	switch x := v.(type) {
	case *smt.Term:
		switch x.S.K {
		case smt.KBool:
			return c.Not(x)
		case smt.KInt:
			return c.Eq(x, c.Inti(0))
		}
		return c.Eq(x, c.BVi(0, x.S.W))
	case float64:
		return c.Bool(x == 0)
	case complex128:
		return c.Bool(x == 0)
	case string:
		return c.Bool(len(x) == 0)
	case *symStr:
		return c.Bool(len(x.b) == 0)
	case *opaqueStr:
		return c.False()
	case sliceV:
		return c.Bool(len(x) == 0)
	case *bigBytes:
		return c.Eq(x.t, c.Inti(0))
	case *opaqueBytes:
		return c.Eq(in.opaqueBytesLen(x), in.intConst(basicOf(types.Typ[types.Int]), big.NewInt(0)))
	case *value:
		return c.Bool(x == nil)
	case *mapV:
		return c.Bool(x == nil || len(x.entries) == 0)
	case iface:
		return c.Bool(x.t == nil)
	case bigV:
		return c.Eq(x.t, c.Inti(0))
	case structure:
		st, ok := t.Underlying().(*types.Struct)
		var cs []*smt.Term
		for i := range x {
			if ok && !exportedField(st.Field(i)) {
				continue
			}
			var ft types.Type
			if ok {
				ft = st.Field(i).Type()
			}
			cs = append(cs, in.codecDefault(x[i], ft))
		}
		return c.And(cs...)
	case array:
		var cs []*smt.Term
		for i := range x {
			cs = append(cs, in.codecDefault(x[i], nil))
		}
		return c.And(cs...)
	case nil:
		return c.True()
	}
	return c.False()
}

// codecEq: Bool term "the two snapshots encode to the same bytes".
func (in *Interp) codecEq(x, y value) *smt.Term {
	c := in.ctx
	switch xv := x.(type) {
	case *value:
		yv, ok := y.(*value)
		if !ok {
			return c.False()
		}
		if xv == nil || yv == nil {
			return c.Bool(xv == nil && yv == nil)
		}
		return in.codecEq(*xv, *yv)
	case structure:
		yv, ok := y.(structure)
		if !ok || len(xv) != len(yv) {
			return c.False()
		}
		var cs []*smt.Term
		for i := range xv {
			cs = append(cs, in.codecEq(xv[i], yv[i]))
		}
		return c.And(cs...)
	case array:
		yv, ok := y.(array)
		if !ok || len(xv) != len(yv) {
			return c.False()
		}
		var cs []*smt.Term
		for i := range xv {
			cs = append(cs, in.codecEq(xv[i], yv[i]))
		}
		return c.And(cs...)
	case sliceV:
		switch yv := y.(type) {
		case sliceV:
			if len(xv) != len(yv) {
				return c.False()
			}
			var cs []*smt.Term
			for i := range xv {
				cs = append(cs, in.codecEq(xv[i], yv[i]))
			}
			return c.And(cs...)
		case *bigBytes:
			return in.bytesEqual(xv, yv)
		}
		return c.False()
	case *bigBytes:
		return in.bytesEqual(xv, y)
	case *opaqueBytes:
		yv, ok := y.(*opaqueBytes)
		if !ok {
			return c.False()
		}
		return in.tokenEq(xv, yv)
	case *mapV:
		yv, _ := y.(*mapV)
		if (xv == nil || len(xv.entries) == 0) && (yv == nil || len(yv.entries) == 0) {
			return c.True()
		}
		in.unsupported("comparison of codec tokens containing maps")
	case iface:
		yv, ok := y.(iface)
		if !ok {
			return c.False()
		}
		if xv.t == nil || yv.t == nil {
			return c.Bool(xv.t == nil && yv.t == nil)
		}
		if !types.Identical(xv.t, yv.t) {
			return c.False()
		}
		return in.codecEq(xv.v, yv.v)
	case nil:
		return c.Bool(y == nil)
	}
	return in.eq(x, y)
}

func (in *Interp) tokenEq(x, y *opaqueBytes) *smt.Term {
	if x == y {
		return in.ctx.True()
	}
	if x.kind != y.kind || !types.Identical(x.typ, y.typ) {
		// encodings of different message types: relation unknown
		in.unsupported("comparison of codec tokens of different kinds/types")
	}
	return in.codecEq(x.snap, y.snap)
}

func (in *Interp) opaqueBytesLen(x *opaqueBytes) *smt.Term {
	if x.lenT != nil {
		return x.lenT
	}
	intB := basicOf(types.Typ[types.Int])
	zero := in.intConst(intB, big.NewInt(0))
	var empty *smt.Term
	switch x.kind {
	case "proto":
		empty = in.codecDefault(x.snap, x.typ)
	default:
		empty = in.ctx.False() // a gob stream always carries the type description
	}
	if empty.IsTrue() {
		x.lenT = zero
		return zero
	}
	t := in.nondetInt("$codec_len", intB)
	c := in.ctx
	if !t.IsConst() {
		// 0 <= len < 2^31, len == 0 <=> nothing to transmit
		var ge0, lt *smt.Term
		if t.S.K == smt.KInt {
			ge0, lt = c.ILe(c.Inti(0), t), c.ILt(t, c.Inti(1<<31))
		} else {
			ge0, lt = c.BVSle(c.BVi(0, t.S.W), t), c.BVSlt(t, c.BVi(1<<31, t.S.W))
		}
		in.addLemma(c.And(ge0, lt))
		in.addLemma(c.Eq(c.Eq(t, zero), empty))
	} else if in.cfg.Concrete != nil {
		// concrete replay of a model: the recorded length may be absent; any positive value is as good
		if !empty.IsTrue() && t.V.Sign() == 0 {
			t = in.intConst(intB, big.NewInt(1))
		}
	}
	x.lenT = t
	return t
}

func (in *Interp) newToken(kind string, t types.Type, snap value) *opaqueBytes {
	in.objSeq++
	return &opaqueBytes{id: in.objSeq, kind: kind, typ: t, snap: snap}
}

// encodeMsg builds the token for message m (an interface value holding a pointer to a struct, or a plain value).
func (in *Interp) encodeMsg(kind string, m iface) (value, bool) {
	if m.t == nil {
		return nil, false
	}
	if pt, ok := m.t.Underlying().(*types.Pointer); ok {
		p, _ := m.v.(*value)
		if p == nil {
			return nil, false
		}
		return in.newToken(kind, pt.Elem(), in.codecCopy(*p, pt.Elem(), kind, 0)), true
	}
	return in.newToken(kind, m.t, in.codecCopy(m.v, m.t, kind, 0)), true
}

func isZeroSyntactic(v value) bool {
	switch x := v.(type) {
	case *smt.Term:
		if !x.IsConst() {
			return false
		}
		if x.S.K == smt.KBool {
			return x.IsFalse()
		}
		return x.V.Sign() == 0
	case float64:
		return x == 0
	case string:
		return x == ""
	case sliceV:
		return len(x) == 0
	case *value:
		return x == nil
	case *mapV:
		return x == nil || len(x.entries) == 0
	case iface:
		return x.t == nil
	case structure:
		for _, e := range x {
			if !isZeroSyntactic(e) {
				return false
			}
		}
		return true
	case array:
		for _, e := range x {
			if !isZeroSyntactic(e) {
				return false
			}
		}
		return true
	case bigV:
		return x.t.IsConst() && x.t.V.Sign() == 0
	case nil:
		return true
	}
	return false
}

// gobMerge stores the transmitted fields of snap into the target structure (fields with zero value are not
// transmitted by gob and leave the target untouched).
func (in *Interp) gobMerge(dst *value, snap value, t types.Type) {
	st, isStruct := t.Underlying().(*types.Struct)
	if s, ok := snap.(structure); ok && isStruct {
		d, ok := (*dst).(structure)
		if !ok {
			in.unsupported("gob decode into a non-struct target")
		}
		for i := range s {
			if !exportedField(st.Field(i)) {
				continue
			}
			ft := st.Field(i).Type()
			if isZeroSyntactic(s[i]) {
				continue
			}
			if _, nested := ft.Underlying().(*types.Struct); nested && !isBigInt(ft) {
				in.gobMerge(&d[i], s[i], ft)
				continue
			}
			nv := in.codecCopy(s[i], ft, "gob", 0)
			if tm, ok := nv.(*smt.Term); ok && !tm.IsConst() && !isZeroSyntactic(d[i]) {
				// symbolic scalar that may be zero (then not transmitted): old value stays
				old := d[i].(*smt.Term)
				d[i] = in.ctx.Ite(in.codecDefault(tm, ft), old, tm)
				continue
			}
			d[i] = nv
		}
		return
	}
	if isZeroSyntactic(snap) {
		return
	}
	*dst = in.codecCopy(snap, t, "gob", 0)
}

func (in *Interp) decodeMsg(kind string, buf value, m iface, what string) value {
	okRes := iface{}
	if m.t == nil {
		return in.newOpaqueErr(what + ": nil target")
	}
	pt, ok := m.t.Underlying().(*types.Pointer)
	p, _ := m.v.(*value)
	if !ok || p == nil {
		return in.newOpaqueErr(what + ": target is not a non-nil pointer")
	}
	switch b := buf.(type) {
	case *opaqueBytes:
		if b.kind == "gobbin" && kind == "gob" {
			r := in.callIfaceMethod(nil, m, "UnmarshalBinary", b.snap)
			return r
		}
		if b.kind != kind {
			in.unsupported(what + " of a token produced by another codec (" + b.kind + ")")
		}
		if !types.Identical(b.typ, pt.Elem()) {
			in.unsupported(fmt.Sprintf("%s of an encoded %v into %v (wire-level reinterpretation is not modelled)", what, b.typ, pt.Elem()))
		}
		if kind == "proto" {
			// Unmarshal = Reset + Merge
			in.assignInto(p, in.codecCopy(b.snap, b.typ, kind, 0))
		} else {
			in.gobMerge(p, b.snap, b.typ)
		}
		return okRes
	case sliceV:
		if len(b) == 0 {
			if kind == "proto" {
				in.assignInto(p, in.zero(pt.Elem()))
				return okRes
			}
			return in.newOpaqueErr(what + ": EOF")
		}
	case nil:
		if kind == "proto" {
			in.assignInto(p, in.zero(pt.Elem()))
			return okRes
		}
		return in.newOpaqueErr(what + ": EOF")
	}
	in.unsupported(what + " of raw bytes that are not a codec token")
	return nil
}

func init() {
	encProto := func(in *Interp, c *frame, fn *ssa.Function, a []value) value {
		m, _ := a[len(a)-1].(iface)
		tok, ok := in.encodeMsg("proto", m)
		if !ok {
			return tuple{sliceV(nil), in.newOpaqueErr("proto.Marshal: nil message")}
		}
		return tuple{tok, iface{}}
	}
	decProto := func(in *Interp, c *frame, fn *ssa.Function, a []value) value {
		m, _ := a[len(a)-1].(iface)
		return in.decodeMsg("proto", a[len(a)-2], m, "proto.Unmarshal")
	}
	sizeProto := func(in *Interp, c *frame, fn *ssa.Function, a []value) value {
		m, _ := a[len(a)-1].(iface)
		tok, ok := in.encodeMsg("proto", m)
		if !ok {
			return in.intConst(basicOf(types.Typ[types.Int]), big.NewInt(0))
		}
		return in.opaqueBytesLen(tok.(*opaqueBytes))
	}
	for _, p := range []string{aergoPrefix + "/internal/enc/proto.", "github.com/golang/protobuf/proto.", "google.golang.org/protobuf/proto."} {
		enc, dec := "Marshal", "Unmarshal"
		if strings.HasPrefix(p, aergoPrefix) {
			enc, dec = "Encode", "Decode"
		}
		reg(p+enc, encProto)
		reg(p+dec, decProto)
		reg(p+"Size", sizeProto)
	}
	reg(aergoPrefix+"/internal/enc/gob.Encode", func(in *Interp, c *frame, fn *ssa.Function, a []value) value {
		m, _ := a[0].(iface)
		if m.t != nil && in.hasMethod(m.t, "MarshalBinary") {
			// gob delegates to encoding.BinaryMarshaler: the real method runs, its output is wrapped
			r := in.callIfaceMethod(c, m, "MarshalBinary").(tuple)
			if e, _ := r[1].(iface); e.t != nil {
				return tuple{sliceV(nil), r[1]}
			}
			return tuple{in.newToken("gobbin", m.t, r[0]), iface{}}
		}
		tok, ok := in.encodeMsg("gob", m)
		if !ok {
			return tuple{sliceV(nil), in.newOpaqueErr("gob.Encode: nil value")}
		}
		return tuple{tok, iface{}}
	})
	reg(aergoPrefix+"/internal/enc/gob.Decode", func(in *Interp, c *frame, fn *ssa.Function, a []value) value {
		m, _ := a[1].(iface)
		return in.decodeMsg("gob", a[0], m, "gob.Decode")
	})
	_ = token.NoPos
}

// tokenNilEq: token == nil. A token is a non-nil slice unless nothing was encoded (then nil/empty is the codec's
// business; aergo always tests len() as well).
func (in *Interp) tokenNilEq(x *opaqueBytes, other value) *smt.Term {
	if !isNilValue(other) {
		if o, ok := other.(sliceV); !ok || o != nil {
			return in.ctx.False()
		}
	}
	l := in.opaqueBytesLen(x)
	if l.IsConst() && l.V.Sign() != 0 {
		return in.ctx.False()
	}
	return in.ctx.Eq(l, in.intConst(basicOf(types.Typ[types.Int]), big.NewInt(0)))
}

// tokenBytesEqual handles bytes.Equal when a codec token is involved.
func (in *Interp) tokenBytesEqual(a, b value) (*smt.Term, bool) {
	x, xok := a.(*opaqueBytes)
	y, yok := b.(*opaqueBytes)
	if !xok && !yok {
		return nil, false
	}
	if xok && yok {
		return in.tokenEq(x, y), true
	}
	tok, other := x, b
	if yok {
		tok, other = y, a
	}
	if s, ok := other.(sliceV); ok && len(s) == 0 {
		return in.ctx.Eq(in.opaqueBytesLen(tok), in.intConst(basicOf(types.Typ[types.Int]), big.NewInt(0))), true
	}
	in.unsupported("bytes.Equal of a codec token with raw bytes")
	return nil, true
}

func init() {
	noop := func(in *Interp, c *frame, fn *ssa.Function, a []value) value { return nil }
	reg("runtime.LockOSThread", noop)
	reg("runtime.UnlockOSThread", noop)
	// internal/abi.NoEscape hides a pointer from escape analysis through uintptr arithmetic: identity
	reg("internal/abi.NoEscape", func(in *Interp, c *frame, fn *ssa.Function, a []value) value { return a[0] })
}
