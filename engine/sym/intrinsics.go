package sym

import (
	"crypto/sha256"
	"fmt"
	"go/token"
	"go/types"
	"math/big"
	"sort"
	"strings"

	"gosym/smt"

	"golang.org/x/tools/go/ssa"
)

const aergoPrefix = "github.com/aergoio/aergo/v2"
const vfPkg = aergoPrefix + "/zzvf"

type intrinsic func(in *Interp, caller *frame, fn *ssa.Function, args []value) value

var intrinsics = map[string]intrinsic{}

var interpretedPkgs = map[string]bool{
	"errors": true, "bytes": true, "strings": true, "sort": true, "container/list": true, "container/heap": true,
	"encoding/binary": true, "encoding/hex": true, "unicode/utf8": true, "unicode": true, "strconv": true,
	"math/bits": true, "math": true, "io": true, "slices": true, "maps": true, "cmp": true, "bufio": true,
	"internal/bytealg": true, "internal/itoa": true, "internal/stringslite": true, "iter": true,
	"github.com/emirpasic/gods/trees/redblacktree": true, "github.com/emirpasic/gods/utils": true,
	"github.com/emirpasic/gods/containers": true, "github.com/emirpasic/gods/trees": true,
	"encoding/base64": true, "internal/byteorder": true, "hash": true, "unique": false,
	"github.com/golang/protobuf/proto": false,
}

var noopPkgs = []string{
	"github.com/aergoio/aergo-lib/log", "github.com/rs/zerolog", "log", "github.com/sanity-io/litter",
	"github.com/davecgh/go-spew/spew", "runtime/debug", "github.com/aergoio/aergo/v2/internal/enc/proto?",
}

func (in *Interp) interpretedPkg(path string) bool {
	if strings.HasPrefix(path, aergoPrefix) {
		return true
	}
	if in.extraInterp[path] {
		return true
	}
	return interpretedPkgs[path]
}

func isNoopPkg(path string) bool {
	for _, p := range noopPkgs {
		if path == p || strings.HasPrefix(path, p+"/") {
			return true
		}
	}
	return false
}

// policyCall applies the package policy to a call of fn (not an intrinsic, not a harness stub).
func (in *Interp) policyCall(caller *frame, fn *ssa.Function, pkgPath string, args []value) (value, bool) {
	if pkgPath == "" || in.interpretedPkg(pkgPath) {
		return nil, false
	}
	name := fn.String()
	if isNoopPkg(pkgPath) {
		in.res.StubsHit["noop:"+pkgPath]++
		return in.zeroNonNil(fn.Signature.Results()), true
	}
	switch pkgPath {
	case "fmt":
		in.res.StubsHit["fmt(opaque)"]++
		switch fn.Name() {
		case "Sprintf", "Sprint", "Sprintln":
			// constant format without verbs and no args stays concrete
			if fn.Name() == "Sprintf" {
				if s, ok := args[0].(string); ok && len(in.materialize(args[1])) == 0 && !strings.Contains(s, "%") {
					return s, true
				}
			}
			if fn.Name() == "Sprintf" {
				if r, ok := in.sprintfExact(args[0], in.materialize(args[1])); ok {
					return r, true
				}
			}
			return in.newOpaqueStr("fmt." + fn.Name()), true
		case "Errorf":
			return in.newOpaqueErr("fmt.Errorf"), true
		case "Println", "Printf", "Print", "Fprintf", "Fprintln", "Fprint":
			return in.zero(fn.Signature.Results()), true
		}
	case "sync":
		in.res.StubsHit["sync(no-op)"]++
		switch fn.Name() {
		case "Do": // (*Once).Do
			p := args[0].(*value)
			if _, done := in.sideTab[p]; !done {
				in.sideTab[p] = true
				in.call(caller, args[1], nil, token.NoPos)
			}
			return nil, true
		case "Lock", "Unlock", "RLock", "RUnlock", "Add", "Done", "Wait", "TryLock", "Broadcast", "Signal":
			if fn.Signature.Results().Len() == 0 {
				return nil, true
			}
		}
	case "sync/atomic":
		if r, ok := in.atomicCall(fn, args); ok {
			in.res.StubsHit["sync/atomic(plain cell)"]++
			return r, true
		}
	case "runtime":
		switch fn.Name() {
		case "Gosched", "GC", "KeepAlive", "SetFinalizer":
			return in.zero(fn.Signature.Results()), true
		case "NumCPU", "GOMAXPROCS":
			return in.intConst(basicOf(types.Typ[types.Int]), big.NewInt(4)), true
		}
	case "time":
		if r, ok := in.timeCall(fn, args); ok {
			return r, true
		}
	case "os":
		switch fn.Name() {
		case "Exit":
			panic(goPanic{msg: "os.Exit called"})
		case "Getenv":
			return "", true
		}
	}
	_ = name
	return nil, false
}

func (in *Interp) newOpaqueErr(tag string) value {
	in.objSeq++
	return iface{t: in.errType(), v: &opaqueObj{kind: "error", id: in.objSeq, data: tag}}
}

var errNamed = types.NewNamed(types.NewTypeName(token.NoPos, nil, "gosymOpaqueError", nil), types.NewStruct(nil, nil), nil)

func (in *Interp) errType() types.Type { return errNamed }

// engineMethod handles interface method calls on engine objects.
func (in *Interp) engineMethod(recv iface, m *types.Func) value {
	switch o := recv.v.(type) {
	case *opaqueObj:
		if o.kind == "error" {
			switch m.Name() {
			case "Error":
				return &nativeFn{name: "opaqueErr.Error", f: func(in *Interp, caller *frame, args []value) value {
					return &opaqueStr{id: -o.id, tag: fmt.Sprint(o.data)}
				}}
			}
		}
		in.unsupported("method " + m.Name() + " on opaque " + o.kind)
	case *hashState:
		return &nativeFn{name: "hash." + m.Name(), f: func(in *Interp, caller *frame, args []value) value {
			return in.hashMethod(o, m.Name(), args[1:])
		}}
	case *reflTyp:
		return in.reflTypeMethod(o, m)
	}
	return nil
}


func init() {
	// ------------------------------------------------------------ harness API
	v := vfPkg + "."
	reg(v+"Bool", func(in *Interp, c *frame, fn *ssa.Function, a []value) value {
		return in.nondetTerm(a[0].(string), smt.BoolSort)
	})
	for name, kind := range map[string]types.BasicKind{"U8": types.Uint8, "U16": types.Uint16, "U32": types.Uint32, "U64": types.Uint64,
		"I8": types.Int8, "I16": types.Int16, "I32": types.Int32, "I64": types.Int64, "Int": types.Int} {
		b := types.Typ[kind]
		reg(v+name, func(in *Interp, c *frame, fn *ssa.Function, a []value) value {
			return in.nondetInt(a[0].(string), b)
		})
	}
	reg(v+"Bytes", func(in *Interp, c *frame, fn *ssa.Function, a []value) value {
		n := in.asInt(a[1], types.Typ[types.Int], "vf.Bytes")
		out := make(sliceV, n)
		for i := range out {
			out[i] = in.nondetTerm(a[0].(string), smt.BVSort(8))
		}
		return out
	})
	reg(v+"Str", func(in *Interp, c *frame, fn *ssa.Function, a []value) value {
		n := in.asInt(a[1], types.Typ[types.Int], "vf.Str")
		bs := make([]*smt.Term, n)
		for i := range bs {
			bs[i] = in.nondetTerm(a[0].(string), smt.BVSort(8))
		}
		return in.mkStr(bs)
	})
	reg(v+"Big", func(in *Interp, c *frame, fn *ssa.Function, a []value) value {
		t := in.nondetTerm(a[0].(string), smt.IntSort)
		if !t.IsConst() {
			in.intBounds[t.ID] = [2]*big.Int{big.NewInt(0), nil}
			in.addLemma(in.ctx.ILe(in.ctx.Inti(0), t))
		}
		p := new(value)
		*p = bigV{t}
		return p
	})
	reg(v+"Assume", func(in *Interp, c *frame, fn *ssa.Function, a []value) value {
		in.assume(a[0].(*smt.Term))
		return nil
	})
	reg(v+"Assert", func(in *Interp, c *frame, fn *ssa.Function, a []value) value {
		in.assertOb(a[0].(*smt.Term), a[1].(string), "", nil)
		return nil
	})
	reg(v+"AssertKnown", func(in *Interp, c *frame, fn *ssa.Function, a []value) value {
		in.assertOb(a[0].(*smt.Term), a[1].(string), a[2].(string), a[3].(*smt.Term))
		return nil
	})
	reg(v+"Reach", func(in *Interp, c *frame, fn *ssa.Function, a []value) value {
		ob := a[0].(string)
		in.res.Reached[ob]++
		if _, ok := in.res.Witness[ob]; !ok && in.cfg.Concrete == nil {
			if in.solver.Check() == smt.Sat {
				in.res.Witness[ob] = in.model()
			}
		}
		return nil
	})
	reg(v+"Choice", func(in *Interp, c *frame, fn *ssa.Function, a []value) value {
		n := in.asInt(a[1], types.Typ[types.Int], "vf.Choice")
		name := a[0].(string)
		k := in.choiceNamed(n, name)
		return in.intConst(basicOf(types.Typ[types.Int]), big.NewInt(int64(k)))
	})
	reg(v+"Observe", func(in *Interp, c *frame, fn *ssa.Function, a []value) value {
		in.observations[a[0].(string)] = in.obsString(a[1])
		return nil
	})
	reg(v+"Note", func(in *Interp, c *frame, fn *ssa.Function, a []value) value {
		if s, ok := a[0].(string); ok {
			in.pathLog = append(in.pathLog, s)
		}
		return nil
	})
	reg(v+"And", func(in *Interp, c *frame, fn *ssa.Function, a []value) value {
		return in.ctx.And(a[0].(*smt.Term), a[1].(*smt.Term))
	})
	reg(v+"Or", func(in *Interp, c *frame, fn *ssa.Function, a []value) value {
		return in.ctx.Or(a[0].(*smt.Term), a[1].(*smt.Term))
	})
	reg(v+"Implies", func(in *Interp, c *frame, fn *ssa.Function, a []value) value {
		return in.ctx.Implies(a[0].(*smt.Term), a[1].(*smt.Term))
	})
	reg(v+"AllocLimit", func(in *Interp, c *frame, fn *ssa.Function, a []value) value {
		in.allocLimit = in.asInt(a[0], types.Typ[types.Int], "vf.AllocLimit")
		in.allocOb = a[1].(string)
		return nil
	})
	reg(v+"Param", func(in *Interp, c *frame, fn *ssa.Function, a []value) value {
		d := in.asInt(a[1], types.Typ[types.Int], "vf.Param")
		if p, ok := in.cfg.Params[a[0].(string)]; ok {
			d = p
		}
		return in.intConst(basicOf(types.Typ[types.Int]), big.NewInt(int64(d)))
	})
	reg(v+"Symbolic", func(in *Interp, c *frame, fn *ssa.Function, a []value) value {
		return in.ctx.Bool(in.cfg.Concrete == nil)
	})
	reg(v+"NoMapPerm", func(in *Interp, c *frame, fn *ssa.Function, a []value) value {
		in.noPerm = a[0].(*smt.Term).IsTrue()
		return nil
	})
	reg(v+"BigBytes", func(in *Interp, c *frame, fn *ssa.Function, a []value) value {
		// []byte image of an arbitrary non-negative big integer (length symbolic)
		t := in.nondetTerm(a[0].(string), smt.IntSort)
		if !t.IsConst() {
			in.intBounds[t.ID] = [2]*big.Int{big.NewInt(0), nil}
			in.addLemma(in.ctx.ILe(in.ctx.Inti(0), t))
		}
		return &bigBytes{t}
	})
	reg(v+"Fail", func(in *Interp, c *frame, fn *ssa.Function, a []value) value {
		in.assertOb(in.ctx.False(), a[0].(string), "", nil)
		return nil
	})
	reg(v+"OpaqueErr", func(in *Interp, c *frame, fn *ssa.Function, a []value) value {
		return in.newOpaqueErr(a[0].(string))
	})

	// ------------------------------------------------------------ math/big
	bigRecv := func(a value) *value {
		p := a.(*value)
		if p == nil {
			panic(goPanic{msg: "nil *big.Int dereference"})
		}
		return p
	}
	bigOf := func(in *Interp, a value) *smt.Term { return (*bigRecv(a)).(bigV).t }
	bin := func(f func(in *Interp, x, y *smt.Term) *smt.Term) intrinsic {
		return func(in *Interp, c *frame, fn *ssa.Function, a []value) value {
			z := bigRecv(a[0])
			r := f(in, bigOf(in, a[1]), bigOf(in, a[2]))
			*z = bigV{r}
			return z
		}
	}
	bi := "(*math/big.Int)."
	reg(bi+"Add", bin(func(in *Interp, x, y *smt.Term) *smt.Term { return in.ctx.IAdd(x, y) }))
	reg(bi+"Sub", bin(func(in *Interp, x, y *smt.Term) *smt.Term { return in.ctx.ISub(x, y) }))
	reg(bi+"Mul", bin(func(in *Interp, x, y *smt.Term) *smt.Term {
		r := in.ctx.IMul(x, y)
		if !x.IsConst() && !y.IsConst() {
			in.noteMul(r)
		}
		return r
	}))
	divf := func(euclid bool) func(in *Interp, x, y *smt.Term) *smt.Term {
		return func(in *Interp, x, y *smt.Term) *smt.Term {
			if in.branch(in.ctx.Eq(y, in.ctx.Inti(0)), "big-div-zero") {
				panic(goPanic{msg: "division by zero"})
			}
			if euclid {
				return in.ctx.IDiv(x, y)
			}
			return in.truncDiv(x, y)
		}
	}
	reg(bi+"Div", bin(divf(true)))
	reg(bi+"Quo", bin(divf(false)))
	reg(bi+"Mod", bin(func(in *Interp, x, y *smt.Term) *smt.Term {
		if in.branch(in.ctx.Eq(y, in.ctx.Inti(0)), "big-mod-zero") {
			panic(goPanic{msg: "division by zero"})
		}
		return in.ctx.IMod(x, y)
	}))
	reg(bi+"Rem", bin(func(in *Interp, x, y *smt.Term) *smt.Term {
		if in.branch(in.ctx.Eq(y, in.ctx.Inti(0)), "big-rem-zero") {
			panic(goPanic{msg: "division by zero"})
		}
		return in.ctx.ISub(x, in.ctx.IMul(in.truncDiv(x, y), y))
	}))
	reg(bi+"Cmp", func(in *Interp, c *frame, fn *ssa.Function, a []value) value {
		x, y := bigOf(in, a[0]), bigOf(in, a[1])
		intB := basicOf(types.Typ[types.Int])
		cx := in.ctx
		return cx.Ite(cx.ILt(x, y), in.intConst(intB, big.NewInt(-1)), cx.Ite(cx.Eq(x, y), in.intConst(intB, big.NewInt(0)), in.intConst(intB, big.NewInt(1))))
	})
	reg(bi+"CmpAbs", func(in *Interp, c *frame, fn *ssa.Function, a []value) value {
		cx := in.ctx
		abs := func(t *smt.Term) *smt.Term { return cx.Ite(cx.ILt(t, cx.Inti(0)), cx.INeg(t), t) }
		x, y := abs(bigOf(in, a[0])), abs(bigOf(in, a[1]))
		intB := basicOf(types.Typ[types.Int])
		return cx.Ite(cx.ILt(x, y), in.intConst(intB, big.NewInt(-1)), cx.Ite(cx.Eq(x, y), in.intConst(intB, big.NewInt(0)), in.intConst(intB, big.NewInt(1))))
	})
	reg(bi+"Sign", func(in *Interp, c *frame, fn *ssa.Function, a []value) value {
		x := bigOf(in, a[0])
		intB := basicOf(types.Typ[types.Int])
		cx := in.ctx
		z := cx.Inti(0)
		return cx.Ite(cx.ILt(x, z), in.intConst(intB, big.NewInt(-1)), cx.Ite(cx.Eq(x, z), in.intConst(intB, big.NewInt(0)), in.intConst(intB, big.NewInt(1))))
	})
	reg(bi+"Neg", func(in *Interp, c *frame, fn *ssa.Function, a []value) value {
		z := bigRecv(a[0])
		*z = bigV{in.ctx.INeg(bigOf(in, a[1]))}
		return z
	})
	reg(bi+"Abs", func(in *Interp, c *frame, fn *ssa.Function, a []value) value {
		z := bigRecv(a[0])
		x := bigOf(in, a[1])
		*z = bigV{in.ctx.Ite(in.ctx.ILt(x, in.ctx.Inti(0)), in.ctx.INeg(x), x)}
		return z
	})
	reg(bi+"Set", func(in *Interp, c *frame, fn *ssa.Function, a []value) value {
		z := bigRecv(a[0])
		*z = bigV{bigOf(in, a[1])}
		return z
	})
	reg(bi+"SetUint64", func(in *Interp, c *frame, fn *ssa.Function, a []value) value {
		z := bigRecv(a[0])
		*z = bigV{in.toInt(a[1].(*smt.Term), types.Typ[types.Uint64])}
		return z
	})
	reg(bi+"SetInt64", func(in *Interp, c *frame, fn *ssa.Function, a []value) value {
		z := bigRecv(a[0])
		*z = bigV{in.toInt(a[1].(*smt.Term), types.Typ[types.Int64])}
		return z
	})
	reg("math/big.NewInt", func(in *Interp, c *frame, fn *ssa.Function, a []value) value {
		p := new(value)
		*p = bigV{in.toInt(a[0].(*smt.Term), types.Typ[types.Int64])}
		return p
	})
	reg(bi+"Uint64", func(in *Interp, c *frame, fn *ssa.Function, a []value) value {
		// low 64 bits of |x|
		cx := in.ctx
		x := bigOf(in, a[0])
		ax := cx.Ite(cx.ILt(x, cx.Inti(0)), cx.INeg(x), x)
		return in.fromInt(ax, basicOf(types.Typ[types.Uint64]))
	})
	reg(bi+"Int64", func(in *Interp, c *frame, fn *ssa.Function, a []value) value {
		return in.fromInt(bigOf(in, a[0]), basicOf(types.Typ[types.Int64]))
	})
	reg(bi+"IsUint64", func(in *Interp, c *frame, fn *ssa.Function, a []value) value {
		cx := in.ctx
		x := bigOf(in, a[0])
		_, hi := typeRange(types.Typ[types.Uint64])
		return cx.And(cx.ILe(cx.Inti(0), x), cx.ILe(x, cx.Int(hi)))
	})
	reg(bi+"IsInt64", func(in *Interp, c *frame, fn *ssa.Function, a []value) value {
		cx := in.ctx
		x := bigOf(in, a[0])
		lo, hi := typeRange(types.Typ[types.Int64])
		return cx.And(cx.ILe(cx.Int(lo), x), cx.ILe(x, cx.Int(hi)))
	})
	reg(bi+"SetBytes", func(in *Interp, c *frame, fn *ssa.Function, a []value) value {
		z := bigRecv(a[0])
		*z = bigV{in.bytesToBig(a[1])}
		return z
	})
	reg(bi+"Bytes", func(in *Interp, c *frame, fn *ssa.Function, a []value) value {
		cx := in.ctx
		x := bigOf(in, a[0])
		if x.IsConst() {
			bs := new(big.Int).Abs(x.V).Bytes()
			out := make(sliceV, len(bs))
			for i, b := range bs {
				out[i] = cx.BVu(uint64(b), 8)
			}
			return out
		}
		ax := x
		if l, _ := in.bounds(x); l == nil || l.Sign() < 0 {
			ax = cx.Ite(cx.ILt(x, cx.Inti(0)), cx.INeg(x), x)
		}
		return &bigBytes{ax}
	})
	reg(bi+"SetString", func(in *Interp, c *frame, fn *ssa.Function, a []value) value {
		z := bigRecv(a[0])
		base := in.asInt(a[2], types.Typ[types.Int], "big.SetString base")
		if s, ok := a[1].(string); ok {
			v, ok := new(big.Int).SetString(s, base)
			if !ok {
				return tuple{(*value)(nil), in.ctx.False()}
			}
			*z = bigV{in.ctx.Int(v)}
			return tuple{z, in.ctx.True()}
		}
		// symbolic / opaque string: either fails or yields an arbitrary integer
		okT := in.freshBool("big.SetString.ok")
		if in.branch(okT, "big.SetString") {
			t := in.nondetTerm("$big.SetString", smt.IntSort)
			*z = bigV{t}
			return tuple{z, in.ctx.True()}
		}
		return tuple{(*value)(nil), in.ctx.False()}
	})
	reg(bi+"String", func(in *Interp, c *frame, fn *ssa.Function, a []value) value {
		p := a[0].(*value)
		if p == nil {
			return "<nil>"
		}
		x := (*p).(bigV).t
		if x.IsConst() {
			return x.V.String()
		}
		return in.newOpaqueStr("big.String")
	})
	reg(bi+"Text", intrinsics[bi+"String"])
	reg(bi+"BitLen", func(in *Interp, c *frame, fn *ssa.Function, a []value) value {
		x := bigOf(in, a[0])
		if x.IsConst() {
			return in.intConst(basicOf(types.Typ[types.Int]), big.NewInt(int64(x.V.BitLen())))
		}
		in.unsupported("big.BitLen on symbolic value")
		return nil
	})

	// ------------------------------------------------------------ hashing
	newHash := func(in *Interp, c *frame, fn *ssa.Function, a []value) value {
		return iface{t: in.hashType(), v: &hashState{}}
	}
	reg("crypto/sha256.New", newHash)
	reg("github.com/minio/sha256-simd.New", newHash)
	sum256 := func(in *Interp, c *frame, fn *ssa.Function, a []value) value {
		h := &hashState{}
		in.hashWrite(h, a[0])
		d := in.hashSum(h)
		arr := make(array, 32)
		copy(arr, d)
		return arr
	}
	reg("crypto/sha256.Sum256", sum256)
	reg("github.com/minio/sha256-simd.Sum256", sum256)

	// ------------------------------------------------------------ bytes / strings primitives implemented in assembly
	reg("bytes.Compare", func(in *Interp, c *frame, fn *ssa.Function, a []value) value {
		return in.bytesCompare(in.byteTerms(a[0]), in.byteTerms(a[1]))
	})
	reg("internal/bytealg.Compare", intrinsics["bytes.Compare"])
	reg("strings.Compare", func(in *Interp, c *frame, fn *ssa.Function, a []value) value {
		return in.bytesCompare(in.strBytes(a[0]), in.strBytes(a[1]))
	})
	reg("bytes.Equal", func(in *Interp, c *frame, fn *ssa.Function, a []value) value {
		return in.bytesEqual(a[0], a[1])
	})
	reg("internal/bytealg.Equal", intrinsics["bytes.Equal"])
	reg("bytes.IndexByte", func(in *Interp, c *frame, fn *ssa.Function, a []value) value {
		return in.indexByte(in.byteTerms(a[0]), a[1].(*smt.Term))
	})
	reg("internal/bytealg.IndexByte", intrinsics["bytes.IndexByte"])
	reg("strings.IndexByte", func(in *Interp, c *frame, fn *ssa.Function, a []value) value {
		return in.indexByte(in.strBytes(a[0]), a[1].(*smt.Term))
	})
	reg("internal/bytealg.IndexByteString", intrinsics["strings.IndexByte"])
	reg("internal/bytealg.CountString", func(in *Interp, c *frame, fn *ssa.Function, a []value) value {
		bs := in.strBytes(a[0])
		cx := in.ctx
		intB := basicOf(types.Typ[types.Int])
		var sum *smt.Term = in.intConst(intB, big.NewInt(0))
		for _, b := range bs {
			one := in.intConst(intB, big.NewInt(1))
			zero := in.intConst(intB, big.NewInt(0))
			inc := cx.Ite(cx.Eq(b, a[1].(*smt.Term)), one, zero)
			sum = in.intBinop(token.ADD, intB, intB, sum, inc).(*smt.Term)
		}
		return sum
	})
	reg("internal/bytealg.MakeNoZero", func(in *Interp, c *frame, fn *ssa.Function, a []value) value {
		n := in.asInt(a[0], types.Typ[types.Int], "MakeNoZero")
		s := make(sliceV, n)
		for i := range s {
			s[i] = in.ctx.BVu(0, 8)
		}
		return s
	})
	reg("internal/bytealg.IndexString", func(in *Interp, c *frame, fn *ssa.Function, a []value) value {
		s, sok := a[0].(string)
		sub, bok := a[1].(string)
		if sok && bok {
			return in.intConst(basicOf(types.Typ[types.Int]), big.NewInt(int64(strings.Index(s, sub))))
		}
		in.unsupported("bytealg.IndexString on symbolic strings")
		return nil
	})
	reg("strings.Index", func(in *Interp, c *frame, fn *ssa.Function, a []value) value {
		s, sok := a[0].(string)
		sub, bok := a[1].(string)
		if sok && bok {
			return in.intConst(basicOf(types.Typ[types.Int]), big.NewInt(int64(strings.Index(s, sub))))
		}
		sb := in.strBytes(a[1])
		if len(sb) == 1 {
			return in.indexByte(in.strBytes(a[0]), sb[0])
		}
		in.unsupported("strings.Index on symbolic strings")
		return nil
	})
	reg("strings.(*Builder).grow", nil)
	delete(intrinsics, "strings.(*Builder).grow")

	// ------------------------------------------------------------ sort
	reg("sort.Slice", func(in *Interp, c *frame, fn *ssa.Function, a []value) value {
		in.sortSlice(c, a[0], a[1], false)
		return nil
	})
	reg("sort.SliceStable", func(in *Interp, c *frame, fn *ssa.Function, a []value) value {
		in.sortSlice(c, a[0], a[1], true)
		return nil
	})
	reg("sort.Sort", func(in *Interp, c *frame, fn *ssa.Function, a []value) value {
		in.sortIface(c, a[0].(iface))
		return nil
	})
	reg("sort.Stable", intrinsics["sort.Sort"])

	// ------------------------------------------------------------ errors
	reg("errors.Is", func(in *Interp, c *frame, fn *ssa.Function, a []value) value {
		x, y := a[0].(iface), a[1].(iface)
		if x.t == nil || y.t == nil {
			return in.ctx.Bool(x.t == nil && y.t == nil)
		}
		return in.eq(x, y)
	})
}

func (in *Interp) choiceNamed(n int, name string) int {
	if in.cfg.Concrete != nil {
		k := in.nondetSeq[name]
		in.nondetSeq[name] = k + 1
		if v, ok := in.cfg.Concrete[fmt.Sprintf("%s#%d", name, k)]; ok {
			if !v.IsInt64() || v.Int64() < 0 || (n > 0 && v.Int64() >= int64(n)) {
				// a (perturbed) replay value outside the choice range: not an input of the harness
				panic(pathEnd{"infeasible", "choice value out of range"})
			}
			return int(v.Int64())
		}
		return 0
	}
	if n <= 1 {
		k := in.nondetSeq[name]
		in.nondetSeq[name] = k + 1
		in.choices[fmt.Sprintf("%s#%d", name, k)] = "0"
		return 0
	}
	var taken int
	if in.pos < len(in.decisions) {
		taken = in.decisions[in.pos].taken
		if in.pos >= in.replayRegions-1 {
			in.solver.Push()
		}
		in.pos++
	} else {
		rem := make([]int, 0, n-1)
		for i := 1; i < n; i++ {
			rem = append(rem, i)
		}
		in.decisions = append(in.decisions, decision{taken: 0, remaining: rem, label: name})
		in.res.Stats.Forks += n - 1
		in.solver.Push()
		in.pos++
	}
	k := in.nondetSeq[name]
	in.nondetSeq[name] = k + 1
	in.choices[fmt.Sprintf("%s#%d", name, k)] = fmt.Sprint(taken)
	return taken
}

// assertOb decides the assertion c for obligation ob. If finding != "" and it is a listed
// known finding, violations inside class are reported as known and the obligation is re-decided under !class.
func (in *Interp) assertOb(c *smt.Term, ob, finding string, class *smt.Term) {
	cx := in.ctx
	if in.cfg.Concrete != nil {
		if c.IsFalse() {
			in.res.Violations = append(in.res.Violations, &Violation{Obligation: ob, Kind: "assert", Msg: "assertion false in concrete run", Finding: finding})
		}
		return
	}
	known := finding != "" && in.cfg.Known[finding]
	in.expose(c, class)
	if c.IsTrue() {
		in.res.Stats.TrivialAssert++
		in.res.Discharged[ob]++
		return
	}
	if !in.sending() {
		// re-executed prefix of an earlier path (same path condition, same assertion): decided there already
		in.assume(c)
		return
	}
	in.res.DistinctQ[fmt.Sprintf("%s:%d:%d", ob, c.ID, len(in.pc))] = true
	check := func(extra ...*smt.Term) (smt.Result, map[string]string) {
		in.solver.Push()
		defer in.solver.Pop()
		in.solver.Assert(cx.Not(c))
		for _, e := range extra {
			in.solver.Assert(e)
		}
		in.res.Stats.AssertQueries++
		r := in.solver.Check()
		var m map[string]string
		if r == smt.Sat {
			m = in.model()
		}
		return r, m
	}
	bad := false
	if known {
		r, m := check(class)
		if r == smt.Sat {
			in.res.Known = append(in.res.Known, &Violation{Obligation: ob, Kind: "assert", Finding: finding, Model: m, Path: append([]string{}, in.pathLog...)})
		} else if r == smt.Unknown {
			in.res.Inconclusive = appendUniq(in.res.Inconclusive, "unknown on known-class query of "+ob)
			in.res.Exhaustive = false
		}
		r, m = check(cx.Not(class))
		switch r {
		case smt.Sat:
			in.res.Violations = append(in.res.Violations, &Violation{Obligation: ob, Kind: "assert", Model: m, Path: append([]string{}, in.pathLog...)})
			bad = true
		case smt.Unknown:
			in.res.Inconclusive = appendUniq(in.res.Inconclusive, "solver unknown on "+ob)
			in.res.Exhaustive = false
			bad = true
		}
	} else {
		r, m := check()
		switch r {
		case smt.Sat:
			in.res.Violations = append(in.res.Violations, &Violation{Obligation: ob, Kind: "assert", Model: m, Path: append([]string{}, in.pathLog...), Finding: ""})
			bad = true
		case smt.Unknown:
			in.res.Inconclusive = appendUniq(in.res.Inconclusive, "solver unknown on "+ob)
			in.res.Exhaustive = false
			bad = true
		}
	}
	if !bad {
		in.res.Discharged[ob]++
		in.res.Stats.Discharged++
	}
	// continue under the asserted condition
	in.assume(c)
}

func (in *Interp) obsString(v value) string {
	switch x := v.(type) {
	case iface:
		if x.t == nil {
			return "nil"
		}
		return in.obsString(x.v)
	case *smt.Term:
		if x.IsConst() {
			if x.S.K == smt.KBool {
				return fmt.Sprint(x.IsTrue())
			}
			return x.V.String()
		}
		return "sym"
	case string:
		return x
	case sliceV:
		var p []string
		for _, e := range x {
			p = append(p, in.obsString(e))
		}
		return "[" + strings.Join(p, " ") + "]"
	case array:
		var p []string
		for _, e := range x {
			p = append(p, in.obsString(e))
		}
		return "[" + strings.Join(p, " ") + "]"
	case structure:
		var p []string
		for _, e := range x {
			p = append(p, in.obsString(e))
		}
		return "{" + strings.Join(p, " ") + "}"
	case bigV:
		return in.obsString(x.t)
	case *value:
		if x == nil {
			return "nil"
		}
		return "&" + in.obsString(*x)
	}
	return fmt.Sprintf("%T", v)
}

// ---------------------------------------------------------------- bytes helpers

func (in *Interp) byteTerms(v value) []*smt.Term {
	switch s := v.(type) {
	case string, *symStr:
		return in.strBytes(s)
	}
	sl := in.materialize(v)
	out := make([]*smt.Term, len(sl))
	for i, e := range sl {
		out[i] = e.(*smt.Term)
	}
	return out
}

func (in *Interp) bytesEqual(a, b value) *smt.Term {
	if r, ok := in.tokenBytesEqual(a, b); ok {
		return r
	}
	ab, aok := a.(*bigBytes)
	bb, bok := b.(*bigBytes)
	if aok && bok {
		return in.ctx.Eq(ab.t, bb.t)
	}
	if aok {
		return in.ctx.Eq(ab.t, in.bytesToBigStrict(b))
	}
	if bok {
		return in.ctx.Eq(bb.t, in.bytesToBigStrict(a))
	}
	x, y := in.byteTerms(a), in.byteTerms(b)
	return in.eqByteTerms(x, y)
}

// bytesToBigStrict: for comparing a minimal-length big image with explicit bytes: equal iff
// value equal and explicit bytes have no leading zero.
func (in *Interp) bytesToBigStrict(v value) *smt.Term {
	bs := in.byteTerms(v)
	if len(bs) > 0 {
		if in.branch(in.ctx.Eq(bs[0], in.ctx.BVu(0, 8)), "leading-zero") {
			// cannot equal a minimal encoding: return a value that never matches (negative)
			return in.ctx.Inti(-1)
		}
	}
	return in.bytesToBig(v)
}

func (in *Interp) bytesCompare(x, y []*smt.Term) *smt.Term {
	if r := in.bigImageCompare(x, y); r != nil { // both operands are images of integers: intr_bigcmp.go
		return r
	}
	c := in.ctx
	intB := basicOf(types.Typ[types.Int])
	m1, z, p1 := in.intConst(intB, big.NewInt(-1)), in.intConst(intB, big.NewInt(0)), in.intConst(intB, big.NewInt(1))
	n := len(x)
	if len(y) < n {
		n = len(y)
	}
	res := z
	if len(x) < len(y) {
		res = m1
	} else if len(x) > len(y) {
		res = p1
	}
	// common prefix: skip syntactically identical leading bytes, compare the rest as ONE wide unsigned number
	// (big-endian concatenation) — one bvult instead of a 32-deep ite chain for hash-sized keys
	lo := 0
	for lo < n && x[lo] == y[lo] {
		lo++
	}
	if lo < n {
		X, Y := x[lo], y[lo]
		for i := lo + 1; i < n; i++ {
			X, Y = c.Concat(X, x[i]), c.Concat(Y, y[i])
		}
		res = c.Ite(c.BVUlt(X, Y), m1, c.Ite(c.Eq(X, Y), res, p1))
	}
	return res
}

func (in *Interp) indexByte(bs []*smt.Term, b *smt.Term) *smt.Term {
	c := in.ctx
	intB := basicOf(types.Typ[types.Int])
	res := in.intConst(intB, big.NewInt(-1))
	for i := len(bs) - 1; i >= 0; i-- {
		res = c.Ite(c.Eq(bs[i], b), in.intConst(intB, big.NewInt(int64(i))), res)
	}
	return res
}

// ---------------------------------------------------------------- big <-> bytes

func (in *Interp) bytesToBig(v value) *smt.Term {
	if bb, ok := v.(*bigBytes); ok {
		return bb.t
	}
	bs := in.byteTerms(v)
	if len(bs) == 0 {
		return in.ctx.Inti(0)
	}
	// concat and convert
	t := bs[0]
	for _, b := range bs[1:] {
		t = in.ctx.Concat(t, b)
	}
	// the bytes are exactly the image of a big integer u materialised on this path (bigToBytes forked on its byte
	// length, so 0 <= u < 2^(8L) holds here): the value is u itself
	if t.Op == "int2bv" {
		if m, ok := in.bigMat[t.A[0].ID]; ok && 8*len(m) == t.S.W {
			return t.A[0]
		}
	}
	r := in.ctx.BV2Nat(t)
	return r
}

const maxBigBytes = 16

// bigToBytes materialises the minimal big-endian image of t (>= 0) by forking over its length.
func (in *Interp) bigToBytes(t *smt.Term, _ int) sliceV {
	c := in.ctx
	if t.IsConst() {
		bs := t.V.Bytes()
		out := make(sliceV, len(bs))
		for i, b := range bs {
			out[i] = c.BVu(uint64(b), 8)
		}
		return out
	}
	if m, ok := in.bigMat[t.ID]; ok {
		return append(sliceV{}, m...)
	}
	var alts []*smt.Term
	pow := func(k int) *smt.Term { return c.Int(new(big.Int).Lsh(big.NewInt(1), uint(8*k))) }
	for L := 0; L <= maxBigBytes; L++ {
		if L == 0 {
			alts = append(alts, c.Eq(t, c.Inti(0)))
		} else {
			alts = append(alts, c.And(c.ILe(pow(L-1), t), c.ILt(t, pow(L))))
		}
	}
	alts = append(alts, c.ILe(pow(maxBigBytes), t))
	L := in.fork(alts, "big-bytes-len")
	if L > maxBigBytes {
		in.unsupported(fmt.Sprintf("big integer needing more than %d bytes materialised", maxBigBytes))
	}
	out := make(sliceV, L)
	if L > 0 {
		bv := c.Int2BV(t, 8*L)
		for i := 0; i < L; i++ {
			out[i] = c.Extract(bv, 8*(L-i)-1, 8*(L-i-1))
		}
	}
	if in.bigMat == nil {
		in.bigMat = map[int]sliceV{}
	}
	in.bigMat[t.ID] = out
	return append(sliceV{}, out...)
}

func (in *Interp) bigBytesLen(x *bigBytes) value {
	s := in.bigToBytes(x.t, -1)
	return in.intConst(basicOf(types.Typ[types.Int]), big.NewInt(int64(len(s))))
}

// ---------------------------------------------------------------- hashing (uninterpreted + collision freedom)

type hashState struct {
	parts []*smt.Term
	marks []hashMark // opaque parts (intr_opaque.go)
}

type hashApp struct {
	n      int
	input  *smt.Term
	output *smt.Term
	parts  []*smt.Term // the input bytes
}

var hashNamed = types.NewNamed(types.NewTypeName(token.NoPos, nil, "gosymHash", nil), types.NewStruct(nil, nil), nil)

func (in *Interp) hashType() types.Type { return hashNamed }

func (in *Interp) hashWrite(h *hashState, v value) {
	if in.hashWriteOpaque(h, v) {
		return
	}
	h.parts = append(h.parts, in.byteTerms(v)...)
}

func (in *Interp) hashMethod(h *hashState, name string, args []value) value {
	intB := basicOf(types.Typ[types.Int])
	switch name {
	case "Write":
		if os, isOpq := args[0].(*opaqueSlice); isOpq {
			in.hashWrite(h, args[0])
			return tuple{os.n, iface{}}
		}
		if bb, isBig := args[0].(*bigBytes); isBig && !bb.t.IsConst() {
			in.hashWrite(h, args[0])
			n := in.nondetInt("$hash.write.n", intB) // number of bytes written: value never used by callers
			in.addLemma(in.cmpGE0(n))
			return tuple{n, iface{}}
		}
		n := len(in.byteTerms(args[0]))
		in.hashWrite(h, args[0])
		return tuple{in.intConst(intB, big.NewInt(int64(n))), iface{}}
	case "Sum":
		d := in.hashSum(h)
		base := in.materialize(args[0])
		return append(base, d...)
	case "Reset":
		h.marks = nil
		h.parts = nil
		return nil
	case "Size":
		return in.intConst(intB, big.NewInt(32))
	case "BlockSize":
		return in.intConst(intB, big.NewInt(64))
	}
	in.unsupported("hash method " + name)
	return nil
}

func (in *Interp) hashSum(h *hashState) sliceV {
	c := in.ctx
	if len(h.marks) > 0 {
		return in.hashSumOpaque(h)
	}
	n := len(h.parts)
	allConst := true
	for _, p := range h.parts {
		if !p.IsConst() {
			allConst = false
			break
		}
	}
	out := make(sliceV, 32)
	if allConst {
		bs := make([]byte, n)
		for i, p := range h.parts {
			bs[i] = byte(p.V.Uint64())
		}
		d := sha256.Sum256(bs)
		for i := range out {
			out[i] = c.BVu(uint64(d[i]), 8)
		}
		var inp *smt.Term = c.BV(big.NewInt(0), 0)
		if n > 0 {
			inp = c.BV(new(big.Int).SetBytes(bs), 8*n)
		}
		in.recordHash(&hashApp{n: n, input: inp, output: c.BV(new(big.Int).SetBytes(d[:]), 256), parts: append([]*smt.Term{}, h.parts...)})
		return out
	}
	inp := h.parts[0]
	for _, p := range h.parts[1:] {
		inp = c.Concat(inp, p)
	}
	uf := c.DeclareUF(fmt.Sprintf("H%d", n), []smt.Sort{smt.BVSort(8 * n)}, smt.BVSort(256))
	o := c.Apply(uf, inp)
	for i := range out {
		out[i] = c.Extract(o, 255-8*i, 248-8*i)
	}
	in.recordHash(&hashApp{n: n, input: inp, output: o, parts: append([]*smt.Term{}, h.parts...)})
	return out
}

func (in *Interp) recordHash(a *hashApp) {
	for _, b := range in.hashApps {
		if b.input == a.input && b.n == a.n {
			return
		}
	}
	in.hashApps = append(in.hashApps, a)
	if in.hashOut == nil {
		in.hashOut = map[int]*hashApp{}
	}
	in.hashOut[a.output.ID] = a
	// lemmas are instantiated lazily, when the digest reaches the solver (intr_hashlazy.go); a real digest
	// (concrete input) is a constant and counts as exposed from the start
	if a.output.IsConst() && in.cfg.Concrete == nil {
		for _, l := range in.exposeApp(a) {
			in.expose(l)
			in.addLemma(l)
		}
	}
}

// ---------------------------------------------------------------- sort (insertion sort driving the real Less)

func (in *Interp) sortSlice(caller *frame, x value, less value, stable bool) {
	s := in.materialize(x.(iface).v)
	intB := basicOf(types.Typ[types.Int])
	n := len(s)
	for i := 1; i < n; i++ {
		for j := i; j > 0; j-- {
			r := in.call(caller, less, []value{in.intConst(intB, big.NewInt(int64(j))), in.intConst(intB, big.NewInt(int64(j - 1)))}, token.NoPos)
			if !in.branch(r.(*smt.Term), "sort.less") {
				break
			}
			s[j], s[j-1] = s[j-1], s[j]
		}
	}
}

func (in *Interp) sortIface(caller *frame, data iface) {
	if data.t == nil {
		panic(goPanic{msg: "sort.Sort(nil)"})
	}
	find := func(name string) value {
		f := in.prog.LookupMethod(data.t, nil, name)
		if f == nil {
			in.unsupported("sort: method " + name + " missing on " + data.t.String())
		}
		return f
	}
	intB := basicOf(types.Typ[types.Int])
	n := in.asInt(in.call(caller, find("Len"), []value{data.v}, token.NoPos), types.Typ[types.Int], "sort.Len")
	less, swap := find("Less"), find("Swap")
	for i := 1; i < n; i++ {
		for j := i; j > 0; j-- {
			r := in.call(caller, less, []value{data.v, in.intConst(intB, big.NewInt(int64(j))), in.intConst(intB, big.NewInt(int64(j - 1)))}, token.NoPos)
			if !in.branch(r.(*smt.Term), "sort.less") {
				break
			}
			in.call(caller, swap, []value{data.v, in.intConst(intB, big.NewInt(int64(j))), in.intConst(intB, big.NewInt(int64(j - 1)))}, token.NoPos)
		}
	}
}

// ---------------------------------------------------------------- sync/atomic, time

func (in *Interp) atomicCall(fn *ssa.Function, args []value) (value, bool) {
	name := fn.Name()
	recvName := ""
	if r := fn.Signature.Recv(); r != nil {
		recvName = r.Type().String()
	}
	if recvName == "" {
		switch {
		case strings.HasPrefix(name, "Load"):
			return copyVal(*args[0].(*value)), true
		case strings.HasPrefix(name, "Store"):
			*args[0].(*value) = args[1]
			return nil, true
		case strings.HasPrefix(name, "Add"):
			p := args[0].(*value)
			b := basicOf(fn.Signature.Params().At(1).Type())
			r := in.intBinop(token.ADD, b, b, (*p).(*smt.Term), args[1].(*smt.Term))
			*p = r
			return r, true
		case strings.HasPrefix(name, "Swap"):
			p := args[0].(*value)
			old := *p
			*p = args[1]
			return old, true
		case strings.HasPrefix(name, "CompareAndSwap"):
			p := args[0].(*value)
			if in.branch(in.eq(*p, args[1]), "cas") {
				*p = args[2]
				return in.ctx.True(), true
			}
			return in.ctx.False(), true
		}
		return nil, false
	}
	// typed atomics: atomic.Int32 etc: struct{_ noCopy; v T} or similar; atomic.Value
	p := args[0].(*value)
	if p == nil {
		panic(goPanic{msg: "nil atomic receiver"})
	}
	if strings.HasSuffix(recvName, "atomic.Value") {
		cell, ok := in.sideTab[p].(*value)
		if !ok {
			cell = new(value)
			*cell = iface{}
			in.sideTab[p] = cell
		}
		switch name {
		case "Load":
			return *cell, true
		case "Store":
			*cell = args[1]
			return nil, true
		}
		return nil, false
	}
	st, ok := (*p).(structure)
	if !ok {
		return nil, false
	}
	// find the value field: last field named v
	idx := len(st) - 1
	switch name {
	case "Load":
		return copyVal(st[idx]), true
	case "Store":
		st[idx] = args[1]
		return nil, true
	case "Add":
		b := basicOf(fn.Signature.Params().At(0).Type())
		r := in.intBinop(token.ADD, b, b, st[idx].(*smt.Term), args[1].(*smt.Term))
		st[idx] = r
		return r, true
	case "Swap":
		old := st[idx]
		st[idx] = args[1]
		return old, true
	case "CompareAndSwap":
		if in.branch(in.eq(st[idx], args[1]), "cas") {
			st[idx] = args[2]
			return in.ctx.True(), true
		}
		return in.ctx.False(), true
	}
	return nil, false
}

// time: time.Now() is a fresh non-decreasing instant, carried in the ext field of a time.Time structure.
func (in *Interp) timeCall(fn *ssa.Function, args []value) (value, bool) {
	name := fn.String()
	i64 := basicOf(types.Typ[types.Int64])
	switch name {
	case "time.Now":
		t := in.nondetInt("$time.Now", i64)
		in.addLemma(in.cmpGE0(t))
		if in.lastTime != nil {
			if t.S.K == smt.KInt {
				in.addLemma(in.ctx.ILe(in.lastTime, t))
			} else {
				in.addLemma(in.ctx.BVSle(in.lastTime, t))
			}
		}
		in.lastTime = t
		st := in.zero(fn.Signature.Results().At(0).Type()).(structure)
		st[1] = t
		return st, true
	case "(time.Time).UnixNano":
		return args[0].(structure)[1], true
	case "(time.Time).Unix":
		t := args[0].(structure)[1].(*smt.Term)
		return in.intBinop(token.QUO, i64, i64, t, in.intConst(i64, big.NewInt(1000000000))), true
	case "time.Unix":
		sec, ns := args[0].(*smt.Term), args[1].(*smt.Term)
		st := in.zero(fn.Signature.Results().At(0).Type()).(structure)
		m := in.intBinop(token.MUL, i64, i64, sec, in.intConst(i64, big.NewInt(1000000000))).(*smt.Term)
		st[1] = in.intBinop(token.ADD, i64, i64, m, ns)
		return st, true
	case "(time.Time).Sub":
		a, b := args[0].(structure)[1].(*smt.Term), args[1].(structure)[1].(*smt.Term)
		return in.intBinop(token.SUB, i64, i64, a, b), true
	case "(time.Time).Add":
		a := args[0].(structure)[1].(*smt.Term)
		st := copyVal(args[0]).(structure)
		st[1] = in.intBinop(token.ADD, i64, i64, a, args[1].(*smt.Term))
		return st, true
	case "(time.Time).Before":
		a, b := args[0].(structure)[1].(*smt.Term), args[1].(structure)[1].(*smt.Term)
		return in.intBinop(token.LSS, i64, i64, a, b), true
	case "(time.Time).After":
		a, b := args[0].(structure)[1].(*smt.Term), args[1].(structure)[1].(*smt.Term)
		return in.intBinop(token.GTR, i64, i64, a, b), true
	case "time.Since":
		now, _ := in.timeCall(in.lookupFunc("time.Now"), nil)
		a, b := now.(structure)[1].(*smt.Term), args[0].(structure)[1].(*smt.Term)
		return in.intBinop(token.SUB, i64, i64, a, b), true
	case "time.Sleep", "time.After", "time.NewTimer", "time.NewTicker", "time.AfterFunc":
		in.unsupported(name)
	case "(time.Duration).Nanoseconds":
		return args[0], true
	case "(time.Duration).Seconds", "(time.Duration).String", "(time.Time).String", "(time.Time).Format":
		return in.zeroOrOpaque(fn), true
	}
	return nil, false
}

func (in *Interp) zeroOrOpaque(fn *ssa.Function) value {
	res := fn.Signature.Results()
	if res.Len() == 1 {
		if b, ok := res.At(0).Type().Underlying().(*types.Basic); ok && b.Info()&types.IsString != 0 {
			return in.newOpaqueStr(fn.Name())
		}
	}
	return in.zero(res)
}

func sortedStubList(m map[string]int) []string {
	var k []string
	for s := range m {
		k = append(k, s)
	}
	sort.Strings(k)
	return k
}

// sprintfExact evaluates Sprintf for formats made of literal text, %s / %v on strings and byte slices and %d / %v on
// concrete integers; anything else is left opaque.
func (in *Interp) sprintfExact(format value, args sliceV) (value, bool) {
	f, ok := format.(string)
	if !ok {
		return nil, false
	}
	var out []*smt.Term
	lit := func(s string) {
		for i := 0; i < len(s); i++ {
			out = append(out, in.ctx.BVu(uint64(s[i]), 8))
		}
	}
	ai := 0
	for i := 0; i < len(f); i++ {
		if f[i] != '%' {
			lit(f[i : i+1])
			continue
		}
		i++
		if i >= len(f) {
			return nil, false
		}
		if f[i] == '%' {
			lit("%")
			continue
		}
		if f[i] != 's' && f[i] != 'v' && f[i] != 'd' && f[i] != 'x' {
			return nil, false
		}
		if ai >= len(args) {
			return nil, false
		}
		a, _ := args[ai].(iface)
		ai++
		if a.t == nil {
			return nil, false
		}
		switch v := a.v.(type) {
		case string, *symStr:
			if f[i] == 'd' || f[i] == 'x' {
				return nil, false
			}
			if _, isStr := a.t.Underlying().(*types.Basic); !isStr || in.hasMethod(a.t, "String") || in.hasMethod(a.t, "Error") {
				return nil, false
			}
			out = append(out, in.strBytes(v)...)
		case *smt.Term:
			b := basicOf(a.t)
			if b == nil || b.Info()&types.IsInteger == 0 || !v.IsConst() || f[i] == 's' {
				return nil, false
			}
			if in.hasMethod(a.t, "String") || in.hasMethod(a.t, "Error") {
				return nil, false
			}
			if f[i] == 'x' {
				lit(in.termInt(v, a.t).Text(16)) // %x of an integer: lower-case hex, sign first (as fmt prints it)
			} else {
				lit(in.termInt(v, a.t).String())
			}
		default:
			return nil, false
		}
	}
	if ai != len(args) {
		return nil, false
	}
	return in.mkStr(out), true
}

func (in *Interp) hasMethod(t types.Type, name string) bool {
	ms := in.prog.MethodSets.MethodSet(t)
	for i := 0; i < ms.Len(); i++ {
		if ms.At(i).Obj().Name() == name {
			return true
		}
	}
	return false
}

// zeroNonNil: zero results, except that pointer results point to a fresh zero object (loggers, events).
func (in *Interp) zeroNonNil(res *types.Tuple) value {
	mk := func(t types.Type) value {
		if p, ok := t.Underlying().(*types.Pointer); ok {
			cell := new(value)
			*cell = in.zero(p.Elem())
			return cell
		}
		return in.zero(t)
	}
	switch res.Len() {
	case 0:
		return nil
	case 1:
		return mk(res.At(0).Type())
	}
	out := make(tuple, res.Len())
	for i := range out {
		out[i] = mk(res.At(i).Type())
	}
	return out
}
