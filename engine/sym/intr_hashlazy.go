package sym

import (
	"math/big"

	"gosym/smt"
)

// Lazy instantiation of the hash lemmas.
//
// The pairwise lemmas of the hash model (collision freedom, distinct input lengths, digest genericity, digest != 0)
// are only needed for digests the solver actually sees. Comparisons between digests are mostly decided structurally
// (intr_hasheq.go), so content-addressed code (tries, merkle trees) produces dozens of hash applications per path of
// which few or none ever occur in a solver term; instantiating O(n^2) lemmas over 256-bit terms for all of them made
// plain feasibility queries time out. A hash application becomes "exposed" when its digest term occurs in a term that
// is sent to the solver (path condition, fork alternative, assertion); lemmas are instantiated for pairs of exposed
// applications, and the lemmas themselves expose the digests nested in the inputs they mention (worklist).
// Applications with concrete input (real digest, a constant) count as exposed from the start.

type hashLazy struct {
	exposed []*hashApp
	isExp   map[*hashApp]bool
	seen    map[int]bool // term IDs already scanned
}

func (in *Interp) hl() *hashLazy {
	if in.hashLz == nil {
		in.hashLz = &hashLazy{isExp: map[*hashApp]bool{}, seen: map[int]bool{}}
	}
	return in.hashLz
}

// expose scans t for digest terms and instantiates the lemmas they need. Must be called (deterministically) before t
// is sent to the solver, also while replaying a decision prefix.
func (in *Interp) expose(ts ...*smt.Term) {
	if in.cfg.Concrete != nil || len(in.hashOut) == 0 {
		return
	}
	h := in.hl()
	var found []*hashApp
	var walk func(t *smt.Term)
	walk = func(t *smt.Term) {
		if t == nil || h.seen[t.ID] {
			return
		}
		h.seen[t.ID] = true
		if t.Op == "uf" {
			if a := in.hashOut[t.ID]; a != nil && !h.isExp[a] {
				found = append(found, a)
			}
		}
		for _, x := range t.A {
			walk(x)
		}
	}
	for _, t := range ts {
		walk(t)
	}
	for len(found) > 0 {
		a := found[0]
		found = found[1:]
		if h.isExp[a] {
			continue
		}
		for _, l := range in.exposeApp(a) {
			walk(l) // digests nested in the inputs mentioned by the lemma
			in.addLemma(l)
		}
	}
}

// exposeApp marks a as exposed and returns the lemmas relating it to the applications exposed so far.
func (in *Interp) exposeApp(a *hashApp) []*smt.Term {
	c := in.ctx
	h := in.hl()
	h.isExp[a] = true
	var ls []*smt.Term
	if !a.output.IsConst() {
		// preimage resistance for the all-zero digest (aergo uses 32 zero bytes as "no hash")
		ls = append(ls, c.Not(c.Eq(a.output, c.BV(big.NewInt(0), 256))))
		ls = append(ls, in.noOverlapLemmas(a, a)...)
	}
	for _, b := range h.exposed {
		if a.output.IsConst() && b.output.IsConst() {
			continue
		}
		if a.n == b.n {
			ls = append(ls, c.Implies(c.Eq(a.output, b.output), in.eqByteTerms(a.parts, b.parts)))
		} else {
			ls = append(ls, c.Not(c.Eq(a.output, b.output)))
		}
		ls = append(ls, in.noOverlapLemmas(a, b)...)
	}
	h.exposed = append(h.exposed, a)
	return ls
}
