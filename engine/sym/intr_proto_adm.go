package sym

import (
	"go/types"
	"math/big"

	"gosym/smt"

	"golang.org/x/tools/go/ssa"
)

// proto.Size(m): the wire size is not the subject of any property; it is a fresh non-negative integer, bounded above
// by a generous function of the concrete shape of m when every variable-length field has a concrete length
// (tag + length prefix <= 16 bytes per field/element, scalars <= 11 bytes). Sound over-approximation; on the native
// side the real size lies inside the same bound.
func init() {
	reg(aergoPrefix+"/internal/enc/proto.Size", func(in *Interp, c *frame, fn *ssa.Function, a []value) value {
		intB := basicOf(types.Typ[types.Int])
		t := in.nondetInt("$proto.Size", intB)
		if t.IsConst() {
			return t
		}
		in.addLemma(in.cmpGE0(t))
		if ub, ok := in.protoSizeBound(a[0], 0); ok {
			in.addLemma(in.ctx.Not(in.cmpConst(t, ">", ub)))
		}
		return t
	})
}

func (in *Interp) protoSizeBound(v value, depth int) (int64, bool) {
	if depth > 12 {
		return 0, false
	}
	switch x := v.(type) {
	case nil:
		return 0, true
	case iface:
		if x.t == nil {
			return 0, true
		}
		return in.protoSizeBound(x.v, depth+1)
	case *value:
		if x == nil {
			return 0, true
		}
		return in.protoSizeBound(*x, depth+1)
	case structure:
		var sum int64
		for _, f := range x {
			n, ok := in.protoSizeBound(f, depth+1)
			if !ok {
				return 0, false
			}
			sum += n + 16
		}
		return sum, true
	case array:
		var sum int64
		for _, f := range x {
			n, ok := in.protoSizeBound(f, depth+1)
			if !ok {
				return 0, false
			}
			sum += n + 16
		}
		return sum, true
	case sliceV:
		var sum int64 = 16
		for _, f := range x {
			if _, isT := f.(*smt.Term); isT {
				sum += 11
				continue
			}
			n, ok := in.protoSizeBound(f, depth+1)
			if !ok {
				return 0, false
			}
			sum += n + 16
		}
		return sum, true
	case *smt.Term, float64:
		return 11, true
	case string:
		return int64(len(x)) + 16, true
	case *symStr:
		return int64(len(x.b)) + 16, true
	case *mapV:
		if x == nil {
			return 0, true
		}
		var sum int64
		for _, e := range x.entries {
			k, ok1 := in.protoSizeBound(e.k, depth+1)
			n, ok2 := in.protoSizeBound(e.v, depth+1)
			if !ok1 || !ok2 {
				return 0, false
			}
			sum += k + n + 32
		}
		return sum, true
	case *ssa.Function, *closure:
		return 0, true
	}
	_ = big.NewInt
	return 0, false // *bigBytes (symbolic length), opaque strings, engine objects
}
