// Package sym: symbolic interpreter for go/ssa (KLEE-style, stateless DFS by re-execution).
package sym

import (
	"fmt"
	"go/token"
	"go/types"
	"math/big"
	"os"
	"sort"
	"strings"
	"sync"
	"time"

	"gosym/smt"

	"golang.org/x/tools/go/ssa"
)

type Mode int

const (
	ModeBV Mode = iota
	ModeInt
)

type Config struct {
	Mode        Mode
	Unwind      int // loop header visits per frame
	AllocBound  int // max symbolic make/slice length enumerated
	PermBound   int // maps up to this size iterate in all orders
	MaxPaths    int
	MaxSteps    int64 // per path
	QueryMs     int
	Solver      string
	Trace       bool
	Concrete    map[string]*big.Int // concrete replay mode: nondet name -> value
	Known       map[string]bool     // finding ids listed as open known findings
	MaxViol     int
	Stubs       map[string]string // function full name -> harness function full name
	NoPanicViol bool
	Params      map[string]int
	Profile     string
	Deadline    time.Time
}

type decision struct {
	taken     int
	remaining []int
	label     string
}

type Violation struct {
	Obligation string            `json:"obligation"`
	Kind       string            `json:"kind"` // assert | panic | alloc
	Msg        string            `json:"msg"`
	Model      map[string]string `json:"model"`
	Path       []string          `json:"path,omitempty"`
	Finding    string            `json:"finding,omitempty"` // known-finding id if inside a listed class
}

type Stats struct {
	Paths         int
	Steps         int64
	Forks         int
	Queries       int
	AssertQueries int
	Discharged    int
	TrivialAssert int
	UnknownFeas   int
	Infeasible    int
}

type Result struct {
	Violations   []*Violation
	Known        []*Violation
	Inconclusive []string
	Reached      map[string]int
	Witness      map[string]map[string]string
	Discharged   map[string]int
	Functions    map[string]bool
	StubsHit     map[string]int
	Assumptions  []string
	Observations []map[string]string
	Stats        Stats
	Exhaustive   bool
	DistinctQ    map[string]bool
}

type Interp struct {
	prog    *ssa.Program
	ctx     *smt.Ctx
	solver  *smt.Solver
	cfg     Config
	sizes   types.Sizes
	globals map[*ssa.Global]*value
	inited  map[*ssa.Package]bool
	res     *Result

	// DFS state
	decisions     []decision
	pos           int
	replayRegions int

	// per-path state
	pc         []*smt.Term
	nondetSeq  map[string]int
	pathVars   []*smt.Term
	varNames   map[int]string
	choices    map[string]string // concrete choices (Choice, map orders) recorded into the model
	steps      int64
	depth      int
	hashApps   []*hashApp
	hashOut    map[int]*hashApp // digest term ID -> application (per path)
	digestEqMemo map[[2]int]*smt.Term
	hashLz     *hashLazy
	opaqueSeq  int
	objSeq     int
	callRing   [12]string
	callRingN  int
	sideTab    map[*value]interface{}
	pathLog    []string
	intBounds  map[int][2]*big.Int
	observations map[string]string
	lastTime   *smt.Term
	mulApps    []*smt.Term
	kv         interface{}
	opaqueEqs  map[[2]int]*smt.Term
	allocLimit int
	allocOb    string
	noPerm     bool
	extraInterp map[string]bool
	bigMat     map[int]sliceV
	stack      []string
	initDepth  int
	bulkTpl    map[*ssa.Alloc]array
	pcLits     map[int]bool // term IDs of literals on the path condition
	pcSeen     int
}

type pathEnd struct {
	kind string // infeasible | inconclusive | done | violation
	msg  string
}

type engineBug string

// GOSYM_PROFILE=1: instruction counts per interpreted function are printed to stderr when the process ends (ProfileDump)
var profSteps map[string]int64
var profMu sync.Mutex

func init() {
	if os.Getenv("GOSYM_PROFILE") != "" {
		profSteps = map[string]int64{}
	}
}

func ProfileDump() {
	if profSteps == nil {
		return
	}
	defer forkProfileDump()
	type kv struct {
		k string
		v int64
	}
	var l []kv
	for k, v := range profSteps {
		l = append(l, kv{k, v})
	}
	sort.Slice(l, func(i, j int) bool { return l[i].v > l[j].v })
	for i, e := range l {
		if i >= 40 {
			break
		}
		fmt.Fprintf(os.Stderr, "profile %10d %s\n", e.v, e.k)
	}
}

type goPanic struct {
	v     value
	msg   string
	stack string
}

func New(prog *ssa.Program, cfg Config) (*Interp, error) {
	if cfg.Unwind == 0 {
		cfg.Unwind = 64
	}
	if cfg.AllocBound == 0 {
		cfg.AllocBound = 64
	}
	if cfg.PermBound == 0 {
		cfg.PermBound = 3
	}
	if cfg.MaxPaths == 0 {
		cfg.MaxPaths = 200000
	}
	if cfg.MaxSteps == 0 {
		cfg.MaxSteps = 20000000
	}
	if cfg.QueryMs == 0 {
		cfg.QueryMs = 20000
	}
	if cfg.Solver == "" {
		cfg.Solver = "z3"
	}
	if cfg.MaxViol == 0 {
		cfg.MaxViol = 8
	}
	in := &Interp{prog: prog, cfg: cfg, ctx: smt.NewCtx()}
	in.sizes = &types.StdSizes{WordSize: 8, MaxAlign: 8}
	in.res = &Result{Reached: map[string]int{}, Witness: map[string]map[string]string{}, Discharged: map[string]int{},
		Functions: map[string]bool{}, StubsHit: map[string]int{}, DistinctQ: map[string]bool{}}
	if cfg.Concrete == nil {
		s, err := smt.NewSolver(cfg.Solver, in.ctx, cfg.QueryMs)
		if err != nil {
			return nil, err
		}
		if f := os.Getenv("GOSYM_SMTLOG"); f != "" {
			w, _ := os.Create(f)
			s.Log = w
		}
		in.solver = s
	}
	return in, nil
}

func (in *Interp) Close() {
	if in.solver != nil {
		in.solver.Close()
	}
}

func (in *Interp) Result() *Result { return in.res }

// Run explores all paths of fn (a niladic harness entry).
func (in *Interp) Run(fn *ssa.Function) *Result {
	in.res.Exhaustive = true
	for {
		in.resetPath()
		end := in.runPath(fn)
		in.res.Stats.Paths++
		if in.cfg.Trace {
			fmt.Fprintf(os.Stderr, "path %d end=%s %s decisions=%d\n", in.res.Stats.Paths, end.kind, end.msg, len(in.decisions))
		}
		switch end.kind {
		case "inconclusive":
			in.res.Inconclusive = appendUniq(in.res.Inconclusive, end.msg)
			in.res.Exhaustive = false
		case "infeasible":
			in.res.Stats.Infeasible++
		}
		if in.cfg.Concrete != nil {
			break
		}
		if len(in.res.Violations) >= in.cfg.MaxViol {
			in.res.Exhaustive = false
			break
		}
		if in.res.Stats.Paths >= in.cfg.MaxPaths {
			in.res.Inconclusive = appendUniq(in.res.Inconclusive, fmt.Sprintf("path budget %d exhausted", in.cfg.MaxPaths))
			in.res.Exhaustive = false
			break
		}
		if !in.cfg.Deadline.IsZero() && time.Now().After(in.cfg.Deadline) {
			in.res.Inconclusive = appendUniq(in.res.Inconclusive, "deadline exceeded")
			in.res.Exhaustive = false
			break
		}
		// backtrack
		d := len(in.decisions) - 1
		for d >= 0 && len(in.decisions[d].remaining) == 0 {
			d--
		}
		if d < 0 {
			break
		}
		dec := &in.decisions[d]
		dec.taken = dec.remaining[0]
		dec.remaining = dec.remaining[1:]
		in.decisions = in.decisions[:d+1]
		in.solver.PopTo(d)
		in.replayRegions = d + 1
	}
	if in.solver != nil {
		in.res.Stats.Queries = in.solver.Queries
		for _, e := range in.solver.Errors {
			in.res.Inconclusive = appendUniq(in.res.Inconclusive, "solver: "+e)
			in.res.Exhaustive = false
		}
	}
	return in.res
}

func (in *Interp) SolverTime() time.Duration {
	if in.solver == nil {
		return 0
	}
	return in.solver.Time
}

func appendUniq(l []string, s string) []string {
	for _, x := range l {
		if x == s {
			return l
		}
	}
	if len(l) > 50 {
		return l
	}
	return append(l, s)
}

func (in *Interp) resetPath() {
	in.pos = 0
	in.pc = nil
	in.nondetSeq = map[string]int{}
	in.pathVars = nil
	in.varNames = map[int]string{}
	in.choices = map[string]string{}
	in.steps = 0
	in.depth = 0
	in.globals = map[*ssa.Global]*value{}
	in.inited = map[*ssa.Package]bool{}
	in.hashApps = nil
	in.hashOut = nil
	in.digestEqMemo = nil
	in.hashLz = nil
	in.opaqueSeq = 0
	in.objSeq = 0
	in.sideTab = map[*value]interface{}{}
	in.pathLog = nil
	in.intBounds = map[int][2]*big.Int{}
	in.observations = map[string]string{}
	in.lastTime = nil
	in.mulApps = nil
	in.opaqueEqs = map[[2]int]*smt.Term{}
	in.kv = nil
	in.allocLimit = 0
	in.allocOb = ""
	in.noPerm = false
	in.bigMat = nil
	in.stack = nil
	in.initDepth = 0
	in.pcLits = nil
	in.pcSeen = 0
}

func (in *Interp) runPath(fn *ssa.Function) (end pathEnd) {
	defer func() {
		if r := recover(); r != nil {
			switch r := r.(type) {
			case pathEnd:
				end = r
			case goPanic:
				// uncaught Go panic in the harness: a violation of the implicit no-panic assertion
				in.reportPanic(r)
				end = pathEnd{"violation", "panic: " + r.msg}
			default:
				if len(in.stack) > 0 {
					lo := len(in.stack) - 8
					if lo < 0 {
						lo = 0
					}
					panic(fmt.Sprintf("%v [interpreting %s] [last calls: %s]", r, strings.Join(in.stack[lo:], " > "), strings.Join(in.lastCalls(), " > ")))
				}
				panic(fmt.Sprintf("%v [last calls: %s]", r, strings.Join(in.lastCalls(), " > ")))
			}
		}
	}()
	in.call(nil, fn, nil, token.NoPos)
	if len(in.observations) > 0 {
		in.res.Observations = append(in.res.Observations, in.observations)
	}
	return pathEnd{"done", ""}
}

func (in *Interp) unsupported(msg string) {
	if len(in.stack) > 0 {
		n := len(in.stack)
		lo := n - 4
		if lo < 0 {
			lo = 0
		}
		msg += " [via " + strings.Join(in.stack[lo:], " > ") + "]"
	}
	panic(pathEnd{"inconclusive", "unsupported: " + msg})
}

func (in *Interp) sending() bool { return in.pos >= in.replayRegions }

// assume adds c to the path condition; ends the path if it becomes infeasible.
func (in *Interp) assume(c *smt.Term) {
	if c.IsTrue() {
		return
	}
	if c.IsFalse() {
		panic(pathEnd{"infeasible", "assume false"})
	}
	in.expose(c)
	in.pc = append(in.pc, c)
	in.noteBound(c)
	if in.cfg.Concrete != nil {
		return
	}
	if in.sending() {
		in.solver.Assert(c)
		r := in.solver.Check()
		if r == smt.Unsat {
			panic(pathEnd{"infeasible", "assume"})
		}
		if r == smt.Unknown {
			in.res.Stats.UnknownFeas++
		}
	}
}

// addLemma asserts a valid fact (no feasibility check needed).
func (in *Interp) addLemma(c *smt.Term) {
	if c.IsTrue() {
		return
	}
	in.pc = append(in.pc, c)
	if in.cfg.Concrete == nil && in.sending() {
		in.solver.Assert(c)
	}
}

// fork chooses among alternative conditions (exhaustive, mutually exclusive) and returns the index taken.
func (in *Interp) fork(alts []*smt.Term, label string) int {
	// constant alternatives
	nonFalse := -1
	cnt := 0
	for i, a := range alts {
		if a.IsTrue() {
			return i
		}
		if !a.IsFalse() {
			nonFalse = i
			cnt++
		}
	}
	if cnt == 0 {
		panic(pathEnd{"infeasible", "no alternative: " + label})
	}
	_ = nonFalse
	if in.cfg.Concrete != nil {
		panic(fmt.Sprintf("fork on symbolic condition in concrete mode: %s: %s", label, alts[0]))
	}
	in.expose(alts...)
	// literals already on the path condition decide the fork without the solver (deterministic, so re-execution agrees)
	in.indexPC()
	for i, a := range alts {
		if in.pcLits[a.ID] {
			return i
		}
	}
	if in.pos < len(in.decisions) {
		d := in.decisions[in.pos]
		if in.pos >= in.replayRegions-1 {
			in.solver.Push()
			in.solver.Assert(alts[d.taken])
		}
		in.pos++
		in.pc = append(in.pc, alts[d.taken])
		in.noteBound(alts[d.taken])
		return d.taken
	}
	var feas []int
	for i, a := range alts {
		if a.IsFalse() || in.pcLits[in.ctx.Not(a).ID] {
			continue
		}
		// last alternative is feasible for free if nothing else was (PC is satisfiable and alts are exhaustive)
		if i == len(alts)-1 && len(feas) == 0 {
			feas = append(feas, i)
			break
		}
		r := in.solver.CheckWith(a)
		if r == smt.Unknown {
			in.res.Stats.UnknownFeas++
		}
		if r != smt.Unsat {
			feas = append(feas, i)
		}
	}
	if len(feas) == 0 {
		panic(pathEnd{"infeasible", "no feasible alternative: " + label})
	}
	if len(feas) > 1 {
		in.res.Stats.Forks += len(feas) - 1
		in.noteFork(label, len(feas)-1)
	}
	d := decision{taken: feas[0], remaining: feas[1:], label: label}
	in.decisions = append(in.decisions, d)
	in.solver.Push()
	in.solver.Assert(alts[d.taken])
	in.pos++
	in.pc = append(in.pc, alts[d.taken])
	in.noteBound(alts[d.taken])
	return d.taken
}

// indexPC records the literals (conjuncts) of the path condition added since the last call.
func (in *Interp) indexPC() {
	if in.pcLits == nil {
		in.pcLits = map[int]bool{}
	}
	var add func(t *smt.Term)
	add = func(t *smt.Term) {
		in.pcLits[t.ID] = true
		if t.Op == "and" {
			for _, a := range t.A {
				add(a)
			}
		}
	}
	for ; in.pcSeen < len(in.pc); in.pcSeen++ {
		add(in.pc[in.pcSeen])
	}
}

// branch decides a boolean condition.
func (in *Interp) branch(c *smt.Term, label string) bool {
	if c.IsConst() {
		return c.IsTrue()
	}
	return in.fork([]*smt.Term{c, in.ctx.Not(c)}, label) == 0
}

// concretize returns a concrete value for the term t in [lo,hi]; forks over feasible values.
// Values outside the range must have been excluded by the caller.
func (in *Interp) concretize(t *smt.Term, lo, hi int, label string) int {
	if t.IsConst() {
		return int(smt.Signed(t.V, 64).Int64())
	}
	if in.cfg.Concrete != nil {
		panic("symbolic term in concrete mode")
	}
	if hi-lo+1 > in.cfg.AllocBound+1 {
		// try uniqueness first
		hi = lo + in.cfg.AllocBound
		over := in.cmpConst(t, ">", int64(hi))
		if in.branch(over, label+":beyond-bound") {
			in.unsupported(fmt.Sprintf("%s: symbolic size beyond enumeration bound %d", label, in.cfg.AllocBound))
		}
	}
	alts := make([]*smt.Term, 0, hi-lo+1)
	for k := lo; k <= hi; k++ {
		alts = append(alts, in.cmpConst(t, "==", int64(k)))
	}
	return lo + in.fork(alts, label)
}

func (in *Interp) cmpConst(t *smt.Term, op string, k int64) *smt.Term {
	var kt *smt.Term
	if t.S.K == smt.KInt {
		kt = in.ctx.Inti(k)
	} else {
		kt = in.ctx.BVi(k, t.S.W)
	}
	switch op {
	case "==":
		return in.ctx.Eq(t, kt)
	case ">":
		if t.S.K == smt.KInt {
			return in.ctx.ILt(kt, t)
		}
		return in.ctx.BVSlt(kt, t)
	case "<":
		if t.S.K == smt.KInt {
			return in.ctx.ILt(t, kt)
		}
		return in.ctx.BVSlt(t, kt)
	}
	panic(op)
}

// ---------------------------------------------------------------- frames

type deferred struct {
	fn    value
	args  []value
	instr *ssa.Defer
	tail  *deferred
}

type frame struct {
	in        *Interp
	caller    *frame
	fn        *ssa.Function
	block     *ssa.BasicBlock
	prevBlock *ssa.BasicBlock
	env       map[ssa.Value]value
	locals    []value
	defers    *deferred
	result    value
	panicking bool
	panicVal  interface{}
	visits    map[*ssa.BasicBlock]int
	lastSym   map[*ssa.BasicBlock]int
	lits      *fnLits // constant array literals of fn (only for large functions, see fastinit.go)
}

func (fr *frame) get(key ssa.Value) value {
	switch key := key.(type) {
	case nil:
		return nil
	case *ssa.Function:
		return key
	case *ssa.Builtin:
		return key
	case *ssa.Const:
		return fr.in.constValue(key)
	case *ssa.Global:
		return fr.in.globalAddr(key)
	}
	if r, ok := fr.env[key]; ok {
		return r
	}
	panic(fmt.Sprintf("get: no value for %T: %v in %s", key, key.Name(), fr.fn))
}

func (in *Interp) globalAddr(g *ssa.Global) *value {
	if p, ok := in.globals[g]; ok {
		return p
	}
	if g.Pkg != nil {
		in.ensureInit(g.Pkg)
		if p, ok := in.globals[g]; ok {
			return p
		}
	}
	p := new(value)
	*p = in.zero(deref(g.Type()))
	in.globals[g] = p
	return p
}

func deref(t types.Type) types.Type {
	if p, ok := t.Underlying().(*types.Pointer); ok {
		return p.Elem()
	}
	panic("deref of non-pointer " + t.String())
}

func (in *Interp) ensureInit(pkg *ssa.Package) {
	if in.inited[pkg] {
		return
	}
	in.inited[pkg] = true
	if !in.interpretedPkg(pkg.Pkg.Path()) {
		return
	}
	// allocate globals
	for _, m := range pkg.Members {
		if g, ok := m.(*ssa.Global); ok {
			if _, ok := in.globals[g]; !ok {
				p := new(value)
				*p = in.zero(deref(g.Type()))
				in.globals[g] = p
			}
		}
	}
	if noInitPkgs[pkg.Pkg.Path()] {
		return
	}
	if f := pkg.Func("init"); f != nil {
		in.initDepth++
		defer func() {
			in.initDepth--
			if r := recover(); r != nil {
				if gp, ok := r.(goPanic); ok {
					in.res.Assumptions = appendUniq(in.res.Assumptions, "package initialiser of "+pkg.Pkg.Path()+" abandoned at a library call the engine skips: "+gp.msg+" ["+gp.stack+"]")
					return
				}
				panic(r)
			}
		}()
		in.call(nil, f, nil, token.NoPos)
	}
}

var noInitPkgs = map[string]bool{"errors": true, "unicode": true, "strconv": true, "math": true, "bufio": false}

func (in *Interp) constValue(c *ssa.Const) value {
	if c.Value == nil {
		return in.zero(c.Type())
	}
	t := c.Type().Underlying()
	if b, ok := t.(*types.Basic); ok {
		switch {
		case b.Info()&types.IsBoolean != 0:
			return in.ctx.Bool(constBool(c))
		case b.Info()&types.IsInteger != 0:
			v, _ := new(big.Int).SetString(c.Value.ExactString(), 10)
			if v == nil {
				// could be a float-valued constant converted; use Int64
				v = big.NewInt(c.Int64())
			}
			return in.intConst(b, v)
		case b.Info()&types.IsFloat != 0:
			return c.Float64()
		case b.Info()&types.IsComplex != 0:
			return c.Complex128()
		case b.Info()&types.IsString != 0:
			return constString(c)
		}
	}
	if _, ok := t.(*types.TypeParam); ok {
		in.unsupported("type-param constant")
	}
	panic(fmt.Sprintf("constValue: %v", c))
}

// ---------------------------------------------------------------- calls

func (in *Interp) call(caller *frame, fnv value, args []value, pos token.Pos) value {
	switch fn := fnv.(type) {
	case *ssa.Function:
		if fn == nil {
			panic(goPanic{msg: "call of nil function"})
		}
		return in.callSSA(caller, fn, args, nil)
	case *closure:
		if fn == nil {
			panic(goPanic{msg: "call of nil closure"})
		}
		return in.callSSA(caller, fn.fn, args, fn.env)
	case *ssa.Builtin:
		return in.callBuiltin(caller, fn, args)
	case *nativeFn:
		return fn.f(in, caller, args)
	}
	panic(fmt.Sprintf("call: cannot call %T", fnv))
}

type nativeFn struct {
	name string
	f    func(in *Interp, caller *frame, args []value) value
}

func (in *Interp) callSSA(caller *frame, fn *ssa.Function, args []value, env []value) value {
	name := fn.String()
	// package initializers
	if fn.Pkg != nil && fn.Name() == "init" && fn.Signature.Recv() == nil && fn.Pkg.Func("init") == fn {
		if in.inited[fn.Pkg] && caller != nil && caller.fn.Name() == "init" {
			return nil
		}
		if !in.inited[fn.Pkg] {
			in.ensureInit(fn.Pkg)
			return nil
		}
		if !in.interpretedPkg(fn.Pkg.Pkg.Path()) {
			return nil
		}
	}
	if strings.HasPrefix(fn.Name(), "file_") && strings.HasSuffix(fn.Name(), "_proto_init") {
		in.res.StubsHit["protobuf descriptor registration (skipped)"]++
		return nil
	}
	if stub, ok := in.cfg.Stubs[name]; ok {
		sf := in.lookupFunc(stub)
		if sf == nil {
			in.unsupported("stub function not found: " + stub)
		}
		in.res.StubsHit[name+" => "+stub]++
		return in.callSSA(caller, sf, args, nil)
	}
	if f, ok := in.lookupIntrinsic(name); ok {
		in.res.StubsHit[name]++
		return f(in, caller, fn, args)
	}
	if f := dynIntrinsic(fn); f != nil { // summaries selected by name pattern (cgo's _Cfunc_*), see intr_cgo.go
		in.res.StubsHit[name]++
		return f(in, caller, fn, args)
	}
	if fn.Origin() != nil {
		if f, ok := in.lookupIntrinsic(fn.Origin().String()); ok {
			in.res.StubsHit[fn.Origin().String()]++
			return f(in, caller, fn, args)
		}
	}
	pkgPath := ""
	if p := fnPkg(fn); p != nil {
		pkgPath = p.Path()
	}
	if r, handled := in.policyCall(caller, fn, pkgPath, args); handled {
		return r
	}
	if in.initDepth > 0 && pkgPath != "" && !in.interpretedPkg(pkgPath) {
		// package initialisers: registration calls into libraries are skipped
		in.res.StubsHit["init-skip:"+pkgPath]++
		return in.zero(fn.Signature.Results())
	}
	if fn.Blocks == nil {
		in.unsupported("external function without body: " + name)
	}
	if in.depth > 2000 {
		in.unsupported("call depth exceeded at " + name)
	}
	if strings.HasPrefix(pkgPath, "github.com/aergoio/aergo/v2") {
		in.res.Functions[name] = true
	}
	fr := &frame{in: in, caller: caller, fn: fn, env: make(map[ssa.Value]value), block: fn.Blocks[0], visits: map[*ssa.BasicBlock]int{}}
	if len(fn.Blocks) > 0 && len(fn.Blocks[0].Instrs) > 256 || fn.Name() == "init" {
		if fl := literalInfo(fn); len(fl.allocs) > 0 {
			fr.lits = fl
		}
	}
	fr.locals = make([]value, len(fn.Locals))
	for i, l := range fn.Locals {
		fr.locals[i] = in.zero(deref(l.Type()))
		fr.env[l] = &fr.locals[i]
	}
	for i, p := range fn.Params {
		fr.env[p] = args[i]
	}
	for i, fv := range fn.FreeVars {
		fr.env[fv] = env[i]
	}
	in.depth++
	in.stack = append(in.stack, fn.String())
	in.callRing[in.callRingN%len(in.callRing)] = fn.String()
	in.callRingN++
	defer func() { in.depth--; in.stack = in.stack[:len(in.stack)-1] }()
	for fr.block != nil {
		in.runFrame(fr)
	}
	return fr.result
}

func fnPkg(fn *ssa.Function) *types.Package {
	if fn.Pkg != nil {
		return fn.Pkg.Pkg
	}
	if fn.Object() != nil {
		return fn.Object().Pkg()
	}
	if o := fn.Origin(); o != nil {
		return fnPkg(o)
	}
	if p := fn.Parent(); p != nil {
		return fnPkg(p)
	}
	return nil
}

// runFrame executes blocks until return; handles panics with defers/recover per Go semantics.
func (in *Interp) runFrame(fr *frame) {
	defer func() {
		if fr.block == nil {
			return // normal return
		}
		r := recover()
		if r == nil {
			return
		}
		if _, ok := r.(pathEnd); ok {
			panic(r)
		}
		gp, ok := r.(goPanic)
		if !ok {
			// engine bug: add the interpreted call stack to the message (once, at the innermost frame)
			if _, done := r.(engineBug); !done {
				n := len(in.stack)
				lo := n - 8
				if lo < 0 {
					lo = 0
				}
				r = engineBug(fmt.Sprintf("%v [ssa stack: %s]", r, strings.Join(in.stack[lo:], " > ")))
			}
			panic(r)
		}
		if gp.stack == "" {
			n := len(in.stack)
			lo := n - 6
			if lo < 0 {
				lo = 0
			}
			gp.stack = strings.Join(in.stack[lo:], " > ")
		}
		fr.panicking = true
		fr.panicVal = gp
		fr.runDefers()
		// recovered: continue at the Recover block
		fr.block = fr.fn.Recover
	}()
	for {
		b := fr.block
		// only iterations separated by a symbolic decision count against the unwinding bound
		if last, ok := fr.lastSym[b]; !ok || last != in.pos {
			fr.visits[b]++
			if fr.lastSym == nil {
				fr.lastSym = map[*ssa.BasicBlock]int{}
			}
			fr.lastSym[b] = in.pos
		}
		if fr.visits[b] > in.cfg.Unwind {
			panic(pathEnd{"inconclusive", fmt.Sprintf("unwinding bound %d exceeded in %s block %d", in.cfg.Unwind, fr.fn, b.Index)})
		}
		// phis
		var phis []value
		nphi := 0
		for _, instr := range b.Instrs {
			phi, ok := instr.(*ssa.Phi)
			if !ok {
				break
			}
			nphi++
			for i, pred := range b.Preds {
				if pred == fr.prevBlock {
					phis = append(phis, fr.get(phi.Edges[i]))
					break
				}
			}
		}
		for i := 0; i < nphi; i++ {
			fr.env[b.Instrs[i].(*ssa.Phi)] = phis[i]
		}
		jumped := false
		if profSteps != nil {
			profMu.Lock()
			profSteps[fr.fn.String()] += int64(len(b.Instrs))
			profMu.Unlock()
		}
		for _, instr := range b.Instrs[nphi:] {
			if fr.lits != nil && fr.lits.skip[instr] {
				continue // constant array literal element, applied in bulk at the Alloc (fastinit.go)
			}
			in.steps++
			in.res.Stats.Steps++
			if in.steps > in.cfg.MaxSteps {
				panic(pathEnd{"inconclusive", "step budget exceeded"})
			}
			switch in.visitInstr(fr, instr) {
			case kReturn:
				return
			case kJump:
				jumped = true
			}
			if jumped {
				break
			}
		}
		if !jumped {
			panic("block fell through: " + fr.fn.String())
		}
	}
}

func (fr *frame) runDefers() {
	for d := fr.defers; d != nil; d = d.tail {
		fr.runDefer(d)
	}
	fr.defers = nil
	if fr.panicking {
		panic(fr.panicVal)
	}
}

func (fr *frame) runDefer(d *deferred) {
	ok := false
	defer func() {
		if !ok {
			r := recover()
			if _, isEnd := r.(pathEnd); isEnd {
				panic(r)
			}
			if gp, isGo := r.(goPanic); isGo {
				// deferred call panicked: replaces current panic
				fr.panicking = true
				fr.panicVal = gp
				return
			}
			panic(r)
		}
	}()
	fr.in.call(fr, d.fn, d.args, d.instr.Pos())
	ok = true
}

type continuation int

const (
	kNext continuation = iota
	kReturn
	kJump
)

func (in *Interp) visitInstr(fr *frame, instr ssa.Instruction) continuation {
	switch instr := instr.(type) {
	case *ssa.DebugRef:
	case *ssa.UnOp:
		fr.env[instr] = in.unop(fr, instr, fr.get(instr.X))
	case *ssa.BinOp:
		fr.env[instr] = in.binop(instr.Op, instr.X.Type(), instr.Y.Type(), fr.get(instr.X), fr.get(instr.Y))
	case *ssa.Call:
		fn, args := in.prepareCall(fr, &instr.Call)
		fr.env[instr] = in.call(fr, fn, args, instr.Pos())
	case *ssa.ChangeInterface:
		fr.env[instr] = fr.get(instr.X)
	case *ssa.ChangeType:
		fr.env[instr] = fr.get(instr.X)
	case *ssa.Convert:
		fr.env[instr] = in.conv(instr.Type(), instr.X.Type(), fr.get(instr.X))
	case *ssa.SliceToArrayPointer:
		x := fr.get(instr.X)
		n := int(instr.Type().Underlying().(*types.Pointer).Elem().Underlying().(*types.Array).Len())
		s := in.materialize(x)
		if len(s) < n {
			panic(goPanic{msg: "slice to array pointer: length too short"})
		}
		if s == nil {
			fr.env[instr] = (*value)(nil)
		} else {
			in.unsupported("SliceToArrayPointer")
		}
	case *ssa.MakeInterface:
		fr.env[instr] = iface{t: instr.X.Type(), v: fr.get(instr.X)}
	case *ssa.Extract:
		fr.env[instr] = fr.get(instr.Tuple).(tuple)[instr.Index]
	case *ssa.Slice:
		fr.env[instr] = in.sliceOp(fr, instr)
	case *ssa.Return:
		switch len(instr.Results) {
		case 0:
		case 1:
			fr.result = fr.get(instr.Results[0])
		default:
			var res tuple
			for _, r := range instr.Results {
				res = append(res, fr.get(r))
			}
			fr.result = res
		}
		fr.block = nil
		return kReturn
	case *ssa.RunDefers:
		fr.runDefers()
	case *ssa.Panic:
		v := fr.get(instr.X)
		panic(goPanic{v: v, msg: in.panicString(v)})
	case *ssa.Send:
		ch := fr.get(instr.Chan).(*chanV)
		if ch == nil {
			in.unsupported("send on nil channel")
		}
		if ch.closed {
			panic(goPanic{msg: "send on closed channel"})
		}
		ch.buf = append(ch.buf, copyVal(fr.get(instr.X)))
	case *ssa.Store:
		p := fr.get(instr.Addr).(*value)
		if p == nil {
			panic(goPanic{msg: "nil pointer dereference (store)"})
		}
		in.assignInto(p, fr.get(instr.Val))
	case *ssa.If:
		c := fr.get(instr.Cond).(*smt.Term)
		succ := 1
		if in.branch(c, "if@"+in.posStr(instr.Pos(), fr)) {
			succ = 0
		}
		fr.prevBlock, fr.block = fr.block, fr.block.Succs[succ]
		return kJump
	case *ssa.Jump:
		fr.prevBlock, fr.block = fr.block, fr.block.Succs[0]
		return kJump
	case *ssa.Defer:
		fn, args := in.prepareCall(fr, &instr.Call)
		fr.defers = &deferred{fn: fn, args: args, instr: instr, tail: fr.defers}
	case *ssa.Go:
		fn, args := in.prepareCall(fr, &instr.Call)
		in.goStmt(fr, fn, args)
	case *ssa.MakeChan:
		n := in.concretize(fr.get(instr.Size).(*smt.Term), 0, in.cfg.AllocBound, "makechan")
		fr.env[instr] = &chanV{cap: n}
	case *ssa.Alloc:
		var addr *value
		if instr.Heap {
			addr = new(value)
			fr.env[instr] = addr
		} else {
			addr = fr.env[instr].(*value)
		}
		*addr = in.zero(deref(instr.Type()))
		if fr.lits != nil && instr.Heap {
			in.bulkInit(fr.lits, instr, addr)
		}
	case *ssa.MakeSlice:
		ln := fr.get(instr.Len).(*smt.Term)
		cp := fr.get(instr.Cap).(*smt.Term)
		in.checkAlloc(fr, instr, ln)
		n := in.concretize(ln, 0, 1<<40, "makeslice-len@"+in.posStr(instr.Pos(), fr))
		c := n
		if cp != ln {
			c = in.concretize(cp, 0, 1<<40, "makeslice-cap")
		}
		if n < 0 || c < n {
			panic(goPanic{msg: "makeslice: len out of range"})
		}
		if c > 1<<24 {
			in.unsupported(fmt.Sprintf("makeslice of %d elements", c))
		}
		s := make(sliceV, c)
		tElt := instr.Type().Underlying().(*types.Slice).Elem()
		for i := range s {
			s[i] = in.zero(tElt)
		}
		fr.env[instr] = s[:n]
	case *ssa.MakeMap:
		fr.env[instr] = &mapV{kt: instr.Type().Underlying().(*types.Map).Key()}
	case *ssa.Range:
		fr.env[instr] = in.rangeIter(fr.get(instr.X), instr.X.Type())
	case *ssa.Next:
		fr.env[instr] = fr.get(instr.Iter).(rangeIter).next(in)
	case *ssa.FieldAddr:
		p := fr.get(instr.X).(*value)
		if p == nil {
			panic(goPanic{msg: "nil pointer dereference (field " + in.posStr(instr.Pos(), fr) + ")"})
		}
		s, ok := (*p).(structure)
		if !ok {
			in.unsupported(fmt.Sprintf("FieldAddr on %T in %s", *p, fr.fn))
		}
		fr.env[instr] = &s[instr.Field]
	case *ssa.Field:
		fr.env[instr] = copyVal(fr.get(instr.X).(structure)[instr.Field])
	case *ssa.IndexAddr:
		x := fr.get(instr.X)
		idx := fr.get(instr.Index).(*smt.Term)
		switch x := x.(type) {
		case sliceV:
			i := in.index(idx, len(x), instr.Index.Type(), "indexaddr@"+in.posStr(instr.Pos(), fr))
			fr.env[instr] = &x[i]
		case *bigBytes:
			s := in.materialize(x)
			i := in.index(idx, len(s), instr.Index.Type(), "indexaddr")
			fr.env[instr] = &s[i]
		case *value:
			if x == nil {
				panic(goPanic{msg: "nil pointer dereference (index)"})
			}
			a := (*x).(array)
			i := in.index(idx, len(a), instr.Index.Type(), "indexaddr@"+in.posStr(instr.Pos(), fr))
			fr.env[instr] = &a[i]
		default:
			panic(fmt.Sprintf("IndexAddr: %T", x))
		}
	case *ssa.Index:
		x := fr.get(instr.X)
		idx := fr.get(instr.Index).(*smt.Term)
		switch x := x.(type) {
		case array:
			i := in.index(idx, len(x), instr.Index.Type(), "index")
			fr.env[instr] = copyVal(x[i])
		case string, *symStr:
			b := in.strBytes(x)
			i := in.index(idx, len(b), instr.Index.Type(), "strindex")
			fr.env[instr] = b[i]
		default:
			in.unsupported(fmt.Sprintf("Index on %T", x))
		}
	case *ssa.Lookup:
		fr.env[instr] = in.lookup(instr, fr.get(instr.X), fr.get(instr.Index))
	case *ssa.MapUpdate:
		m := fr.get(instr.Map).(*mapV)
		if m == nil {
			panic(goPanic{msg: "assignment to entry in nil map"})
		}
		in.mapSet(m, fr.get(instr.Key), copyVal(fr.get(instr.Value)))
	case *ssa.TypeAssert:
		fr.env[instr] = in.typeAssert(instr, fr.get(instr.X).(iface))
	case *ssa.MakeClosure:
		var b []value
		for _, x := range instr.Bindings {
			b = append(b, fr.get(x))
		}
		fr.env[instr] = &closure{instr.Fn.(*ssa.Function), b}
	case *ssa.Select:
		fr.env[instr] = in.selectOp(fr, instr)
	default:
		panic(fmt.Sprintf("unexpected instruction %T", instr))
	}
	return kNext
}

func (in *Interp) posStr(p token.Pos, fr *frame) string {
	if p == token.NoPos {
		if fr != nil {
			return fr.fn.Name()
		}
		return "?"
	}
	ps := in.prog.Fset.Position(p)
	f := ps.Filename
	if i := strings.LastIndex(f, "/"); i >= 0 {
		f = f[i+1:]
	}
	return fmt.Sprintf("%s:%d", f, ps.Line)
}

// index bounds-checks idx against n and returns a concrete index.
func (in *Interp) index(idx *smt.Term, n int, it types.Type, label string) int {
	if idx.IsConst() {
		v := in.termInt(idx, it)
		if v.Sign() < 0 || v.Cmp(big.NewInt(int64(n))) >= 0 {
			panic(goPanic{msg: fmt.Sprintf("index out of range [%s] with length %d (%s)", v, n, label)})
		}
		return int(v.Int64())
	}
	inRange := in.inRange(idx, it, n)
	if !in.branch(inRange, label+":bounds") {
		panic(goPanic{msg: fmt.Sprintf("index out of range [symbolic] with length %d (%s)", n, label)})
	}
	if n == 0 {
		panic(pathEnd{"infeasible", "index into empty"})
	}
	return in.concretizeIdx(idx, it, n, label)
}

func (in *Interp) prepareCall(fr *frame, call *ssa.CallCommon) (value, []value) {
	v := fr.get(call.Value)
	var fn value
	var args []value
	if call.Method == nil {
		fn = v
	} else {
		recv := v.(iface)
		if recv.t == nil {
			panic(goPanic{msg: "nil interface method call: " + call.Method.Name()})
		}
		if nf := in.engineMethod(recv, call.Method); nf != nil {
			fn = nf
		} else {
			f := in.prog.LookupMethod(recv.t, call.Method.Pkg(), call.Method.Name())
			if f == nil {
				in.unsupported(fmt.Sprintf("method %s not found for dynamic type %v", call.Method.Name(), recv.t))
			}
			fn = f
		}
		args = append(args, recv.v)
	}
	for _, a := range call.Args {
		args = append(args, fr.get(a))
	}
	return fn, args
}

func (in *Interp) panicString(v value) string {
	if i, ok := v.(iface); ok {
		if s, ok := i.v.(string); ok {
			return s
		}
		if i.t != nil {
			// error values: try the Error method lazily is costly; describe the type
			return "panic(" + i.t.String() + ")"
		}
	}
	return in.describe(v)
}

func (in *Interp) lookupFunc(full string) *ssa.Function {
	// full is like "github.com/x/y.Func" or "(*github.com/x/y.T).Method"
	if f, ok := in.funcIndex()[full]; ok {
		return f
	}
	return nil
}

var funcIdx map[string]*ssa.Function
var funcIdxMu sync.Mutex

func (in *Interp) funcIndex() map[string]*ssa.Function {
	funcIdxMu.Lock()
	defer funcIdxMu.Unlock()
	if funcIdx != nil {
		return funcIdx
	}
	funcIdx = map[string]*ssa.Function{}
	for _, p := range in.prog.AllPackages() {
		for _, m := range p.Members {
			switch m := m.(type) {
			case *ssa.Function:
				funcIdx[m.String()] = m
			case *ssa.Type:
				for _, t := range []types.Type{m.Type(), types.NewPointer(m.Type())} {
					ms := in.prog.MethodSets.MethodSet(t)
					for i := 0; i < ms.Len(); i++ {
						if f := in.prog.MethodValue(ms.At(i)); f != nil {
							funcIdx[f.String()] = f
						}
					}
				}
			}
		}
	}
	return funcIdx
}

func (in *Interp) reportPanic(gp goPanic) {
	if in.cfg.NoPanicViol {
		return
	}
	v := &Violation{Obligation: "no-panic", Kind: "panic", Msg: gp.msg + " [" + gp.stack + "]"}
	if in.cfg.Concrete == nil {
		r := in.solver.Check()
		if r == smt.Unsat {
			return
		}
		v.Model = in.model()
	}
	v.Path = in.pathLog
	in.res.Violations = append(in.res.Violations, v)
}

// model extracts the current model (solver must be in sat state).
func (in *Interp) model() map[string]string {
	m := map[string]string{}
	for k, v := range in.choices {
		m[k] = v
	}
	vals, err := in.solver.Values(in.pathVars)
	if err != nil {
		in.res.Inconclusive = appendUniq(in.res.Inconclusive, "model extraction: "+err.Error())
		return m
	}
	for _, t := range in.pathVars {
		if v, ok := vals[t.ID]; ok {
			m[in.varNames[t.ID]] = v.String()
		}
	}
	return m
}

func sortedKeys(m map[string]bool) []string {
	var k []string
	for s := range m {
		k = append(k, s)
	}
	sort.Strings(k)
	return k
}

// lastCalls: the most recently entered interpreted functions (diagnostics for engine panics only)
func (in *Interp) lastCalls() []string {
	var out []string
	for i := in.callRingN - len(in.callRing); i < in.callRingN; i++ {
		if i >= 0 {
			out = append(out, in.callRing[i%len(in.callRing)])
		}
	}
	return out
}
