package sym

import (
	"github.com/mr-tron/base58/base58"
	"golang.org/x/tools/go/ssa"
)

// Text forms of libp2p identifiers (peer.ID.String and friends end in mr-tron base58 with a package-level alphabet
// table): exact on concrete bytes, an injective codec token otherwise - the same summary as aergo's own
// internal/enc/base58.Encode, which wraps this function.
func init() {
	enc := func(in *Interp, c *frame, fn *ssa.Function, a []value) value {
		bs := in.byteTerms(a[0])
		if cb, ok := allConst(bs); ok {
			return base58.Encode(cb)
		}
		return in.codecToken("b58", bs)
	}
	reg("github.com/mr-tron/base58/base58.Encode", enc)
	reg("github.com/mr-tron/base58/base58.FastBase58Encoding", enc)
	reg("github.com/mr-tron/base58/base58.TrivialBase58Encoding", enc)
}
