package sym

import (
	"go/types"
	"math/big"
	"sync"

	"golang.org/x/tools/go/ssa"
)

// Large constant array/slice literals (protobuf raw descriptors, lookup tables) compile to one IndexAddr+Store pair
// per element. Package initialisers are re-executed on every path, so such a literal costs tens of thousands of
// interpreted instructions per path. bulkLiteral recognises the exact pattern
//
//	t0 = new [N]T (slicelit); t1 = &t0[c1]; *t1 = k1; t2 = &t0[c2]; *t2 = k2; ...
//
// (integer element type, constant indices and values, each address used by its store only) and performs the whole
// run of stores at once. The semantics are those of executing the instructions one by one.

type bulkLit struct {
	skip int        // number of instructions after the Alloc that are covered (0: pattern absent)
	idx  []int      // element indices
	val  []*big.Int // element values
	elem *types.Basic
	n    int
}

var bulkCache sync.Map // *ssa.Alloc -> *bulkLit

const bulkMinElems = 32

func analyseBulk(b *ssa.BasicBlock, at int, al *ssa.Alloc) *bulkLit {
	bl := &bulkLit{}
	arr, ok := deref(al.Type()).Underlying().(*types.Array)
	if !ok {
		return bl
	}
	eb, ok := arr.Elem().Underlying().(*types.Basic)
	if !ok || eb.Info()&types.IsInteger == 0 {
		return bl
	}
	i := at + 1
	for i+1 < len(b.Instrs) {
		ia, ok := b.Instrs[i].(*ssa.IndexAddr)
		if !ok || ia.X != ssa.Value(al) {
			break
		}
		ic, ok := ia.Index.(*ssa.Const)
		if !ok || ic.Value == nil {
			break
		}
		st, ok := b.Instrs[i+1].(*ssa.Store)
		if !ok || st.Addr != ssa.Value(ia) {
			break
		}
		vc, ok := st.Val.(*ssa.Const)
		if !ok || vc.Value == nil {
			break
		}
		if refs := ia.Referrers(); refs == nil || len(*refs) != 1 {
			break
		}
		k := ic.Int64()
		if k < 0 || k >= arr.Len() {
			break
		}
		v, ok := new(big.Int).SetString(vc.Value.ExactString(), 10)
		if !ok {
			break
		}
		bl.idx = append(bl.idx, int(k))
		bl.val = append(bl.val, v)
		i += 2
	}
	if len(bl.idx) < bulkMinElems {
		return &bulkLit{}
	}
	bl.skip = i - (at + 1)
	bl.elem = eb
	bl.n = int(arr.Len())
	return bl
}

// bulkLiteral executes the Alloc at b.Instrs[at] together with the following run of constant element stores and
// returns the number of instructions consumed after the Alloc (0 if the pattern does not apply).
func (in *Interp) bulkLiteral(fr *frame, b *ssa.BasicBlock, at int, al *ssa.Alloc) int {
	var bl *bulkLit
	if c, ok := bulkCache.Load(al); ok {
		bl = c.(*bulkLit)
	} else {
		bl = analyseBulk(b, at, al)
		bulkCache.Store(al, bl)
	}
	if bl.skip == 0 {
		return 0
	}
	tpl, ok := in.bulkTpl[al]
	if !ok {
		tpl = make(array, bl.n)
		zero := in.intConst(bl.elem, big.NewInt(0))
		for i := range tpl {
			tpl[i] = zero
		}
		for j, k := range bl.idx {
			tpl[k] = in.intConst(bl.elem, bl.val[j])
		}
		if in.bulkTpl == nil {
			in.bulkTpl = map[*ssa.Alloc]array{}
		}
		in.bulkTpl[al] = tpl // terms live in in.ctx, which outlives the paths
	}
	a := make(array, bl.n)
	copy(a, tpl)
	addr := new(value)
	*addr = a
	fr.env[al] = addr
	return bl.skip
}
