// Package smt: hash-consed SMT terms with constant folding and an SMT-LIB2 printer.
package smt

import (
	"fmt"
	"math/big"
	"sort"
	"strings"
)

type Kind int

const (
	KBool Kind = iota
	KBV
	KInt
)

type Sort struct {
	K Kind
	W int
}

var BoolSort = Sort{KBool, 0}
var IntSort = Sort{KInt, 0}

func BVSort(w int) Sort { return Sort{KBV, w} }

func (s Sort) String() string {
	switch s.K {
	case KBool:
		return "Bool"
	case KInt:
		return "Int"
	}
	return fmt.Sprintf("(_ BitVec %d)", s.W)
}

type Term struct {
	Op   string // "const","var", or SMT operator / UF name
	S    Sort
	A    []*Term
	V    *big.Int // const value (bool: 0/1)
	Name string   // var / UF name
	I1   int      // extract hi / ext amount
	I2   int      // extract lo
	ID   int
}

type UF struct {
	Name string
	Args []Sort
	Ret  Sort
}

type constKey struct {
	s Sort
	v int64
}

type Ctx struct {
	small map[constKey]*Term // constants that fit an int64 (fast path, no allocation)
	tab   map[string]*Term
	next  int
	Vars  []*Term // in creation order
	UFs   map[string]*UF
	UFOrd []string
}

func NewCtx() *Ctx {
	return &Ctx{tab: map[string]*Term{}, UFs: map[string]*UF{}, small: map[constKey]*Term{}}
}

func (c *Ctx) intern(t *Term) *Term {
	var sb strings.Builder
	sb.WriteString(t.Op)
	sb.WriteByte('|')
	sb.WriteString(t.S.String())
	sb.WriteByte('|')
	if t.V != nil {
		sb.WriteString(t.V.String())
	}
	sb.WriteByte('|')
	sb.WriteString(t.Name)
	fmt.Fprintf(&sb, "|%d|%d", t.I1, t.I2)
	for _, a := range t.A {
		fmt.Fprintf(&sb, ",%d", a.ID)
	}
	k := sb.String()
	if o, ok := c.tab[k]; ok {
		return o
	}
	c.next++
	t.ID = c.next
	c.tab[k] = t
	if t.Op == "var" {
		c.Vars = append(c.Vars, t)
	}
	return t
}

func (t *Term) IsConst() bool { return t.Op == "const" }
func (t *Term) IsTrue() bool  { return t.Op == "const" && t.S.K == KBool && t.V.Sign() != 0 }
func (t *Term) IsFalse() bool { return t.Op == "const" && t.S.K == KBool && t.V.Sign() == 0 }

var one = big.NewInt(1)

func mask(w int) *big.Int {
	m := new(big.Int).Lsh(one, uint(w))
	return m.Sub(m, one)
}

func norm(v *big.Int, w int) *big.Int {
	r := new(big.Int).And(v, mask(w))
	return r
}

// signed interpretation of a w-bit value
func Signed(v *big.Int, w int) *big.Int {
	if v.Bit(w-1) == 1 {
		return new(big.Int).Sub(v, new(big.Int).Lsh(one, uint(w)))
	}
	return new(big.Int).Set(v)
}

func (c *Ctx) Bool(b bool) *Term {
	k := constKey{BoolSort, 0}
	if b {
		k.v = 1
	}
	if t, ok := c.small[k]; ok {
		return t
	}
	t := c.intern(&Term{Op: "const", S: BoolSort, V: big.NewInt(k.v)})
	c.small[k] = t
	return t
}
func (c *Ctx) True() *Term  { return c.Bool(true) }
func (c *Ctx) False() *Term { return c.Bool(false) }

func (c *Ctx) BV(v *big.Int, w int) *Term {
	// fast path: a non-negative value below 2^min(w,63) is its own normal form
	if v.Sign() >= 0 && v.IsInt64() {
		x := v.Int64()
		if w >= 63 || x < int64(1)<<uint(w) {
			k := constKey{BVSort(w), x}
			if t, ok := c.small[k]; ok {
				return t
			}
			t := c.intern(&Term{Op: "const", S: k.s, V: big.NewInt(x)})
			c.small[k] = t
			return t
		}
	}
	return c.intern(&Term{Op: "const", S: BVSort(w), V: norm(v, w)})
}
func (c *Ctx) BVu(v uint64, w int) *Term {
	if v < 1<<62 && (w >= 63 || v < uint64(1)<<uint(w)) {
		if t, ok := c.small[constKey{BVSort(w), int64(v)}]; ok {
			return t
		}
	}
	return c.BV(new(big.Int).SetUint64(v), w)
}
func (c *Ctx) BVi(v int64, w int) *Term {
	if v >= 0 && (w >= 63 || v < int64(1)<<uint(w)) {
		if t, ok := c.small[constKey{BVSort(w), v}]; ok {
			return t
		}
	}
	return c.BV(big.NewInt(v), w)
}
func (c *Ctx) Int(v *big.Int) *Term {
	if v.IsInt64() {
		k := constKey{IntSort, v.Int64()}
		if t, ok := c.small[k]; ok {
			return t
		}
		t := c.intern(&Term{Op: "const", S: IntSort, V: big.NewInt(k.v)})
		c.small[k] = t
		return t
	}
	return c.intern(&Term{Op: "const", S: IntSort, V: new(big.Int).Set(v)})
}
func (c *Ctx) Inti(v int64) *Term {
	if t, ok := c.small[constKey{IntSort, v}]; ok {
		return t
	}
	return c.Int(big.NewInt(v))
}

func (c *Ctx) Var(name string, s Sort) *Term {
	return c.intern(&Term{Op: "var", S: s, Name: name})
}

func (c *Ctx) DeclareUF(name string, args []Sort, ret Sort) *UF {
	if u, ok := c.UFs[name]; ok {
		return u
	}
	u := &UF{name, args, ret}
	c.UFs[name] = u
	c.UFOrd = append(c.UFOrd, name)
	return u
}

func (c *Ctx) Apply(u *UF, args ...*Term) *Term {
	return c.intern(&Term{Op: "uf", S: u.Ret, Name: u.Name, A: args})
}

func (c *Ctx) mk(op string, s Sort, args ...*Term) *Term {
	return c.intern(&Term{Op: op, S: s, A: args})
}

// ---------- boolean ----------

func (c *Ctx) Not(a *Term) *Term {
	if a.IsConst() {
		return c.Bool(a.V.Sign() == 0)
	}
	if a.Op == "not" {
		return a.A[0]
	}
	return c.mk("not", BoolSort, a)
}

func (c *Ctx) And(as ...*Term) *Term {
	var out []*Term
	seen := map[int]bool{}
	for _, a := range as {
		if a.IsFalse() {
			return a
		}
		if a.IsTrue() || seen[a.ID] {
			continue
		}
		if a.Op == "and" {
			for _, x := range a.A {
				if !seen[x.ID] {
					seen[x.ID] = true
					out = append(out, x)
				}
			}
			continue
		}
		seen[a.ID] = true
		out = append(out, a)
	}
	for _, a := range out {
		if a.Op == "not" && seen[a.A[0].ID] {
			return c.False()
		}
	}
	if len(out) == 0 {
		return c.True()
	}
	if len(out) == 1 {
		return out[0]
	}
	return c.mk("and", BoolSort, out...)
}

func (c *Ctx) Or(as ...*Term) *Term {
	var out []*Term
	seen := map[int]bool{}
	for _, a := range as {
		if a.IsTrue() {
			return a
		}
		if a.IsFalse() || seen[a.ID] {
			continue
		}
		if a.Op == "or" {
			for _, x := range a.A {
				if !seen[x.ID] {
					seen[x.ID] = true
					out = append(out, x)
				}
			}
			continue
		}
		seen[a.ID] = true
		out = append(out, a)
	}
	for _, a := range out {
		if a.Op == "not" && seen[a.A[0].ID] {
			return c.True()
		}
	}
	if len(out) == 0 {
		return c.False()
	}
	if len(out) == 1 {
		return out[0]
	}
	return c.mk("or", BoolSort, out...)
}

func (c *Ctx) Implies(a, b *Term) *Term { return c.Or(c.Not(a), b) }

func (c *Ctx) Ite(cond, a, b *Term) *Term {
	if cond.IsConst() {
		if cond.V.Sign() != 0 {
			return a
		}
		return b
	}
	if a == b {
		return a
	}
	if a.S.K == KBool {
		if a.IsTrue() && b.IsFalse() {
			return cond
		}
		if a.IsFalse() && b.IsTrue() {
			return c.Not(cond)
		}
		if a.IsTrue() {
			return c.Or(cond, b)
		}
		if a.IsFalse() {
			return c.And(c.Not(cond), b)
		}
		if b.IsTrue() {
			return c.Or(c.Not(cond), a)
		}
		if b.IsFalse() {
			return c.And(cond, a)
		}
	}
	return c.mk("ite", a.S, cond, a, b)
}

func (c *Ctx) Eq(a, b *Term) *Term {
	if a.S != b.S {
		panic(fmt.Sprintf("smt.Eq sort mismatch %v %v (%s vs %s)", a.S, b.S, a, b))
	}
	if a == b {
		return c.True()
	}
	if a.IsConst() && b.IsConst() {
		return c.Bool(a.V.Cmp(b.V) == 0)
	}
	if a.S.K == KBool {
		if a.IsConst() {
			a, b = b, a
		}
		if b.IsTrue() {
			return a
		}
		if b.IsFalse() {
			return c.Not(a)
		}
	}
	// eq(ite(c,k1,k2), k) with constants
	if b.IsConst() && a.Op == "ite" && a.A[1].IsConst() && a.A[2].IsConst() {
		return c.Ite(a.A[0], c.Eq(a.A[1], b), c.Eq(a.A[2], b))
	}
	if a.IsConst() && b.Op == "ite" && b.A[1].IsConst() && b.A[2].IsConst() {
		return c.Ite(b.A[0], c.Eq(b.A[1], a), c.Eq(b.A[2], a))
	}
	// bv2nat(x) == K  <=>  x == K (K within range)
	if a.Op == "bv2nat" && b.IsConst() {
		a, b = b, a
	}
	if b.Op == "bv2nat" && a.IsConst() {
		x := b.A[0]
		if a.V.Sign() < 0 || a.V.BitLen() > x.S.W {
			return c.False()
		}
		return c.Eq(x, c.BV(a.V, x.S.W))
	}
	// concat vs const / concat: split bytewise when shapes match
	if a.Op == "concat" && b.Op == "concat" && a.A[0].S == b.A[0].S {
		return c.And(c.Eq(a.A[0], b.A[0]), c.Eq(a.A[1], b.A[1]))
	}
	if a.ID > b.ID {
		a, b = b, a
	}
	return c.mk("=", BoolSort, a, b)
}

// ---------- bit-vectors ----------

func (c *Ctx) bvbin(op string, a, b *Term) *Term {
	if a.S != b.S || a.S.K != KBV {
		panic(fmt.Sprintf("smt.%s sort mismatch %v %v", op, a.S, b.S))
	}
	w := a.S.W
	if a.IsConst() && b.IsConst() {
		x, y := a.V, b.V
		r := new(big.Int)
		switch op {
		case "bvadd":
			r.Add(x, y)
		case "bvsub":
			r.Sub(x, y)
		case "bvmul":
			r.Mul(x, y)
		case "bvand":
			r.And(x, y)
		case "bvor":
			r.Or(x, y)
		case "bvxor":
			r.Xor(x, y)
		case "bvudiv":
			if y.Sign() == 0 {
				r = mask(w)
			} else {
				r.Quo(x, y)
			}
		case "bvurem":
			if y.Sign() == 0 {
				r.Set(x)
			} else {
				r.Rem(x, y)
			}
		case "bvsdiv":
			sx, sy := Signed(x, w), Signed(y, w)
			if sy.Sign() == 0 {
				if sx.Sign() < 0 {
					r.SetInt64(1)
				} else {
					r = mask(w)
				}
			} else {
				r.Quo(sx, sy)
			}
		case "bvsrem":
			sx, sy := Signed(x, w), Signed(y, w)
			if sy.Sign() == 0 {
				r.Set(sx)
			} else {
				r.Rem(sx, sy)
			}
		case "bvshl":
			if y.Cmp(big.NewInt(int64(w))) >= 0 {
				r.SetInt64(0)
			} else {
				r.Lsh(x, uint(y.Uint64()))
			}
		case "bvlshr":
			if y.Cmp(big.NewInt(int64(w))) >= 0 {
				r.SetInt64(0)
			} else {
				r.Rsh(x, uint(y.Uint64()))
			}
		case "bvashr":
			sx := Signed(x, w)
			if y.Cmp(big.NewInt(int64(w))) >= 0 {
				if sx.Sign() < 0 {
					r.SetInt64(-1)
				} else {
					r.SetInt64(0)
				}
			} else {
				r.Rsh(sx, uint(y.Uint64()))
			}
		default:
			panic(op)
		}
		return c.BV(r, w)
	}
	// identities
	zero := func(t *Term) bool { return t.IsConst() && t.V.Sign() == 0 }
	switch op {
	case "bvadd", "bvor", "bvxor":
		if zero(a) {
			return b
		}
		if zero(b) {
			return a
		}
	case "bvsub", "bvshl", "bvlshr", "bvashr":
		if zero(b) {
			return a
		}
	case "bvand":
		if zero(a) || zero(b) {
			return c.BV(big.NewInt(0), w)
		}
		if a.IsConst() && a.V.Cmp(mask(w)) == 0 {
			return b
		}
		if b.IsConst() && b.V.Cmp(mask(w)) == 0 {
			return a
		}
	case "bvmul":
		if zero(a) || zero(b) {
			return c.BV(big.NewInt(0), w)
		}
		if a.IsConst() && a.V.Cmp(one) == 0 {
			return b
		}
		if b.IsConst() && b.V.Cmp(one) == 0 {
			return a
		}
	}
	// shifts by constants of zero-extended / concat values: express with extract/concat
	if (op == "bvlshr" || op == "bvshl") && b.IsConst() {
		k := int(b.V.Int64())
		if b.V.Cmp(big.NewInt(int64(w))) >= 0 {
			return c.BV(big.NewInt(0), w)
		}
		if op == "bvlshr" {
			return c.ZExt(c.Extract(a, w-1, k), k)
		}
		return c.Concat(c.Extract(a, w-1-k, 0), c.BV(big.NewInt(0), k))
	}
	// or of disjoint zext/shifted pieces is left to the solver
	return c.mk(op, a.S, a, b)
}

func (c *Ctx) BVAdd(a, b *Term) *Term  { return c.bvbin("bvadd", a, b) }
func (c *Ctx) BVSub(a, b *Term) *Term  { return c.bvbin("bvsub", a, b) }
func (c *Ctx) BVMul(a, b *Term) *Term  { return c.bvbin("bvmul", a, b) }
func (c *Ctx) BVAnd(a, b *Term) *Term  { return c.bvbin("bvand", a, b) }
func (c *Ctx) BVOr(a, b *Term) *Term   { return c.bvbin("bvor", a, b) }
func (c *Ctx) BVXor(a, b *Term) *Term  { return c.bvbin("bvxor", a, b) }
func (c *Ctx) BVUDiv(a, b *Term) *Term { return c.bvbin("bvudiv", a, b) }
func (c *Ctx) BVURem(a, b *Term) *Term { return c.bvbin("bvurem", a, b) }
func (c *Ctx) BVSDiv(a, b *Term) *Term { return c.bvbin("bvsdiv", a, b) }
func (c *Ctx) BVSRem(a, b *Term) *Term { return c.bvbin("bvsrem", a, b) }
func (c *Ctx) BVShl(a, b *Term) *Term  { return c.bvbin("bvshl", a, b) }
func (c *Ctx) BVLshr(a, b *Term) *Term { return c.bvbin("bvlshr", a, b) }
func (c *Ctx) BVAshr(a, b *Term) *Term { return c.bvbin("bvashr", a, b) }

func (c *Ctx) BVNot(a *Term) *Term {
	if a.IsConst() {
		return c.BV(new(big.Int).Xor(a.V, mask(a.S.W)), a.S.W)
	}
	return c.mk("bvnot", a.S, a)
}
func (c *Ctx) BVNeg(a *Term) *Term {
	if a.IsConst() {
		return c.BV(new(big.Int).Neg(a.V), a.S.W)
	}
	return c.mk("bvneg", a.S, a)
}

func (c *Ctx) bvcmp(op string, a, b *Term) *Term {
	if a.S != b.S || a.S.K != KBV {
		panic(fmt.Sprintf("smt.%s sort mismatch %v %v", op, a.S, b.S))
	}
	w := a.S.W
	if a.IsConst() && b.IsConst() {
		var r int
		if op == "bvult" || op == "bvule" {
			r = a.V.Cmp(b.V)
		} else {
			r = Signed(a.V, w).Cmp(Signed(b.V, w))
		}
		if op == "bvult" || op == "bvslt" {
			return c.Bool(r < 0)
		}
		return c.Bool(r <= 0)
	}
	if a == b {
		return c.Bool(op == "bvule" || op == "bvsle")
	}
	return c.mk(op, BoolSort, a, b)
}
func (c *Ctx) BVUlt(a, b *Term) *Term { return c.bvcmp("bvult", a, b) }
func (c *Ctx) BVUle(a, b *Term) *Term { return c.bvcmp("bvule", a, b) }
func (c *Ctx) BVSlt(a, b *Term) *Term { return c.bvcmp("bvslt", a, b) }
func (c *Ctx) BVSle(a, b *Term) *Term { return c.bvcmp("bvsle", a, b) }

func (c *Ctx) Concat(hi, lo *Term) *Term {
	if hi.S.W == 0 {
		return lo
	}
	if lo.S.W == 0 {
		return hi
	}
	w := hi.S.W + lo.S.W
	if hi.IsConst() && lo.IsConst() {
		r := new(big.Int).Lsh(hi.V, uint(lo.S.W))
		r.Or(r, lo.V)
		return c.BV(r, w)
	}
	// concat(extract(x,h,m+1), extract(x,m,l)) = extract(x,h,l)
	if hi.Op == "extract" && lo.Op == "extract" && hi.A[0] == lo.A[0] && hi.I2 == lo.I1+1 {
		return c.Extract(hi.A[0], hi.I1, lo.I2)
	}
	return c.intern(&Term{Op: "concat", S: BVSort(w), A: []*Term{hi, lo}})
}

func (c *Ctx) Extract(a *Term, hi, lo int) *Term {
	if a.S.K != KBV || hi >= a.S.W || lo < 0 || hi < lo-1 {
		panic(fmt.Sprintf("smt.Extract bad range %d %d of %v", hi, lo, a.S))
	}
	w := hi - lo + 1
	if w == 0 {
		return c.intern(&Term{Op: "const", S: BVSort(0), V: big.NewInt(0)})
	}
	if w == a.S.W {
		return a
	}
	if a.IsConst() {
		r := new(big.Int).Rsh(a.V, uint(lo))
		return c.BV(r, w)
	}
	switch a.Op {
	case "extract":
		return c.Extract(a.A[0], a.I2+hi, a.I2+lo)
	case "concat":
		lw := a.A[1].S.W
		if hi < lw {
			return c.Extract(a.A[1], hi, lo)
		}
		if lo >= lw {
			return c.Extract(a.A[0], hi-lw, lo-lw)
		}
		return c.Concat(c.Extract(a.A[0], hi-lw, 0), c.Extract(a.A[1], lw-1, lo))
	case "zext":
		iw := a.A[0].S.W
		if hi < iw {
			return c.Extract(a.A[0], hi, lo)
		}
		if lo >= iw {
			return c.BV(big.NewInt(0), w)
		}
		return c.Concat(c.BV(big.NewInt(0), hi-iw+1), c.Extract(a.A[0], iw-1, lo))
	case "sext":
		iw := a.A[0].S.W
		if hi < iw {
			return c.Extract(a.A[0], hi, lo)
		}
	case "bvor", "bvand", "bvxor":
		return c.bvbin(a.Op, c.Extract(a.A[0], hi, lo), c.Extract(a.A[1], hi, lo))
	case "ite":
		if a.A[1].IsConst() && a.A[2].IsConst() {
			return c.Ite(a.A[0], c.Extract(a.A[1], hi, lo), c.Extract(a.A[2], hi, lo))
		}
	}
	return c.intern(&Term{Op: "extract", S: BVSort(w), A: []*Term{a}, I1: hi, I2: lo})
}

func (c *Ctx) ZExt(a *Term, k int) *Term {
	if k == 0 {
		return a
	}
	if a.IsConst() {
		return c.BV(a.V, a.S.W+k)
	}
	if a.Op == "zext" {
		return c.ZExt(a.A[0], k+a.I1)
	}
	return c.intern(&Term{Op: "zext", S: BVSort(a.S.W + k), A: []*Term{a}, I1: k})
}

func (c *Ctx) SExt(a *Term, k int) *Term {
	if k == 0 {
		return a
	}
	if a.IsConst() {
		return c.BV(Signed(a.V, a.S.W), a.S.W+k)
	}
	return c.intern(&Term{Op: "sext", S: BVSort(a.S.W + k), A: []*Term{a}, I1: k})
}

// ---------- integers ----------

func (c *Ctx) intbin(op string, a, b *Term) *Term {
	if a.S.K != KInt || b.S.K != KInt {
		panic(fmt.Sprintf("smt.%s: non-int operand %v %v", op, a.S, b.S))
	}
	if a.IsConst() && b.IsConst() {
		r := new(big.Int)
		switch op {
		case "+":
			r.Add(a.V, b.V)
		case "-":
			r.Sub(a.V, b.V)
		case "*":
			r.Mul(a.V, b.V)
		case "div": // SMT-LIB euclidean-ish: floor for positive divisor
			if b.V.Sign() == 0 {
				return c.mk(op, IntSort, a, b)
			}
			m := new(big.Int)
			r.DivMod(a.V, b.V, m)
		case "mod":
			if b.V.Sign() == 0 {
				return c.mk(op, IntSort, a, b)
			}
			r.Mod(a.V, b.V)
		}
		return c.Int(r)
	}
	isK := func(t *Term, k int64) bool { return t.IsConst() && t.V.IsInt64() && t.V.Int64() == k }
	switch op {
	case "+":
		if isK(a, 0) {
			return b
		}
		if isK(b, 0) {
			return a
		}
	case "-":
		if isK(b, 0) {
			return a
		}
		if a == b {
			return c.Inti(0)
		}
	case "*":
		if isK(a, 0) || isK(b, 0) {
			return c.Inti(0)
		}
		if isK(a, 1) {
			return b
		}
		if isK(b, 1) {
			return a
		}
	case "div":
		if isK(b, 1) {
			return a
		}
	}
	return c.mk(op, IntSort, a, b)
}

func (c *Ctx) IAdd(a, b *Term) *Term { return c.intbin("+", a, b) }
func (c *Ctx) ISub(a, b *Term) *Term { return c.intbin("-", a, b) }
func (c *Ctx) IMul(a, b *Term) *Term { return c.intbin("*", a, b) }
func (c *Ctx) IDiv(a, b *Term) *Term { return c.intbin("div", a, b) }
func (c *Ctx) IMod(a, b *Term) *Term { return c.intbin("mod", a, b) }
func (c *Ctx) INeg(a *Term) *Term    { return c.ISub(c.Inti(0), a) }

func (c *Ctx) icmp(op string, a, b *Term) *Term {
	if a.S.K != KInt || b.S.K != KInt {
		panic(fmt.Sprintf("smt.%s: non-int operand %v %v", op, a.S, b.S))
	}
	if a.IsConst() && b.IsConst() {
		r := a.V.Cmp(b.V)
		if op == "<" {
			return c.Bool(r < 0)
		}
		return c.Bool(r <= 0)
	}
	if a == b {
		return c.Bool(op == "<=")
	}
	if r := c.bv2natCmp(op, a, b); r != nil {
		return r
	}
	return c.mk(op, BoolSort, a, b)
}

// bv2natCmp rewrites comparisons between bv2nat(x) and an Int constant (or another bv2nat) into pure bit-vector
// comparisons, which keeps queries that only bound a byte-encoded integer out of the mixed Int/BV fragment.
func (c *Ctx) bv2natCmp(op string, a, b *Term) *Term {
	an, bn := a.Op == "bv2nat", b.Op == "bv2nat"
	cmp := func(x, y *Term) *Term {
		if op == "<" {
			return c.BVUlt(x, y)
		}
		return c.BVUle(x, y)
	}
	switch {
	case an && bn:
		x, y := a.A[0], b.A[0]
		if x.S.W < y.S.W {
			x = c.ZExt(x, y.S.W-x.S.W)
		} else if y.S.W < x.S.W {
			y = c.ZExt(y, x.S.W-y.S.W)
		}
		return cmp(x, y)
	case an && b.IsConst():
		x := a.A[0]
		max := new(big.Int).Sub(new(big.Int).Lsh(big.NewInt(1), uint(x.S.W)), big.NewInt(1))
		if b.V.Sign() < 0 {
			return c.False()
		}
		if b.V.Cmp(max) > 0 {
			return c.True()
		}
		return cmp(x, c.BV(b.V, x.S.W))
	case bn && a.IsConst():
		y := b.A[0]
		max := new(big.Int).Sub(new(big.Int).Lsh(big.NewInt(1), uint(y.S.W)), big.NewInt(1))
		if a.V.Sign() < 0 {
			return c.True()
		}
		if a.V.Cmp(max) > 0 {
			return c.False()
		}
		return cmp(c.BV(a.V, y.S.W), y)
	}
	return nil
}
func (c *Ctx) ILt(a, b *Term) *Term { return c.icmp("<", a, b) }
func (c *Ctx) ILe(a, b *Term) *Term { return c.icmp("<=", a, b) }

// BV2Nat: unsigned value of a bit-vector as Int
func (c *Ctx) BV2Nat(a *Term) *Term {
	if a.IsConst() {
		return c.Int(a.V)
	}
	if a.Op == "int2bv" {
		// not an identity in general; leave
	}
	return c.mk("bv2nat", IntSort, a)
}

// Int2BV: low w bits of an Int (two's complement for negatives)
func (c *Ctx) Int2BV(a *Term, w int) *Term {
	if a.IsConst() {
		return c.BV(a.V, w)
	}
	if a.Op == "bv2nat" && a.A[0].S.W == w {
		return a.A[0]
	}
	return c.intern(&Term{Op: "int2bv", S: BVSort(w), A: []*Term{a}, I1: w})
}

// ---------- printing ----------

func (t *Term) String() string {
	var sb strings.Builder
	t.write(&sb, nil, 0)
	return sb.String()
}

func constStr(t *Term) string {
	switch t.S.K {
	case KBool:
		if t.V.Sign() != 0 {
			return "true"
		}
		return "false"
	case KInt:
		if t.V.Sign() < 0 {
			return "(- " + new(big.Int).Neg(t.V).String() + ")"
		}
		return t.V.String()
	}
	if t.S.W%4 == 0 {
		s := t.V.Text(16)
		return "#x" + strings.Repeat("0", t.S.W/4-len(s)) + s
	}
	s := t.V.Text(2)
	return "#b" + strings.Repeat("0", t.S.W-len(s)) + s
}

func SymName(n string) string { return "|" + n + "|" }

// write prints t; subterms whose ID is in named are printed by reference.
func (t *Term) write(sb *strings.Builder, named map[int]bool, depth int) {
	if named != nil && depth > 0 && named[t.ID] && t.Op != "var" && t.Op != "const" {
		fmt.Fprintf(sb, "t!%d", t.ID)
		return
	}
	switch t.Op {
	case "const":
		sb.WriteString(constStr(t))
		return
	case "var":
		sb.WriteString(SymName(t.Name))
		return
	}
	sb.WriteByte('(')
	switch t.Op {
	case "uf":
		sb.WriteString(SymName(t.Name))
	case "extract":
		fmt.Fprintf(sb, "(_ extract %d %d)", t.I1, t.I2)
	case "zext":
		fmt.Fprintf(sb, "(_ zero_extend %d)", t.I1)
	case "sext":
		fmt.Fprintf(sb, "(_ sign_extend %d)", t.I1)
	case "int2bv":
		fmt.Fprintf(sb, "(_ int2bv %d)", t.I1)
	default:
		sb.WriteString(t.Op)
	}
	for _, a := range t.A {
		sb.WriteByte(' ')
		a.write(sb, named, depth+1)
	}
	sb.WriteByte(')')
}

// Eval evaluates t under a model (var name -> value); UF applications are looked up in ufv by printed key.
func (c *Ctx) Subst(t *Term, m map[string]*big.Int) *Term {
	memo := map[int]*Term{}
	var rec func(t *Term) *Term
	rec = func(t *Term) *Term {
		if r, ok := memo[t.ID]; ok {
			return r
		}
		var r *Term
		switch t.Op {
		case "const":
			r = t
		case "var":
			if v, ok := m[t.Name]; ok {
				switch t.S.K {
				case KBool:
					r = c.Bool(v.Sign() != 0)
				case KInt:
					r = c.Int(v)
				default:
					r = c.BV(v, t.S.W)
				}
			} else {
				r = t
			}
		default:
			args := make([]*Term, len(t.A))
			for i, a := range t.A {
				args[i] = rec(a)
			}
			r = c.Rebuild(t, args)
		}
		memo[t.ID] = r
		return r
	}
	return rec(t)
}

func (c *Ctx) Rebuild(t *Term, a []*Term) *Term {
	switch t.Op {
	case "not":
		return c.Not(a[0])
	case "and":
		return c.And(a...)
	case "or":
		return c.Or(a...)
	case "ite":
		return c.Ite(a[0], a[1], a[2])
	case "=":
		return c.Eq(a[0], a[1])
	case "bvadd", "bvsub", "bvmul", "bvand", "bvor", "bvxor", "bvudiv", "bvurem", "bvsdiv", "bvsrem", "bvshl", "bvlshr", "bvashr":
		return c.bvbin(t.Op, a[0], a[1])
	case "bvnot":
		return c.BVNot(a[0])
	case "bvneg":
		return c.BVNeg(a[0])
	case "bvult", "bvule", "bvslt", "bvsle":
		return c.bvcmp(t.Op, a[0], a[1])
	case "concat":
		return c.Concat(a[0], a[1])
	case "extract":
		return c.Extract(a[0], t.I1, t.I2)
	case "zext":
		return c.ZExt(a[0], t.I1)
	case "sext":
		return c.SExt(a[0], t.I1)
	case "+", "-", "*", "div", "mod":
		return c.intbin(t.Op, a[0], a[1])
	case "<", "<=":
		return c.icmp(t.Op, a[0], a[1])
	case "bv2nat":
		return c.BV2Nat(a[0])
	case "int2bv":
		return c.Int2BV(a[0], t.I1)
	case "uf":
		return c.intern(&Term{Op: "uf", S: t.S, Name: t.Name, A: a})
	}
	panic("Rebuild: " + t.Op)
}

// CollectVars returns the variables occurring in t (sorted by ID).
func CollectVars(ts ...*Term) []*Term {
	seen := map[int]bool{}
	var out []*Term
	var rec func(t *Term)
	rec = func(t *Term) {
		if seen[t.ID] {
			return
		}
		seen[t.ID] = true
		if t.Op == "var" {
			out = append(out, t)
		}
		for _, a := range t.A {
			rec(a)
		}
	}
	for _, t := range ts {
		rec(t)
	}
	sort.Slice(out, func(i, j int) bool { return out[i].ID < out[j].ID })
	return out
}
