package smt

import (
	"bufio"
	"fmt"
	"io"
	"math/big"
	"os"
	"os/exec"
	"strings"
	"time"
)

type Result int

const (
	Sat Result = iota
	Unsat
	Unknown
)

func (r Result) String() string { return [...]string{"sat", "unsat", "unknown"}[r] }

// Solver drives one incremental SMT-LIB2 solver process.
type Solver struct {
	Kind    string // "z3", "z3-new", "cvc5"
	ctx     *Ctx
	cmd     *exec.Cmd
	in      io.WriteCloser
	out     *bufio.Reader
	defined []map[int]bool // per level: term IDs defined/declared at that level
	isDef   map[int]bool
	ufDecl  []map[string]bool
	isUF    map[string]bool
	Log     io.Writer
	Queries int
	Time    time.Duration
	Errors  []string
	TimeoutMs int
}

func NewSolver(kind string, ctx *Ctx, timeoutMs int) (*Solver, error) {
	s := &Solver{Kind: kind, ctx: ctx, isDef: map[int]bool{}, isUF: map[string]bool{}, TimeoutMs: timeoutMs}
	if err := s.start(); err != nil {
		return nil, err
	}
	return s, nil
}

func (s *Solver) start() error {
	var args []string
	bin := s.Kind
	switch s.Kind {
	case "z3", "z3-new":
		args = []string{"-in", fmt.Sprintf("-t:%d", s.TimeoutMs)}
	case "cvc5":
		args = []string{"--incremental", "--lang=smt2", fmt.Sprintf("--tlimit-per=%d", s.TimeoutMs), "--produce-models"}
	case "cvc5-int":
		bin = "cvc5"
		args = []string{"--incremental", "--lang=smt2", fmt.Sprintf("--tlimit-per=%d", s.TimeoutMs), "--produce-models", "--solve-bv-as-int=sum"}
	}
	s.cmd = exec.Command(bin, args...)
	var err error
	s.in, err = s.cmd.StdinPipe()
	if err != nil {
		return err
	}
	o, err := s.cmd.StdoutPipe()
	if err != nil {
		return err
	}
	s.cmd.Stderr = os.Stderr
	s.out = bufio.NewReaderSize(o, 1<<20)
	if err := s.cmd.Start(); err != nil {
		return err
	}
	s.defined = []map[int]bool{{}}
	s.ufDecl = []map[string]bool{{}}
	s.isDef = map[int]bool{}
	s.isUF = map[string]bool{}
	if strings.HasPrefix(s.Kind, "cvc5") {
		s.send("(set-logic ALL)")
	}
	s.send("(set-option :produce-models true)")
	return nil
}

func (s *Solver) Close() {
	if s.cmd != nil {
		s.in.Close()
		s.cmd.Process.Kill()
		s.cmd.Wait()
		s.cmd = nil
	}
}

func (s *Solver) send(line string) {
	if s.Log != nil {
		fmt.Fprintln(s.Log, line)
	}
	io.WriteString(s.in, line)
	io.WriteString(s.in, "\n")
}

func (s *Solver) Level() int { return len(s.defined) - 1 }

func (s *Solver) Push() {
	s.send("(push 1)")
	s.defined = append(s.defined, map[int]bool{})
	s.ufDecl = append(s.ufDecl, map[string]bool{})
}

func (s *Solver) Pop() {
	s.send("(pop 1)")
	top := s.defined[len(s.defined)-1]
	for id := range top {
		delete(s.isDef, id)
	}
	s.defined = s.defined[:len(s.defined)-1]
	for n := range s.ufDecl[len(s.ufDecl)-1] {
		delete(s.isUF, n)
	}
	s.ufDecl = s.ufDecl[:len(s.ufDecl)-1]
}

func (s *Solver) PopTo(level int) {
	for s.Level() > level {
		s.Pop()
	}
}

// define makes sure t and all its subterms are declared/defined in the solver.
func (s *Solver) define(t *Term) {
	if s.isDef[t.ID] {
		return
	}
	if t.Op == "const" {
		return
	}
	// iterative post-order
	type fr struct {
		t *Term
		i int
	}
	stack := []fr{{t, 0}}
	for len(stack) > 0 {
		f := &stack[len(stack)-1]
		if f.i < len(f.t.A) {
			a := f.t.A[f.i]
			f.i++
			if !s.isDef[a.ID] && a.Op != "const" {
				stack = append(stack, fr{a, 0})
			}
			continue
		}
		x := f.t
		stack = stack[:len(stack)-1]
		if s.isDef[x.ID] {
			continue
		}
		switch x.Op {
		case "var":
			s.send(fmt.Sprintf("(declare-fun %s () %s)", SymName(x.Name), x.S))
		default:
			if x.Op == "uf" && !s.isUF[x.Name] {
				u := s.ctx.UFs[x.Name]
				var as []string
				for _, a := range u.Args {
					as = append(as, a.String())
				}
				s.send(fmt.Sprintf("(declare-fun %s (%s) %s)", SymName(u.Name), strings.Join(as, " "), u.Ret))
				s.isUF[x.Name] = true
				s.ufDecl[len(s.ufDecl)-1][x.Name] = true
			}
			var sb strings.Builder
			fmt.Fprintf(&sb, "(define-fun t!%d () %s ", x.ID, x.S)
			x.write(&sb, s.isDef, 0)
			sb.WriteByte(')')
			s.send(sb.String())
		}
		s.isDef[x.ID] = true
		s.defined[len(s.defined)-1][x.ID] = true
	}
}

func (s *Solver) ref(t *Term) string {
	switch t.Op {
	case "const":
		return constStr(t)
	case "var":
		return SymName(t.Name)
	}
	return fmt.Sprintf("t!%d", t.ID)
}

func (s *Solver) Assert(t *Term) {
	if t.IsTrue() {
		return
	}
	s.define(t)
	s.send("(assert " + s.ref(t) + ")")
}

func (s *Solver) readLine() string {
	line, err := s.out.ReadString('\n')
	if err != nil {
		return "(error \"solver died: " + err.Error() + "\")"
	}
	return strings.TrimSpace(line)
}

func (s *Solver) Check() Result {
	t0 := time.Now()
	s.send("(check-sat)")
	s.Queries++
	for {
		line := s.readLine()
		if line == "" {
			continue
		}
		s.Time += time.Since(t0)
		switch line {
		case "sat":
			return Sat
		case "unsat":
			return Unsat
		case "unknown", "timeout":
			return Unknown
		}
		if strings.Contains(line, "error") {
			s.Errors = append(s.Errors, line)
			if strings.Contains(line, "solver died") {
				return Unknown
			}
			// keep reading until verdict appears
			continue
		}
		s.Errors = append(s.Errors, "unexpected: "+line)
		return Unknown
	}
}

// CheckAssuming checks the current stack plus the extra formulas (pushed and popped).
func (s *Solver) CheckWith(extra ...*Term) Result {
	s.Push()
	for _, e := range extra {
		s.Assert(e)
	}
	r := s.Check()
	s.Pop()
	return r
}

// readSexp reads one balanced s-expression (possibly multi-line).
func (s *Solver) readSexp() string {
	var sb strings.Builder
	depth := 0
	started := false
	inq := false
	for {
		line, err := s.out.ReadString('\n')
		if err != nil {
			return sb.String()
		}
		for _, ch := range line {
			if ch == '|' {
				inq = !inq
			}
			if inq {
				continue
			}
			if ch == '(' {
				depth++
				started = true
			} else if ch == ')' {
				depth--
			}
		}
		sb.WriteString(line)
		if started && depth <= 0 {
			return sb.String()
		}
		if !started && strings.TrimSpace(line) != "" {
			return sb.String()
		}
	}
}

// Values asks the solver for the values of the given terms (after a sat answer, inside the same scope).
func (s *Solver) Values(ts []*Term) (map[int]*big.Int, error) {
	res := map[int]*big.Int{}
	if len(ts) == 0 {
		return res, nil
	}
	const chunk = 200
	for i := 0; i < len(ts); i += chunk {
		j := i + chunk
		if j > len(ts) {
			j = len(ts)
		}
		var sb strings.Builder
		sb.WriteString("(get-value (")
		for _, t := range ts[i:j] {
			s.define(t)
			sb.WriteString(s.ref(t))
			sb.WriteByte(' ')
		}
		sb.WriteString("))")
		s.send(sb.String())
		out := s.readSexp()
		if strings.Contains(out, "(error") {
			return nil, fmt.Errorf("get-value: %s", out)
		}
		e, _, err := parseSexp(out, 0)
		if err != nil {
			return nil, err
		}
		if len(e.list) != j-i {
			return nil, fmt.Errorf("get-value: got %d values for %d terms: %s", len(e.list), j-i, out)
		}
		for k, pair := range e.list {
			if len(pair.list) != 2 {
				return nil, fmt.Errorf("get-value: bad pair in %s", out)
			}
			v, err := sexpValue(pair.list[1])
			if err != nil {
				return nil, fmt.Errorf("get-value: %v in %s", err, out)
			}
			res[ts[i+k].ID] = v
		}
	}
	return res, nil
}

type sexp struct {
	atom string
	list []*sexp
	isL  bool
}

func parseSexp(s string, i int) (*sexp, int, error) {
	for i < len(s) && (s[i] == ' ' || s[i] == '\n' || s[i] == '\t' || s[i] == '\r') {
		i++
	}
	if i >= len(s) {
		return nil, i, fmt.Errorf("eof")
	}
	if s[i] == '(' {
		e := &sexp{isL: true}
		i++
		for {
			for i < len(s) && (s[i] == ' ' || s[i] == '\n' || s[i] == '\t' || s[i] == '\r') {
				i++
			}
			if i >= len(s) {
				return nil, i, fmt.Errorf("eof in list")
			}
			if s[i] == ')' {
				return e, i + 1, nil
			}
			c, j, err := parseSexp(s, i)
			if err != nil {
				return nil, j, err
			}
			e.list = append(e.list, c)
			i = j
		}
	}
	j := i
	if s[i] == '|' {
		j = i + 1
		for j < len(s) && s[j] != '|' {
			j++
		}
		j++
	} else {
		for j < len(s) && !strings.ContainsRune(" \n\t\r()", rune(s[j])) {
			j++
		}
	}
	return &sexp{atom: s[i:j]}, j, nil
}

func sexpValue(e *sexp) (*big.Int, error) {
	if !e.isL {
		a := e.atom
		switch {
		case a == "true":
			return big.NewInt(1), nil
		case a == "false":
			return big.NewInt(0), nil
		case strings.HasPrefix(a, "#x"):
			v, ok := new(big.Int).SetString(a[2:], 16)
			if !ok {
				return nil, fmt.Errorf("bad hex %s", a)
			}
			return v, nil
		case strings.HasPrefix(a, "#b"):
			v, ok := new(big.Int).SetString(a[2:], 2)
			if !ok {
				return nil, fmt.Errorf("bad bin %s", a)
			}
			return v, nil
		default:
			v, ok := new(big.Int).SetString(a, 10)
			if !ok {
				return nil, fmt.Errorf("bad value %s", a)
			}
			return v, nil
		}
	}
	if len(e.list) == 2 && e.list[0].atom == "-" {
		v, err := sexpValue(e.list[1])
		if err != nil {
			return nil, err
		}
		return v.Neg(v), nil
	}
	if len(e.list) == 3 && e.list[0].atom == "_" && strings.HasPrefix(e.list[1].atom, "bv") {
		v, ok := new(big.Int).SetString(e.list[1].atom[2:], 10)
		if !ok {
			return nil, fmt.Errorf("bad bv literal")
		}
		return v, nil
	}
	return nil, fmt.Errorf("unsupported value expression")
}
