module gosym

go 1.23

require golang.org/x/tools v0.29.0

require (
	golang.org/x/mod v0.22.0 // indirect
	golang.org/x/sync v0.10.0 // indirect
)

require (
	github.com/anaskhan96/base58check v0.0.0-20181220122047-b05365d494c4
	github.com/mr-tron/base58 v1.2.0
)
