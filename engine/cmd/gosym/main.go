// gosym: symbolic execution of go/ssa harness entry points with an SMT solver.
package main

import (
	"encoding/json"
	"flag"
	"fmt"
	"go/token"
	"math/big"
	"math/rand"
	"os"
	"runtime/pprof"
	"sort"
	"strings"
	"sync"
	"time"

	"gosym/sym"

	"golang.org/x/tools/go/packages"
	"golang.org/x/tools/go/ssa"
)

type Job struct {
	Entry      string            `json:"entry"`
	Mode       string            `json:"mode"`
	Unwind     int               `json:"unwind"`
	AllocBound int               `json:"alloc_bound"`
	PermBound  int               `json:"perm_bound"`
	MaxPaths   int               `json:"max_paths"`
	QueryMs    int               `json:"query_ms"`
	Solver     string            `json:"solver"`
	Known      []string          `json:"known"`
	Stubs      map[string]string `json:"stubs"`
	Concrete   map[string]string `json:"concrete"`
	TimeoutS   int               `json:"timeout_s"`
	Trace      bool              `json:"trace"`
	DiffK      int               `json:"diff_k"`
	Seed       int64             `json:"seed"`
	MaxSteps   int64             `json:"max_steps"`
	Params     map[string]int    `json:"params"`
	Profile    string            `json:"profile"`
}

type DiffRun struct {
	Model        map[string]string `json:"model"`
	Error        string            `json:"error,omitempty"`
	Failed       bool              `json:"failed"`
	Infeasible   bool              `json:"infeasible"`
	Inconclusive []string          `json:"inconclusive,omitempty"`
	Observations map[string]string `json:"observations"`
}

type Spec struct {
	Dir      string            `json:"dir"`
	Patterns []string          `json:"patterns"`
	Overlay  map[string]string `json:"overlay"` // virtual path -> real file
	Env      []string          `json:"env"`
	Tags     string            `json:"tags"`
	Jobs     []Job             `json:"jobs"`
	Parallel int               `json:"parallel"`
}

type JobResult struct {
	Entry        string                       `json:"entry"`
	Error        string                       `json:"error,omitempty"`
	Violations   []*sym.Violation             `json:"violations"`
	Known        []*sym.Violation             `json:"known"`
	Inconclusive []string                     `json:"inconclusive"`
	Reached      map[string]int               `json:"reached"`
	Witness      map[string]map[string]string `json:"witness"`
	Discharged   map[string]int               `json:"discharged"`
	Functions    []string                     `json:"functions"`
	StubsHit     map[string]int               `json:"stubs_hit"`
	Assumptions  []string                     `json:"assumptions"`
	Observations []map[string]string          `json:"observations"`
	Stats        sym.Stats                    `json:"stats"`
	DistinctQ    int                          `json:"distinct_queries"`
	Exhaustive   bool                         `json:"exhaustive"`
	SolverS      float64                      `json:"solver_s"`
	WallS        float64                      `json:"wall_s"`
	Diff         []*DiffRun                   `json:"diff,omitempty"`
}

func main() {
	specFile := flag.String("spec", "", "spec JSON")
	out := flag.String("out", "", "result JSON")
	flag.Parse()
	if pf := os.Getenv("GOSYM_CPUPROF"); pf != "" {
		if f, err := os.Create(pf); err == nil {
			pprof.StartCPUProfile(f)
			defer pprof.StopCPUProfile()
		}
	}
	data, err := os.ReadFile(*specFile)
	if err != nil {
		fatal(err)
	}
	var spec Spec
	if err := json.Unmarshal(data, &spec); err != nil {
		fatal(err)
	}
	t0 := time.Now()
	ov := map[string][]byte{}
	for virt, real := range spec.Overlay {
		b, err := os.ReadFile(real)
		if err != nil {
			fatal(err)
		}
		ov[virt] = b
	}
	cfg := &packages.Config{
		Mode:    packages.LoadAllSyntax,
		Dir:     spec.Dir,
		Overlay: ov,
		Env:     append(os.Environ(), spec.Env...),
	}
	if spec.Tags != "" {
		cfg.BuildFlags = []string{"-tags=" + spec.Tags}
	}
	pkgs, err := packages.Load(cfg, spec.Patterns...)
	if err != nil {
		fatal(err)
	}
	nerr := 0
	packages.Visit(pkgs, nil, func(p *packages.Package) {
		for _, e := range p.Errors {
			if strings.Contains(e.Msg, "C source files not allowed") {
				continue
			}
			fmt.Fprintf(os.Stderr, "load error: %s: %s\n", p.PkgPath, e)
			nerr++
		}
	})
	if nerr > 0 {
		fatal(fmt.Errorf("%d package load errors", nerr))
	}
	// like ssautil.AllPackages, but also for packages go/packages marks IllTyped only because of the
	// (ignored) "C source files not allowed" list error of the overlaid cgo package and its dependents
	var fset *token.FileSet
	packages.Visit(pkgs, nil, func(p *packages.Package) {
		if fset == nil && p.Fset != nil {
			fset = p.Fset
		}
	})
	prog := ssa.NewProgram(fset, ssa.InstantiateGenerics)
	packages.Visit(pkgs, nil, func(p *packages.Package) {
		if p.Types != nil && p.TypesInfo != nil && len(p.Syntax) > 0 || (p.Types != nil && p.PkgPath == "unsafe") {
			prog.CreatePackage(p.Types, p.Syntax, p.TypesInfo, true)
		}
	})
	prog.Build()
	fmt.Fprintf(os.Stderr, "gosym: loaded and built SSA in %.1fs\n", time.Since(t0).Seconds())

	results := make([]*JobResult, len(spec.Jobs))
	par := spec.Parallel
	if par <= 0 {
		par = 8
	}
	sem := make(chan struct{}, par)
	var wg sync.WaitGroup
	for i := range spec.Jobs {
		wg.Add(1)
		go func(i int) {
			defer wg.Done()
			sem <- struct{}{}
			defer func() { <-sem }()
			results[i] = runJob(prog, &spec.Jobs[i])
		}(i)
	}
	wg.Wait()
	sym.ProfileDump()
	enc, _ := json.MarshalIndent(results, "", " ")
	if *out == "" {
		os.Stdout.Write(enc)
	} else {
		os.WriteFile(*out, enc, 0644)
	}
}

func fatal(err error) {
	fmt.Fprintln(os.Stderr, "gosym:", err)
	os.Exit(3)
}

func findEntry(prog *ssa.Program, entry string) *ssa.Function {
	i := strings.LastIndex(entry, ".")
	if i < 0 {
		return nil
	}
	pkgPath, name := entry[:i], entry[i+1:]
	for _, p := range prog.AllPackages() {
		if p.Pkg.Path() == pkgPath {
			return p.Func(name)
		}
	}
	return nil
}

func runJob(prog *ssa.Program, job *Job) (jr *JobResult) {
	t0 := time.Now()
	jr = &JobResult{Entry: job.Entry}
	defer func() {
		if r := recover(); r != nil {
			jr.Error = fmt.Sprintf("engine panic: %v", r)
			buf := make([]byte, 1<<14)
			n := runtimeStack(buf)
			fmt.Fprintf(os.Stderr, "engine panic in %s: %v\n%s\n", job.Entry, r, buf[:n])
		}
		jr.WallS = time.Since(t0).Seconds()
	}()
	fn := findEntry(prog, job.Entry)
	if fn == nil {
		jr.Error = "entry not found: " + job.Entry
		return
	}
	cfg := sym.Config{Unwind: job.Unwind, AllocBound: job.AllocBound, PermBound: job.PermBound, MaxPaths: job.MaxPaths,
		MaxSteps: job.MaxSteps, Params: job.Params, Profile: job.Profile, QueryMs: job.QueryMs, Solver: job.Solver, Stubs: job.Stubs, Trace: job.Trace, Known: map[string]bool{}}
	if job.Mode == "int" {
		cfg.Mode = sym.ModeInt
	}
	for _, k := range job.Known {
		cfg.Known[k] = true
	}
	if job.TimeoutS > 0 {
		cfg.Deadline = time.Now().Add(time.Duration(job.TimeoutS) * time.Second)
	}
	if job.Concrete != nil {
		cfg.Concrete = map[string]*big.Int{}
		for k, v := range job.Concrete {
			b, ok := new(big.Int).SetString(v, 10)
			if !ok {
				jr.Error = "bad concrete value for " + k
				return
			}
			cfg.Concrete[k] = b
		}
	}
	in, err := sym.New(prog, cfg)
	if err != nil {
		jr.Error = err.Error()
		return
	}
	defer in.Close()
	res := in.Run(fn)
	jr.Violations = res.Violations
	jr.Known = res.Known
	jr.Inconclusive = res.Inconclusive
	jr.Reached = res.Reached
	jr.Witness = res.Witness
	jr.Discharged = res.Discharged
	for f := range res.Functions {
		jr.Functions = append(jr.Functions, f)
	}
	sort.Strings(jr.Functions)
	jr.StubsHit = res.StubsHit
	jr.Assumptions = res.Assumptions
	jr.Observations = res.Observations
	if len(jr.Observations) > 20 {
		jr.Observations = jr.Observations[:20]
	}
	jr.Stats = res.Stats
	jr.DistinctQ = len(res.DistinctQ)
	jr.Exhaustive = res.Exhaustive
	jr.SolverS = in.SolverTime().Seconds()
	if job.DiffK > 0 && job.Concrete == nil {
		jr.Diff = diffRuns(prog, fn, cfg, job, res)
	}
	return
}

// diffRuns executes the harness in concrete mode on witness / counterexample models and perturbations of them.
func diffRuns(prog *ssa.Program, fn *ssa.Function, cfg sym.Config, job *Job, res *sym.Result) []*DiffRun {
	var base []map[string]string
	var keys []string
	for k := range res.Witness {
		keys = append(keys, k)
	}
	sort.Strings(keys)
	for _, k := range keys {
		base = append(base, res.Witness[k])
	}
	for _, v := range res.Violations {
		if v.Model != nil {
			base = append(base, v.Model)
		}
	}
	if len(base) == 0 {
		return nil
	}
	rnd := rand.New(rand.NewSource(job.Seed + 1))
	var models []map[string]string
	for i := 0; i < len(base) && len(models) < job.DiffK; i++ {
		models = append(models, base[i])
	}
	for len(models) < job.DiffK {
		models = append(models, perturb(base[rnd.Intn(len(base))], rnd))
	}
	var out []*DiffRun
	for _, m := range models {
		dr := &DiffRun{Model: m}
		out = append(out, dr)
		c := cfg
		c.Concrete = map[string]*big.Int{}
		for k, v := range m {
			if b, ok := new(big.Int).SetString(v, 10); ok {
				c.Concrete[k] = b
			}
		}
		func() {
			defer func() {
				if r := recover(); r != nil {
					dr.Error = fmt.Sprintf("engine panic (concrete): %v", r)
				}
			}()
			in, err := sym.New(prog, c)
			if err != nil {
				dr.Error = err.Error()
				return
			}
			defer in.Close()
			r := in.Run(fn)
			dr.Failed = len(r.Violations) > 0
			dr.Infeasible = r.Stats.Infeasible > 0
			dr.Inconclusive = r.Inconclusive
			if len(r.Observations) > 0 {
				dr.Observations = r.Observations[0]
			}
		}()
	}
	return out
}

func perturb(m map[string]string, rnd *rand.Rand) map[string]string {
	out := map[string]string{}
	var keys []string
	for k, v := range m {
		out[k] = v
		if !strings.HasPrefix(k, "$") {
			keys = append(keys, k)
		}
	}
	sort.Strings(keys)
	if len(keys) == 0 {
		return out
	}
	n := 1 + rnd.Intn(2)
	for i := 0; i < n; i++ {
		k := keys[rnd.Intn(len(keys))]
		v, ok := new(big.Int).SetString(out[k], 10)
		if !ok {
			continue
		}
		switch rnd.Intn(6) {
		case 0:
			v.Add(v, big.NewInt(1))
		case 1:
			if v.Sign() > 0 {
				v.Sub(v, big.NewInt(1))
			}
		case 2:
			v.SetInt64(int64(rnd.Intn(256)))
		case 3:
			v.SetInt64(0)
		case 4:
			v.Lsh(v, 1).Add(v, big.NewInt(1))
		default:
			v.SetInt64(rnd.Int63n(1 << 40))
		}
		out[k] = v.String()
	}
	return out
}
