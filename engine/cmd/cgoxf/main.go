package main

// transform cgo-generated _cgo_gotypes.go into a pure-Go shim
import (
	"bytes"
	"fmt"
	"go/ast"
	"go/format"
	"go/parser"
	"go/token"
	"os"
	"strings"
)

func main() {
	src, _ := os.ReadFile(os.Args[1])
	// drop pragma comment lines
	var lines []string
	for _, l := range strings.Split(string(src), "\n") {
		t := strings.TrimSpace(l)
		if strings.HasPrefix(t, "//go:") || strings.HasPrefix(t, "//export") {
			continue
		}
		lines = append(lines, l)
	}
	fset := token.NewFileSet()
	f, err := parser.ParseFile(fset, "gotypes.go", strings.Join(lines, "\n"), 0)
	if err != nil {
		panic(err)
	}
	var decls []ast.Decl
	keepFn := map[string]bool{"_Cgo_ptr": true}
	for _, d := range f.Decls {
		switch d := d.(type) {
		case *ast.GenDecl:
			if d.Tok == token.IMPORT {
				// keep only unsafe
				var specs []ast.Spec
				for _, s := range d.Specs {
					is := s.(*ast.ImportSpec)
					if is.Path.Value == `"unsafe"` {
						specs = append(specs, s)
					}
				}
				if len(specs) == 0 {
					continue
				}
				d.Specs = specs
				decls = append(decls, d)
				continue
			}
			if d.Tok == token.VAR {
				var specs []ast.Spec
				for _, s := range d.Specs {
					vs := s.(*ast.ValueSpec)
					n := vs.Names[0].Name
					if n == "_" || strings.HasPrefix(n, "__cgo") || strings.HasPrefix(n, "_cgo_") || strings.HasPrefix(n, "__cgofn") {
						if strings.HasPrefix(n, "__cgo_") {
							// keep as plain byte var (referenced by _Cfpvar_)
							vs.Values = nil
							specs = append(specs, vs)
						}
						continue
					}
					if n == "_Cgo_always_false" {
						specs = append(specs, vs)
						continue
					}
					specs = append(specs, vs)
				}
				if len(specs) == 0 {
					continue
				}
				d.Specs = specs
				decls = append(decls, d)
				continue
			}
			if d.Tok == token.TYPE {
				var specs []ast.Spec
				for _, s := range d.Specs {
					ts := s.(*ast.TypeSpec)
					if ts.Name.Name == "_" {
						continue
					}
					// _cgopackage.Incomplete -> struct{}
					if se, ok := ts.Type.(*ast.SelectorExpr); ok {
						if x, ok := se.X.(*ast.Ident); ok && x.Name == "_cgopackage" {
							ts.Type = &ast.StructType{Fields: &ast.FieldList{}}
						}
					}
					specs = append(specs, ts)
				}
				if len(specs) == 0 {
					continue
				}
				d.Specs = specs
			}
			decls = append(decls, d)
		case *ast.FuncDecl:
			n := d.Name.Name
			switch {
			case strings.HasPrefix(n, "_cgoexp_"):
				continue
			case n == "_cgo_runtime_cgocall" || n == "_cgo_cmalloc" || n == "_Cgo_no_callback":
				continue
			case n == "_cgoCheckPointer" || n == "_cgoCheckResult" || n == "_Cgo_use":
				d.Body = &ast.BlockStmt{}
				decls = append(decls, d)
			case n == "_Cfunc_CString" || n == "_Cfunc_GoString" || n == "_Cfunc_GoStringN" || n == "_Cfunc_GoBytes" || n == "_Cfunc_CBytes" || n == "_Cfunc__CMalloc":
				continue // provided by hand
			case strings.HasPrefix(n, "_Cfunc_") || strings.HasPrefix(n, "_C2func_"):
				d.Body = &ast.BlockStmt{List: []ast.Stmt{&ast.ReturnStmt{}}}
				// name results so bare return works
				if d.Type.Results != nil {
					for i, fld := range d.Type.Results.List {
						if len(fld.Names) == 0 {
							fld.Names = []*ast.Ident{ast.NewIdent(fmt.Sprintf("r%d", i+1))}
						}
					}
				}
				decls = append(decls, d)
			default:
				if keepFn[n] || d.Body != nil {
					decls = append(decls, d)
				}
			}
		}
	}
	f.Decls = decls
	var buf bytes.Buffer
	format.Node(&buf, fset, f)
	buf.WriteString(`
var vfCStrings = map[*_Ctype_char]string{}

func _Cfunc_CString(s string) *_Ctype_char {
	b := make([]_Ctype_char, len(s)+1)
	for i := 0; i < len(s); i++ {
		b[i] = _Ctype_char(s[i])
	}
	return &b[0]
}
func _Cfunc_GoString(p *_Ctype_char) string {
	if p == nil {
		return ""
	}
	var out []byte
	for q := unsafe.Pointer(p); *(*byte)(q) != 0; q = unsafe.Add(q, 1) {
		out = append(out, *(*byte)(q))
	}
	return string(out)
}
func _Cfunc_GoStringN(p *_Ctype_char, n _Ctype_int) string { return string(_Cfunc_GoBytes(unsafe.Pointer(p), n)) }
func _Cfunc_GoBytes(p unsafe.Pointer, n _Ctype_int) []byte {
	if p == nil || n <= 0 {
		return nil
	}
	return append([]byte(nil), unsafe.Slice((*byte)(p), int(n))...)
}
func _Cfunc_CBytes(b []byte) unsafe.Pointer {
	c := make([]byte, len(b)+1)
	copy(c, b)
	return unsafe.Pointer(&c[0])
}
func _Cfunc__CMalloc(n _Ctype_size_t) unsafe.Pointer {
	c := make([]byte, int(n)+1)
	return unsafe.Pointer(&c[0])
}
`)
	os.Stdout.Write(buf.Bytes())
}
